(* Model of the NRI <-> OCI conversions, LinuxResources.Copy and the optional-value
   constructors of pkg/api: resources.go, mount.go, device.go, hooks.go, env.go,
   optional.go, helpers.go.  Function by function; no proofs here.

   Representation.
   * Go integers are Z.  A conversion between integer types of different signedness
     wraps in Go; the model writes that wrap explicitly (wrap_s64 / wrap_u64).  Copies
     between equal types carry no wrap.  Go's int and uint are taken to be 64 bits wide
     (assumption A1: the supported platforms), so int <-> int64 is the identity.
   * A pointer to a scalar (pointer to int64, to OptionalInt64, ...) is an option: nil = None.  The
     protobuf Optional* wrappers carry one value, so *OptionalX is option X as well.
   * Pointers to sub-messages (Memory, Cpu, Pids, *Hooks, *LinuxResources) are options of
     records: the code distinguishes nil from empty there, and so does the model.
   * Slices are lists; a nil slice and an empty slice are the same list (no function
     modelled here can tell them apart other than by returning nil for nil).
   * Go maps (Unified) are association lists in an iteration order; a map copy is the
     fold that inserts the entries one by one (map_copy). *)
From Coq Require Import String Ascii List Bool ZArith.
From NRI Require Import Base.Strs Base.Assoc.
Import ListNotations.
Local Open Scope string_scope.
Local Open Scope list_scope.
Local Open Scope Z_scope.

(* ------------------------------------------------------------------ integers *)

Definition two31 : Z := 2147483648.
Definition two32 : Z := 4294967296.
Definition two63 : Z := 9223372036854775808.
Definition two64 : Z := 18446744073709551616.

(* uint64(x) of a signed 64-bit x, and int64(x) of an unsigned 64-bit x: two's complement *)
Definition wrap_u64 (z : Z) : Z := z mod two64.
Definition wrap_s64 (z : Z) : Z := (z + two63) mod two64 - two63.

Definition in_s64 (z : Z) : bool := (- two63 <=? z) && (z <? two63).
Definition in_u64 (z : Z) : bool := (0 <=? z) && (z <? two64).
Definition in_s32 (z : Z) : bool := (- two31 <=? z) && (z <? two31).
Definition in_u32 (z : Z) : bool := (0 <=? z) && (z <? two32).

(* ------------------------------------------------------------------ optional.go *)

(* The dynamic type and value of the interface{} argument of a constructor.
   P = pointer to the native type, Opt = pointer to the Optional wrapper. *)
Inductive goarg : Type :=
| GNil                                                     (* untyped nil *)
| GString (v : string) | GPString (p : option string) | GOptString (o : option string)
| GInt (v : Z) | GPInt (p : option Z) | GOptInt (o : option Z)
| GUint (v : Z)
| GInt32 (v : Z) | GPInt32 (p : option Z) | GOptInt32 (o : option Z)
| GUint32 (v : Z) | GPUint32 (p : option Z) | GOptUint32 (o : option Z)
| GInt64 (v : Z) | GPInt64 (p : option Z) | GOptInt64 (o : option Z)
| GUint64 (v : Z) | GPUint64 (p : option Z) | GOptUint64 (o : option Z)
| GBool (v : bool) | GPBool (p : option bool) | GOptBool (o : option bool)
| GFileMode (v : Z) | GPFileMode (p : option Z) | GOptFileMode (o : option Z)
| GOther.                                                  (* any other dynamic type *)

(* func String(v interface{}) *OptionalString *)
Definition opt_String (a : goarg) : option string :=
  match a with
  | GString v => Some v
  | GPString p => p
  | GOptString o => o
  | _ => None
  end.
(* func (o *OptionalString) Get() *string *)
Definition get_String (o : option string) : option string :=
  match o with None => None | Some v => Some v end.

(* func Int(v interface{}) *OptionalInt  (Value is an int64; int64(int) under A1) *)
Definition opt_Int (a : goarg) : option Z :=
  match a with
  | GInt v => Some v
  | GPInt p => p
  | GOptInt o => o
  | _ => None
  end.
(* func (o *OptionalInt) Get() *int  (int(o.Value) under A1) *)
Definition get_Int (o : option Z) : option Z :=
  match o with None => None | Some v => Some v end.

Definition opt_Int32 (a : goarg) : option Z :=
  match a with
  | GInt32 v => Some v
  | GPInt32 p => p
  | GOptInt32 o => o
  | _ => None
  end.
Definition get_Int32 (o : option Z) : option Z :=
  match o with None => None | Some v => Some v end.

Definition opt_UInt32 (a : goarg) : option Z :=
  match a with
  | GUint32 v => Some v
  | GPUint32 p => p
  | GOptUint32 o => o
  | _ => None
  end.
Definition get_UInt32 (o : option Z) : option Z :=
  match o with None => None | Some v => Some v end.

(* func Int64(v interface{}) *OptionalInt64: int64(uint), int64(uint64), int64 of a pointed-to uint64 wrap *)
Definition opt_Int64 (a : goarg) : option Z :=
  match a with
  | GInt v => Some v
  | GUint v => Some (wrap_s64 v)
  | GUint64 v => Some (wrap_s64 v)
  | GInt64 v => Some v
  | GPInt64 p => p
  | GPUint64 p => match p with None => None | Some v => Some (wrap_s64 v) end
  | GOptInt64 o => o
  | _ => None
  end.
Definition get_Int64 (o : option Z) : option Z :=
  match o with None => None | Some v => Some v end.

(* func UInt64(v interface{}) *OptionalUInt64: uint64(int), uint64(int64), uint64 of a pointed-to int64 wrap *)
Definition opt_UInt64 (a : goarg) : option Z :=
  match a with
  | GInt v => Some (wrap_u64 v)
  | GUint v => Some v
  | GInt64 v => Some (wrap_u64 v)
  | GUint64 v => Some v
  | GPInt64 p => match p with None => None | Some v => Some (wrap_u64 v) end
  | GPUint64 p => p
  | GOptUint64 o => o
  | _ => None
  end.
Definition get_UInt64 (o : option Z) : option Z :=
  match o with None => None | Some v => Some v end.

Definition opt_Bool (a : goarg) : option bool :=
  match a with
  | GBool v => Some v
  | GPBool p => p
  | GOptBool o => o
  | _ => None
  end.
Definition get_Bool (o : option bool) : option bool :=
  match o with None => None | Some v => Some v end.

(* func FileMode(v interface{}) *OptionalFileMode: os.FileMode is a uint32, as is Value *)
Definition opt_FileMode (a : goarg) : option Z :=
  match a with
  | GPFileMode p => p
  | GFileMode v => Some v
  | GOptFileMode o => o
  | GUint32 v => Some v
  | _ => None
  end.
Definition get_FileMode (o : option Z) : option Z :=
  match o with None => None | Some v => Some v end.

(* the eight constructors behind one interface (used by the harness cases and the
   specification): the constructor's kind, and an optional value of its carrier *)
Inductive ckind := KString | KInt | KInt32 | KUInt32 | KInt64 | KUInt64 | KBool | KFileMode.
Inductive oval := OS (o : option string) | OZ (o : option Z) | OB (o : option bool).

Definition ctor (k : ckind) (a : goarg) : oval :=
  match k with
  | KString => OS (opt_String a)
  | KInt => OZ (opt_Int a)
  | KInt32 => OZ (opt_Int32 a)
  | KUInt32 => OZ (opt_UInt32 a)
  | KInt64 => OZ (opt_Int64 a)
  | KUInt64 => OZ (opt_UInt64 a)
  | KBool => OB (opt_Bool a)
  | KFileMode => OZ (opt_FileMode a)
  end.

Definition getter (k : ckind) (v : oval) : oval :=
  match k, v with
  | KString, OS o => OS (get_String o)
  | KInt, OZ o => OZ (get_Int o)
  | KInt32, OZ o => OZ (get_Int32 o)
  | KUInt32, OZ o => OZ (get_UInt32 o)
  | KInt64, OZ o => OZ (get_Int64 o)
  | KUInt64, OZ o => OZ (get_UInt64 o)
  | KBool, OB o => OB (get_Bool o)
  | KFileMode, OZ o => OZ (get_FileMode o)
  | _, _ => v
  end.

(* ------------------------------------------------------------------ helpers.go *)

(* DupStringSlice: nil for nil, otherwise a fresh slice with the same elements *)
Definition dup_string_slice (l : list string) : list string :=
  match l with [] => [] | x :: r => x :: r end.

(* out := map[string]string{}; for k, v := range in { out[k] = v }   — in = the entries in
   the order the range statement visits them *)
Definition map_copy (m : list (string * string)) : list (string * string) :=
  fold_left (fun out kv => aset (fst kv) (snd kv) out) m [].

(* DupStringMap: nil for nil *)
Definition dup_string_map (m : list (string * string)) : list (string * string) :=
  match m with [] => [] | _ => map_copy m end.

(* ------------------------------------------------------------------ records: NRI (pkg/api) *)

Record memory := mkMemory {
  m_limit : option Z; m_reservation : option Z; m_swap : option Z; m_kernel : option Z;
  m_kernel_tcp : option Z; m_swappiness : option Z;
  m_disable_oom_killer : option bool; m_use_hierarchy : option bool }.

Record cpu := mkCpu {
  c_shares : option Z; c_quota : option Z; c_period : option Z;
  c_realtime_runtime : option Z; c_realtime_period : option Z;
  c_cpus : string; c_mems : string }.

Record hugepage := mkHugepage { h_page_size : string; h_limit : Z }.

Record devcg := mkDevcg {
  dc_allow : bool; dc_type : string; dc_major : option Z; dc_minor : option Z; dc_access : string }.

Record resources := mkResources {
  r_memory : option memory; r_cpu : option cpu; r_hugepages : list hugepage;
  r_blockio_class : option string; r_rdt_class : option string;
  r_unified : list (string * string); r_devices : list devcg; r_pids : option Z }.

Record mount := mkMount {
  mt_destination : string; mt_type : string; mt_source : string; mt_options : list string }.

Record device := mkDevice {
  d_path : string; d_type : string; d_major : Z; d_minor : Z;
  d_file_mode : option Z; d_uid : option Z; d_gid : option Z }.

Record hook := mkHook {
  hk_path : string; hk_args : list string; hk_env : list string; hk_timeout : option Z }.

Record hooks := mkHooks {
  hs_prestart : list hook; hs_create_runtime : list hook; hs_create_container : list hook;
  hs_start_container : list hook; hs_poststart : list hook; hs_poststop : list hook }.

Record keyvalue := mkKV { kv_key : string; kv_value : string }.

(* ------------------------------------------------------------------ records: OCI (specs-go) *)

(* CheckBeforeUpdate, Burst, Idle, BlockIO, Network, Rdma and the id mappings of a mount
   exist on the OCI side only; they are part of the model so that the theorems can say
   that exactly these are not carried over. *)
Record omemory := mkOMemory {
  om_limit : option Z; om_reservation : option Z; om_swap : option Z; om_kernel : option Z;
  om_kernel_tcp : option Z; om_swappiness : option Z;
  om_disable_oom_killer : option bool; om_use_hierarchy : option bool;
  om_check_before_update : option bool }.

Record ocpu := mkOCpu {
  oc_shares : option Z; oc_quota : option Z; oc_burst : option Z; oc_period : option Z;
  oc_realtime_runtime : option Z; oc_realtime_period : option Z;
  oc_cpus : string; oc_mems : string; oc_idle : option Z }.

Record ohugepage := mkOHugepage { oh_page_size : string; oh_limit : Z }.

Record odevcg := mkODevcg {
  odc_allow : bool; odc_type : string; odc_major : option Z; odc_minor : option Z; odc_access : string }.

Record oresources := mkOResources {
  or_devices : list odevcg; or_memory : option omemory; or_cpu : option ocpu; or_pids : option Z;
  or_blockio : bool;                (* BlockIO != nil *)
  or_hugepages : list ohugepage;
  or_network : bool;                (* Network != nil *)
  or_rdma : bool;                   (* len(Rdma) != 0 *)
  or_unified : list (string * string) }.

Record omount := mkOMount {
  omt_destination : string; omt_type : string; omt_source : string; omt_options : list string;
  omt_uid_mappings : list (Z * Z * Z); omt_gid_mappings : list (Z * Z * Z) }.

Record odevice := mkODevice {
  od_path : string; od_type : string; od_major : Z; od_minor : Z;
  od_file_mode : option Z; od_uid : option Z; od_gid : option Z }.

Record ohook := mkOHook {
  ohk_path : string; ohk_args : list string; ohk_env : list string; ohk_timeout : option Z }.

Record ohooks := mkOHooks {
  ohs_prestart : list ohook; ohs_create_runtime : list ohook; ohs_create_container : list ohook;
  ohs_start_container : list ohook; ohs_poststart : list ohook; ohs_poststop : list ohook }.

Definition empty_memory : memory := mkMemory None None None None None None None None.
Definition empty_cpu : cpu := mkCpu None None None None None "" "".
Definition empty_omemory : omemory := mkOMemory None None None None None None None None None.
Definition empty_ocpu : ocpu := mkOCpu None None None None None None "" "" None.
Definition zero_odevice : odevice := mkODevice "" "" 0 0 None None None.

(* ------------------------------------------------------------------ resources.go *)

(* if m := o.Memory; m != nil { l.Memory = &LinuxMemory{...} } *)
Definition memory_from_oci (m : omemory) : memory :=
  {| m_limit := opt_Int64 (GPInt64 (om_limit m));
     m_reservation := opt_Int64 (GPInt64 (om_reservation m));
     m_swap := opt_Int64 (GPInt64 (om_swap m));
     m_kernel := opt_Int64 (GPInt64 (om_kernel m));
     m_kernel_tcp := opt_Int64 (GPInt64 (om_kernel_tcp m));
     m_swappiness := opt_UInt64 (GPUint64 (om_swappiness m));
     m_disable_oom_killer := opt_Bool (GPBool (om_disable_oom_killer m));
     m_use_hierarchy := opt_Bool (GPBool (om_use_hierarchy m)) |}.

Definition cpu_from_oci (c : ocpu) : cpu :=
  {| c_shares := opt_UInt64 (GPUint64 (oc_shares c));
     c_quota := opt_Int64 (GPInt64 (oc_quota c));
     c_period := opt_UInt64 (GPUint64 (oc_period c));
     c_realtime_runtime := opt_Int64 (GPInt64 (oc_realtime_runtime c));
     c_realtime_period := opt_UInt64 (GPUint64 (oc_realtime_period c));
     c_cpus := oc_cpus c;
     c_mems := oc_mems c |}.

Definition hugepage_from_oci (h : ohugepage) : hugepage :=
  {| h_page_size := oh_page_size h; h_limit := oh_limit h |}.

Definition devcg_from_oci (d : odevcg) : devcg :=
  {| dc_allow := odc_allow d; dc_type := odc_type d;
     dc_major := opt_Int64 (GPInt64 (odc_major d));
     dc_minor := opt_Int64 (GPInt64 (odc_minor d));
     dc_access := odc_access d |}.

Definition res_from_oci (o : oresources) : resources :=
  {| r_memory := match or_memory o with None => None | Some m => Some (memory_from_oci m) end;
     r_cpu := match or_cpu o with None => None | Some c => Some (cpu_from_oci c) end;
     r_hugepages := map hugepage_from_oci (or_hugepages o);
     r_blockio_class := None;
     r_rdt_class := None;
     r_unified := match or_unified o with [] => [] | u => map_copy u end;
     r_devices := map devcg_from_oci (or_devices o);
     r_pids := match or_pids o with None => None | Some l => Some l end |}.

(* func FromOCILinuxResources(o *rspec.LinuxResources, _ map[string]string) *LinuxResources *)
Definition from_oci_resources (o : option oresources) : option resources :=
  match o with None => None | Some o => Some (res_from_oci o) end.

Definition memory_to_oci (m : memory) : omemory :=
  {| om_limit := get_Int64 (m_limit m);
     om_reservation := get_Int64 (m_reservation m);
     om_swap := get_Int64 (m_swap m);
     om_kernel := get_Int64 (m_kernel m);
     om_kernel_tcp := get_Int64 (m_kernel_tcp m);
     om_swappiness := get_UInt64 (m_swappiness m);
     om_disable_oom_killer := get_Bool (m_disable_oom_killer m);
     om_use_hierarchy := get_Bool (m_use_hierarchy m);
     om_check_before_update := None |}.

Definition cpu_to_oci (c : cpu) : ocpu :=
  {| oc_shares := get_UInt64 (c_shares c);
     oc_quota := get_Int64 (c_quota c);
     oc_burst := None;
     oc_period := get_UInt64 (c_period c);
     oc_realtime_runtime := get_Int64 (c_realtime_runtime c);
     oc_realtime_period := get_UInt64 (c_realtime_period c);
     oc_cpus := c_cpus c;
     oc_mems := c_mems c;
     oc_idle := None |}.

Definition hugepage_to_oci (h : hugepage) : ohugepage :=
  {| oh_page_size := h_page_size h; oh_limit := h_limit h |}.

Definition devcg_to_oci (d : devcg) : odevcg :=
  {| odc_allow := dc_allow d; odc_type := dc_type d;
     odc_major := get_Int64 (dc_major d);
     odc_minor := get_Int64 (dc_minor d);
     odc_access := dc_access d |}.

(* o := &rspec.LinuxResources{CPU: &rspec.LinuxCPU{}, Memory: &rspec.LinuxMemory{}}; ... *)
Definition res_to_oci (r : resources) : oresources :=
  {| or_devices := map devcg_to_oci (r_devices r);
     or_memory := Some (match r_memory r with None => empty_omemory | Some m => memory_to_oci m end);
     or_cpu := Some (match r_cpu r with None => empty_ocpu | Some c => cpu_to_oci c end);
     or_pids := match r_pids r with None => None | Some l => Some l end;
     or_blockio := false;
     or_hugepages := map hugepage_to_oci (r_hugepages r);
     or_network := false;
     or_rdma := false;
     or_unified := match r_unified r with [] => [] | u => map_copy u end |}.

(* func (r *LinuxResources) ToOCI() *rspec.LinuxResources *)
Definition to_oci_resources (r : option resources) : option oresources :=
  match r with None => None | Some r => Some (res_to_oci r) end.

(* Copy *)
Definition memory_copy (m : memory) : memory :=
  {| m_limit := opt_Int64 (GOptInt64 (m_limit m));
     m_reservation := opt_Int64 (GOptInt64 (m_reservation m));
     m_swap := opt_Int64 (GOptInt64 (m_swap m));
     m_kernel := opt_Int64 (GOptInt64 (m_kernel m));
     m_kernel_tcp := opt_Int64 (GOptInt64 (m_kernel_tcp m));
     m_swappiness := opt_UInt64 (GOptUint64 (m_swappiness m));
     m_disable_oom_killer := opt_Bool (GOptBool (m_disable_oom_killer m));
     m_use_hierarchy := opt_Bool (GOptBool (m_use_hierarchy m)) |}.

Definition cpu_copy (c : cpu) : cpu :=
  {| c_shares := opt_UInt64 (GOptUint64 (c_shares c));
     c_quota := opt_Int64 (GOptInt64 (c_quota c));
     c_period := opt_UInt64 (GOptUint64 (c_period c));
     c_realtime_runtime := opt_Int64 (GOptInt64 (c_realtime_runtime c));
     c_realtime_period := opt_UInt64 (GOptUint64 (c_realtime_period c));
     c_cpus := c_cpus c;
     c_mems := c_mems c |}.

Definition hugepage_copy (h : hugepage) : hugepage :=
  {| h_page_size := h_page_size h; h_limit := h_limit h |}.

(* Devices are not copied by the code (the field is "for NRI v1 emulation") *)
Definition res_copy (r : resources) : resources :=
  {| r_memory := match r_memory r with None => None | Some m => Some (memory_copy m) end;
     r_cpu := match r_cpu r with None => None | Some c => Some (cpu_copy c) end;
     r_hugepages := map hugepage_copy (r_hugepages r);
     r_blockio_class := opt_String (GOptString (r_blockio_class r));
     r_rdt_class := opt_String (GOptString (r_rdt_class r));
     r_unified := match r_unified r with [] => [] | u => map_copy u end;
     r_devices := [];
     r_pids := match r_pids r with None => None | Some l => Some l end |}.

(* func (r *LinuxResources) Copy() *LinuxResources *)
Definition copy (r : option resources) : option resources :=
  match r with None => None | Some r => Some (res_copy r) end.

(* ------------------------------------------------------------------ mount.go *)

Definition mount_from_oci (m : omount) : mount :=
  {| mt_destination := omt_destination m; mt_type := omt_type m; mt_source := omt_source m;
     mt_options := dup_string_slice (omt_options m) |}.

(* func FromOCIMounts(o []rspec.Mount) []*Mount *)
Definition from_oci_mounts (o : list omount) : list mount := map mount_from_oci o.

Definition is_propagation (opt : string) : bool :=
  String.eqb opt "rprivate" || String.eqb opt "rshared" || String.eqb opt "rslave".

(* func (m *Mount) ToOCI(propagationQuery *string) rspec.Mount
   q = None: propagationQuery is nil; q = Some s: it points to a string holding s.
   The second component is what the string holds afterwards. *)
Definition mount_to_oci (m : mount) (q : option string) : omount * option string :=
  ({| omt_destination := mt_destination m; omt_type := mt_type m; omt_source := mt_source m;
      omt_options := fold_left (fun acc opt => acc ++ [opt]) (mt_options m) [];
      omt_uid_mappings := []; omt_gid_mappings := [] |},
   match q with
   | None => None
   | Some s => Some (fold_left (fun cur opt => if is_propagation opt then opt else cur) (mt_options m) s)
   end).

(* ------------------------------------------------------------------ device.go *)

Definition device_from_oci (d : odevice) : device :=
  {| d_path := od_path d; d_type := od_type d; d_major := od_major d; d_minor := od_minor d;
     d_file_mode := opt_FileMode (GPFileMode (od_file_mode d));
     d_uid := opt_UInt32 (GPUint32 (od_uid d));
     d_gid := opt_UInt32 (GPUint32 (od_gid d)) |}.

(* func FromOCILinuxDevices(o []rspec.LinuxDevice) []*LinuxDevice *)
Definition from_oci_devices (o : list odevice) : list device := map device_from_oci o.

(* func (d *LinuxDevice) ToOCI() rspec.LinuxDevice   (d may be nil) *)
Definition device_to_oci (d : option device) : odevice :=
  match d with
  | None => zero_odevice
  | Some d =>
      {| od_path := d_path d; od_type := d_type d; od_major := d_major d; od_minor := d_minor d;
         od_file_mode := get_FileMode (d_file_mode d);
         od_uid := get_UInt32 (d_uid d);
         od_gid := get_UInt32 (d_gid d) |}
  end.

(* ------------------------------------------------------------------ hooks.go *)

(* func (h *Hook) ToOCI() rspec.Hook *)
Definition hook_to_oci (h : hook) : ohook :=
  {| ohk_path := hk_path h; ohk_args := dup_string_slice (hk_args h);
     ohk_env := dup_string_slice (hk_env h); ohk_timeout := get_Int (hk_timeout h) |}.

Definition hook_from_oci (h : ohook) : hook :=
  {| hk_path := ohk_path h; hk_args := dup_string_slice (ohk_args h);
     hk_env := dup_string_slice (ohk_env h); hk_timeout := opt_Int (GPInt (ohk_timeout h)) |}.

(* func FromOCIHookSlice(o []rspec.Hook) []*Hook *)
Definition from_oci_hook_slice (o : list ohook) : list hook := map hook_from_oci o.

(* func FromOCIHooks(o *rspec.Hooks) *Hooks *)
Definition from_oci_hooks (o : option ohooks) : option hooks :=
  match o with
  | None => None
  | Some o =>
      Some {| hs_prestart := from_oci_hook_slice (ohs_prestart o);
              hs_create_runtime := from_oci_hook_slice (ohs_create_runtime o);
              hs_create_container := from_oci_hook_slice (ohs_create_container o);
              hs_start_container := from_oci_hook_slice (ohs_start_container o);
              hs_poststart := from_oci_hook_slice (ohs_poststart o);
              hs_poststop := from_oci_hook_slice (ohs_poststop o) |}
  end.

(* pkg/api has no Hooks.ToOCI: the generator (pkg/runtime-tools/generate) converts the six
   lists hook by hook with Hook.ToOCI; this is that composition *)
Definition hooks_to_oci (h : hooks) : ohooks :=
  {| ohs_prestart := map hook_to_oci (hs_prestart h);
     ohs_create_runtime := map hook_to_oci (hs_create_runtime h);
     ohs_create_container := map hook_to_oci (hs_create_container h);
     ohs_start_container := map hook_to_oci (hs_start_container h);
     ohs_poststart := map hook_to_oci (hs_poststart h);
     ohs_poststop := map hook_to_oci (hs_poststop h) |}.

(* ------------------------------------------------------------------ env.go *)

Definition eq_char : ascii := "="%char.

(* func (e *KeyValue) ToOCI() string *)
Definition kv_to_oci (e : keyvalue) : string := kv_key e ++ "=" ++ kv_value e.

(* split := strings.SplitN(keyval, "=", 2): one element (no '='), or two *)
Definition kv_from_oci (s : string) : keyvalue :=
  match cut eq_char s with
  | (k, None) => {| kv_key := k; kv_value := "" |}
  | (k, Some v) => {| kv_key := k; kv_value := v |}
  end.

(* func FromOCIEnv(in []string) []*KeyValue *)
Definition from_oci_env (l : list string) : list keyvalue := map kv_from_oci l.
Definition to_oci_env (l : list keyvalue) : list string := map kv_to_oci l.
