package main

// A small semantic layer over go/ast for the switches of MuxConsts.v: the detectors ask "under which condition
// does this call / return happen" rather than "does the source have this shape".
//
//   - path conditions: a walk over a function body that keeps the conjunction of the conditions under which
//     each statement is reached (if / else / tag-less switch / early return), with the variables versioned at
//     every assignment (`err` after the header write and `err` after the payload write are different atoms);
//   - helpers: a call statement to an unexported function, method or local closure of the same file is walked
//     into (up to three levels), parameters and receiver bound to the caller's arguments; a call in a condition
//     to a helper whose body is one `return <expr>` is replaced by that expression;
//   - conditions are normalised to boolean formulas over atoms (comparisons put into one orientation, `!=`
//     as the negation of `==`, `x > 0` / `0 < x` / `x >= 1` as `x != 0` for the lengths and counts concerned) and
//     compared by truth table, so De Morgan, reordering and double negation do not matter;
//   - statements without effect on the modelled behaviour are skipped where a body is compared as a whole.
//
// Whatever is not understood stays an opaque atom: the comparison with the expected condition then fails and
// the switch is generated as false (a broken proof obligation), never as true.

import (
	"fmt"
	"go/ast"
	"go/token"
	"sort"
	"strings"
)

// ---------------------------------------------------------------- boolean formulas

type form interface{}
type fAtom string
type fNot struct{ x form }
type fAnd struct{ a, b form }
type fOr struct{ a, b form }
type fConst bool

func not(x form) form {
	if n, ok := x.(fNot); ok {
		return n.x
	}
	if c, ok := x.(fConst); ok {
		return fConst(!bool(c))
	}
	return fNot{x}
}
func and(a, b form) form {
	if c, ok := a.(fConst); ok {
		if c {
			return b
		}
		return fConst(false)
	}
	if c, ok := b.(fConst); ok {
		if c {
			return a
		}
		return fConst(false)
	}
	return fAnd{a, b}
}
func or(a, b form) form { return not(and(not(a), not(b))) }

func atomsOf(f form, set map[string]bool) {
	switch x := f.(type) {
	case fAtom:
		set[string(x)] = true
	case fNot:
		atomsOf(x.x, set)
	case fAnd:
		atomsOf(x.a, set)
		atomsOf(x.b, set)
	case fOr:
		atomsOf(x.a, set)
		atomsOf(x.b, set)
	}
}

func eval(f form, v map[string]bool) bool {
	switch x := f.(type) {
	case fAtom:
		return v[string(x)]
	case fNot:
		return !eval(x.x, v)
	case fAnd:
		return eval(x.a, v) && eval(x.b, v)
	case fOr:
		return eval(x.a, v) || eval(x.b, v)
	case fConst:
		return bool(x)
	}
	return false
}

func sortedAtoms(fs ...form) []string {
	set := map[string]bool{}
	for _, f := range fs {
		atomsOf(f, set)
	}
	var l []string
	for a := range set {
		l = append(l, a)
	}
	sort.Strings(l)
	return l
}

func assignments(atoms []string, f func(map[string]bool)) {
	if len(atoms) > 14 {
		return // too many to enumerate: the caller sees no assignment and rejects
	}
	v := map[string]bool{}
	for m := 0; m < 1<<uint(len(atoms)); m++ {
		for i, a := range atoms {
			v[a] = m>>uint(i)&1 == 1
		}
		f(v)
	}
}

// implies: pc => goal for every assignment (and pc is satisfiable)
func implies(pc, goal form) bool {
	ok, sat := true, false
	assignments(sortedAtoms(pc, goal), func(v map[string]bool) {
		if eval(pc, v) {
			sat = true
			if !eval(goal, v) {
				ok = false
			}
		}
	})
	return ok && sat
}

// reachedExactlyWhen: the ordered path condition pc is  P1 … Pk, T1 … Tm  where the tail Ti starts at the first
// conjunct that mentions one of the `fresh` variables (the results of the call whose failure is being handled — they
// did not exist before, so nothing established earlier can depend on them) or a focus atom; the tail speaks about
// focus atoms only and its conjunction is equivalent to target.  What was established before (an unreachable
// invariant check that returns, an `ok` test) does not matter for the question; a further test of the fresh
// variables inside or before the tested condition — "only if it is not a time-out" — is part of the tail, is not a
// focus atom, and makes the comparison fail.
func reachedExactlyWhen(pc []form, target form, focus []string, fresh []string) bool {
	isFocus := map[string]bool{}
	for _, a := range focus {
		isFocus[a] = true
	}
	mentions := func(a string) bool {
		if isFocus[a] {
			return true
		}
		for _, v := range fresh {
			for i := 0; v != "" && i+len(v) <= len(a); i++ {
				if a[i:i+len(v)] != v {
					continue
				}
				before := i == 0 || !identChar(a[i-1])
				after := i+len(v) == len(a) || !identChar(a[i+len(v)])
				if before && after {
					return true
				}
			}
		}
		return false
	}
	first := -1
	for i, c := range pc {
		for _, a := range sortedAtoms(c) {
			if mentions(a) && first < 0 {
				first = i
			}
		}
	}
	if first < 0 {
		return false
	}
	tail := conj(pc[first:])
	for _, a := range sortedAtoms(tail) {
		if !isFocus[a] {
			return false
		}
	}
	same, sat := true, false
	assignments(focus, func(v map[string]bool) {
		p, t := eval(tail, v), eval(target, v)
		if p != t {
			same = false
		}
		if p {
			sat = true
		}
	})
	return same && sat
}

func identChar(c byte) bool {
	return c == '_' || c == '#' || c >= '0' && c <= '9' || c >= 'a' && c <= 'z' || c >= 'A' && c <= 'Z'
}

// plainFact: `x`, `x#3`, `x==nil` — a variable or a nil test, no call, no arithmetic
func plainFact(a string) bool {
	a = strings.TrimSuffix(a, "==nil")
	for _, r := range a {
		if !(r == '_' || r == '#' || r >= '0' && r <= '9' || r >= 'a' && r <= 'z' || r >= 'A' && r <= 'Z') {
			return false
		}
	}
	return a != ""
}

// ---------------------------------------------------------------- environments

// env binds the parameters (and the receiver) of a helper that is being walked to the caller's arguments.
type env struct {
	bind   map[string]bound
	ver    map[string]int    // version of a local variable: bumped at every assignment
	alias  map[string]string // x := <pure expression> (a map entry, len(y), a field, another variable): its key when x was defined
	locals map[string]*ast.FuncLit
}
type bound struct {
	e   ast.Expr
	env *env
}

func newEnv() *env {
	return &env{bind: map[string]bound{}, ver: map[string]int{}, alias: map[string]string{}, locals: map[string]*ast.FuncLit{}}
}

type sem struct {
	file  *ast.File
	funcs map[string]*ast.FuncDecl // unexported functions and methods of the file, by name ("recv.name" for methods)
}

func newSem(f *ast.File) *sem {
	s := &sem{file: f, funcs: map[string]*ast.FuncDecl{}}
	for _, d := range f.Decls {
		fd, ok := d.(*ast.FuncDecl)
		if !ok || fd.Body == nil {
			continue
		}
		s.funcs[funcKey(fd)] = fd
	}
	return s
}

func recvType(fd *ast.FuncDecl) string {
	if fd.Recv == nil || len(fd.Recv.List) != 1 {
		return ""
	}
	t := fd.Recv.List[0].Type
	if st, ok := t.(*ast.StarExpr); ok {
		t = st.X
	}
	if id, ok := t.(*ast.Ident); ok {
		return id.Name
	}
	return ""
}

func funcKey(fd *ast.FuncDecl) string {
	if r := recvType(fd); r != "" {
		return r + "." + fd.Name.Name
	}
	return fd.Name.Name
}

// primitives the detectors look for: never walked into
var primitives = map[string]bool{"setError": true, "close": true, "Close": true, "error": true}

// helper finds the declaration behind a call to an unexported function or method of the file.
func (s *sem) helper(call *ast.CallExpr) (*ast.FuncDecl, ast.Expr) {
	switch fn := call.Fun.(type) {
	case *ast.Ident:
		if fd := s.funcs[fn.Name]; fd != nil && !ast.IsExported(fn.Name) && !primitives[fn.Name] {
			return fd, nil
		}
	case *ast.SelectorExpr:
		if ast.IsExported(fn.Sel.Name) || primitives[fn.Sel.Name] {
			return nil, nil
		}
		var found *ast.FuncDecl
		n := 0
		for k, fd := range s.funcs {
			if strings.HasSuffix(k, "."+fn.Sel.Name) {
				found = fd
				n++
			}
		}
		if n == 1 {
			return found, fn.X
		}
	}
	return nil, nil
}

func (s *sem) bindCall(fd *ast.FuncDecl, recv ast.Expr, call *ast.CallExpr, caller *env) *env {
	e := newEnv()
	if recv != nil && fd.Recv != nil && len(fd.Recv.List[0].Names) == 1 {
		e.bind[fd.Recv.List[0].Names[0].Name] = bound{recv, caller}
	}
	i := 0
	for _, p := range fd.Type.Params.List {
		for _, nm := range p.Names {
			if i < len(call.Args) {
				e.bind[nm.Name] = bound{call.Args[i], caller}
			}
			i++
		}
	}
	return e
}

// ---------------------------------------------------------------- keys of expressions

func (s *sem) key(e ast.Expr, en *env) string {
	switch x := e.(type) {
	case *ast.ParenExpr:
		return s.key(x.X, en)
	case *ast.Ident:
		if en != nil {
			if b, ok := en.bind[x.Name]; ok && en.ver[x.Name] == 0 {
				return s.key(b.e, b.env)
			}
			if a, ok := en.alias[x.Name]; ok {
				return a
			}
			if v := en.ver[x.Name]; v > 0 {
				return fmt.Sprintf("%s#%d", x.Name, v)
			}
		}
		return x.Name
	case *ast.BasicLit:
		return x.Value
	case *ast.SelectorExpr:
		return s.key(x.X, en) + "." + x.Sel.Name
	case *ast.IndexExpr:
		return s.key(x.X, en) + "[" + s.key(x.Index, en) + "]"
	case *ast.SliceExpr:
		k := func(e ast.Expr) string {
			if e == nil {
				return ""
			}
			return s.key(e, en)
		}
		return s.key(x.X, en) + "[" + k(x.Low) + ":" + k(x.High) + "]"
	case *ast.StarExpr:
		return "*" + s.key(x.X, en)
	case *ast.UnaryExpr:
		return x.Op.String() + s.key(x.X, en)
	case *ast.CallExpr:
		var args []string
		for _, a := range x.Args {
			args = append(args, s.key(a, en))
		}
		return s.key(x.Fun, en) + "(" + strings.Join(args, ",") + ")"
	case *ast.BinaryExpr:
		return "(" + s.key(x.X, en) + x.Op.String() + s.key(x.Y, en) + ")"
	}
	return fmt.Sprintf("<%T@%d>", e, e.Pos())
}

func isZero(k string) bool { return k == "0" }

// norm turns a condition into a formula.
func (s *sem) norm(e ast.Expr, en *env, depth int) form {
	switch x := e.(type) {
	case *ast.ParenExpr:
		return s.norm(x.X, en, depth)
	case *ast.UnaryExpr:
		if x.Op == token.NOT {
			return not(s.norm(x.X, en, depth))
		}
	case *ast.Ident:
		if en != nil {
			if b, ok := en.bind[x.Name]; ok && en.ver[x.Name] == 0 {
				return s.norm(b.e, b.env, depth)
			}
		}
		if x.Name == "true" {
			return fConst(true)
		}
		if x.Name == "false" {
			return fConst(false)
		}
	case *ast.CallExpr:
		if fd, recv := s.helper(x); fd != nil && depth < 3 && len(fd.Body.List) == 1 {
			if ret, ok := fd.Body.List[0].(*ast.ReturnStmt); ok && len(ret.Results) == 1 {
				return s.norm(ret.Results[0], s.bindCall(fd, recv, x, en), depth+1)
			}
		}
	case *ast.BinaryExpr:
		switch x.Op {
		case token.LAND:
			return and(s.norm(x.X, en, depth), s.norm(x.Y, en, depth))
		case token.LOR:
			return or(s.norm(x.X, en, depth), s.norm(x.Y, en, depth))
		case token.EQL, token.NEQ, token.LSS, token.GTR, token.LEQ, token.GEQ:
			a, b := s.key(x.X, en), s.key(x.Y, en)
			eq := func(a, b string) form {
				if a > b {
					a, b = b, a
				}
				return fAtom(a + "==" + b)
			}
			lt := func(a, b string) form { // a < b
				if isZero(a) {
					return not(eq(a, b)) // 0 < b: b != 0 (lengths and counts)
				}
				if b == "1" {
					return eq("0", a) // a < 1: a == 0
				}
				return fAtom(a + "<" + b)
			}
			switch x.Op {
			case token.EQL:
				return eq(a, b)
			case token.NEQ:
				return not(eq(a, b))
			case token.LSS:
				return lt(a, b)
			case token.GTR:
				return lt(b, a)
			case token.GEQ:
				return not(lt(a, b))
			case token.LEQ:
				return not(lt(b, a))
			}
		}
	}
	return fAtom(s.key(e, en))
}

// ---------------------------------------------------------------- statements without modelled effect

var logNames = map[string]bool{"log": true, "logger": true, "logrus": true, "klog": true, "slog": true}

// neverRead: the field (or variable) name is only ever updated in the file — incremented, added to, stored — or
// read inside unexported functions that nobody calls.
func (s *sem) neverRead(name string) bool {
	called := map[string]bool{}
	ast.Inspect(s.file, func(n ast.Node) bool {
		if c, ok := n.(*ast.CallExpr); ok {
			switch f := c.Fun.(type) {
			case *ast.Ident:
				called[f.Name] = true
			case *ast.SelectorExpr:
				called[f.Sel.Name] = true
			}
		}
		return true
	})
	read := false
	for _, d := range s.file.Decls {
		fd, ok := d.(*ast.FuncDecl)
		if !ok || fd.Body == nil {
			continue
		}
		if !ast.IsExported(fd.Name.Name) && !called[fd.Name.Name] {
			continue // an accessor nobody uses
		}
		var visit func(n ast.Node, update bool)
		visit = func(n ast.Node, update bool) {
			ast.Inspect(n, func(x ast.Node) bool {
				switch st := x.(type) {
				case *ast.IncDecStmt:
					return false
				case *ast.AssignStmt:
					for _, r := range st.Rhs {
						visit(r, false)
					}
					return false
				case *ast.ExprStmt:
					if c, ok := st.X.(*ast.CallExpr); ok && s.isCounterUpdate(c, name) {
						return false
					}
				case *ast.SelectorExpr:
					if st.Sel.Name == name {
						read = true
					}
				case *ast.Ident:
					if st.Name == name && st.Obj != nil && st.Obj.Kind == ast.Var {
						read = true
					}
				}
				return true
			})
		}
		visit(fd.Body, false)
	}
	return !read
}

// x.f.Add(1), x.f.Store(v), atomic.AddInt64(&x.f, 1)
func (s *sem) isCounterUpdate(c *ast.CallExpr, name string) bool {
	sel, ok := c.Fun.(*ast.SelectorExpr)
	if !ok {
		return false
	}
	mentions := func(e ast.Expr) bool {
		hit := false
		ast.Inspect(e, func(n ast.Node) bool {
			if se, ok := n.(*ast.SelectorExpr); ok && se.Sel.Name == name {
				hit = true
			}
			return true
		})
		return hit
	}
	if (sel.Sel.Name == "Add" || sel.Sel.Name == "Store" || sel.Sel.Name == "Inc") && mentions(sel.X) {
		return true
	}
	if pkg, ok := sel.X.(*ast.Ident); ok && pkg.Name == "atomic" && strings.HasPrefix(sel.Sel.Name, "Add") && len(c.Args) > 0 && mentions(c.Args[0]) {
		return true
	}
	return false
}

func fieldOf(e ast.Expr) string {
	switch x := e.(type) {
	case *ast.SelectorExpr:
		return x.Sel.Name
	case *ast.Ident:
		return x.Name
	case *ast.UnaryExpr:
		return fieldOf(x.X)
	case *ast.ParenExpr:
		return fieldOf(x.X)
	}
	return ""
}

// noise: a log call, `_ = x`, or the update of a counter that is never read.
func (s *sem) noise(st ast.Stmt) bool {
	switch x := st.(type) {
	case *ast.EmptyStmt:
		return true
	case *ast.ExprStmt:
		c, ok := x.X.(*ast.CallExpr)
		if !ok {
			return false
		}
		if sel, ok := c.Fun.(*ast.SelectorExpr); ok {
			root := sel.X
			for {
				if in, ok := root.(*ast.SelectorExpr); ok {
					if logNames[strings.ToLower(in.Sel.Name)] {
						return true
					}
					root = in.X
					continue
				}
				break
			}
			if id, ok := root.(*ast.Ident); ok && logNames[strings.ToLower(id.Name)] {
				return true
			}
			if f := fieldOf(sel.X); f != "" && s.isCounterUpdate(c, f) && s.neverRead(f) {
				return true
			}
			if pkg, ok := sel.X.(*ast.Ident); ok && pkg.Name == "atomic" && len(c.Args) > 0 {
				if f := fieldOf(c.Args[0]); f != "" && s.isCounterUpdate(c, f) && s.neverRead(f) {
					return true
				}
			}
		}
	case *ast.AssignStmt:
		if len(x.Lhs) == 1 {
			if id, ok := x.Lhs[0].(*ast.Ident); ok && id.Name == "_" {
				return true
			}
			if x.Tok == token.ADD_ASSIGN || x.Tok == token.SUB_ASSIGN {
				if f := fieldOf(x.Lhs[0]); f != "" && s.neverRead(f) {
					return true
				}
			}
		}
	case *ast.IncDecStmt:
		if f := fieldOf(x.X); f != "" && s.neverRead(f) {
			return true
		}
	}
	return false
}

func (s *sem) effective(l []ast.Stmt) []ast.Stmt {
	var out []ast.Stmt
	for _, st := range l {
		if !s.noise(st) {
			out = append(out, st)
		}
	}
	return out
}

// ---------------------------------------------------------------- the walk

type visit struct {
	call *ast.CallExpr   // a call statement (also deferred / go), or nil
	ret  *ast.ReturnStmt // a return statement, or nil
	pc   []form          // the conditions under which the statement is reached, in the order in which they were established
	env  *env
	comm []ast.Stmt // the communications of the enclosing select clauses, innermost last
	// for a call on the right-hand side of an assignment (`n, err := x.f(a)`, also in the init of an if):
	lhs  []string // the keys of the assigned variables, after the assignment
	args []string // the keys of the arguments, before the assignment
}

func terminates(l []ast.Stmt) bool {
	if len(l) == 0 {
		return false
	}
	switch x := l[len(l)-1].(type) {
	case *ast.ReturnStmt:
		return true
	case *ast.BranchStmt:
		return x.Tok == token.CONTINUE || x.Tok == token.BREAK || x.Tok == token.GOTO
	case *ast.ExprStmt:
		if c, ok := x.X.(*ast.CallExpr); ok {
			if id, ok := c.Fun.(*ast.Ident); ok && id.Name == "panic" {
				return true
			}
		}
	case *ast.BlockStmt:
		return terminates(x.List)
	}
	return false
}

func (s *sem) assigned(e ast.Expr, en *env) {
	if id, ok := e.(*ast.Ident); ok && id.Name != "_" {
		en.ver[id.Name]++
		delete(en.alias, id.Name)
	}
}

func with(pc []form, c form) []form { return append(append([]form{}, pc...), c) }

func conj(pc []form) form {
	var f form = fConst(true)
	for _, c := range pc {
		f = and(f, c)
	}
	return f
}

func (s *sem) walk(l []ast.Stmt, pc []form, en *env, comm []ast.Stmt, depth int, f func(visit)) []form {
	for _, st := range l {
		switch x := st.(type) {
		case *ast.BlockStmt:
			pc = s.walk(x.List, pc, en, comm, depth, f)
		case *ast.LabeledStmt:
			pc = s.walk([]ast.Stmt{x.Stmt}, pc, en, comm, depth, f)
		case *ast.IfStmt:
			if x.Init != nil {
				s.walk([]ast.Stmt{x.Init}, pc, en, comm, depth, f)
			}
			c := s.norm(x.Cond, en, 0)
			s.walk(x.Body.List, with(pc, c), en, comm, depth, f)
			bodyEnds := terminates(x.Body.List)
			elseEnds := false
			if x.Else != nil {
				s.walk([]ast.Stmt{x.Else}, with(pc, not(c)), en, comm, depth, f)
				if b, ok := x.Else.(*ast.BlockStmt); ok {
					elseEnds = terminates(b.List)
				}
			}
			if bodyEnds && !elseEnds {
				pc = with(pc, not(c))
			} else if elseEnds && !bodyEnds {
				pc = with(pc, c)
			}
		case *ast.SwitchStmt:
			if x.Init != nil {
				s.walk([]ast.Stmt{x.Init}, pc, en, comm, depth, f)
			}
			var before form = fConst(false)
			var def *ast.CaseClause
			for _, cl := range x.Body.List {
				cc := cl.(*ast.CaseClause)
				if cc.List == nil {
					def = cc
					continue
				}
				var c form = fConst(false)
				for _, e := range cc.List {
					if x.Tag == nil {
						c = or(c, s.norm(e, en, 0))
					} else {
						c = or(c, s.norm(&ast.BinaryExpr{X: x.Tag, Op: token.EQL, Y: e}, en, 0))
					}
				}
				s.walk(cc.Body, with(pc, and(c, not(before))), en, comm, depth, f)
				before = or(before, c)
			}
			if def != nil {
				s.walk(def.Body, with(pc, not(before)), en, comm, depth, f)
			}
		case *ast.SelectStmt:
			for _, cl := range x.Body.List {
				cc := cl.(*ast.CommClause)
				inner := comm
				if cc.Comm != nil {
					inner = append(append([]ast.Stmt{}, comm...), cc.Comm)
					if as, ok := cc.Comm.(*ast.AssignStmt); ok {
						for _, lh := range as.Lhs {
							s.assigned(lh, en)
						}
					}
				}
				s.walk(cc.Body, pc, en, inner, depth, f)
			}
		case *ast.ForStmt:
			if x.Init != nil {
				s.walk([]ast.Stmt{x.Init}, pc, en, comm, depth, f)
			}
			s.walk(x.Body.List, pc, en, comm, depth, f)
		case *ast.RangeStmt:
			s.walk(x.Body.List, pc, en, comm, depth, f)
		case *ast.AssignStmt:
			for _, r := range x.Rhs {
				if fl, ok := r.(*ast.FuncLit); ok && len(x.Lhs) == 1 {
					if id, ok := x.Lhs[0].(*ast.Ident); ok {
						en.locals[id.Name] = fl
					}
				}
			}
			// x := <pure expression>: x stands for that expression as it is now
			aliasKey := ""
			if len(x.Rhs) == 1 {
				switch r := x.Rhs[0].(type) {
				case *ast.IndexExpr, *ast.SelectorExpr:
					aliasKey = s.key(r, en)
				case *ast.CallExpr:
					if id, ok := r.Fun.(*ast.Ident); ok && (id.Name == "len" || id.Name == "cap") && len(r.Args) == 1 {
						aliasKey = s.key(r, en)
					}
				}
			}
			var rhsCall *ast.CallExpr
			var argKeys []string
			if len(x.Rhs) == 1 {
				if c, ok := x.Rhs[0].(*ast.CallExpr); ok {
					rhsCall = c
					for _, a := range c.Args {
						argKeys = append(argKeys, s.key(a, en))
					}
					// a helper on the right-hand side is walked into like a call statement: what it does happens here
					if fd, recv := s.helper(c); fd != nil && depth < 3 {
						s.walk(fd.Body.List, pc, s.bindCall(fd, recv, c, en), comm, depth+1, f)
					}
				}
			}
			for _, lh := range x.Lhs {
				s.assigned(lh, en)
			}
			if rhsCall != nil {
				var lhsKeys []string
				for _, lh := range x.Lhs {
					lhsKeys = append(lhsKeys, s.key(lh, en))
				}
				f(visit{call: rhsCall, pc: pc, env: en, comm: comm, lhs: lhsKeys, args: argKeys})
			}
			if len(x.Rhs) == 1 && len(x.Lhs) >= 1 && x.Tok == token.DEFINE && aliasKey != "" {
				if id, ok := x.Lhs[0].(*ast.Ident); ok && id.Name != "_" {
					en.alias[id.Name] = aliasKey
				}
			}
		case *ast.IncDecStmt:
			s.assigned(x.X, en)
		case *ast.DeclStmt:
			// var x T: a fresh variable
		case *ast.ReturnStmt:
			for _, r := range x.Results {
				if c, ok := r.(*ast.CallExpr); ok && depth < 3 {
					if fd, recv := s.helper(c); fd != nil {
						s.walk(fd.Body.List, pc, s.bindCall(fd, recv, c, en), comm, depth+1, f)
					}
				}
			}
			f(visit{ret: x, pc: pc, env: en, comm: comm})
		case *ast.DeferStmt:
			f(visit{call: x.Call, pc: pc, env: en, comm: comm})
		case *ast.GoStmt:
			f(visit{call: x.Call, pc: pc, env: en, comm: comm})
		case *ast.ExprStmt:
			c, ok := x.X.(*ast.CallExpr)
			if !ok {
				continue
			}
			f(visit{call: c, pc: pc, env: en, comm: comm})
			if depth >= 3 {
				continue
			}
			if id, ok := c.Fun.(*ast.Ident); ok {
				if fl := en.locals[id.Name]; fl != nil { // a local closure: it sees the caller's variables
					inner := newEnv()
					inner.bind, inner.alias, inner.locals = en.bind, en.alias, en.locals
					for k, v := range en.ver {
						inner.ver[k] = v
					}
					i := 0
					bind := map[string]bound{}
					for k, v := range en.bind {
						bind[k] = v
					}
					for _, p := range fl.Type.Params.List {
						for _, nm := range p.Names {
							if i < len(c.Args) {
								bind[nm.Name] = bound{c.Args[i], en}
								inner.ver[nm.Name] = 0
							}
							i++
						}
					}
					inner.bind = bind
					s.walk(fl.Body.List, pc, inner, comm, depth+1, f)
					continue
				}
			}
			if fd, recv := s.helper(c); fd != nil {
				s.walk(fd.Body.List, pc, s.bindCall(fd, recv, c, en), comm, depth+1, f)
			}
		}
	}
	return pc
}

func calleeName(c *ast.CallExpr) string {
	switch f := c.Fun.(type) {
	case *ast.Ident:
		return f.Name
	case *ast.SelectorExpr:
		return f.Sel.Name
	}
	return ""
}
