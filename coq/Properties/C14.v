(* C14 — NRI/OCI conversions are lossless and copies share no state.
   This file contains only statements closed by [exact].

   Vocabulary (Model/Convert.v mirrors pkg/api function by function; Spec/ConvertSpec.v holds
   the projections): norm_res / norm_ores / norm_omount / norm_env_entry say exactly which part
   of a value both representations carry; copy_view is a resource set without the v1-emulation
   device rules, which Copy does not copy and the property does not name.  An optional scalar
   is an [option]: None = unset, Some 0 = set to zero — equality of options is the
   "unset-versus-zero is preserved" clause.  map_wf: an association list that represents a Go
   map (no key twice).  "Share no state" is not expressible on immutable values; it is tested
   on the implementation (driver "alias"), not proved. *)
From Coq Require Import String List ZArith Permutation.
From NRI Require Import Base.Assoc Model.Consts Model.Event Proofs.EventProofs.
From NRI Require Import Model.Convert Spec.ConvertSpec Proofs.ConvertProofs.
Import ListNotations.
Open Scope Z_scope.

(* ------------------------------------------------------------------ event masks *)

(* parsing a printed event mask returns the same mask: every non-empty valid mask;
   valid_events is read from pkg/api/event.go on every run (8191 on the pinned tree) *)
Theorem C14_mask_roundtrip : forall m, 1 <= m <= valid_events -> parse [pretty m] = Some m.
Proof. exact mask_roundtrip. Qed.
Print Assumptions C14_mask_roundtrip.

Theorem C14_mask_print_injective : forall m1 m2,
  1 <= m1 <= valid_events -> 1 <= m2 <= valid_events -> pretty m1 = pretty m2 -> m1 = m2.
Proof. exact pretty_injective. Qed.
Print Assumptions C14_mask_print_injective.

(* non-vacuity: the domain is the one the property names *)
Example C14_mask_domain : valid_events = 8191 /\ parse [pretty 4097] = Some 4097.
Proof. split; reflexivity. Qed.

(* ------------------------------------------------------------------ resources *)

(* NRI -> OCI -> NRI returns the input up to norm_res: all eight memory fields, all seven CPU
   fields, hugepage limits, unified, device rules and pids come back as they were (unset stays
   unset, zero stays zero); only the two class names are lost, and a nil Memory / Cpu message
   comes back as an empty one.  A nil resource pointer stays nil. *)
Theorem C14_resources_nri_roundtrip : forall r : option resources,
  res_wf r = true -> from_oci_resources (to_oci_resources r) = option_map norm_res r.
Proof. exact from_to_resources. Qed.
Print Assumptions C14_resources_nri_roundtrip.

(* the same read field by field, as the nil-safe getters see the result *)
Theorem C14_resources_nri_roundtrip_fields : forall r r',
  map_wf (r_unified r) = true ->
  from_oci_resources (to_oci_resources (Some r)) = Some r' ->
  mem_view r' = mem_view r /\ cpu_view r' = cpu_view r /\ r_hugepages r' = r_hugepages r /\
  r_unified r' = r_unified r /\ r_devices r' = r_devices r /\ r_pids r' = r_pids r.
Proof. exact from_to_resources_fields. Qed.
Print Assumptions C14_resources_nri_roundtrip_fields.

(* OCI -> NRI -> OCI: lost are exactly CheckBeforeUpdate, Burst, Idle, BlockIO, Network, Rdma *)
Theorem C14_resources_oci_roundtrip : forall o : option oresources,
  ores_wf o = true -> to_oci_resources (from_oci_resources o) = option_map norm_ores o.
Proof. exact to_from_resources. Qed.
Print Assumptions C14_resources_oci_roundtrip.

(* the copied unified map does not depend on the order in which Go's range visits the source *)
Theorem C14_unified_any_iteration_order : forall m m' k,
  map_wf m = true -> Permutation m m' -> alookup k (map_copy m') = alookup k m.
Proof. exact map_copy_any_order. Qed.
Print Assumptions C14_unified_any_iteration_order.

Example C14_resources_example :
  let r := mkResources (Some (mkMemory (Some 0) None (Some (-1)) None None (Some 18446744073709551615) (Some false) None))
                       None [mkHugepage "2MB" 0] (Some "gold") None [("memory.high", "max"); ("cpu.weight", "0")]
                       [mkDevcg true "c" (Some 0) None "rwm"] (Some 0) in
  res_wf (Some r) = true /\
  from_oci_resources (to_oci_resources (Some r)) = Some (norm_res r) /\
  m_limit (mem_view (norm_res r)) = Some 0 /\ m_reservation (mem_view (norm_res r)) = None /\
  r_cpu (norm_res r) = Some empty_cpu /\ r_blockio_class (norm_res r) = None.
Proof. repeat split. Qed.

Example C14_resources_oci_example :
  let o := mkOResources [mkODevcg false "b" None (Some 0) "r"]
                        (Some (mkOMemory (Some 0) None None None None (Some 0) None (Some true) (Some true)))
                        None (Some 0) true [mkOHugepage "1GB" 18446744073709551615] false true [("io.max", "")] in
  ores_wf (Some o) = true /\ to_oci_resources (from_oci_resources (Some o)) = Some (norm_ores o) /\
  or_pids (norm_ores o) = Some 0 /\ or_blockio (norm_ores o) = false.
Proof. repeat split. Qed.

(* ------------------------------------------------------------------ Copy *)

(* the copy equals the original in memory, CPU, hugepage, unified, pids and class fields
   (it carries no device rules); nil stays nil *)
Theorem C14_copy_equal : forall r : option resources,
  res_wf r = true -> copy r = option_map copy_view r.
Proof. exact copy_equal. Qed.
Print Assumptions C14_copy_equal.

Theorem C14_copy_fields : forall r c,
  map_wf (r_unified r) = true -> copy (Some r) = Some c ->
  r_memory c = r_memory r /\ r_cpu c = r_cpu r /\ r_hugepages c = r_hugepages r /\
  r_unified c = r_unified r /\ r_pids c = r_pids r /\
  r_blockio_class c = r_blockio_class r /\ r_rdt_class c = r_rdt_class r.
Proof. exact copy_fields. Qed.
Print Assumptions C14_copy_fields.

Example C14_copy_example :
  let r := mkResources (Some empty_memory) (Some (mkCpu (Some 0) (Some (-1)) None None None "0-3" ""))
                       [mkHugepage "2MB" 1] (Some "") (Some "rdt") [("a", "b")] [mkDevcg true "a" None None "rwm"] (Some (-1)) in
  res_wf (Some r) = true /\ copy (Some r) = Some (copy_view r) /\ r_memory (copy_view r) = Some empty_memory /\
  r_blockio_class (copy_view r) = Some ""%string /\ r_devices (copy_view r) = [].
Proof. repeat split. Qed.

(* ------------------------------------------------------------------ mounts *)

Theorem C14_mount_nri_roundtrip : forall m q, from_oci_mounts [fst (mount_to_oci m q)] = [m].
Proof. exact from_to_mount. Qed.
Print Assumptions C14_mount_nri_roundtrip.

(* lost: the id mappings (OCI only) *)
Theorem C14_mounts_oci_roundtrip : forall l,
  map (fun m => fst (mount_to_oci m None)) (from_oci_mounts l) = map norm_omount l.
Proof. exact to_from_mounts. Qed.
Print Assumptions C14_mounts_oci_roundtrip.

(* the propagation query of Mount.ToOCI: a nil pointer is not written; otherwise the string
   ends up holding the last of the options rprivate / rshared / rslave, if there is one *)
Theorem C14_mount_propagation_query : forall m,
  snd (mount_to_oci m None) = None /\
  forall s, snd (mount_to_oci m (Some s)) = Some (last (filter is_propagation (mt_options m)) s).
Proof. exact mount_query. Qed.
Print Assumptions C14_mount_propagation_query.

Example C14_mount_example :
  let m := mkMount "/data" "bind" "/host" ["rbind"; "rslave"; "ro"; "rprivate"]%string in
  from_oci_mounts [fst (mount_to_oci m None)] = [m] /\
  snd (mount_to_oci m (Some ""%string)) = Some "rprivate"%string /\
  norm_omount (mkOMount "/d" "" "" [] [(0, 1000, 1)] []) = mkOMount "/d" "" "" [] [] [].
Proof. repeat split. Qed.

(* ------------------------------------------------------------------ devices *)

(* a nil device converts to the zero OCI device, which converts back to the zero device *)
Theorem C14_device_nri_roundtrip : forall d : option device,
  from_oci_devices [device_to_oci d] = [match d with None => zero_device | Some d => d end].
Proof. exact from_to_device. Qed.
Print Assumptions C14_device_nri_roundtrip.

Theorem C14_devices_oci_roundtrip : forall l : list odevice,
  map (fun d => device_to_oci (Some d)) (from_oci_devices l) = l.
Proof. exact to_from_devices. Qed.
Print Assumptions C14_devices_oci_roundtrip.

Example C14_device_example :
  let d := mkDevice "/dev/null" "c" 1 3 (Some 0) None (Some 4294967295) in
  from_oci_devices [device_to_oci (Some d)] = [d] /\
  od_file_mode (device_to_oci (Some d)) = Some 0 /\ od_uid (device_to_oci (Some d)) = None.
Proof. repeat split. Qed.

(* ------------------------------------------------------------------ hooks *)

Theorem C14_hooks_nri_roundtrip : forall h : hooks, from_oci_hooks (Some (hooks_to_oci h)) = Some h.
Proof. exact from_to_hooks. Qed.
Print Assumptions C14_hooks_nri_roundtrip.

Theorem C14_hooks_oci_roundtrip : forall o : option ohooks, option_map hooks_to_oci (from_oci_hooks o) = o.
Proof. exact to_from_hooks. Qed.
Print Assumptions C14_hooks_oci_roundtrip.

Example C14_hooks_example :
  let h := mkHooks [mkHook "/bin/a" ["a"; ""]%string ["K=v"]%string (Some 0)] [] [] [mkHook "" [] [] None] [] [] in
  from_oci_hooks (Some (hooks_to_oci h)) = Some h /\
  map ohk_timeout (ohs_prestart (hooks_to_oci h)) = [Some 0] /\
  map ohk_timeout (ohs_start_container (hooks_to_oci h)) = [None].
Proof. repeat split. Qed.

(* ------------------------------------------------------------------ environment *)

(* kv_wf: the key contains no '=' (it may even be empty; values are arbitrary) *)
Theorem C14_env_nri_roundtrip : forall l : list keyvalue,
  forallb kv_wf l = true -> from_oci_env (to_oci_env l) = l.
Proof. exact from_to_env. Qed.
Print Assumptions C14_env_nri_roundtrip.

(* an entry that contains '=' comes back unchanged, one without comes back with '=' appended *)
Theorem C14_env_oci_roundtrip : forall l : list string,
  to_oci_env (from_oci_env l) = map norm_env_entry l.
Proof. exact to_from_env. Qed.
Print Assumptions C14_env_oci_roundtrip.

Theorem C14_env_entry_with_eq_unchanged : forall s, no_eq s = false -> norm_env_entry s = s.
Proof. exact norm_env_entry_id. Qed.
Print Assumptions C14_env_entry_with_eq_unchanged.

Example C14_env_example :
  let l := [mkKV "PATH" "/bin:/usr/bin"; mkKV "OPTS" "a=b=c"; mkKV "EMPTY" ""; mkKV "" "v"]%string in
  forallb kv_wf l = true /\ to_oci_env l = ["PATH=/bin:/usr/bin"; "OPTS=a=b=c"; "EMPTY="; "=v"]%string /\
  from_oci_env (to_oci_env l) = l /\
  (* the hypothesis is needed: '=' in a key moves to the value *)
  from_oci_env (to_oci_env [mkKV "a=b" "c"]) = [mkKV "a" "b=c"] /\
  to_oci_env (from_oci_env ["NOEQ"; "K=v=w"]%string) = ["NOEQ="; "K=v=w"]%string.
Proof. repeat split. Qed.

(* ------------------------------------------------------------------ optional constructors *)

(* ctor_expect is the specification read off the property (nil -> unset, a value of an accepted
   type that the target can hold -> exactly that value); arg_wf: the argument lies in the range
   of its Go type *)
Theorem C14_optional_ctor_spec : forall k a e,
  arg_wf a = true -> ctor_expect k a = Some e -> ctor k a = e.
Proof. exact optional_ctor_spec. Qed.
Print Assumptions C14_optional_ctor_spec.

(* nil in any form (untyped, nil pointer, nil wrapper), handed to any constructor, is unset *)
Theorem C14_optional_nil_is_unset : forall k a, is_nil_arg a = true -> ctor k a = unset_of k.
Proof. exact ctor_nil_unset. Qed.
Print Assumptions C14_optional_nil_is_unset.

(* Get returns what the constructor stored: unset for unset, the value (zero included) otherwise *)
Theorem C14_optional_get : forall k a, getter k (ctor k a) = ctor k a.
Proof. exact getter_ctor. Qed.
Print Assumptions C14_optional_get.

(* I8: a value of the other signedness that the target cannot hold is wrapped (two's complement) *)
Theorem C14_optional_wrap_Int64 : forall v, 0 <= v < two64 ->
  ctor KInt64 (GUint64 v) = OZ (Some (if v <? two63 then v else v - two64)) /\
  ctor KInt64 (GUint v) = OZ (Some (if v <? two63 then v else v - two64)) /\
  ctor KInt64 (GPUint64 (Some v)) = OZ (Some (if v <? two63 then v else v - two64)).
Proof. exact optional_wrap_Int64. Qed.
Print Assumptions C14_optional_wrap_Int64.

Theorem C14_optional_wrap_UInt64 : forall v, - two63 <= v < two63 ->
  ctor KUInt64 (GInt64 v) = OZ (Some (if 0 <=? v then v else v + two64)) /\
  ctor KUInt64 (GInt v) = OZ (Some (if 0 <=? v then v else v + two64)) /\
  ctor KUInt64 (GPInt64 (Some v)) = OZ (Some (if 0 <=? v then v else v + two64)).
Proof. exact optional_wrap_UInt64. Qed.
Print Assumptions C14_optional_wrap_UInt64.

(* an argument whose type the constructor's type switch does not list yields unset (the code's
   default branch; recorded, not judged: no call site in the repository does this) *)
Theorem C14_optional_unsupported_type_is_unset : forall k a,
  ctor_accepts k a = false -> ctor k a = unset_of k.
Proof. exact ctor_unsupported_unset. Qed.
Print Assumptions C14_optional_unsupported_type_is_unset.

Example C14_optional_example :
  arg_wf (GPInt64 (Some 0)) = true /\ ctor_expect KInt64 (GPInt64 (Some 0)) = Some (OZ (Some 0)) /\
  ctor KInt64 (GPInt64 (Some 0)) = OZ (Some 0) /\ ctor KInt64 (GPInt64 None) = OZ None /\
  ctor KBool (GBool false) = OB (Some false) /\ ctor KString (GString "") = OS (Some ""%string) /\
  ctor KUInt32 (GUint32 4294967295) = OZ (Some 4294967295) /\
  ctor KInt64 (GUint64 18446744073709551615) = OZ (Some (-1)) /\
  ctor KUInt64 (GInt64 (-9223372036854775808)) = OZ (Some 9223372036854775808) /\
  ctor_expect KInt64 (GUint64 18446744073709551615) = None /\
  ctor KInt32 (GInt 5) = OZ None /\ is_nil_arg (GOptFileMode None) = true.
Proof. repeat split. Qed.

(* ------------------------------------------------------------------ the run-time predicates *)

(* every boolean predicate that ./check evaluates on the implementation's observations
   (Run/RunC14.v holds_conv, holds_copy, holds_opt) decides exactly the equation of the
   corresponding theorem above *)
Theorem C14_predicates_reflect :
  (forall r back, rt_res_nri r back = true <-> back = option_map norm_res r) /\
  (forall o back, rt_res_oci o back = true <-> back = option_map norm_ores o) /\
  (forall r c, copy_ok r c = true <-> c = option_map copy_view r) /\
  (forall m back, rt_mount_nri m back = true <-> back = [m]) /\
  (forall o back, rt_mounts_oci o back = true <-> back = map norm_omount o) /\
  (forall d back, rt_device_nri d back = true <-> back = [match d with None => zero_device | Some d => d end]) /\
  (forall o back, rt_devices_oci o back = true <-> back = o) /\
  (forall h back, rt_hooks_nri h back = true <-> back = Some h) /\
  (forall o back, rt_hooks_oci o back = true <-> back = o) /\
  (forall l back, forallb kv_wf l = true -> (rt_env_nri l back = true <-> back = l)) /\
  (forall l back, rt_env_oci l back = true <-> back = map norm_env_entry l) /\
  (forall k a res got e, ctor_expect k a = Some e -> (ctor_ok k a res got = true <-> got = res /\ res = e)).
Proof. exact predicates_reflect. Qed.
Print Assumptions C14_predicates_reflect.
