package main

import (
	"fmt"
	"math/bits"
	"strings"

	"github.com/containerd/nri/pkg/api"

	"verif/harness/internal/coqfmt"
	"verif/harness/internal/hx"
)

func main() {
	hx.Main(map[string]func(*hx.Ctx) error{"masks": driveMasks, "conv": driveConv, "alias": driveAlias})
}

type maskCase struct {
	Mask   int32  `json:"mask"`
	Pretty string `json:"pretty"`
	Parsed *int64 `json:"parsed"`
}

func optMask(m api.EventMask, err error) *int64 {
	if err != nil {
		return nil
	}
	v := int64(m)
	return &v
}

// driveMasks: every valid event mask (exhaustive) through PrettyString and
// ParseEventMask with the round-trip oracle evaluated in Go; the cases sent to
// Coq (model correspondence) are all masks in the thorough tier and, in the
// quick tier, every mask with at most two bits set plus 1000 random others.
// Plus a stream of free-form parser inputs.
func driveMasks(c *hx.Ctx) error {
	sh := c.NewShard("masks", "From NRI Require Import Run.Common Run.RunC14.", "mask_case", "corr_mask", "holds_mask", 600)
	valid := int32(api.ValidEvents)
	toCoq := map[int32]bool{}
	if c.Quick() {
		for m := int32(1); m <= valid; m++ {
			if bits.OnesCount32(uint32(m)) <= 2 || m == valid {
				toCoq[m] = true
			}
		}
		rm := c.Rand("masks")
		for want := len(toCoq) + 1000; len(toCoq) < want && len(toCoq) < int(valid); {
			toCoq[1+rm.Int31n(valid)] = true
		}
	}
	sent := 0
	for m := int32(1); m <= valid; m++ {
		mask := api.EventMask(m)
		s := mask.PrettyString()
		parsed := optMask(api.ParseEventMask(s))
		cs := maskCase{Mask: m, Pretty: s, Parsed: parsed}
		if !c.Quick() || toCoq[m] {
			sh.Add(fmt.Sprintf("{| mc_mask := %s; mc_pretty := %s; mc_parsed := %s |}",
				coqfmt.Z(int64(m)), coqfmt.Str(s), coqfmt.OptZ(parsed)), cs)
			sent++
		}
		c.Eval(fmt.Sprint("mask/", m), true)
		if parsed == nil || *parsed != int64(m) {
			c.ImplFail("masks", "ParseEventMask(PrettyString(m)) != m", cs)
		}
		if m == 1 || m == 4097 || m == valid {
			c.Sample(cs, 8)
		}
	}
	c.Count("masks.exhaustive-in-go", int(valid))
	c.Count("masks.sent-to-coq", sent)
	c.Stats.Extra = map[string]interface{}{"masks": fmt.Sprintf("round-trip oracle evaluated in Go on all %d masks; %d of them also evaluated against the Coq model", valid, sent)}

	// free-form parser inputs: names in mixed case, group names, blanks, junk
	r := c.Rand("parse")
	words := []string{"all", "pod", "podsandbox", "container", "RunPodSandbox", "stoppodsandbox", "RemovePodSandbox",
		"CreateContainer", "postcreatecontainer", "StartContainer", "PostStartContainer", "UpdateContainer",
		"PostUpdateContainer", "StopContainer", "RemoveContainer", "UpdatePodSandbox", "PostUpdatePodSandbox",
		" createcontainer", "stopcontainer ", " all", "", "bogus", "pods", "Container ", "unknown(0x2000)"}
	ps := c.NewShard("parse", "From NRI Require Import Run.Common Run.RunC14.", "parse_case", "corr_parse", "", 1024)
	n := c.Pick(400, 4000)
	for i := 0; i < n; i++ {
		var in []string
		for j := 0; j <= r.Intn(3); j++ {
			var parts []string
			for k := 0; k <= r.Intn(4); k++ {
				w := words[r.Intn(len(words))]
				if r.Intn(3) == 0 {
					w = strings.ToUpper(w)
				}
				parts = append(parts, w)
			}
			in = append(in, strings.Join(parts, ","))
		}
		res := optMask(api.ParseEventMask(in...))
		ps.Add(fmt.Sprintf("{| pc_input := %s; pc_result := %s |}", coqfmt.StrList(in), coqfmt.OptZ(res)),
			map[string]interface{}{"input": in, "result": res})
		c.Eval(fmt.Sprint("parse/", in), res != nil)
		if res == nil {
			c.Count("parse.error", 1)
		} else {
			c.Count("parse.ok", 1)
		}
	}
	c.Stats.Exhaustive = true
	c.Stats.Rule = "masks: every mask 1..ValidEvents printed and parsed back by the implementation, round trip judged in Go (exhaustive; each is distinct and non-trivial); compared with the Coq model: all masks (thorough) or all masks with <= 2 bits set, the full mask and 1000 random others (quick); parse: random comma lists of event/group names in mixed case with blanks and junk, non-trivial when the parser accepts"
	return nil
}
