package main

// Core of the C16 driver: one real stub.Stub against one scripted runtime,
// driven through a sequence of Start / Stop / Wait / connection-loss operations.

import (
	"context"
	"errors"
	"net"
	"sync"
	"sync/atomic"
	"time"

	"github.com/containerd/nri/pkg/api"
	"github.com/containerd/nri/pkg/stub"
)

// lifePlugin implements the configuration hook and one event handler (a plugin
// without any event handler is refused by stub.New).
type lifePlugin struct {
	failCfg atomic.Bool
	cfgMask atomic.Int32 // what the Configure hook returns (0 = everything implemented; only event 1 is)
	cfgs    atomic.Int32
	syncs   atomic.Int32

	cfgDelayMs  atomic.Int64 // the Configure hook takes this long
	cfgReturned atomic.Int32 // Configure hooks that have returned
	// the stub, for the handlers to call its exported read-only accessors as a plugin may (set once after stub.New)
	st         atomic.Value // stub.Stub
	accessed   atomic.Int32 // accessor calls that returned
	accessBad  atomic.Value // string: an accessor returned something else than the runtime sent
	wantReqMs  atomic.Int64
	wantRegMs  atomic.Int64
	inAccessor atomic.Int32 // accessor calls under way (a call that never returns stays counted)
}

// readTimeouts does what a plugin may do in any handler: ask the stub for the time-outs the runtime sent.
func (p *lifePlugin) readTimeouts(where string) {
	st, _ := p.st.Load().(stub.Stub)
	if st == nil {
		return
	}
	p.inAccessor.Add(1)
	req, reg := st.RequestTimeout(), st.RegistrationTimeout()
	p.inAccessor.Add(-1)
	p.accessed.Add(1)
	if wq, wg := p.wantReqMs.Load(), p.wantRegMs.Load(); wq > 0 && (req.Milliseconds() != wq || reg.Milliseconds() != wg) {
		p.accessBad.Store(where + ": RequestTimeout()=" + req.String() + " RegistrationTimeout()=" + reg.String())
	}
}

func (p *lifePlugin) Configure(ctx context.Context, config, rt, version string) (api.EventMask, error) {
	p.cfgs.Add(1)
	defer p.cfgReturned.Add(1)
	p.readTimeouts("Configure")
	if d := p.cfgDelayMs.Load(); d > 0 {
		time.Sleep(time.Duration(d) * time.Millisecond)
	}
	if p.failCfg.Load() {
		return 0, errors.New("scripted configuration failure")
	}
	return api.EventMask(p.cfgMask.Load()), nil
}

func (p *lifePlugin) Synchronize(ctx context.Context, pods []*api.PodSandbox, ctrs []*api.Container) ([]*api.ContainerUpdate, error) {
	p.syncs.Add(1)
	p.readTimeouts("Synchronize")
	return nil, nil
}

func (p *lifePlugin) RunPodSandbox(ctx context.Context, pod *api.PodSandbox) error { return nil }

type isStarted interface{ IsStarted() bool }

// rig = runtime + stub + plugin + counters.
type rig struct {
	rt          *runtime
	st          stub.Stub
	pl          *lifePlugin
	closes      atomic.Int32
	unreachable atomic.Bool
	dials       atomic.Int32
	blockBound  time.Duration
}

func newRig() (*rig, error) {
	rt, err := newRuntime("cfg")
	if err != nil {
		return nil, err
	}
	r := &rig{rt: rt, pl: &lifePlugin{}, blockBound: 1500 * time.Millisecond}
	st, err := stub.New(r.pl,
		stub.WithOnClose(func() { r.closes.Add(1) }),
		stub.WithPluginName("life"), stub.WithPluginIdx("00"),
		stub.WithSocketPath(rt.sock),
		stub.WithDialer(func(p string) (net.Conn, error) {
			r.dials.Add(1)
			if r.unreachable.Load() {
				return net.Dial("unix", p+".absent")
			}
			return net.Dial("unix", p)
		}))
	if err != nil {
		rt.close()
		return nil, err
	}
	r.st = st
	r.pl.st.Store(st)
	r.pl.wantReqMs.Store(healthyScript().RequestTimeoutMs)
	r.pl.wantRegMs.Store(healthyScript().RegistrationTimeoutMs)
	return r, nil
}

func (r *rig) close() { r.rt.close() }

// behaviours of the runtime end for one Start
const (
	bHealthy      = "healthy"
	bUnreachable  = "unreachable"
	bRefuse       = "refuse"
	bDropAfterReg = "drop-after-register"
	bDropInCfg    = "drop-during-configure"
	bCfgError     = "configure-error"
)

var allBehaviours = []string{bHealthy, bUnreachable, bRefuse, bDropAfterReg, bDropInCfg, bCfgError}

func (r *rig) setBehaviour(b string) {
	sc := healthyScript()
	r.unreachable.Store(false)
	r.pl.failCfg.Store(false)
	r.pl.cfgMask.Store(0)
	r.pl.cfgDelayMs.Store(0)
	switch b {
	case bUnreachable:
		r.unreachable.Store(true)
	case bRefuse:
		sc.Register = "refuse"
	case bDropAfterReg:
		sc.AfterReg = "drop"
	case bDropInCfg:
		sc.AfterCfg = "drop"
	case bCfgError:
		r.pl.failCfg.Store(true)
	}
	r.rt.setScript(sc)
}

// call runs f in its own goroutine and waits for it up to bound.
type call struct {
	done chan struct{}
	err  error
}

func launch(f func() error) *call {
	c := &call{done: make(chan struct{})}
	go func() {
		c.err = f()
		close(c.done)
	}()
	return c
}

func (c *call) wait(d time.Duration) bool {
	select {
	case <-c.done:
		return true
	case <-time.After(d):
		return false
	}
}

func (c *call) returned() bool {
	select {
	case <-c.done:
		return true
	default:
		return false
	}
}

// startedNow asks IsStarted without risking to hang on a stub whose lock is held for ever.
// Returns "true", "false" or "blocked".
func (r *rig) startedNow(bound time.Duration) string {
	var v bool
	c := launch(func() error { v = r.st.(isStarted).IsStarted(); return nil })
	if !c.wait(bound) {
		return "blocked"
	}
	if v {
		return "true"
	}
	return "false"
}

// settle waits until the number of close call-backs and the started flag have
// been stable for quiet, and at least until want close call-backs were seen
// (or maxWait elapsed).  Returns the started flag ("blocked" when the lock is held).
func (r *rig) settle(want int32, quiet, maxWait time.Duration, locked bool) string {
	if locked {
		time.Sleep(quiet)
		return "blocked"
	}
	deadline := time.Now().Add(maxWait)
	for r.closes.Load() < want && time.Now().Before(deadline) {
		time.Sleep(2 * time.Millisecond)
	}
	lastC, lastS := r.closes.Load(), r.startedNow(r.blockBound)
	stableSince := time.Now()
	for time.Since(stableSince) < quiet {
		time.Sleep(4 * time.Millisecond)
		c, s := r.closes.Load(), r.startedNow(r.blockBound)
		if s == "blocked" {
			return s
		}
		if c != lastC || s != lastS {
			lastC, lastS, stableSince = c, s, time.Now()
		}
	}
	return lastS
}

var _ = sync.Mutex{}
