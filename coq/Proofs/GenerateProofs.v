(* Proofs about Model/Generate.v: the mount order after a mount adjustment. *)
From Coq Require Import String Ascii List Bool ZArith Arith Lia Sorted Permutation.
From NRI Require Import Base.Lists Base.Strs Base.StrOrder Base.Assoc Model.Types Model.Generate.
Import ListNotations.
Open Scope string_scope.
Open Scope list_scope.

(* ---------- the sort ---------- *)
Definition mle (a b : mount) : Prop := mount_less b a = false.

Lemma str_ltb_false_sle a b : str_ltb b a = false <-> sle a b.
Proof.
  unfold str_ltb, sle. rewrite (String.compare_antisym a b).
  destruct (String.compare b a); simpl; split; intros H.
  - discriminate.
  - reflexivity.
  - discriminate.
  - exfalso. apply H. reflexivity.
  - discriminate.
  - reflexivity.
Qed.

Lemma mle_char a b :
  mle a b <-> mount_parts a < mount_parts b \/ (mount_parts a = mount_parts b /\ sle (m_dest a) (m_dest b)).
Proof.
  unfold mle, mount_less.
  destruct (Nat.ltb_spec (mount_parts b) (mount_parts a)) as [H1|H1].
  - split; [discriminate|]. intros [H|[H _]]; lia.
  - destruct (Nat.ltb_spec (mount_parts a) (mount_parts b)) as [H2|H2].
    + split; [intros _; left; exact H2|reflexivity].
    + rewrite str_ltb_false_sle. split.
      * intros H. right. split; [lia|exact H].
      * intros [H|[_ H]]; [lia|exact H].
Qed.

Lemma mle_trans a b c : mle a b -> mle b c -> mle a c.
Proof.
  rewrite !mle_char. intros [H1|[H1 S1]] [H2|[H2 S2]]; try (left; lia).
  right. split; [lia|]. eapply sle_trans; eassumption.
Qed.

Lemma mle_total a b : mle a b \/ mle b a.
Proof.
  rewrite !mle_char. destruct (Nat.lt_total (mount_parts a) (mount_parts b)) as [H|[H|H]].
  - left. left. exact H.
  - destruct (sle_total (m_dest a) (m_dest b)) as [S|S]; [left|right]; right; split; auto.
  - right. left. exact H.
Qed.

Lemma insert_perm m l : Permutation (insert_mount m l) (m :: l).
Proof.
  induction l as [|x r IH]; simpl; [reflexivity|].
  destruct (mount_less m x); [reflexivity|].
  rewrite IH. apply perm_swap.
Qed.

Lemma sort_mounts_perm l : Permutation (sort_mounts l) l.
Proof.
  induction l as [|x r IH]; simpl; [reflexivity|].
  rewrite insert_perm. constructor. exact IH.
Qed.

Lemma insert_sorted m l : StronglySorted mle l -> StronglySorted mle (insert_mount m l).
Proof.
  induction l as [|x r IH]; simpl; intros Hs.
  - constructor; constructor.
  - inversion Hs as [|? ? Hr Hx]; subst.
    destruct (mount_less m x) eqn:E.
    + constructor; [exact Hs|]. constructor.
      * destruct (mle_total m x) as [H|H]; [exact H|]. unfold mle in H. congruence.
      * assert (Hmx : mle m x). { destruct (mle_total m x) as [H|H]; [exact H|]. unfold mle in H. congruence. }
        rewrite Forall_forall in *. intros y Hy. eapply mle_trans; [exact Hmx|apply Hx; exact Hy].
    + constructor; [apply IH; exact Hr|].
      rewrite Forall_forall in *. intros y Hy.
      apply (Permutation_in _ (insert_perm m r)) in Hy. destruct Hy as [<-|Hy]; [exact E|apply Hx; exact Hy].
Qed.

Lemma sort_mounts_sorted l : StronglySorted mle (sort_mounts l).
Proof. induction l as [|x r IH]; simpl; [constructor|apply insert_sorted; exact IH]. Qed.

(* ---------- parents first ---------- *)
Lemma count_char_app c a b : count_char c (a ++ b)%string = count_char c a + count_char c b.
Proof. induction a as [|d r IH]; simpl; [reflexivity|]. rewrite IH. lia. Qed.

Lemma prefix_split p s : String.prefix p s = true -> exists t, s = (p ++ t)%string.
Proof.
  revert s. induction p as [|a r IH]; intros s H; [exists s; reflexivity|].
  destruct s as [|b s']; simpl in H; [discriminate|].
  destruct (Ascii.ascii_dec a b) as [->|]; [|discriminate].
  destruct (IH _ H) as [t ->]. exists t. reflexivity.
Qed.

(* the hypothesis on destinations (OCI: absolute paths); a mount of the root directory is spelled "/" *)
Definition dest_ok (m : mount) : Prop :=
  String.prefix "/" (m_dest m) = true /\ (clean_path (m_dest m) = "/" -> m_dest m = "/").

Lemma parent_less a b : dest_ok a -> dest_ok b -> is_parent (m_dest a) (m_dest b) = true -> mount_less a b = true.
Proof.
  intros [Ha1 Ha2] [Hb1 Hb2]. unfold is_parent. cbv zeta. intros H. apply andb_true_iff in H. destruct H as [Hne Hp].
  apply negb_true_iff in Hne. apply String.eqb_neq in Hne.
  unfold mount_less, mount_parts.
  destruct (String.eqb_spec (clean_path (m_dest a)) "/") as [Er|Er].
  - (* the root directory *)
    rewrite Er in *. specialize (Ha2 eq_refl).
    destruct (prefix_split _ _ Hp) as [t Ht]. rewrite Ht.
    assert (Hc : count_char "/"%char ("/" ++ t)%string = S (count_char "/"%char t)) by reflexivity.
    rewrite Hc. change (count_char "/"%char "/") with 1.
    destruct (Nat.ltb_spec 1 (S (count_char "/"%char t))) as [_|Hle]; [reflexivity|].
    destruct (Nat.ltb_spec (S (count_char "/"%char t)) 1) as [Hlt|_]; [lia|].
    (* tie: "/" is a proper prefix of the other destination *)
    rewrite Ha2. destruct (prefix_split _ _ Hb1) as [u Hu]. rewrite Hu.
    unfold str_ltb. rewrite (compare_prefix_lt "/" u); [reflexivity|].
    intros ->. apply Hne. rewrite Hu. reflexivity.
  - destruct (prefix_split _ _ Hp) as [t Ht]. rewrite Ht, !count_char_app.
    change (count_char "/"%char "/") with 1.
    destruct (Nat.ltb_spec (count_char "/"%char (clean_path (m_dest a)))
                           (count_char "/"%char (clean_path (m_dest a)) + 1 + count_char "/"%char t)) as [_|Hle];
      [reflexivity|lia].
Qed.

Lemma sorted_parents_first l : Forall dest_ok l -> StronglySorted mle l -> parents_first l = true.
Proof.
  induction l as [|m r IH]; intros Hok Hs; [reflexivity|].
  inversion Hs as [|? ? Hr Hm]; subst. inversion Hok as [|? ? Hokm Hokr]; subst.
  cbn [parents_first]. apply andb_true_iff. split; [|apply IH; assumption].
  apply forallb_forall. intros x Hx. apply negb_true_iff.
  destruct (is_parent (m_dest x) (m_dest m)) eqn:E; [|reflexivity]. exfalso.
  rewrite Forall_forall in Hm, Hokr. specialize (Hm x Hx). unfold mle in Hm.
  rewrite (parent_less x m (Hokr x Hx) Hokm E) in Hm. discriminate.
Qed.

(* after any mount adjustment every mount comes after all mounts of its parent directories *)
Theorem gen_mounts_parents_first ms cur :
  ms <> [] -> Forall dest_ok (gen_mounts ms cur) -> parents_first (gen_mounts ms cur) = true.
Proof.
  intros Hne Hok. destruct ms as [|m r]; [contradiction|].
  unfold gen_mounts in *. apply sorted_parents_first; [exact Hok|apply sort_mounts_sorted].
Qed.

(* the result is the same for ANY sort that orders by the same key: a sorted permutation is unique
   when the keys are pairwise distinct; here: the model's sort returns a sorted permutation *)
Theorem gen_mounts_sorted_permutation ms cur :
  ms <> [] ->
  exists unsorted, Permutation (gen_mounts ms cur) unsorted /\ StronglySorted mle (gen_mounts ms cur).
Proof.
  intros Hne. destruct ms as [|m r]; [contradiction|]. unfold gen_mounts.
  eexists. split; [apply sort_mounts_perm|apply sort_mounts_sorted].
Qed.
