(* C13 — applying an adjustment changes exactly what it names, deterministically. *)
From Coq Require Import String List Bool ZArith Sorted Permutation.
From NRI Require Import Base.Strs Base.Assoc Model.Types Model.Generate Spec.Apply Spec.GenSpec
  Proofs.GenerateProofs Proofs.GenRefine Proofs.GenRefine2 Run.RunAdapt.
Import ListNotations.

(* after ANY mount adjustment of ANY mount list, no mount is followed by a mount of one of its parent
   directories — provided destinations are absolute and the root directory is spelled "/" (dest_ok) *)
Theorem C13_mounts_parents_first :
  forall ms cur, ms <> [] -> Forall dest_ok (gen_mounts ms cur) -> parents_first (gen_mounts ms cur) = true.
Proof. exact gen_mounts_parents_first. Qed.
Print Assumptions C13_mounts_parents_first.

(* the order is a sorted permutation for the comparison of orderedMounts.Less (any sort gives it) *)
Theorem C13_mounts_sorted_permutation :
  forall ms cur, ms <> [] ->
    exists unsorted, Permutation (gen_mounts ms cur) unsorted /\ StronglySorted mle (gen_mounts ms cur).
Proof. exact gen_mounts_sorted_permutation. Qed.
Print Assumptions C13_mounts_sorted_permutation.

(* ---------- a concrete spec and an adjustment mixing sets, removals and remove-then-set in every family ---------- *)
Open Scope string_scope.
Open Scope Z_scope.
Definition ex_m d s := {| m_dest := d; m_type := "bind"; m_source := s; m_opts := ["ro"] |}.
Definition ex_d p t mj := {| d_path := p; d_type := t; d_major := mj; d_minor := 1; d_mode := None; d_uid := Some 0; d_gid := None |}.
Definition ex_c : container :=
  {| c_id := "c"; c_ann := [("k1", "v1"); ("k2", "v2")];
     c_mounts := [ex_m "/a" "x"; ex_m "/a/b" "y"; ex_m "/c" "z"];
     c_env := ["A=1"; "B=2"; "C=3"]; c_args := ["sh"]; c_hooks := hooks_empty; c_rlimits := [];
     c_devices := [ex_d "/dev/a" "c" 1; ex_d "/dev/b" "b" 2];
     c_res := {| r_scal := [(MemLimit, VZ 100); (BlockioClass, VS "old"); (CpuShares, VZ 5)];
                 r_hp := [("2M", 1)]; r_uni := [("u", "1")] |};
     c_cgroups := "/cg"; c_oom := Some 1 |}.
Definition ex_s : spec := {| sp_c := ex_c; sp_cdi := ["x"]; sp_rules := [] |}.
Definition ex_a : adjustment :=
  {| a_ann := [("k1", "new"); ("-k1", ""); ("-k2", ""); ("k3", "v3")];
     a_mounts := [ex_m "/a" "new"; ex_m "-/a" ""; ex_m "-/c" ""; ex_m "/a/b/c" "n"];
     a_env := [("A", "9"); ("-A", ""); ("-B", ""); ("D", "4")]; a_args := [""; "ls"]; a_hooks := hooks_empty;
     a_rlimits := [{| rl_type := "NOFILE"; rl_hard := 1; rl_soft := 1 |}]; a_cdi := ["v/c=d"];
     a_devices := [ex_d "/dev/a" "b" 7; ex_d "-/dev/a" "" 0; ex_d "-/dev/b" "" 0; ex_d "/dev/n" "c" 3];
     a_res := {| r_scal := [(MemLimit, VZ 200); (BlockioClass, VS ""); (CpuShares, VZ 9); (Pids, VZ 3); (MemSwap, VZ 1)];
                 r_hp := [("2M", 5); ("1G", 2); ("2M", 6)]; r_uni := [("u", "2"); ("w", "3")] |};
     a_cgroups := "/new"; a_oom := Some 7 |}.
(* the same adjustment with every map and list iterated backwards: each set now precedes "its" removal *)
Definition ex_a' : adjustment :=
  {| a_ann := rev (a_ann ex_a); a_mounts := rev (a_mounts ex_a); a_env := rev (a_env ex_a); a_args := a_args ex_a;
     a_hooks := a_hooks ex_a; a_rlimits := a_rlimits ex_a; a_cdi := a_cdi ex_a; a_devices := rev (a_devices ex_a);
     a_res := {| r_scal := r_scal (a_res ex_a); r_hp := r_hp (a_res ex_a); r_uni := rev (r_uni (a_res ex_a)) |};
     a_cgroups := a_cgroups ex_a; a_oom := a_oom ex_a |}.
Close Scope Z_scope.
Close Scope string_scope.

(* (a) For every spec and every adjustment that is well formed (wf_gen, Spec/GenSpec.v: no key set twice in
   the mounts / environment / device lists, settable variable names, the scalars a record; the spec's
   environment entries "key=value" or bare "key" with distinct non-empty keys, distinct mount destinations, device paths
   and hugepage sizes) the generator's result is observably the reference semantics apply_adj of the
   adjustment: what is marked is removed, what is given is set, a set wins over a removal of the same key,
   everything else is untouched, every requested CPU / memory-limit / hugepage / unified / pids /
   cgroups-path / OOM / args / hooks / rlimits value is present; the CDI names are handed on; every device
   that is set has its allow rule; mounts come after the mounts of their parent directories (destinations
   absolute, the root directory spelled "/": dest_ok). *)
Theorem C13_refines_apply :
  forall s a, wf_gen s a = true ->
    obs_eqb (sp_c (gen_adjust a s)) (apply_adj (cleared_classes a (sp_c s)) (gen_view a)) = true /\
    sp_cdi (gen_adjust a s) = sp_cdi s ++ a_cdi a /\
    dev_rules_ok (a_devices a) (sp_rules (gen_adjust a s)) = true /\
    (a_mounts a <> [] -> Forall dest_ok (c_mounts (sp_c s)) -> Forall dest_ok (r_adds m_dest (a_mounts a)) ->
     parents_first (c_mounts (sp_c (gen_adjust a s))) = true).
Proof. exact gen_refines. Qed.
Print Assumptions C13_refines_apply.

Example C13_refines_apply_example :
  wf_gen ex_s ex_a = true /\
  c_env (sp_c (gen_adjust ex_a ex_s)) = ["A=9"; "C=3"; "D=4"]%string /\
  c_ann (sp_c (gen_adjust ex_a ex_s)) = [("k1", "new"); ("k3", "v3")]%string.
Proof. vm_compute. repeat split. Qed.

(* the environment as a LIST: the existing entries in their order, an entry that is set replaced in place,
   one that is removed dropped, every other one — "key=value" or a bare "key" without '=' — untouched at its
   position; then the new variables in the order of the adjustment (env_expected, Spec/GenSpec.v).  In
   particular the entries the adjustment does not name are the same entries in the same relative order. *)
Theorem C13_env_exact :
  forall s a, wf_gen s a = true ->
    c_env (sp_c (gen_adjust a s)) = env_expected (a_env a) (c_env (sp_c s)) /\
    filter (env_unnamed (a_env a)) (c_env (sp_c (gen_adjust a s))) = filter (env_unnamed (a_env a)) (c_env (sp_c s)).
Proof. exact gen_env_exact_b. Qed.
Print Assumptions C13_env_exact.

(* non-vacuity of the widened W3: existing entries without '=' — one untouched, one set, one removed *)
Example C13_env_bare_entries_example :
  let c := {| c_id := "c"; c_ann := []; c_mounts := []; c_env := ["A=1"; "FOO"; "B=2"; "BAR"; "BAZ"; "C="]%string;
              c_args := []; c_hooks := hooks_empty; c_rlimits := []; c_devices := []; c_res := res_empty;
              c_cgroups := ""%string; c_oom := None |} in
  let s := {| sp_c := c; sp_cdi := []; sp_rules := [] |} in
  let a := Result.with_a_env adj_empty [("BAR", "x"); ("-BAZ", ""); ("-A", ""); ("N", "n")]%string in
  wf_gen s a = true /\
  c_env (sp_c (gen_adjust a s)) = ["FOO"; "B=2"; "BAR=x"; "C="; "N=n"]%string /\
  obs_eqb (sp_c (gen_adjust a s)) (apply_adj (cleared_classes a (sp_c s)) (gen_view a)) = true.
Proof. vm_compute. repeat split. Qed.

(* the run-time predicate holds_C13 (Run/RunAdapt.v), which ./check evaluates on the REAL generator's
   result for every generated case, is true of the MODEL's result for ALL well-formed inputs *)
Theorem C13_model_holds :
  forall s a, wf_gen s a = true -> Forall dest_ok (c_mounts (sp_c s)) -> Forall dest_ok (r_adds m_dest (a_mounts a)) ->
    holds_C13 {| gc_spec := s; gc_adjust := a; gc_out := gen_adjust a s; gc_deterministic := true |} = true.
Proof. exact gen_holds_C13. Qed.
Print Assumptions C13_model_holds.

Example C13_model_holds_example :
  wf_gen ex_s ex_a = true /\ Forall dest_ok (c_mounts (sp_c ex_s)) /\ Forall dest_ok (r_adds m_dest (a_mounts ex_a)).
Proof.
  split; [vm_compute; reflexivity|].
  split; vm_compute r_adds; repeat constructor; intros H; vm_compute in H; discriminate.
Qed.

(* (b) Every internal iteration order: permuting the annotation and the unified map (Go map iteration)
   and the mounts / environment / device lists (sets and removals alike, so also a set and a removal of
   the same key in either order) changes nothing observable, and the mount LIST is the same list.
   wf_maps: the two maps have distinct keys (they are Go maps). *)
Theorem C13_order_independent :
  forall s a a', wf_gen s a = true -> wf_maps a = true -> adj_perm a a' ->
    obs_eqb (sp_c (gen_adjust a s)) (sp_c (gen_adjust a' s)) = true /\
    c_mounts (sp_c (gen_adjust a s)) = c_mounts (sp_c (gen_adjust a' s)) /\
    sp_cdi (gen_adjust a s) = sp_cdi (gen_adjust a' s).
Proof. exact gen_order_independent. Qed.
Print Assumptions C13_order_independent.

Example C13_order_independent_example :
  wf_gen ex_s ex_a = true /\ wf_maps ex_a = true /\ adj_perm ex_a ex_a' /\ a_env ex_a' <> a_env ex_a.
Proof.
  split; [vm_compute; reflexivity|]. split; [vm_compute; reflexivity|]. split.
  - constructor; try reflexivity.
    + exact (Permutation_rev (a_ann ex_a)).
    + exact (Permutation_rev (a_mounts ex_a)).
    + exact (Permutation_rev (a_env ex_a)).
    + exact (Permutation_rev (a_devices ex_a)).
    + exact (Permutation_rev (r_uni (a_res ex_a))).
  - vm_compute. discriminate.
Qed.

(* (c) Frame: a key that no entry of the adjustment names (neither as a set nor as a removal) keeps its
   value, family by family; the swap limit follows the memory limit, so it is framed only when the
   adjustment names neither. *)
Theorem C13_frame :
  forall s a, wf_gen s a = true ->
    let c := sp_c s in let c' := sp_c (gen_adjust a s) in
    (forall k, ~ In k (named fst (a_ann a)) -> kfind fst k (c_ann c') = kfind fst k (c_ann c)) /\
    (forall k, ~ In k (named m_dest (a_mounts a)) -> kfind m_dest k (c_mounts c') = kfind m_dest k (c_mounts c)) /\
    (forall k, ~ In k (named fst (a_env a)) -> kfind ref_env_key k (c_env c') = kfind ref_env_key k (c_env c)) /\
    (forall k, ~ In k (named d_path (a_devices a)) -> kfind d_path k (c_devices c') = kfind d_path k (c_devices c)) /\
    (forall f, ~ In f (map fst (r_scal (a_res a))) -> (f = MemSwap -> ~ In MemLimit (map fst (r_scal (a_res a)))) ->
               flookup f (r_scal (c_res c')) = flookup f (r_scal (c_res c))) /\
    (forall k, ~ In k (map fst (r_hp (a_res a))) -> kfind fst k (rev (r_hp (c_res c'))) = kfind fst k (rev (r_hp (c_res c)))) /\
    (forall k, ~ In k (map fst (r_uni (a_res a))) -> kfind fst k (r_uni (c_res c')) = kfind fst k (r_uni (c_res c))) /\
    (a_args a = [] -> c_args c' = c_args c) /\
    (a_cgroups a = ""%string -> c_cgroups c' = c_cgroups c) /\
    (a_oom a = None -> c_oom c' = c_oom c).
Proof. exact gen_frame_b. Qed.
Print Assumptions C13_frame.

Example C13_frame_example :
  wf_gen ex_s ex_a = true /\ ~ In "C"%string (named fst (a_env ex_a)) /\
  kfind ref_env_key "C"%string (c_env (sp_c (gen_adjust ex_a ex_s))) = Some "C=3"%string.
Proof.
  split; [vm_compute; reflexivity|]. split; [|vm_compute; reflexivity].
  vm_compute. intros H. repeat (destruct H as [H|H]; [discriminate|]). exact H.
Qed.
