#!/bin/sh
# Builds the framework from files on disk only (offline): Go harness (from /repo's tree), generated Coq
# files, full .vo build of the Coq development.
set -e
cd "$(dirname "$0")"
export GOFLAGS=-mod=mod GOPROXY=off GOSUMDB=off GOTOOLCHAIN=local
python3 - <<'PY'
import sys, os
sys.path.insert(0, "lib")
import vcheck
import props
vcheck.regen_generated(vcheck.all_generated())
vcheck.build_go(sorted(set(b for P in props.PROPS.values() for b in vcheck.binaries_of(P))))
vcheck.ensure_makefile()
ok, log = vcheck.make_targets([], timeout=7200)
print(log[-3000:])
if not ok:
    # a slice that does not compile fails its own check (each check rebuilds its cone); setup goes on
    ok2, log2 = vcheck.make_targets(["-k"], timeout=7200)
    print("setup: some Coq targets failed; continuing")
sys.exit(0)
PY
