#!/usr/bin/env python3
"""lib/benigntrial.py DIR PROP [PROP...] — runs checks against a HARMLESS change (DIR holds patch.diff and
meta.json: a behaviour-preserving rewrite written by an independent sub-agent) in an isolated sandbox (never
touches /repo).  Expected: the patch builds, the suite passes and every named check exits 0.  Prints one
JSON object: patch_applies, builds, suite_pass and per property the check's exit code and verdict lines."""
import json, os, shutil, subprocess, sys, tempfile

def sh(cmd, cwd, timeout=1800):
    env = dict(os.environ, GOFLAGS="-mod=mod", GOPROXY="off", GOSUMDB="off", GOTOOLCHAIN="local")
    p = subprocess.run(cmd, cwd=cwd, shell=True, env=env, stdout=subprocess.PIPE, stderr=subprocess.STDOUT, text=True, timeout=timeout)
    return p.returncode, p.stdout

d = os.path.abspath(sys.argv[1]); props = sys.argv[2:]
meta = json.load(open(os.path.join(d, "meta.json")))
box = tempfile.mkdtemp(prefix="benign-", dir="/tmp")
res = {"change": d, "kind": meta.get("kind"), "summary": meta.get("summary")}
try:
    sh("/verif/lib/sandbox.sh %s" % box, "/")
    repo, verif = box + "/repo", box + "/verif"
    rc, out = sh("git init -q . 2>/dev/null; patch -p1 -s < %s/patch.diff" % d, repo)
    res["patch_applies"] = rc == 0
    if rc != 0: res["patch_out"] = out[-500:]
    rc, out = sh("go build ./... ", repo); res["builds"] = rc == 0
    ok = True
    for m in (".", "plugins/device-injector", "plugins/ulimit-adjuster"):
        rc, out = sh("go test -vet=off -count=1 ./... 2>&1 | grep -v 'no test files' | tail -5", os.path.join(repo, m))
        if "FAIL" in out or rc != 0: ok = False; res["suite_out"] = out[-600:]
    res["suite_pass"] = ok
    res["checks"] = {}
    for p in props:
        rc, out = sh("VERIF_REPO=%s ./check %s --tier quick" % (repo, p), verif, timeout=3600)
        lines = [l for l in out.splitlines() if l.startswith(("VIOLATION", "OK", "FAIL", "HARNESS", "KNOWN"))]
        res["checks"][p] = {"rc": rc, "lines": lines[-4:]}
        rp = [l.split("replay=")[1].split()[0] for l in lines if "replay=" in l]
        if rp and os.path.exists(rp[0]):
            res["checks"][p]["replay_head"] = open(rp[0]).read()[:1500]
finally:
    shutil.rmtree(box, ignore_errors=True)
print(json.dumps(res, indent=1))
