(* C01 — two plugins setting the same container item is always flagged as a conflict.
   Only statements here; proofs are in Proofs/. *)
From Coq Require Import String List Bool.
From NRI Require Import Model.Types Model.Result Spec.AbsLedger Proofs.LedgerProofs.
Import ListNotations.

(* The abstract ledger (interpretation I1): if a group (adjustment or update of one plugin) claims a key,
   a later group claims the same key, neither is an ignore-failure update, and no group after the first
   up to and including the later one marks the key for removal, the history is a conflict — whatever
   else any plugin does, for any number of plugins, any key kind, any target container. *)
Theorem C01_abs_collision_conflicts :
  forall k pre1 g1 pre g2 post o d,
    g_ignorable g1 = false -> g_ignorable g2 = false ->
    In k (g_claims g1) -> In k (g_claims g2) ->
    (forall g, In g (pre ++ [g2]) -> ~ In k (g_releases g)) ->
    abs_run (pre1 ++ g1 :: pre ++ g2 :: post) o d = None.
Proof. exact abs_collision_conflicts. Qed.
Print Assumptions C01_abs_collision_conflicts.

(* non-vacuity: two plugins both setting annotation "k" of container "c" *)
Example C01_example :
  abs_conflict (Some "c"%string)
    [ {| rp_adjust := Some (with_a_ann adj_empty [("k", "A")]%string); rp_updates := [] |};
      {| rp_adjust := Some (with_a_ann adj_empty [("k", "B")]%string); rp_updates := [] |} ] = true.
Proof. reflexivity. Qed.
