package main

import (
	"encoding/binary"
	"errors"
	"io"
	"net"
	"os"
	"sync"
	"syscall"
	"time"
)

var errCut = errors.New("harness: trunk cut")

// cutError is what a failing trunk.Write returns when the scenario asks for an error that implements
// net.Error: a write deadline that expired (Timeout) or a transient condition (Temporary).  For the Mux a
// partial write is fatal whatever the type of the error.
type cutError struct {
	timeout, temporary bool
}

func (e *cutError) Error() string {
	if e.timeout {
		return "harness: trunk write: i/o timeout"
	}
	return "harness: trunk write: temporarily unavailable"
}
func (e *cutError) Timeout() bool   { return e.timeout }
func (e *cutError) Temporary() bool { return e.temporary }

var _ net.Error = (*cutError)(nil)

// recConn is the trunk handed to a Mux: it records every byte that really went
// out (tee of the trunk), optionally fails after a byte budget (a trunk cut at an
// exact byte offset), makes the in-memory pipe report a locally closed connection
// the way a socket does (net.ErrClosed instead of io.ErrClosedPipe), and lets the
// harness see when the Mux closes its trunk.
//
// A cut fails the outgoing direction only, the way a trunk truncated on its way to the
// peer does: the Write that crosses the budget returns (n, error) with the n bytes that
// still went out.  When n != 0 the Mux has to latch the error and close the trunk
// itself — that is what ends the peer's input; the wrapper does nothing more, so that a
// Mux that fails to close shows.  When n == 0 the Mux stays open by design and the
// wrapper shuts the write direction down (shutdown(SHUT_WR)) so that the peer sees the
// stream end at that offset.  The local reader is never woken by the wrapper: which
// error gets latched does not depend on a race between it and the failing Write.
type recConn struct {
	net.Conn
	mu      sync.Mutex
	log     []byte
	budget  int // bytes that may still be written; <0 = unlimited
	broken  bool
	keep    bool // keep the bytes (false: only count them)
	count   int
	once    sync.Once
	closedC chan struct{} // closed when the Mux calls Close on its trunk
	bigOnce sync.Once
	bigC    chan struct{} // closed when the first Write of a MiB or more starts
	// cutErr: "" = errCut, and the outgoing direction is down for good.  "timeout" / "temporary" = a net.Error of
	// that kind, and the failure is transient (an expired write deadline, the peer drains again): the ONE trunk.Write
	// call that crosses the budget returns (n, error) — n may be 0 — and every later call goes through.  A Mux that has
	// not closed itself although a frame is half out (partial header or payload, or a payload that failed with n = 0
	// after its header) then sends the next frames into a stream that has lost frame synchronisation
	cutErr string
	// rdFailAt >= 0: the Read that would start at this offset of the INCOMING stream returns
	// (0, os.ErrDeadlineExceeded) once — a net.Error with Timeout(), an expired read deadline — and the trunk carries
	// on afterwards; reads before it never cross the offset.  -1: never.
	rdFailAt int
	rdCount  int
	rdFailed bool
	rdMu     sync.Mutex
	// framing of what went out so far (the wrapper has to know whether a failure falls between two frames)
	hdr  []byte // bytes of an incomplete frame header
	need int    // payload bytes of the current frame still to come
}

// track follows the frames in the bytes that went out.
func (r *recConn) track(b []byte) {
	for len(b) > 0 {
		if r.need == 0 {
			take := 8 - len(r.hdr)
			if take > len(b) {
				take = len(b)
			}
			r.hdr = append(r.hdr, b[:take]...)
			b = b[take:]
			if len(r.hdr) == 8 {
				r.need = int(binary.BigEndian.Uint32(r.hdr[4:]))
				r.hdr = r.hdr[:0]
			}
			continue
		}
		take := r.need
		if take > len(b) {
			take = len(b)
		}
		r.need -= take
		b = b[take:]
	}
}

// midFrame: part of a frame is out (header bytes, or a header whose payload is not complete).  A failure
// there has to make the Mux close itself — the wrapper leaves the trunk alone, so that which error gets latched
// does not depend on a race with the peer's reaction, and a Mux that does not close shows (the peer's input
// never ends).  A failure between two frames leaves the Mux open by design: then the wrapper ends the peer's input.
func (r *recConn) midFrame() bool { return r.need > 0 || len(r.hdr) > 0 }

func newRec(c net.Conn, budget int) *recConn { return newRecErr(c, budget, "") }

func newRecErr(c net.Conn, budget int, cutErr string) *recConn {
	r := &recConn{Conn: c, budget: budget, keep: true, closedC: make(chan struct{}), bigC: make(chan struct{}), cutErr: cutErr, rdFailAt: -1}
	if budget == 0 && cutErr == "" {
		// nothing may be written at all: the outgoing direction is already down
		r.broken = true
		r.halfClose()
	}
	return r
}

func (r *recConn) failure() error {
	switch r.cutErr {
	case "timeout":
		return &cutError{timeout: true, temporary: true}
	case "temporary":
		return &cutError{temporary: true}
	}
	return errCut
}

func (r *recConn) halfClose() {
	if hc, ok := r.Conn.(interface{ CloseWrite() error }); ok {
		hc.CloseWrite()
		return
	}
	r.Conn.Close()
}

// Close is what the Mux calls; the harness closes the embedded transport directly.
func (r *recConn) Close() error {
	r.once.Do(func() { close(r.closedC) })
	return r.Conn.Close()
}

// Write holds the lock across the inner Write: one trunk.Write call is atomic on a
// socket anyway (the fd write lock), so this adds no ordering the Mux does not
// already get, and the log is in wire order.
func (r *recConn) Write(p []byte) (int, error) {
	if len(p) >= 1<<20 {
		r.bigOnce.Do(func() { close(r.bigC) })
	}
	r.mu.Lock()
	defer r.mu.Unlock()
	if r.broken {
		if len(p) == 0 {
			return 0, nil // nothing to send: the empty payload of a frame whose header just fitted
		}
		return 0, r.failure()
	}
	if r.budget >= 0 && len(p) > r.budget {
		n := 0
		if r.budget > 0 {
			n, _ = r.Conn.Write(p[:r.budget])
		}
		r.record(p[:n])
		r.budget -= n
		if r.cutErr != "" {
			r.budget = -1 // a stall, not a cut: the trunk takes bytes again
			return n, r.failure()
		}
		r.broken = true
		if n == 0 && !r.midFrame() {
			r.halfClose()
		}
		return n, r.failure()
	}
	n, err := r.Conn.Write(p)
	r.record(p[:n])
	if r.budget >= 0 {
		r.budget -= n
		if r.budget == 0 && r.cutErr == "" {
			r.broken = true
			if !r.midFrame() {
				r.halfClose()
			}
		}
	}
	return n, err
}

func (r *recConn) record(p []byte) {
	r.track(p)
	r.count += len(p)
	if r.keep {
		r.log = append(r.log, p...)
	}
}

func (r *recConn) Read(p []byte) (int, error) {
	r.rdMu.Lock()
	if r.rdFailAt >= 0 && !r.rdFailed {
		if r.rdCount == r.rdFailAt && len(p) > 0 {
			r.rdFailed = true
			r.rdMu.Unlock()
			return 0, os.ErrDeadlineExceeded
		}
		if left := r.rdFailAt - r.rdCount; len(p) > left {
			p = p[:left]
		}
	}
	r.rdMu.Unlock()
	n, err := r.Conn.Read(p)
	r.rdMu.Lock()
	r.rdCount += n
	r.rdMu.Unlock()
	if err == io.ErrClosedPipe {
		err = net.ErrClosed
	}
	return n, err
}

func (r *recConn) Log() []byte {
	r.mu.Lock()
	defer r.mu.Unlock()
	return append([]byte(nil), r.log...)
}

// connPair returns the two ends of a fresh transport.
func connPair(transport string) (net.Conn, net.Conn, error) {
	switch transport {
	case "pipe":
		a, b := memPipe()
		return a, b, nil
	case "unix":
		fds, err := syscall.Socketpair(syscall.AF_UNIX, syscall.SOCK_STREAM|syscall.SOCK_CLOEXEC, 0)
		if err != nil {
			return nil, nil, err
		}
		var cs [2]net.Conn
		for i := 0; i < 2; i++ {
			f := os.NewFile(uintptr(fds[i]), "socketpair")
			c, err := net.FileConn(f)
			f.Close()
			if err != nil {
				if cs[0] != nil {
					cs[0].Close()
				}
				if i == 0 {
					syscall.Close(fds[1])
				}
				return nil, nil, err
			}
			cs[i] = c
		}
		return cs[0], cs[1], nil
	}
	return nil, nil, errors.New("unknown transport " + transport)
}

// memConn is one end of a synchronous in-memory duplex connection (two io.Pipes).  It behaves
// like net.Pipe — a Write returns when the other end has consumed the bytes — and can in
// addition shut down its outgoing direction alone, like a socket.
type memConn struct {
	r *io.PipeReader
	w *io.PipeWriter
}

type memAddr struct{}

func (memAddr) Network() string { return "mem" }
func (memAddr) String() string  { return "mem" }

func memPipe() (net.Conn, net.Conn) {
	r1, w1 := io.Pipe()
	r2, w2 := io.Pipe()
	return &memConn{r1, w2}, &memConn{r2, w1}
}

func (c *memConn) Read(b []byte) (int, error) { return c.r.Read(b) }
func (c *memConn) Write(b []byte) (int, error) {
	if len(b) == 0 {
		// io.Pipe makes even an empty Write wait for a Read; a socket does not (the Mux writes the
		// empty payload of an empty frame as a Write call of its own)
		return 0, nil
	}
	return c.w.Write(b)
}
func (c *memConn) CloseWrite() error                { return c.w.Close() }
func (c *memConn) Close() error                     { c.w.Close(); return c.r.Close() }
func (c *memConn) LocalAddr() net.Addr              { return memAddr{} }
func (c *memConn) RemoteAddr() net.Addr             { return memAddr{} }
func (c *memConn) SetDeadline(time.Time) error      { return nil }
func (c *memConn) SetReadDeadline(time.Time) error  { return nil }
func (c *memConn) SetWriteDeadline(time.Time) error { return nil }
