(* Predicates used in the statements of C10 and C11 (definitions only, no proofs). *)
From Coq Require Import List Bool NArith.
From NRI Require Import Model.MuxConsts Model.Mux.
Import ListNotations.
Open Scope N_scope.

(* a is an initial segment of b; on lists of frames this is the frame-wise prefix:
   no gap, no duplicate, no damaged frame *)
Definition prefix {A} (a b : list A) : Prop := exists c, b = a ++ c.

(* the maximum frame payload is positive and fits the 32-bit length field *)
Definition wf_mp (mp : N) : bool := (0 <? mp) && (mp <? 4294967296).
(* connection ids are uint32 *)
Definition wf_writes (ws : list write) : bool := forallb (fun w => fst w <? 4294967296) ws.
(* each id is opened once *)
Fixpoint nodupN (l : list N) : bool :=
  match l with [] => true | x :: r => negb (memN x r) && nodupN r end.

(* a frame that the 8-byte header can describe *)
Definition wf_frame (f : frame) : Prop := fst f < 4294967296 /\ lenN (snd f) < 4294967296.

(* the shape of what one Write puts on the trunk *)
Definition chunked (mp id : N) (data : bytes) (fs : list frame) : Prop :=
  concat (map snd fs) = data /\
  Forall (fun f => fst f = id /\ lenN (snd f) <= mp) fs /\
  fs <> [] /\
  (* every frame but the last is full; the last is non-empty unless the buffer is empty *)
  (forall pre f post, fs = pre ++ f :: post -> post <> [] -> lenN (snd f) = mp) /\
  (forall pre f, fs = pre ++ [f] -> snd f = [] -> data = []).

(* the connection is still open at this end *)
Definition conn_open (id : N) (s : mux_st) : bool :=
  match find_conn id (m_conns s) with Some c => negb (c_closed c) | None => false end.

(* the Write calls that returned without error, in order *)
Definition ok_writes (tr : list (event * result)) : list write :=
  flat_map (fun eo => match eo with (EvWrite id buf _, ROk) => [(id, buf)] | _ => [] end) tr.

(* a Read call, with the default or an explicit buffer *)
Definition is_read (e : event) : bool :=
  match e with EvRead _ _ | EvReadB _ _ _ _ => true | _ => false end.

(* every explicit read buffer is a Go slice: its length does not exceed its capacity *)
Definition bufs_ok (evs : list event) : bool :=
  forallb (fun e => match e with EvReadB _ _ bl bc => bl <=? bc | _ => true end) evs.
(* no Read of the trace was handed a buffer shorter than the frame it took *)
Definition no_enomem (tr : list (event * result)) : bool :=
  forallb (fun eo => match snd eo with RBuf _ RONoMem => false | _ => true end) tr.

(* the schedule does not (re-)open this id *)
Definition no_open_of (id : N) (evs : list event) : bool :=
  forallb (fun e => match e with EvOpen i => negb (i =? id) | _ => true end) evs.

(* no transient trunk failure: a trunk that has failed stays down *)
Definition no_recovery (evs : list event) : bool :=
  forallb (fun e => match e with EvTrunkUp => false | _ => true end) evs.
(* the frames of every Write that was attempted (successful or not), in the order of the attempts *)
Definition attempted_frames (mp : N) (tr : list (event * result)) : list frame :=
  flat_map (fun eo => match fst eo with EvWrite id buf _ => enc_frames_mp mp id buf | _ => [] end) tr.

Fixpoint only_closes (evs : list event) : bool :=
  match evs with [] => true | EvClose :: r => only_closes r | _ :: _ => false end.

Definition is_accept (e : lev) : bool := match e with LAccept => true | LClose => false end.
Definition is_close (e : lev) : bool := match e with LClose => true | LAccept => false end.
