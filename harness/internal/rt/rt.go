// Package rt runs a real adaptation.Adaptation on a unix socket in a scratch
// directory together with a pool of in-process plugins built on the real stub,
// whose answers are scripted per container id.
package rt

import (
	"context"
	"fmt"
	"io"
	"os"
	"path/filepath"
	"sync"
	"time"

	"github.com/sirupsen/logrus"

	"github.com/containerd/nri/pkg/adaptation"
	"github.com/containerd/nri/pkg/api"
	"github.com/containerd/nri/pkg/stub"
)

func init() {
	logrus.SetOutput(io.Discard)
	logrus.SetLevel(logrus.PanicLevel)
}

// Runtime wraps one Adaptation.
type Runtime struct {
	Dir      string
	A        *adaptation.Adaptation
	Plugins  []*Plugin
	UpdateFn func([]*api.ContainerUpdate) ([]*api.ContainerUpdate, error)
	mu       sync.Mutex
}

// Answer is what a scripted plugin returns for one container id.
type Answer struct {
	Adjust  *api.ContainerAdjustment
	Updates []*api.ContainerUpdate
	Err     error
}

// Seen records what a plugin was shown.
type Seen struct {
	Container *api.Container
	Resources *api.LinuxResources
}

// Plugin is an in-process plugin on the real stub.
type Plugin struct {
	Idx, Base string
	Events    []string // subscription answered in Configure (nil: the four requests of this driver)
	Stub      stub.Stub
	mu        sync.Mutex
	script    map[string]Answer
	seen      map[string]Seen
	probes    map[string]int
	closed    chan struct{}
}

// Name is idx-base.
func (p *Plugin) Name() string { return p.Idx + "-" + p.Base }

// Script installs the answer for a container id.
func (p *Plugin) Script(id string, a Answer) {
	p.mu.Lock()
	p.script[id] = a
	p.mu.Unlock()
}

// TakeSeen returns and forgets what was shown for a container id.
func (p *Plugin) TakeSeen(id string) (Seen, bool) {
	p.mu.Lock()
	defer p.mu.Unlock()
	s, ok := p.seen[id]
	delete(p.seen, id)
	delete(p.script, id)
	return s, ok
}

func (p *Plugin) answer(id string, s Seen) Answer {
	p.mu.Lock()
	defer p.mu.Unlock()
	a, ok := p.script[id]
	if ok {
		p.seen[id] = s
	}
	return a
}

// handler types: only these three requests plus RunPodSandbox (activation probe)
type handler struct{ p *Plugin }

func (h *handler) Configure(ctx context.Context, config, runtime, version string) (api.EventMask, error) {
	if h.p.Events != nil {
		return api.MustParseEventMask(h.p.Events...), nil
	}
	return api.MustParseEventMask("RunPodSandbox", "CreateContainer", "UpdateContainer", "StopContainer"), nil
}
func (h *handler) Synchronize(ctx context.Context, pods []*api.PodSandbox, ctrs []*api.Container) ([]*api.ContainerUpdate, error) {
	return nil, nil
}
func (h *handler) RunPodSandbox(ctx context.Context, pod *api.PodSandbox) error {
	h.p.mu.Lock()
	h.p.probes[pod.GetId()]++
	h.p.mu.Unlock()
	return nil
}
func (h *handler) CreateContainer(ctx context.Context, pod *api.PodSandbox, c *api.Container) (*api.ContainerAdjustment, []*api.ContainerUpdate, error) {
	a := h.p.answer(c.GetId(), Seen{Container: c})
	return a.Adjust, a.Updates, a.Err
}
func (h *handler) UpdateContainer(ctx context.Context, pod *api.PodSandbox, c *api.Container, r *api.LinuxResources) ([]*api.ContainerUpdate, error) {
	a := h.p.answer(c.GetId(), Seen{Container: c, Resources: r})
	return a.Updates, a.Err
}
func (h *handler) StopContainer(ctx context.Context, pod *api.PodSandbox, c *api.Container) ([]*api.ContainerUpdate, error) {
	a := h.p.answer(c.GetId(), Seen{Container: c})
	return a.Updates, a.Err
}

// New starts an Adaptation in a fresh scratch directory below base.
func New(base string, opts ...adaptation.Option) (*Runtime, error) {
	dir, err := os.MkdirTemp(base, "rt")
	if err != nil {
		return nil, err
	}
	r := &Runtime{Dir: dir}
	plugdir := filepath.Join(dir, "plugins")
	if err := os.MkdirAll(plugdir, 0o755); err != nil {
		return nil, err
	}
	syncFn := func(ctx context.Context, cb adaptation.SyncCB) error {
		_, err := cb(ctx, nil, nil)
		return err
	}
	updateFn := func(ctx context.Context, us []*api.ContainerUpdate) ([]*api.ContainerUpdate, error) {
		if r.UpdateFn != nil {
			return r.UpdateFn(us)
		}
		return nil, nil
	}
	all := append([]adaptation.Option{
		adaptation.WithPluginPath(plugdir),
		adaptation.WithPluginConfigPath(filepath.Join(dir, "conf.d")),
		adaptation.WithSocketPath(filepath.Join(dir, "nri.sock")),
	}, opts...)
	a, err := adaptation.New("verif-runtime", "1.0", syncFn, updateFn, all...)
	if err != nil {
		return nil, err
	}
	if err := a.Start(); err != nil {
		return nil, err
	}
	r.A = a
	return r, nil
}

// AddPlugin registers a scripted plugin and waits until it is active.
func (r *Runtime) AddPlugin(idx, base string, events ...string) (*Plugin, error) {
	p := &Plugin{Idx: idx, Base: base, Events: events, script: map[string]Answer{}, seen: map[string]Seen{}, probes: map[string]int{}, closed: make(chan struct{})}
	st, err := stub.New(&handler{p: p},
		stub.WithPluginName(base), stub.WithPluginIdx(idx),
		stub.WithSocketPath(filepath.Join(r.Dir, "nri.sock")),
		stub.WithOnClose(func() {
			select {
			case <-p.closed:
			default:
				close(p.closed)
			}
		}))
	if err != nil {
		return nil, err
	}
	p.Stub = st
	if err := st.Start(context.Background()); err != nil {
		return nil, fmt.Errorf("plugin %s: %w", p.Name(), err)
	}
	// activation happens after Configure returned: probe until the plugin is invoked
	deadline := time.Now().Add(60 * time.Second)
	for n := 0; ; n++ {
		id := fmt.Sprintf("probe-%s-%d", p.Name(), n)
		if err := r.A.RunPodSandbox(context.Background(), &api.StateChangeEvent{Pod: &api.PodSandbox{Id: id}}); err != nil {
			return nil, err
		}
		p.mu.Lock()
		got := p.probes[id]
		p.mu.Unlock()
		if got > 0 {
			break
		}
		if time.Now().After(deadline) {
			return nil, fmt.Errorf("plugin %s did not become active", p.Name())
		}
		time.Sleep(2 * time.Millisecond)
	}
	r.mu.Lock()
	r.Plugins = append(r.Plugins, p)
	r.mu.Unlock()
	return p, nil
}

// Close stops everything and removes the scratch directory.
func (r *Runtime) Close() {
	for _, p := range r.Plugins {
		p.Stub.Stop()
	}
	if r.A != nil {
		r.A.Stop()
	}
	os.RemoveAll(r.Dir)
}
