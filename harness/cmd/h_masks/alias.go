package main

// Driver "alias": LinuxResources.Copy.
//
// (1) Value part — cases for Coq (stream "copy"): the input and the observed
//     copy; the model's copy and the predicate copy_ok are evaluated there.
// (2) "Share no state" — a RUN-TIME TEST on the implementation, not a proof (a
//     pure model has no aliasing): for Copy, for both resource conversions and
//     for every conversion whose result is promised to be independent
//     (DupStringSlice / DupStringMap users, optional constructors and Get),
//     a reflection walk (a) collects the addresses of every pointer, map and
//     slice backing array reachable from source and result and requires the
//     two sets to be disjoint, (b) mutates every reachable map entry, slice
//     element and pointed-to scalar of the result and re-compares the source
//     with a snapshot taken before, (c) the same with the roles swapped.
//     Failures are reported with c.ImplFail (stream "alias").

import (
	"encoding/json"
	"fmt"
	"os"
	"reflect"

	rspec "github.com/opencontainers/runtime-spec/specs-go"

	"github.com/containerd/nri/pkg/api"

	"verif/harness/internal/hx"
)

// addrs collects the identities of all mutable memory reachable from v.
func addrs(v reflect.Value, set map[uintptr]string, path string) {
	switch v.Kind() {
	case reflect.Ptr:
		if v.IsNil() {
			return
		}
		set[v.Pointer()] = path
		addrs(v.Elem(), set, path)
	case reflect.Interface:
		if !v.IsNil() {
			addrs(v.Elem(), set, path)
		}
	case reflect.Struct:
		for i := 0; i < v.NumField(); i++ {
			if v.Type().Field(i).PkgPath != "" {
				continue
			}
			addrs(v.Field(i), set, path+"."+v.Type().Field(i).Name)
		}
	case reflect.Map:
		if v.IsNil() {
			return
		}
		set[v.Pointer()] = path
		for _, k := range v.MapKeys() {
			addrs(v.MapIndex(k), set, path+"[]")
		}
	case reflect.Slice:
		if v.IsNil() || v.Cap() == 0 {
			return
		}
		set[v.Pointer()] = path
		for i := 0; i < v.Len(); i++ {
			addrs(v.Index(i), set, fmt.Sprintf("%s[%d]", path, i))
		}
	}
}

// mutate changes every reachable map entry, slice element and settable scalar
// below v; it returns how many places it changed.
func mutate(v reflect.Value) int {
	n := 0
	switch v.Kind() {
	case reflect.Ptr:
		if !v.IsNil() {
			n += mutate(v.Elem())
		}
	case reflect.Interface:
		if !v.IsNil() && v.Elem().Kind() == reflect.Ptr {
			n += mutate(v.Elem())
		}
	case reflect.Struct:
		for i := 0; i < v.NumField(); i++ {
			if v.Type().Field(i).PkgPath != "" {
				continue
			}
			n += mutate(v.Field(i))
		}
	case reflect.Map:
		if v.IsNil() {
			return 0
		}
		for _, k := range v.MapKeys() {
			e := v.MapIndex(k)
			if e.Kind() == reflect.String {
				v.SetMapIndex(k, reflect.ValueOf(e.String()+"~mutated").Convert(e.Type()))
				n++
			}
		}
		if v.Type().Key().Kind() == reflect.String && v.Type().Elem().Kind() == reflect.String {
			v.SetMapIndex(reflect.ValueOf("~added~").Convert(v.Type().Key()), reflect.ValueOf("x").Convert(v.Type().Elem()))
			n++
		}
	case reflect.Slice:
		for i := 0; i < v.Len(); i++ {
			n += mutate(v.Index(i))
		}
	case reflect.String:
		if v.CanSet() {
			v.SetString(v.String() + "~mutated")
			n++
		}
	case reflect.Bool:
		if v.CanSet() {
			v.SetBool(!v.Bool())
			n++
		}
	case reflect.Int, reflect.Int8, reflect.Int16, reflect.Int32, reflect.Int64:
		if v.CanSet() {
			v.SetInt(v.Int() ^ 0x5a)
			n++
		}
	case reflect.Uint, reflect.Uint8, reflect.Uint16, reflect.Uint32, reflect.Uint64:
		if v.CanSet() {
			v.SetUint(v.Uint() ^ 0x5a)
			n++
		}
	}
	return n
}

func snapshot(x interface{}) string {
	b, err := json.Marshal(x)
	if err != nil {
		return "marshal error: " + err.Error()
	}
	return string(b)
}

type aliasRaw struct {
	What   string      `json:"what"`
	Source interface{} `json:"source"`
	Detail string      `json:"detail"`
}

// independent checks that src and the result of f(src) share no mutable state.
// mk builds a fresh, fully populated source each time it is called (same value).
func independent(c *hx.Ctx, what string, mk func() interface{}, f func(src interface{}) interface{}) {
	// (a) address disjointness
	src := mk()
	res := f(src)
	sa, ra := map[uintptr]string{}, map[uintptr]string{}
	addrs(reflect.ValueOf(src), sa, "src")
	addrs(reflect.ValueOf(res), ra, "res")
	c.Count("alias.addresses."+what, len(sa)+len(ra))
	for p, where := range ra {
		if w, ok := sa[p]; ok {
			c.ImplFail("alias", what+": the result shares memory with its source", aliasRaw{what, src, where + " is the same memory as " + w})
			break
		}
	}
	// (b) mutate the result, the source must not change
	before := snapshot(src)
	if probe := mutate(reflect.ValueOf(mk())); probe == 0 {
		c.HarnessError("alias/%s: nothing to mutate in the source (the generator did not populate it)", what)
	}
	n := mutate(reflect.ValueOf(res))
	if n == 0 {
		// a populated source gave a result with nothing in it: a loss of values, which the
		// value streams (conv, copy, optional) judge; there is no aliasing to test here
		c.Count("alias.empty-result."+what, 1)
	}
	c.Count("alias.mutations."+what, n)
	if after := snapshot(src); after != before {
		c.ImplFail("alias", what+": mutating the result changed the source", aliasRaw{what, json.RawMessage(before), "source after mutating the result: " + after})
	}
	// (c) mutate the source, the result must not change
	src2 := mk()
	res2 := f(src2)
	before2 := snapshot(res2)
	n2 := mutate(reflect.ValueOf(src2))
	c.Count("alias.mutations."+what, n2)
	if after := snapshot(res2); after != before2 {
		c.ImplFail("alias", what+": mutating the source changed the result", aliasRaw{what, json.RawMessage(before2), "result after mutating the source: " + after})
	}
	c.Eval("alias/"+what+"/"+before, n > 0)
}

func driveAlias(c *hx.Ctx) error {
	checkShapes(c)
	r := c.Rand("alias/copy")

	// ---- (1) Copy: values, for Coq
	sh := c.NewShard("copy", runImports, "copy_case", "corr_copy", "holds_copy", 500)
	add := func(in *api.LinuxResources, note string) {
		out := in.Copy()
		raw := convRaw{Kind: "copy", In: in, Out: out, Note: note}
		sh.Add(fmt.Sprintf("{| cc_in := %s; cc_out := %s |}", cResources(in), cResources(out)), raw)
		c.Eval("copy/"+cResources(in), nriNontrivial(in) || (in != nil && (in.BlockioClass != nil || in.RdtClass != nil)))
		c.Count("copy."+note, 1)
		var want *api.LinuxResources
		if in != nil {
			want = &api.LinuxResources{Memory: in.Memory, Cpu: in.Cpu, HugepageLimits: in.HugepageLimits, BlockioClass: in.BlockioClass,
				RdtClass: in.RdtClass, Unified: in.Unified, Pids: in.Pids}
		}
		if cResources(out) != cResources(want) {
			c.ImplFail("copy", "Copy() differs from the original in a memory, CPU, hugepage, unified, pids or class field (or nil-ness of a sub-message changed)", raw)
		}
	}
	add(nil, "nil")
	add(&api.LinuxResources{}, "empty")
	add(&api.LinuxResources{Memory: &api.LinuxMemory{}}, "empty-sub")
	add(&api.LinuxResources{Cpu: &api.LinuxCPU{}}, "empty-sub")
	add(&api.LinuxResources{Pids: &api.LinuxPids{}, Unified: map[string]string{}, HugepageLimits: []*api.HugepageLimit{}}, "empty-sub")
	for _, m := range singles(&api.LinuxMemory{}) {
		add(&api.LinuxResources{Memory: m.(*api.LinuxMemory)}, "single-memory")
	}
	for _, x := range singles(&api.LinuxCPU{}) {
		add(&api.LinuxResources{Cpu: x.(*api.LinuxCPU)}, "single-cpu")
	}
	for _, x := range singles(&api.HugepageLimit{}) {
		add(&api.LinuxResources{HugepageLimits: []*api.HugepageLimit{x.(*api.HugepageLimit)}}, "single-hugepage")
	}
	for _, x := range singles(&api.LinuxPids{}) {
		add(&api.LinuxResources{Pids: x.(*api.LinuxPids)}, "single-pids")
	}
	for _, s := range strPool {
		add(&api.LinuxResources{BlockioClass: api.String(s)}, "single-class")
		add(&api.LinuxResources{RdtClass: api.String(s)}, "single-class")
		add(&api.LinuxResources{Unified: map[string]string{"k": s}}, "single-unified")
		add(&api.LinuxResources{Unified: map[string]string{s: "v"}}, "single-unified")
	}
	n := c.Pick(500, 6000)
	for i := 0; i < n; i++ {
		add(genNRIResources(r), "random")
	}

	// ---- (2) aliasing: run-time test
	rounds := c.Pick(40, 600)
	for i := 0; i < rounds; i++ {
		seed := r.Int63()
		full := func(proto func() interface{}) func() interface{} {
			return func() interface{} {
				x := proto()
				fill(randFrom(seed), reflect.ValueOf(x).Elem(), true, 0)
				return x
			}
		}
		independent(c, "LinuxResources.Copy", full(func() interface{} { return &api.LinuxResources{} }),
			func(s interface{}) interface{} { return s.(*api.LinuxResources).Copy() })
		independent(c, "LinuxResources.ToOCI", full(func() interface{} { return &api.LinuxResources{} }),
			func(s interface{}) interface{} { return s.(*api.LinuxResources).ToOCI() })
		independent(c, "FromOCILinuxResources", full(func() interface{} { return &rspec.LinuxResources{} }),
			func(s interface{}) interface{} { return api.FromOCILinuxResources(s.(*rspec.LinuxResources), nil) })
		independent(c, "Mount.ToOCI", full(func() interface{} { return &api.Mount{} }),
			func(s interface{}) interface{} { m := s.(*api.Mount).ToOCI(nil); return &m })
		independent(c, "FromOCIMounts", full(func() interface{} { return &[]rspec.Mount{{}, {}} }),
			func(s interface{}) interface{} { return api.FromOCIMounts(*s.(*[]rspec.Mount)) })
		independent(c, "LinuxDevice.ToOCI", full(func() interface{} { return &api.LinuxDevice{} }),
			func(s interface{}) interface{} { d := s.(*api.LinuxDevice).ToOCI(); return &d })
		independent(c, "FromOCILinuxDevices", full(func() interface{} { return &[]rspec.LinuxDevice{{}, {}} }),
			func(s interface{}) interface{} { return api.FromOCILinuxDevices(*s.(*[]rspec.LinuxDevice)) })
		independent(c, "Hook.ToOCI", full(func() interface{} { return &api.Hook{} }),
			func(s interface{}) interface{} { h := s.(*api.Hook).ToOCI(); return &h })
		independent(c, "FromOCIHooks", full(func() interface{} { return &rspec.Hooks{} }),
			func(s interface{}) interface{} { return api.FromOCIHooks(s.(*rspec.Hooks)) })
		independent(c, "FromOCIEnv", full(func() interface{} { return &[]string{"", ""} }),
			func(s interface{}) interface{} { return api.FromOCIEnv(*s.(*[]string)) })
		independent(c, "DupStringSlice", full(func() interface{} { return &[]string{"", "", ""} }),
			func(s interface{}) interface{} { return api.DupStringSlice(*s.(*[]string)) })
		independent(c, "DupStringMap", full(func() interface{} { return &map[string]string{} }),
			func(s interface{}) interface{} { return api.DupStringMap(*s.(*map[string]string)) })
		if i < 8 {
			aliasOptionals(c, randFrom(seed).Int63())
		}
	}
	c.Stats.Extra = map[string]interface{}{
		"aliasing": "RUN-TIME TEST on the implementation, not a proof: address disjointness of every reachable pointer/map/slice plus mutate-and-recompare in both directions, for Copy, ToOCI, FromOCI*, Dup*, the optional constructors and Get()",
	}
	c.Stats.Rule = "copy: LinuxResources.Copy on nil / empty / empty sub-messages, every memory, CPU, hugepage, pids, class and unified field alone with every boundary value, then random resources (non-trivial: some copied field present). " +
		"alias (run-time test, not a proof): fully populated random sources; source and result must share no pointer, map or slice memory, and mutating every reachable place of one must leave the other unchanged"
	return nil
}

// aliasOptionals: the optional constructors copy out of pointers and wrappers,
// and Get() returns a fresh pointer.
func aliasOptionals(c *hx.Ctx, seed int64) {
	r := randFrom(seed)
	i64, u64, u32, i32, in, b, s, fm := genI64(r), genU64(r), genU32(r), i32Pool[r.Intn(len(i32Pool))], genInt(r), r.Intn(2) == 0, genStr(r)+"s", genFM(r)
	type pair struct {
		what string
		mk   func() interface{}
		f    func(interface{}) interface{}
	}
	ps := []pair{
		{"Int64(*int64)", func() interface{} { v := i64; return &v }, func(x interface{}) interface{} { return api.Int64(x.(*int64)) }},
		{"Int64(*OptionalInt64)", func() interface{} { return &api.OptionalInt64{Value: i64} }, func(x interface{}) interface{} { return api.Int64(x.(*api.OptionalInt64)) }},
		{"OptionalInt64.Get", func() interface{} { return &api.OptionalInt64{Value: i64} }, func(x interface{}) interface{} { return x.(*api.OptionalInt64).Get() }},
		{"UInt64(*uint64)", func() interface{} { v := u64; return &v }, func(x interface{}) interface{} { return api.UInt64(x.(*uint64)) }},
		{"UInt64(*OptionalUInt64)", func() interface{} { return &api.OptionalUInt64{Value: u64} }, func(x interface{}) interface{} { return api.UInt64(x.(*api.OptionalUInt64)) }},
		{"OptionalUInt64.Get", func() interface{} { return &api.OptionalUInt64{Value: u64} }, func(x interface{}) interface{} { return x.(*api.OptionalUInt64).Get() }},
		{"UInt32(*uint32)", func() interface{} { v := u32; return &v }, func(x interface{}) interface{} { return api.UInt32(x.(*uint32)) }},
		{"UInt32(*OptionalUInt32)", func() interface{} { return &api.OptionalUInt32{Value: u32} }, func(x interface{}) interface{} { return api.UInt32(x.(*api.OptionalUInt32)) }},
		{"OptionalUInt32.Get", func() interface{} { return &api.OptionalUInt32{Value: u32} }, func(x interface{}) interface{} { return x.(*api.OptionalUInt32).Get() }},
		{"Int32(*int32)", func() interface{} { v := i32; return &v }, func(x interface{}) interface{} { return api.Int32(x.(*int32)) }},
		{"Int32(*OptionalInt32)", func() interface{} { return &api.OptionalInt32{Value: i32} }, func(x interface{}) interface{} { return api.Int32(x.(*api.OptionalInt32)) }},
		{"OptionalInt32.Get", func() interface{} { return &api.OptionalInt32{Value: i32} }, func(x interface{}) interface{} { return x.(*api.OptionalInt32).Get() }},
		{"Int(*int)", func() interface{} { v := in; return &v }, func(x interface{}) interface{} { return api.Int(x.(*int)) }},
		{"Int(*OptionalInt)", func() interface{} { return &api.OptionalInt{Value: int64(in)} }, func(x interface{}) interface{} { return api.Int(x.(*api.OptionalInt)) }},
		{"OptionalInt.Get", func() interface{} { return &api.OptionalInt{Value: int64(in)} }, func(x interface{}) interface{} { return x.(*api.OptionalInt).Get() }},
		{"Bool(*bool)", func() interface{} { v := b; return &v }, func(x interface{}) interface{} { return api.Bool(x.(*bool)) }},
		{"Bool(*OptionalBool)", func() interface{} { return &api.OptionalBool{Value: b} }, func(x interface{}) interface{} { return api.Bool(x.(*api.OptionalBool)) }},
		{"OptionalBool.Get", func() interface{} { return &api.OptionalBool{Value: b} }, func(x interface{}) interface{} { return x.(*api.OptionalBool).Get() }},
		{"String(*string)", func() interface{} { v := s; return &v }, func(x interface{}) interface{} { return api.String(x.(*string)) }},
		{"String(*OptionalString)", func() interface{} { return &api.OptionalString{Value: s} }, func(x interface{}) interface{} { return api.String(x.(*api.OptionalString)) }},
		{"OptionalString.Get", func() interface{} { return &api.OptionalString{Value: s} }, func(x interface{}) interface{} { return x.(*api.OptionalString).Get() }},
		{"FileMode(*os.FileMode)", func() interface{} { v := fm; return &v }, func(x interface{}) interface{} { return api.FileMode(x.(*os.FileMode)) }},
		{"FileMode(*OptionalFileMode)", func() interface{} { return &api.OptionalFileMode{Value: uint32(fm)} }, func(x interface{}) interface{} { return api.FileMode(x.(*api.OptionalFileMode)) }},
		{"OptionalFileMode.Get", func() interface{} { return &api.OptionalFileMode{Value: uint32(fm)} }, func(x interface{}) interface{} { return x.(*api.OptionalFileMode).Get() }},
	}
	for _, p := range ps {
		independent(c, p.what, p.mk, p.f)
	}
}
