(* Byte-wise lexicographic order on strings (Go's < on strings = String.compare):
   the order facts the standard library does not state. *)
From Coq Require Import String Ascii List Bool NArith Lia.
Import ListNotations.

Lemma ascii_compare_refl a : Ascii.compare a a = Eq.
Proof. unfold Ascii.compare. apply N.compare_refl. Qed.

Lemma string_compare_refl s : String.compare s s = Eq.
Proof. induction s as [|a r IH]; simpl; [reflexivity|]. rewrite ascii_compare_refl. exact IH. Qed.

Lemma ascii_compare_lt_trans a b c :
  Ascii.compare a b = Lt -> Ascii.compare b c = Lt -> Ascii.compare a c = Lt.
Proof. unfold Ascii.compare. rewrite !N.compare_lt_iff. lia. Qed.

(* s1 <= s2 as "compare is not Gt" *)
Definition sle (s1 s2 : string) : Prop := String.compare s1 s2 <> Gt.

Lemma string_compare_lt_trans s1 s2 s3 :
  String.compare s1 s2 = Lt -> String.compare s2 s3 = Lt -> String.compare s1 s3 = Lt.
Proof.
  revert s2 s3. induction s1 as [|a r IH]; intros [|b s] [|c t]; simpl; try discriminate; try reflexivity.
  destruct (Ascii.compare a b) eqn:Eab; try discriminate.
  - apply Ascii.compare_eq_iff in Eab. subst b.
    destruct (Ascii.compare a c) eqn:Eac; try discriminate; try reflexivity.
    apply IH.
  - intros _. destruct (Ascii.compare b c) eqn:Ebc; try discriminate.
    + apply Ascii.compare_eq_iff in Ebc. subst c. rewrite Eab. reflexivity.
    + intros _. rewrite (ascii_compare_lt_trans _ _ _ Eab Ebc). reflexivity.
Qed.

Lemma sle_trans s1 s2 s3 : sle s1 s2 -> sle s2 s3 -> sle s1 s3.
Proof.
  unfold sle. intros H12 H23.
  destruct (String.compare s1 s2) eqn:E12; [|clear H12|congruence].
  - apply String.compare_eq_iff in E12. subst. exact H23.
  - destruct (String.compare s2 s3) eqn:E23; [| |congruence].
    + apply String.compare_eq_iff in E23. subst. rewrite E12. discriminate.
    + rewrite (string_compare_lt_trans _ _ _ E12 E23). discriminate.
Qed.

Lemma sle_total s1 s2 : sle s1 s2 \/ sle s2 s1.
Proof.
  unfold sle. rewrite (String.compare_antisym s2 s1).
  destruct (String.compare s1 s2); simpl; [left|left|right]; discriminate.
Qed.

Lemma compare_lt_not_sle s1 s2 : String.compare s1 s2 = Lt -> ~ sle s2 s1.
Proof.
  unfold sle. intros H. rewrite String.compare_antisym, H. simpl. intros C. apply C. reflexivity.
Qed.

(* a proper prefix is smaller *)
Lemma compare_prefix_lt s t : t <> EmptyString -> String.compare s (s ++ t) = Lt.
Proof.
  intros Ht. induction s as [|a r IH]; simpl.
  - destruct t; [contradiction|reflexivity].
  - rewrite ascii_compare_refl. exact IH.
Qed.
