package main

import (
	"bufio"
	"encoding/json"
	"fmt"
	"io"
	"math/rand"
	"os"
	"os/exec"
	"path/filepath"
	"sort"
	"strings"
	"sync"
	"sync/atomic"
	"time"

	"github.com/containerd/nri/pkg/api"
	"google.golang.org/protobuf/proto"

	"verif/harness/internal/gast"
	"verif/harness/internal/hx"
)

const (
	caseTimeout = 240 * time.Second // a case takes 1 ms .. a few seconds
	imports     = "From NRI Require Import Run.Common Run.RunSyncSplit."
)

// ---------------------------------------------------------------- helpers shared with the generators

func toRLE(l []int) [][2]int { // (count, value)
	out := [][2]int{}
	for _, v := range l {
		if n := len(out); n > 0 && out[n-1][1] == v {
			out[n-1][0]++
			continue
		}
		out = append(out, [2]int{1, v})
	}
	return out
}

func compact(sp *Spec) *Spec {
	c := *sp
	c.PodsRLE, c.CtrsRLE = toRLE(sp.Pods), toRLE(sp.Ctrs)
	c.Pods, c.Ctrs = nil, nil
	return &c
}

// weights measures the encoded size of every object of a state without running anything.
func weights(sp *Spec) (wp, wc []int) {
	pods, ctrs := buildState(sp)
	wp, wc = make([]int, len(pods)), make([]int, len(ctrs))
	for i, p := range pods {
		wp[i] = proto.Size(&api.SynchronizeRequest{Pods: []*api.PodSandbox{p}})
	}
	for i, c := range ctrs {
		wc[i] = proto.Size(&api.SynchronizeRequest{Containers: []*api.Container{c}})
	}
	return
}

func varintLen(n int) int {
	l := 1
	for n >= 128 {
		n >>= 7
		l++
	}
	return l
}

func msgLen(hdr, payload int) int {
	if payload <= 0 {
		return hdr
	}
	return hdr + 1 + varintLen(payload) + payload
}

func sum(l []int) int {
	s := 0
	for _, v := range l {
		s += v
	}
	return s
}

func maxWindow(a int, ws []int) int {
	best, cur := 0, 0
	for i := range ws {
		cur += ws[i]
		if i >= a {
			cur -= ws[i-a]
		}
		if a > 0 && cur > best {
			best = cur
		}
	}
	return best
}

// minChunksFit is interpretation I4: every group of a consecutive pods and b
// consecutive containers with a+b <= min fits into one message.
func minChunksFit(hdr, moreCost, limit, min int, wp, wc []int) bool {
	for a := 0; a <= min; a++ {
		for b := 0; a+b <= min; b++ {
			if msgLen(hdr, maxWindow(a, wp)+maxWindow(b, wc)+moreCost) > limit {
				return false
			}
		}
	}
	return true
}

func expandRuns(rs [][2]int) []int {
	var out []int
	for _, r := range rs {
		for i := 0; i < r[1]; i++ {
			out = append(out, r[0]+i)
		}
	}
	return out
}

func isSeq(l []int, n int) bool {
	if len(l) != n {
		return false
	}
	for i, v := range l {
		if v != i {
			return false
		}
	}
	return true
}

// oracle is holds_sync of Run/RunSyncSplit.v evaluated in Go.
func oracle(sp *Spec, o *Obs, min int) []string {
	var bad []string
	np, nc := len(sp.Pods), len(sp.Ctrs)
	if !o.Usable && (o.Outcome == "delivered" || o.Outcome == "failed") {
		bad = append(bad, fmt.Sprintf("after the registration (%s) the runtime's plugin-sync lock was not released: BlockPluginSync() still blocked after %d s, no further plugin can register", o.Outcome, o.UsableBoundS))
	}
	// one request per registration: nothing is sent after the message not flagged More, whatever the
	// plugin answers to it; the handler is invoked at most once and sees exactly the supplied state
	for i, m := range o.Msgs {
		if !m.More && i < len(o.Msgs)-1 {
			bad = append(bad, fmt.Sprintf("message %d of %d was not flagged More (the request was complete) and %d more message(s) were sent after it: the state was sent again", i+1, len(o.Msgs), len(o.Msgs)-1-i))
			break
		}
	}
	if sp.Plugin == "stub" {
		if len(o.Invocations) > 1 {
			bad = append(bad, fmt.Sprintf("the Synchronize handler was invoked %d times for one registration (its first answer: %s)", len(o.Invocations), handlerAnswer(sp)))
		}
		for i, inv := range o.Invocations {
			if !isSeq(expandRuns(inv.PodRuns), np) || !isSeq(expandRuns(inv.CtrRuns), nc) {
				bad = append(bad, fmt.Sprintf("invocation %d of the Synchronize handler was handed %d pods and %d containers, the runtime supplied %d and %d",
					i+1, len(expandRuns(inv.PodRuns)), len(expandRuns(inv.CtrRuns)), np, nc))
			}
		}
	}
	switch o.Outcome {
	case "delivered":
		if sp.Script == "errfinal" {
			bad = append(bad, "the registration completed (and the plugin is treated as synchronised) although the plugin failed its one synchronisation with "+handlerAnswer(sp))
		}
		var ps, cs []int
		for i, m := range o.Msgs {
			ps = append(ps, expandRuns(m.PodRuns)...)
			cs = append(cs, expandRuns(m.CtrRuns)...)
			if m.More != (i < len(o.Msgs)-1) {
				bad = append(bad, fmt.Sprintf("message %d of %d has More=%v", i+1, len(o.Msgs), m.More))
			}
		}
		if len(o.Msgs) == 0 {
			bad = append(bad, "synchronisation succeeded without any message")
		}
		if !isSeq(ps, np) {
			bad = append(bad, "the pods received are not exactly the supplied ones, once, in order")
		}
		if !isSeq(cs, nc) {
			bad = append(bad, "the containers received are not exactly the supplied ones, once, in order")
		}
		if sp.Plugin == "stubnh" && !o.Active {
			bad = append(bad, "the registration of a plugin without a Synchronize handler completed but the plugin did not receive the event sent afterwards")
		}
		if sp.Plugin == "stub" {
			if o.HandlerCalls != 1 {
				bad = append(bad, fmt.Sprintf("the Synchronize handler was invoked %d times", o.HandlerCalls))
			} else if !isSeq(expandRuns(o.HandlerPodRuns), np) || !isSeq(expandRuns(o.HandlerCtrRuns), nc) {
				bad = append(bad, "the Synchronize handler was not handed exactly the supplied state in order")
			}
		}
		if !isSeq(o.GotUpd, sp.NUpd) {
			bad = append(bad, fmt.Sprintf("the runtime received updates %v, the plugin returned %d", o.GotUpd, sp.NUpd))
		}
	case "failed":
		if o.Active {
			bad = append(bad, "the plugin is active although its synchronisation failed")
		}
		if sp.Script == "good" && minChunksFit(o.Hdr, o.MoreCost, o.Limit, min, o.WP, o.WC) {
			bad = append(bad, "synchronisation failed although every minimum chunk fits into one message: "+o.SyncErr)
		}
	case "livelock":
		bad = append(bad, fmt.Sprintf("more than %d Synchronize messages for %d objects (the proved bound)", 2*(np+nc)+1, np+nc))
	case "crashed":
		bad = append(bad, "the runtime process crashed during synchronisation: "+firstLine(o.Crash))
	case "stalled":
		bad = append(bad, fmt.Sprintf("synchronisation neither completed nor failed: after %d accepted message(s) the runtime sent nothing and reported nothing for %d s (still inside synchronize, holding the plugin-sync lock)", len(o.Msgs), o.StallS))
	default:
		bad = append(bad, "unknown outcome "+o.Outcome)
	}
	return bad
}

func handlerAnswer(sp *Spec) string {
	if sp.Script != "errfinal" && sp.Script != "err" {
		return "success"
	}
	if sp.Code == "" {
		return "a plain error"
	}
	return "a gRPC status " + sp.Code
}

// grpcCode is the numeric gRPC code of Spec.Code (2 = Unknown: what a plain error becomes on the wire).
func grpcCode(sp *Spec) int {
	switch sp.Code {
	case "resource_exhausted":
		return 8
	case "internal":
		return 13
	case "unavailable":
		return 14
	}
	return 2
}

func coqCalls1(l []HCall) string {
	if len(l) == 0 {
		return "[]"
	}
	var parts []string
	for _, h := range l {
		parts = append(parts, fmt.Sprintf("(%s, %s)", zpairs(h.PodRuns), zpairs(h.CtrRuns)))
	}
	return "[" + strings.Join(parts, "; ") + "]"
}

func firstLine(s string) string {
	if i := strings.Index(s, "panic:"); i >= 0 {
		s = s[i:]
	}
	if i := strings.IndexByte(s, '\n'); i >= 0 {
		s = s[:i]
	}
	return s
}

// ---------------------------------------------------------------- Coq printing

func zpairs(l [][2]int) string {
	if len(l) == 0 {
		return "[]"
	}
	var b strings.Builder
	b.WriteByte('[')
	for i, p := range l {
		if i > 0 {
			b.WriteString("; ")
		}
		fmt.Fprintf(&b, "(%d, %d)", p[0], p[1])
	}
	b.WriteString("]%Z")
	return b.String()
}

func zlist(l []int) string {
	if len(l) == 0 {
		return "[]"
	}
	var b strings.Builder
	b.WriteByte('[')
	for i, v := range l {
		if i > 0 {
			b.WriteString("; ")
		}
		fmt.Fprintf(&b, "%d", v)
	}
	b.WriteString("]%Z")
	return b.String()
}

// zweights prints sizes in the format of expand_w (Run/RunSyncSplit.v): a negative
// entry -k stands for k more copies of the size before it.
func zweights(l []int) string {
	var flat []int
	for _, r := range toRLE(l) {
		flat = append(flat, r[1])
		if r[0] > 1 {
			flat = append(flat, -(r[0] - 1))
		}
	}
	return zlist(flat)
}

func coqScript(sp *Spec) string {
	switch sp.Script {
	case "badmore":
		return fmt.Sprintf("(SBadMore %d%%Z)", sp.At)
	case "earlyupd":
		return fmt.Sprintf("(SEarlyUpd %d%%Z)", sp.At)
	case "err":
		return fmt.Sprintf("(SErr %d%%Z)", sp.At)
	case "errfinal":
		return "SErrFinal"
	}
	return "SGood"
}

func coqBool(b bool) string {
	if b {
		return "true"
	}
	return "false"
}

func coqCase(sp *Spec, o *Obs) string {
	var msgs []string
	for _, m := range o.Msgs {
		msgs = append(msgs, fmt.Sprintf("(%s, %s, %s, %d%%Z)", zpairs(m.PodRuns), zpairs(m.CtrRuns), coqBool(m.More), m.Size))
	}
	ms := "[]"
	if len(msgs) > 0 {
		ms = "[" + strings.Join(msgs, "; ") + "]"
	}
	out := "OOther"
	switch o.Outcome {
	case "delivered":
		out = "ODelivered"
	case "failed":
		out = "OFailed"
	case "stalled":
		out = "OStalled"
	}
	return fmt.Sprintf("{| sc_wp := %s; sc_wc := %s; sc_hdr := %d%%Z; sc_more := %d%%Z; sc_limit := %d%%Z; sc_stub := %s; sc_nohandler := %s; sc_script := %s; sc_nupd := %d%%Z; "+
		"sc_msgs := %s; sc_outcome := %s; sc_errcode := %d%%Z; sc_once := %s; sc_hcalls := %s; sc_upd := %s; sc_active := %s; sc_usable := %s |}",
		zweights(o.WP), zweights(o.WC), o.Hdr, o.MoreCost, o.Limit, coqBool(sp.Plugin == "stub" || sp.Plugin == "stubnh"), coqBool(sp.Plugin == "stubnh"), coqScript(sp), sp.NUpd,
		ms, out, grpcCode(sp), coqBool(sp.Once), coqCalls1(o.Invocations), zlist(o.GotUpd), coqBool(o.Active), coqBool(o.Usable))
}

// ---------------------------------------------------------------- workers

type job struct {
	idx int
	sp  *Spec
}

type result struct {
	obs  *Obs
	robs *ResyncObs // resync stream
	mobs []*Obs     // multi stream: one observation per registration
	herr string     // failure of the machinery
}

type child struct {
	cmd    *exec.Cmd
	in     io.WriteCloser
	lines  chan []byte
	stderr *tailBuf
}

type tailBuf struct {
	sync.Mutex
	b []byte
}

func (t *tailBuf) Write(p []byte) (int, error) {
	t.Lock()
	defer t.Unlock()
	t.b = append(t.b, p...)
	if len(t.b) > 1<<16 {
		t.b = t.b[len(t.b)-1<<15:]
	}
	return len(p), nil
}

func (t *tailBuf) String() string {
	t.Lock()
	defer t.Unlock()
	return string(t.b)
}

func startChild() (*child, error) {
	exe, err := os.Executable()
	if err != nil {
		return nil, err
	}
	cmd := exec.Command(exe)
	cmd.Env = append(os.Environ(), "H_SYNC_WORKER=1")
	in, err := cmd.StdinPipe()
	if err != nil {
		return nil, err
	}
	out, err := cmd.StdoutPipe()
	if err != nil {
		return nil, err
	}
	ch := &child{cmd: cmd, in: in, lines: make(chan []byte, 1), stderr: &tailBuf{}}
	cmd.Stderr = ch.stderr
	if err := cmd.Start(); err != nil {
		return nil, err
	}
	go func() {
		r := bufio.NewReaderSize(out, 1<<20)
		for {
			line, err := r.ReadBytes('\n')
			if len(line) > 0 && err == nil {
				ch.lines <- line
			}
			if err != nil {
				close(ch.lines)
				return
			}
		}
	}()
	return ch, nil
}

func (ch *child) kill() {
	ch.in.Close()
	ch.cmd.Process.Kill()
	ch.cmd.Wait()
}

// implCrash says whether the worker's death was a panic raised inside the implementation.
func implCrash(stderr string) bool {
	i := strings.Index(stderr, "panic:")
	if i < 0 {
		i = strings.Index(stderr, "fatal error:")
	}
	if i < 0 {
		return false
	}
	return strings.Contains(stderr[i:], "github.com/containerd/nri/pkg/") || strings.Contains(stderr[i:], "github.com/containerd/ttrpc")
}

func runOne(chp **child, sp *Spec) result {
	if *chp == nil {
		ch, err := startChild()
		if err != nil {
			return result{herr: "cannot start worker: " + err.Error()}
		}
		*chp = ch
	}
	ch := *chp
	var js []byte
	bound := stallBound()
	if sp.Resync != nil {
		js, _ = json.Marshal(map[string]interface{}{"resync": sp.Resync.compact(), "stall_s": int(bound.Seconds())})
	} else if sp.Multi != nil {
		js, _ = json.Marshal(map[string]interface{}{"multi": compactAll(sp.Multi), "stall_s": int(bound.Seconds())})
	} else {
		cs := compact(sp)
		cs.StallS = int(bound.Seconds())
		js, _ = json.Marshal(cs)
	}
	if _, err := ch.in.Write(append(js, '\n')); err != nil {
		ch.kill()
		*chp = nil
		return result{herr: "cannot write to worker: " + err.Error() + "\n" + ch.stderr.String()}
	}
	select {
	case line, ok := <-ch.lines:
		if !ok {
			ch.cmd.Wait()
			*chp = nil
			se := ch.stderr.String()
			if implCrash(se) {
				return result{obs: &Obs{Outcome: "crashed", Crash: tail(se, 3000), Msgs: []Msg{}}}
			}
			return result{herr: "worker died: " + tail(se, 3000)}
		}
		var reply struct {
			Obs   *Obs       `json:"obs"`
			RObs  *ResyncObs `json:"robs"`
			MObs  []*Obs     `json:"mobs"`
			Error string     `json:"error"`
		}
		if err := json.Unmarshal(line, &reply); err != nil {
			return result{herr: "bad worker reply: " + err.Error()}
		}
		if (reply.Obs != nil && reply.Obs.Exit) || (reply.RObs != nil && reply.RObs.Exit) || (len(reply.MObs) > 0 && reply.MObs[len(reply.MObs)-1].Exit) {
			// the worker saw the stall itself, reported what it had measured and is exiting
			atomic.AddInt32(&stalls, 1)
			ch.kill()
			*chp = nil
		}
		if reply.RObs != nil {
			return result{robs: reply.RObs}
		}
		if len(reply.MObs) > 0 {
			return result{mobs: reply.MObs}
		}
		if reply.Obs == nil {
			return result{herr: "worker: " + reply.Error}
		}
		return result{obs: reply.Obs}
	case <-time.After(caseTimeout + bound):
		// backstop: the worker itself no longer answers (it reports a stalled synchronisation on its own)
		atomic.AddInt32(&stalls, 1)
		ch.kill()
		*chp = nil
		return result{obs: &Obs{Outcome: "stalled", StallS: int((caseTimeout + bound).Seconds()), Msgs: []Msg{}}}
	}
}

// stalls counts cases in which the runtime's synchronize neither returned nor sent anything for the stall
// bound.  The bound is on silence, not on the duration of a case: a step of synchronize (encode a message,
// have it rejected or answered, recalculate) takes milliseconds, 0.1 s for tens of MiB.  The first stall
// is given 90 s of silence (it must not be a slow machine); once synchronisation has been seen to hang,
// later cases get 30 s, after three stalls 15 s: a tree that livelocks is reported in minutes, not after
// the driver time-out.
var stalls int32

func stallBound() time.Duration {
	switch n := atomic.LoadInt32(&stalls); {
	case n == 0:
		return 90 * time.Second
	case n < 3:
		return 30 * time.Second
	default:
		return 15 * time.Second
	}
}

func tail(s string, n int) string {
	if i := strings.Index(s, "panic:"); i >= 0 {
		s = s[i:]
	}
	if len(s) > n {
		s = s[:n]
	}
	return s
}

func runAll(specs []*Spec, workers int) []result {
	res := make([]result, len(specs))
	jobs := make(chan job)
	var wg sync.WaitGroup
	for w := 0; w < workers; w++ {
		wg.Add(1)
		go func() {
			defer wg.Done()
			var ch *child
			for j := range jobs {
				res[j.idx] = runOne(&ch, j.sp)
			}
			if ch != nil {
				ch.in.Close()
				done := make(chan struct{})
				go func() { ch.cmd.Wait(); close(done) }()
				select {
				case <-done:
				case <-time.After(20 * time.Second):
					ch.cmd.Process.Kill()
				}
			}
		}()
	}
	for i, sp := range specs {
		jobs <- job{i, sp}
	}
	close(jobs)
	wg.Wait()
	return res
}

// ---------------------------------------------------------------- generators

type tagged struct {
	stream string
	sp     *Spec
}

func corpusDir() string {
	exe, err := os.Executable()
	if err != nil {
		return ""
	}
	return filepath.Join(filepath.Dir(filepath.Dir(exe)), "corpus", "C09")
}

func loadCorpus(c *hx.Ctx) []tagged {
	var out []tagged
	files, _ := filepath.Glob(filepath.Join(corpusDir(), "*.json"))
	sort.Strings(files)
	for _, f := range files {
		raw, err := os.ReadFile(f)
		if err != nil {
			c.HarnessError("corpus %s: %v", f, err)
			continue
		}
		var list []*Spec
		if err := json.Unmarshal(raw, &list); err != nil {
			var one Spec
			if err2 := json.Unmarshal(raw, &one); err2 != nil {
				c.HarnessError("corpus %s: %v", f, err)
				continue
			}
			list = []*Spec{&one}
		}
		for i, sp := range list {
			sp.expand()
			if sp.Name == "" {
				sp.Name = fmt.Sprintf("%s#%d", filepath.Base(f), i)
			}
			out = append(out, tagged{"corpus", sp})
		}
	}
	return out
}

var scripts = []string{"good", "good", "good", "good", "good", "badmore", "earlyupd", "err", "errfinal"}

func decorate(r *rand.Rand, sp *Spec, misbehave bool) *Spec {
	sp.Plugin = "raw"
	if r.Intn(3) == 0 {
		sp.Plugin = "stub"
	}
	sp.Script = "good"
	if misbehave {
		sp.Script = scripts[r.Intn(len(scripts))]
		if sp.Plugin == "stub" && sp.Script != "good" {
			sp.Script = "errfinal"
		}
		sp.At = 1 + r.Intn(4)
	}
	sp.NUpd = r.Intn(4)
	if sp.Plugin == "stub" && sp.Script == "good" && (len(sp.Pods)+len(sp.Ctrs)+sp.NUpd)%4 == 0 {
		// a plugin without a Synchronize handler (events only): nothing to return
		sp.Plugin, sp.NUpd = "stubnh", 0
	}
	if sp.Script == "err" || sp.Script == "errfinal" {
		// the kind of the error and whether only the first final message is failed: derived from the
		// case itself (no further draws, so that the population of states stays what it was)
		k := sp.At + sp.NUpd + len(sp.Pods) + 2*len(sp.Ctrs)
		sp.Code = errCodes[k%len(errCodes)]
		sp.Once = sp.Script == "errfinal" && (k/len(errCodes))%2 == 0
	}
	return sp
}

var errCodes = []string{"resource_exhausted", "", "unavailable", "internal", "resource_exhausted"}

func padList(r *rand.Rand, n int, f func() int) []int {
	l := make([]int, n)
	for i := range l {
		l[i] = f()
	}
	return l
}

const limitBytes = 4 << 20

func generate(c *hx.Ctx) []tagged {
	var out []tagged
	add := func(stream string, sp *Spec) {
		sp.Name = fmt.Sprintf("%s/%d", stream, len(out))
		out = append(out, tagged{stream, sp})
	}

	// small states, all scripts and both plugin ends
	r := c.Rand("sync.small")
	for i := 0; i < c.Pick(220, 2500); i++ {
		np, nc := r.Intn(14), r.Intn(30)
		big := r.Intn(3) == 0
		f := func() int {
			if big && r.Intn(2) == 0 {
				return 100000 + r.Intn(900000)
			}
			return r.Intn(3000)
		}
		add("small", decorate(r, &Spec{Pods: padList(r, np, f), Ctrs: padList(r, nc, f)}, true))
	}

	// many small objects: 100 .. 4000, up to a few KiB each
	r = c.Rand("sync.many")
	for i := 0; i < c.Pick(40, 400); i++ {
		total := 100 + r.Intn(3901)
		np := r.Intn(total/2 + 1)
		if r.Intn(6) == 0 {
			np = 0
		}
		scale := []int{0, 40, 400, 2000, 6000}[r.Intn(5)]
		uniform := r.Intn(2) == 0
		u := r.Intn(scale + 1)
		f := func() int {
			if uniform {
				return u
			}
			return r.Intn(scale + 1)
		}
		add("manysmall", decorate(r, &Spec{Pods: padList(r, np, f), Ctrs: padList(r, total-np, f)}, r.Intn(5) == 0))
	}

	// few large objects: up to just under the message limit each
	r = c.Rand("sync.large")
	for i := 0; i < c.Pick(110, 1200); i++ {
		np, nc := r.Intn(6), 1+r.Intn(24)
		var hi int
		switch r.Intn(4) {
		case 0:
			hi = limitBytes/8 - 200 // eight always fit
		case 1:
			hi = limitBytes / 4
		case 2:
			hi = limitBytes / 2
		default:
			hi = limitBytes - 400 // individually transmissible, just
		}
		f := func() int {
			if r.Intn(4) == 0 {
				return r.Intn(2000)
			}
			return hi/2 + r.Intn(hi/2)
		}
		add("fewlarge", decorate(r, &Spec{Pods: padList(r, np, f), Ctrs: padList(r, nc, f)}, r.Intn(6) == 0))
	}

	// the historic shapes and their neighbours: 0..5 pods, 9..120 containers of 60..700 KiB
	r = c.Rand("sync.neighbours")
	for i := 0; i < c.Pick(90, 900); i++ {
		np, nc := r.Intn(6), 9+r.Intn(112)
		sz := (60 + r.Intn(640)) * 1024
		if nc > 40 && sz > 300*1024 {
			sz = (60 + r.Intn(240)) * 1024
		}
		jitter := r.Intn(2) == 0
		f := func() int {
			if jitter {
				return sz - r.Intn(sz/8)
			}
			return sz
		}
		pf := func() int { return r.Intn(400) }
		if r.Intn(4) == 0 {
			pf = f
		}
		add("neighbours", decorate(r, &Spec{Pods: padList(r, np, pf), Ctrs: padList(r, nc, f)}, false))
	}

	// mixed: some pods, many medium containers; states of tens of MiB
	r = c.Rand("sync.mixed")
	for i := 0; i < c.Pick(30, 300); i++ {
		np, nc := r.Intn(60), 50+r.Intn(900)
		sz := 2000 + r.Intn(60000)
		f := func() int { return r.Intn(sz + 1) }
		add("mixed", decorate(r, &Spec{Pods: padList(r, np, f), Ctrs: padList(r, nc, f)}, r.Intn(8) == 0))
	}

	// boundary: the first message, or the minimum chunk, exactly at the limit or one byte beyond
	r = c.Rand("sync.boundary")
	hdr := hdrLen()
	for i := 0; i < c.Pick(60, 600); i++ {
		var sp *Spec
		delta := r.Intn(3) - 1 // -1, 0, +1 relative to "fits exactly"
		switch r.Intn(3) {
		case 0: // whole state in one message
			np, nc := r.Intn(5), 1+r.Intn(12)
			f := func() int { return r.Intn(limitBytes / 20) }
			sp = &Spec{Pods: padList(r, np, f), Ctrs: padList(r, nc, f)}
			tune(sp, hdr, len(sp.Pods), len(sp.Ctrs), false, delta)
		case 1: // the first minimum chunk (4 pods + 4 containers) of a larger state
			np, nc := 4+r.Intn(4), 5+r.Intn(10)
			f := func() int { return 380000 + r.Intn(100000) }
			sp = &Spec{Pods: padList(r, np, f), Ctrs: padList(r, nc, f)}
			tune(sp, hdr, 4, 4, true, delta)
		default: // no pods: the first four containers
			nc := 9 + r.Intn(10)
			f := func() int { return 900000 + r.Intn(100000) }
			sp = &Spec{Ctrs: padList(r, nc, f)}
			tune(sp, hdr, 0, 4, true, delta)
		}
		add("boundary", decorate(r, sp, false))
	}

	// skewed along the runtime's order: a few large objects and thousands of tiny ones
	r = c.Rand("sync.skewed")
	for i := 0; i < c.Pick(4, 40); i++ {
		nbig := 10 + r.Intn(4)
		big := 250000 + r.Intn(150000)
		if nbig*big > limitBytes-300000 {
			big = (limitBytes - 300000) / nbig
		}
		ntiny := 3000 + r.Intn(c.Pick(5000, 20000))
		bigs := padList(r, nbig, func() int { return big - r.Intn(big/16) })
		tiny := padList(r, ntiny, func() int { return r.Intn(60) })
		sp := &Spec{}
		switch i % 4 {
		case 0, 1: // front-loaded containers
			sp.Ctrs = append(bigs, tiny...)
			sp.Pods = padList(r, r.Intn(3), func() int { return r.Intn(60) })
		case 2: // back-loaded containers
			sp.Ctrs = append(tiny, bigs...)
		default: // front-loaded pods, tiny containers
			sp.Pods = append(bigs, tiny[:ntiny/2]...)
			sp.Ctrs = tiny[ntiny/2:]
		}
		add("skewed", decorate(r, sp, false))
	}
	return out
}

// tune changes the padding of the last container among the first (a pods, b containers) so
// that the message holding exactly those has length limit+delta.
func tune(sp *Spec, hdr, a, b int, more bool, delta int) {
	if b == 0 || b > len(sp.Ctrs) || a > len(sp.Pods) {
		return
	}
	for iter := 0; iter < 6; iter++ {
		wp, wc := weights(sp)
		payload := sum(wp[:a]) + sum(wc[:b])
		if more {
			payload += 2
		}
		diff := limitBytes + delta - msgLen(hdr, payload)
		if diff == 0 {
			return
		}
		np := sp.Ctrs[b-1] + diff
		if np < 0 || np > len(bigPad) {
			return
		}
		sp.Ctrs[b-1] = np
	}
}

// ---------------------------------------------------------------- driver

func msgBucket(n int) string {
	switch {
	case n <= 1:
		return fmt.Sprint(n)
	case n <= 3:
		return "2-3"
	case n <= 10:
		return "4-10"
	case n <= 100:
		return "11-100"
	}
	return ">100"
}

func sizeBucket(b int) string {
	switch {
	case b < 1<<20:
		return "<1MiB"
	case b < 4<<20:
		return "1-4MiB"
	case b < 32<<20:
		return "4-32MiB"
	}
	return ">=32MiB"
}

func driveSync(c *hx.Ctx) error {
	t0 := time.Now()
	min := minObjs(c.Repo)
	all := append(loadCorpus(c), generate(c)...)
	all = append(all, loadResyncCorpus(c)...)
	all = append(all, generateResync(c, min)...)
	all = append(all, loadMultiCorpus(c)...)
	all = append(all, generateMulti(c)...)
	if os.Getenv("H_SYNC_ONLY") != "" { // development aid: run a single stream
		var sel []tagged
		for _, t := range all {
			if t.stream == os.Getenv("H_SYNC_ONLY") {
				sel = append(sel, t)
			}
		}
		all = sel
	}
	specs := make([]*Spec, len(all))
	for i, t := range all {
		specs[i] = t.sp
	}
	res := runAll(specs, 6)

	shards := map[string]*hx.Shard{}
	shardBytes := map[string]int{}
	var maxMs int64
	var slowest string
	totalMsgs, split, failed := 0, 0, 0
	var resyncShard *hx.Shard
	finalAboveMin := map[string]int{} // error kind -> cases in which the failed final message carried more than min objects
	var rtot resyncTotals
	var multiShard *hx.Shard
	var mtot multiTotals
	nohandlerSplit := 0 // handler-less stubs synchronised with a state that needed several messages
	retriesSeen := 0 // most consecutive oversize retries any single-registration state needs (predicted)
	for i, t := range all {
		sp, rs := t.sp, res[i]
		if rs.herr != "" {
			c.HarnessError("case %s: %s", sp.Name, rs.herr)
			continue
		}
		if sp.Resync != nil {
			handleResync(c, t, rs, min, &resyncShard, &rtot)
			continue
		}
		if sp.Multi != nil {
			handleMulti(c, t, rs, min, &multiShard, &mtot)
			continue
		}
		if r := maxRetries(sp, min); r > retriesSeen {
			retriesSeen = r
		}
		o := rs.obs
		raw := map[string]interface{}{"stream": t.stream, "spec": compact(sp), "outcome": o.Outcome, "msgs": o.Msgs, "sync_err": o.SyncErr,
			"handler_calls": o.HandlerCalls, "handler_invocations": o.Invocations, "got_upd": o.GotUpd, "active": o.Active, "usable": o.Usable, "wp_rle": toRLE(o.WP), "wc_rle": toRLE(o.WC)}
		if sp.Signature != nil {
			raw["signature"] = sp.Signature
		}
		if o.Crash != "" {
			raw["crash"] = o.Crash
		}
		for _, what := range oracle(sp, o, min) {
			c.ImplFail(t.stream, what, raw)
		}
		nontrivial := len(o.Msgs) >= 2 || o.Outcome != "delivered"
		c.Eval(sp.Name, nontrivial)
		c.Count("stream."+t.stream, 1)
		c.Count("outcome."+o.Outcome, 1)
		c.Count("plugin."+sp.Plugin, 1)
		c.Count("script."+sp.Script, 1)
		if sp.Plugin == "stubnh" && len(o.Msgs) >= 2 {
			nohandlerSplit++
		}
		if sp.Script == "err" || sp.Script == "errfinal" {
			code := sp.Code
			if code == "" {
				code = "plain"
			}
			split := "unsplit"
			if len(o.Msgs) >= 2 {
				split = "split"
			}
			c.Count(fmt.Sprintf("plugin_error.%s.%s.%s.%s", sp.Script, code, sp.Plugin, split), 1)
			if sp.Script == "errfinal" && len(o.Msgs) > 0 && !o.Msgs[len(o.Msgs)-1].More && o.Msgs[len(o.Msgs)-1].NP+o.Msgs[len(o.Msgs)-1].NC > min {
				c.Count("plugin_error.errfinal."+code+".final_message_above_min_chunk", 1)
				finalAboveMin[code]++
			}
		}
		if o.RegReplyLost {
			c.Count("plugin_end.register_reply_lost_after_failed_sync", 1)
		}
		c.Count("messages."+msgBucket(len(o.Msgs)), 1)
		c.Count("objects."+objBucket(len(sp.Pods)+len(sp.Ctrs)), 1)
		c.Count("state."+sizeBucket(sum(o.WP)+sum(o.WC)), 1)
		totalMsgs += len(o.Msgs)
		if len(o.Msgs) >= 2 {
			split++
		}
		if o.Outcome == "failed" {
			failed++
		}
		if o.Millis > maxMs {
			maxMs, slowest = o.Millis, sp.Name
		}
		if o.Outcome == "crashed" || (o.Outcome == "stalled" && len(o.WP)+len(o.WC) != len(sp.Pods)+len(sp.Ctrs)) {
			continue // nothing was measured: the Go oracle above is the record
		}
		sh := shards[t.stream]
		if sh == nil {
			sh = c.NewShard(t.stream, imports, "sync_case", "corr_sync", "holds_sync", 48)
			shards[t.stream] = sh
		}
		term := coqCase(sp, o)
		sh.Add(term, raw)
		// coqc needs about 0.15 ms per numeral to elaborate a case term: keep the files small
		if shardBytes[t.stream] += len(term); shardBytes[t.stream] > 100_000 {
			sh.Flush()
			shardBytes[t.stream] = 0
		}
		if len(o.Msgs) >= 3 && len(c.Stats.Samples) < 6 {
			c.Sample(map[string]interface{}{"spec": compact(sp), "outcome": o.Outcome, "messages": chunkCounts(o)}, 6)
		}
	}
	// the target shapes are owed by the generator only while the implementation answers: on a tree where
	// registrations stall or wedge the runtime the oracle failures above are the result
	misbehaved := len(c.Stats.ImplFailures) > 0
	if split == 0 && os.Getenv("H_SYNC_ONLY") == "" && !misbehaved {
		c.HarnessError("no generated state needed more than one message")
	}
	if failed == 0 && os.Getenv("H_SYNC_ONLY") == "" && !misbehaved {
		c.HarnessError("no generated state failed to synchronise")
	}
	if os.Getenv("H_SYNC_ONLY") == "" && !misbehaved {
		for _, code := range []string{"resource_exhausted", "unavailable", "internal", "plain"} {
			if finalAboveMin[code] == 0 {
				c.HarnessError("no case in which the plugin failed a final message of more than %d objects with error kind %s", min, code)
			}
		}
	}
	if os.Getenv("H_SYNC_ONLY") == "" && !misbehaved {
		if nohandlerSplit == 0 {
			c.HarnessError("no stub without a Synchronize handler was synchronised with a state that needed several messages")
		}
		if retriesSeen <= 8 {
			c.HarnessError("no state needed more than 8 consecutive oversize retries of one message (most: %d)", retriesSeen)
		}
		if mtot.afterSplitTailWithoutKind == 0 {
			c.HarnessError("multi: no registration that followed, on the same Adaptation, a split synchronisation whose last message carried no pods or no containers (%d cases)", mtot.cases)
		}
	}
	if rtot.staleThenDelivered == 0 && !misbehaved && (os.Getenv("H_SYNC_ONLY") == "" || os.Getenv("H_SYNC_ONLY") == "resync") {
		c.HarnessError("resync: no case in which a registration that failed after accepted chunks was followed by a completed one (%d cases)", rtot.cases)
	}
	c.Stats.Extra = map[string]interface{}{"cases": len(all), "synchronize_messages": totalMsgs, "split_cases": split, "failed_cases": failed,
		"slowest_case_ms": maxMs, "slowest_case": slowest, "driver_wall_s": time.Since(t0).Seconds(), "min_objs_per_msg": min,
		"resync_cases": rtot.cases, "resync_cases_stale_chunks_then_delivered": rtot.staleThenDelivered,
		"multi_cases": mtot.cases, "multi_registrations": mtot.regs, "multi_registrations_after_split_tail_without_a_kind": mtot.afterSplitTailWithoutKind,
		"most_consecutive_oversize_retries_predicted": retriesSeen}
	c.Stats.Rule = "corpus (historic F4/F5 shapes, neighbours, boundaries) replayed first; then seeded streams: small (0..43 objects, all plugin scripts), " +
		"many-small (100..4000 objects up to a few KiB), few-large (objects up to just under the 4 MiB limit, including untransmittable states), " +
		"neighbours (0..5 pods + 9..120 containers of 60..700 KiB), mixed (tens of MiB), boundary (first message / first minimum chunk exactly at the limit, " +
		"one byte below, one byte above). Every case runs a real adaptation.Adaptation against a raw scripted plugin service or a real stub.Stub in a worker process; " +
		"a case is non-trivial when the state was split into >= 2 messages or synchronisation failed. " +
		"Stream skewed: size distributions along the runtime's order - a dozen objects of 250..400 KB in front of (or behind) thousands of tiny ones - whose first message needs many consecutive oversize retries. " +
		"Stream resync: ONE real stub.Stub value registers several times (registrations that fail after accepted chunks, then completed ones). " +
		"Stream multi: two or three plugin ends (raw / stub) register one after the other on ONE Adaptation, all staying connected, against the same or a changed state; the first synchronisation is split and its last message carries no pods (or no containers); every registration is judged like a single one."
	return nil
}

func objBucket(n int) string {
	switch {
	case n == 0:
		return "0"
	case n <= 8:
		return "1-8"
	case n <= 100:
		return "9-100"
	case n <= 1000:
		return "101-1000"
	}
	return "1001-4000"
}

func chunkCounts(o *Obs) [][3]int {
	var out [][3]int
	for _, m := range o.Msgs {
		more := 0
		if m.More {
			more = 1
		}
		out = append(out, [3]int{m.NP, m.NC, more})
	}
	return out
}

// minObjs reads minObjsPerMsg from the Go source (the same value gen_syncconsts hands to Coq).
func minObjs(repo string) int {
	f := gast.Parse(filepath.Join(repo, "pkg/adaptation/plugin.go"))
	return int(gast.MustInt(f.Consts(nil), "minObjsPerMsg"))
}
