(* C09 — case records written by harness/cmd/h_sync and the two boolean functions
   ./check evaluates on every case:
     corr_sync  : the model, fed the MEASURED object sizes, reproduces what the
                  implementation did (outcome class, every message: ids, More flag,
                  encoded size; handler invocations; updates; activation);
     holds_sync : the property's predicate is true of the implementation's observation. *)
From Coq Require Import List ZArith Bool.
From NRI Require Import Model.SyncConsts Model.SyncSplit Spec.SyncSpec Run.Common.
Import ListNotations.
Open Scope Z_scope.

(* ---------- decoding of the compact case format ---------- *)
Fixpoint zseq (s : Z) (n : nat) : list Z :=
  match n with O => [] | S k => s :: zseq (s + 1) k end.

(* (first id, count) runs -> ids *)
Definition expand_ids (runs : list (Z * Z)) : list Z :=
  flat_map (fun r => zseq (fst r) (Z.to_nat (snd r))) runs.
(* sizes, where an entry -k (sizes are positive) stands for k more copies of the size before it *)
Fixpoint expand_from (prev : Z) (l : list Z) : list Z :=
  match l with
  | [] => []
  | x :: r => if x <? 0 then repeat prev (Z.to_nat (- x)) ++ expand_from prev r else x :: expand_from x r
  end.
Definition expand_w (l : list Z) : list Z := expand_from 0 l.

(* objects of the model: (id, encoded size); ids are positions *)
Definition obj := (Z * Z)%type.
Fixpoint number (i : Z) (ws : list Z) : list obj :=
  match ws with [] => [] | w :: r => (i, w) :: number (i + 1) r end.

(* ---------- the scripted plugin end ---------- *)
Inductive script :=
| SGood
| SBadMore (k : Z)     (* message number k (from 1), if flagged More, is answered with More=false *)
| SEarlyUpd (k : Z)    (* ... is answered with an update *)
| SErr (k : Z)         (* message number k is answered with an error *)
| SErrFinal.           (* the message not flagged More is answered with an error of kind sc_errcode;
                          with sc_once only the FIRST such message (a correct runtime sends exactly one:
                          the model, like plugin.synchronize, does not look at the kind of a peer's error -
                          recalcObjsPerSyncMsg gives up on everything but a SEND-side OversizedMessageErr -
                          and never sends a second one, so neither field enters the model)
                          (stub: the Synchronize handler returns an error) *)

Definition good_reply (nupd : Z) (more : bool) : option (reply Z) :=
  Some (if more then {| r_more := true; r_update := [] |}
        else {| r_more := false; r_update := zseq 0 (Z.to_nat nupd) |}).

Definition script_peer (s : script) (nupd : Z) (n : Z) (mp mc : list obj) (more : bool) : Z * option (reply Z) :=
  let n' := n + 1 in
  (n',
   match s with
   | SGood => good_reply nupd more
   | SBadMore k => if more && (n' =? k) then Some {| r_more := false; r_update := [] |} else good_reply nupd more
   | SEarlyUpd k => if more && (n' =? k) then Some {| r_more := true; r_update := [0] |} else good_reply nupd more
   | SErr k => if n' =? k then None else good_reply nupd more
   | SErrFinal => if more then good_reply nupd more else None
   end).

Definition stub_handler (s : script) (nupd : Z) : list obj -> list obj -> option (list Z) :=
  fun _ _ => match s with SErrFinal => None | _ => Some (zseq 0 (Z.to_nat nupd)) end.

(* ---------- cases ---------- *)
Inductive obs_outcome :=
| ODelivered | OFailed
| OStalled      (* the runtime's synchronize neither returned nor sent anything for the stall bound *)
| OOther.       (* more messages than the proved bound *)

Definition obs_msg := (list (Z * Z) * list (Z * Z) * bool * Z)%type.  (* pod id runs, container id runs, More, proto.Size *)

Record sync_case := {
  sc_wp : list Z;              (* measured sizes of the pods in the runtime's order (see expand_w) *)
  sc_wc : list Z;              (* ... containers *)
  sc_hdr : Z;                  (* measured: ttrpc request envelope without payload *)
  sc_more : Z;                 (* measured: encoded size of More=true *)
  sc_limit : Z;                (* ttrpc's maximum message length *)
  sc_stub : bool;              (* plugin end: real stub.Stub (true) or raw scripted service (false) *)
  sc_nohandler : bool;         (* stub: the plugin has no Synchronize handler (events only) *)
  sc_script : script;
  sc_nupd : Z;                 (* updates the plugin returns in its final reply *)
  (* observation *)
  sc_msgs : list obs_msg;      (* every Synchronize message the plugin end received *)
  sc_outcome : obs_outcome;    (* what the runtime's sync call-back was told *)
  sc_errcode : Z;              (* scripts SErr / SErrFinal: gRPC code of the error the plugin end answers with
                                  (2 Unknown = a plain error, 8 ResourceExhausted, 13 Internal, 14 Unavailable) *)
  sc_once : bool;              (* script SErrFinal: only the first message not flagged More is failed *)
  sc_hcalls : list (list (Z * Z) * list (Z * Z));   (* stub: every invocation of the Synchronize handler, with the id runs it was handed *)
  sc_upd : list Z;             (* updates the runtime's sync call-back received *)
  sc_active : bool;            (* the plugin received the event sent after registration *)
  sc_usable : bool             (* after the registration the runtime's plugin-sync lock was free again
                                  (BlockPluginSync returned): the next plugin can register *)
}.

Definition case_pods (c : sync_case) : list obj := number 0 (expand_w (sc_wp c)).
Definition case_ctrs (c : sync_case) : list obj := number 0 (expand_w (sc_wc c)).
Definition case_xmit (c : sync_case) := xmit_size (@snd Z Z) (@snd Z Z) (sc_hdr c) (sc_more c) (sc_limit c).

(* ---------- projected observable ---------- *)
Definition pmsg := (list Z * list Z * bool * Z)%type.
Record proj := {
  pj_outcome : Z;                       (* 0 delivered, 1 failed, 2 panic, 3 out of fuel *)
  pj_msgs : list pmsg;
  pj_calls : list (list Z * list Z);
  pj_upd : list Z;
  pj_active : bool;
  pj_usable : bool                      (* acceptPluginConnections: finishedPluginSync() runs whether or not the
                                           synchronisation succeeded; never when synchronize does not return *)
}.

Definition proj_chunk (c : sync_case) (ch : chunk obj obj) : pmsg :=
  let '(mp, mc, more) := ch in
  (map fst mp, map fst mc, more, payload_len (@snd Z Z) (@snd Z Z) (sc_more c) mp mc more).

Definition proj_calls (l : list (list obj * list obj)) : list (list Z * list Z) :=
  map (fun pc => (map fst (fst pc), map fst (snd pc))) l.

(* the registering plugin is the only one; active = it is in the list afterwards *)
Definition active_after (sync_ok : bool) : bool :=
  negb (is_nil (accept_external (fun l => l) true [] tt sync_ok)).
(* interpretation I4 is the boolean min_chunks_fit of Spec/SyncSpec.v (the hypothesis of C09_delivers_sizes) *)

Definition proj_outcome {PS} (c : sync_case) (calls : PS -> list (list obj * list obj)) (o : outcome obj obj Z PS) : proj :=
  match o with
  | Delivered s u st => {| pj_outcome := 0; pj_msgs := map (proj_chunk c) s; pj_calls := proj_calls (calls st); pj_upd := u; pj_active := active_after (outcome_ok o); pj_usable := true |}
  | Failed _ s st => {| pj_outcome := 1; pj_msgs := map (proj_chunk c) s; pj_calls := proj_calls (calls st); pj_upd := []; pj_active := active_after (outcome_ok o); pj_usable := true |}
  | Panic s => {| pj_outcome := 2; pj_msgs := map (proj_chunk c) s; pj_calls := []; pj_upd := []; pj_active := false; pj_usable := false |}
  | OutOfFuel s => {| pj_outcome := 3; pj_msgs := map (proj_chunk c) s; pj_calls := []; pj_upd := []; pj_active := false; pj_usable := false |}
  end.

Definition model_proj (c : sync_case) : proj :=
  let pods := case_pods c in
  let ctrs := case_ctrs c in
  if sc_stub c then
    proj_outcome c (@ss_calls obj obj)
      (synchronize (case_xmit c) (stub_sync (if sc_nohandler c then None else Some (stub_handler (sc_script c) (sc_nupd c)))) recalc
                   (sync_fuel pods ctrs) pods ctrs stub_init)
  else
    proj_outcome c (fun _ : Z => [])
      (synchronize (case_xmit c) (script_peer (sc_script c) (sc_nupd c)) recalc
                   (sync_fuel pods ctrs) pods ctrs 0).

Definition obs_proj (c : sync_case) : proj :=
  {| pj_outcome := match sc_outcome c with ODelivered => 0 | OFailed => 1 | OStalled => 3 | OOther => 4 end;
     pj_msgs := map (fun m : obs_msg => let '(pr, cr, more, sz) := m in (expand_ids pr, expand_ids cr, more, sz)) (sc_msgs c);
     pj_calls := map (fun pc => (expand_ids (fst pc), expand_ids (snd pc))) (sc_hcalls c);
     pj_upd := sc_upd c;
     pj_active := sc_active c;
     pj_usable := sc_usable c |}.

Definition zlist_eqb := list_eqb Z.eqb.
Definition pmsg_eqb (a b : pmsg) : bool :=
  let '(ap, ac, am, az) := a in let '(bp, bc, bm, bz) := b in
  zlist_eqb ap bp && zlist_eqb ac bc && Bool.eqb am bm && (az =? bz).
Definition proj_eqb (a b : proj) : bool :=
  (pj_outcome a =? pj_outcome b) && list_eqb pmsg_eqb (pj_msgs a) (pj_msgs b) &&
  list_eqb (pair_eqb zlist_eqb zlist_eqb) (pj_calls a) (pj_calls b) &&
  zlist_eqb (pj_upd a) (pj_upd b) && Bool.eqb (pj_active a) (pj_active b) && Bool.eqb (pj_usable a) (pj_usable b).

Definition corr_sync (c : sync_case) : bool := proj_eqb (model_proj c) (obs_proj c).

(* ---------- the property's predicate on an observation ---------- *)

Definition well_behaved (c : sync_case) : bool :=
  match sc_script c with SGood => true | _ => false end.

Definition must_deliver (c : sync_case) : bool :=
  well_behaved c && min_chunks_fit (sc_hdr c) (sc_more c) (sc_limit c) (expand_w (sc_wp c)) (expand_w (sc_wc c)).

(* no_resend (Spec/SyncSpec.v): nothing is sent after a message not flagged More, whatever the plugin
   answers to it (C09_no_resend) *)
Definition is_errfinal (c : sync_case) : bool :=
  match sc_script c with SErrFinal => true | _ => false end.

Definition holds_sync (c : sync_case) : bool :=
  let o := obs_proj c in
  let np := length (expand_w (sc_wp c)) in
  let nc := length (expand_w (sc_wc c)) in
  (* whatever the outcome, the runtime can go on: the next plugin can register *)
  sc_usable c &&
  (* one request per registration: no message follows the one not flagged More; the handler is invoked
     at most once, whatever it answers, and sees exactly the supplied state (C09_handler_at_most_once) *)
  no_resend (map (fun m : pmsg => snd (fst m)) (pj_msgs o)) &&
  (if sc_stub c
   then (length (pj_calls o) <=? 1)%nat &&
        forallb (fun call => pair_eqb zlist_eqb zlist_eqb call (zseq 0 np, zseq 0 nc)) (pj_calls o)
   else true) &&
  match sc_outcome c with
  | ODelivered =>
      (* a plugin whose handler failed its one synchronisation is not synchronised *)
      negb (is_errfinal c) &&
      (* exactly the supplied pods and containers, each once, in the runtime's order *)
      zlist_eqb (concat (map (fun m : pmsg => fst (fst (fst m))) (pj_msgs o))) (zseq 0 np) &&
      zlist_eqb (concat (map (fun m : pmsg => snd (fst (fst m))) (pj_msgs o))) (zseq 0 nc) &&
      more_flags_ok (map (fun m : pmsg => snd (fst m)) (pj_msgs o)) &&
      (* the handler is invoked exactly once with the whole state *)
      (if sc_stub c
       then list_eqb (pair_eqb zlist_eqb zlist_eqb) (pj_calls o) (if sc_nohandler c then [] else [(zseq 0 np, zseq 0 nc)])
       else true) &&
      (* registration completed: the plugin is active (it receives the event sent afterwards) *)
      (if sc_nohandler c then sc_active c else true) &&
      (* the updates the plugin returned reach the runtime *)
      zlist_eqb (pj_upd o) (zseq 0 (Z.to_nat (sc_nupd c)))
  | OFailed =>
      (* clean failure: not activated; and failure is acceptable only when delivery is not owed *)
      negb (sc_active c) && negb (must_deliver c)
  | OStalled | OOther => false     (* neither delivered nor failed cleanly *)
  end.

(* ====================================================================================== *)
(* The resync stream: ONE real stub.Stub value registers several times with a real
   adaptation.Adaptation, each time against its own state.  Registrations that fail after
   some accepted chunks (a later chunk cannot be sent even at the minimum chunk size; the
   runtime closes the plugin, the stub runs close()) are followed by registrations that
   complete.  Objects of registration number j carry the ids at_base, at_base + 1, ...  *)

Record attempt := {
  at_base : Z;                 (* id of the first pod and of the first container of this state *)
  at_wp : list Z;              (* measured sizes (expand_w) *)
  at_wc : list Z;
  (* observation *)
  at_msgs : list obs_msg;      (* every Synchronize message the stub received on this connection *)
  at_outcome : obs_outcome;    (* what the runtime's sync call-back was told *)
  at_calls : list (list (Z * Z) * list (Z * Z));   (* handler invocations during this connection: id runs *)
  at_upd : list Z;             (* updates the runtime's sync call-back received *)
  at_active : bool;            (* the plugin received the event sent after this registration *)
  at_usable : bool             (* the runtime's plugin-sync lock was free again after this registration *)
}.

Record resync_case := {
  rs_hdr : Z; rs_more : Z; rs_limit : Z;
  rs_nupd : Z;
  rs_attempts : list attempt   (* in order; close() of the stub runs after each *)
}.

Definition proj_chunk_m (more_cost : Z) (ch : chunk obj obj) : pmsg :=
  let '(mp, mc, more) := ch in
  (map fst mp, map fst mc, more, payload_len (@snd Z Z) (@snd Z Z) more_cost mp mc more).

Definition resync_handler (nupd : Z) : list obj -> list obj -> option (list Z) :=
  fun _ _ => Some (zseq 0 (Z.to_nat nupd)).

(* the model: the sender against the stub model, the stub state carried from one
   registration to the next through stub_close (whether it resets: Model/SyncConsts.v) *)
Fixpoint model_attempts (rc : resync_case) (st : stub_state obj obj) (l : list attempt) : list proj :=
  match l with
  | [] => []
  | a :: r =>
    let pods := number (at_base a) (expand_w (at_wp a)) in
    let ctrs := number (at_base a) (expand_w (at_wc a)) in
    let before := length (ss_calls st) in
    let o := synchronize (xmit_size (@snd Z Z) (@snd Z Z) (rs_hdr rc) (rs_more rc) (rs_limit rc))
                         (stub_sync (Some (resync_handler (rs_nupd rc)))) recalc (sync_fuel pods ctrs) pods ctrs st in
    let new_calls (st' : stub_state obj obj) := proj_calls (skipn before (ss_calls st')) in
    let '(p, st') :=
      match o with
      | Delivered s u st' =>
          ({| pj_outcome := 0; pj_msgs := map (proj_chunk_m (rs_more rc)) s; pj_calls := new_calls st'; pj_upd := u; pj_active := active_after true; pj_usable := true |}, st')
      | Failed _ s st' =>
          ({| pj_outcome := 1; pj_msgs := map (proj_chunk_m (rs_more rc)) s; pj_calls := new_calls st'; pj_upd := []; pj_active := active_after false; pj_usable := true |}, st')
      | Panic s => ({| pj_outcome := 2; pj_msgs := map (proj_chunk_m (rs_more rc)) s; pj_calls := []; pj_upd := []; pj_active := false; pj_usable := false |}, st)
      | OutOfFuel s => ({| pj_outcome := 3; pj_msgs := map (proj_chunk_m (rs_more rc)) s; pj_calls := []; pj_upd := []; pj_active := false; pj_usable := false |}, st)
      end in
    p :: model_attempts rc (stub_close close_resets_sync st') r
  end.

Definition expand_msg (m : obs_msg) : pmsg :=
  let '(pr, cr, more, sz) := m in (expand_ids pr, expand_ids cr, more, sz).

Definition obs_attempt (a : attempt) : proj :=
  {| pj_outcome := match at_outcome a with ODelivered => 0 | OFailed => 1 | OStalled => 3 | OOther => 4 end;
     pj_msgs := map expand_msg (at_msgs a);
     pj_calls := map (fun pc => (expand_ids (fst pc), expand_ids (snd pc))) (at_calls a);
     pj_upd := at_upd a;
     pj_active := at_active a;
     pj_usable := at_usable a |}.

Definition corr_resync (rc : resync_case) : bool :=
  list_eqb proj_eqb (model_attempts rc stub_init (rs_attempts rc)) (map obs_attempt (rs_attempts rc)).

(* ---------- the property's predicate on the observation ---------- *)

(* the connection as the stub saw it, in the vocabulary of C09_sessions_isolated *)
Fixpoint obs_session (msgs : list pmsg) : session Z Z :=
  match msgs with
  | [] => ([], SClosed)
  | (p, c, more, _) :: r =>
      if more then let '(g, e) := obs_session r in ((p, c) :: g, e) else ([], SFinal p c)
  end.

Definition calls_eqb := list_eqb (pair_eqb zlist_eqb zlist_eqb).

Definition holds_attempt (rc : resync_case) (a : attempt) : bool :=
  let o := obs_attempt a in
  let wp := expand_w (at_wp a) in
  let wc := expand_w (at_wc a) in
  let ps := zseq (at_base a) (length wp) in
  let cs := zseq (at_base a) (length wc) in
  (* receiver (C09_sessions_isolated): the invocations during this connection are exactly what
     this connection's own messages owe - nothing of an earlier connection, at most one *)
  calls_eqb (pj_calls o) (session_delivery (obs_session (pj_msgs o))) &&
  (* clean, whatever the outcome: the runtime can go on, the next registration is not blocked *)
  at_usable a &&
  match at_outcome a with
  | ODelivered =>
      (* the messages carry exactly the supplied state, each object once, in order *)
      zlist_eqb (concat (map (fun m : pmsg => fst (fst (fst m))) (pj_msgs o))) ps &&
      zlist_eqb (concat (map (fun m : pmsg => snd (fst (fst m))) (pj_msgs o))) cs &&
      more_flags_ok (map (fun m : pmsg => snd (fst m)) (pj_msgs o)) &&
      (* the handler is invoked exactly once, with exactly the state of THIS registration *)
      calls_eqb (pj_calls o) [(ps, cs)] &&
      zlist_eqb (pj_upd o) (zseq 0 (Z.to_nat (rs_nupd rc)))
  | OFailed =>
      (* clean failure: no handler invocation, not activated; acceptable only when delivery is not owed (I4) *)
      is_nil (pj_calls o) && negb (at_active a) &&
      negb (min_chunks_fit (rs_hdr rc) (rs_more rc) (rs_limit rc) wp wc)
  | OStalled | OOther => false
  end.

Definition holds_resync (rc : resync_case) : bool := forallb (holds_attempt rc) (rs_attempts rc).

(* ====================================================================================== *)
(* The multi stream: several plugin ends register one after the other on ONE adaptation.Adaptation,
   each against the state the runtime holds then.  A case is the list of these registrations, each
   recorded like a single one.  The model of each is the model of a single registration: synchronize
   starts from the whole state (podsPerMsg = len(pods), ctrsPerMsg = len(containers)) and reads nothing
   an earlier synchronisation on the same runtime could have left behind (C09_sync_independent). *)
Definition corr_multi (l : list sync_case) : bool := forallb corr_sync l.
Definition holds_multi (l : list sync_case) : bool := forallb holds_sync l.
