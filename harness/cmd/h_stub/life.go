package main

// Driver "stublife" (C16): sequences of Start / Stop / Wait / connection loss against one real
// stub.Stub and the scripted runtime end, with the runtime end's behaviour chosen per Start.
// Per operation the driver records the class (ok / error / returned / still blocked after the
// bound), IsStarted, the number of close call-backs seen and the number of Wait calls still
// blocked, after everything under way has settled.

import (
	"context"
	"encoding/json"
	"fmt"
	"os"
	"os/exec"
	"path/filepath"
	"sort"
	"strings"
	"sync"
	"sync/atomic"
	"time"

	"verif/harness/internal/coqfmt"
	"verif/harness/internal/hx"
)

const lifeImports = "From NRI Require Import Model.Stub Spec.StubSpec Run.Common Run.RunStub."

const (
	bDropInReg     = "drop-in-register"
	bSilentReg     = "silent-register"
	bCfgReject     = "configure-rejected"        // the hook asks for an event without handler; the runtime end keeps the connection
	bCfgErrorDrop  = "configure-error-then-drop" // the hook fails; the runtime end drops the connection 50 ms after the error
	bCfgRejectDrop = "configure-rejected-then-drop"
	// the plugin's Configure hook takes 300 ms, the runtime end drops the connection 100 ms after sending Configure:
	// Start gives up, the hook reports afterwards
	bDropInSlowCfg = "drop-in-slow-configure"
	// the runtime end configures the plugin before answering RegisterPlugin, then refuses the registration
	bCfgThenRefuse = "configure-then-refuse"
	// the runtime end closes the connection as soon as it has accepted it (byte offset 0); for the stub the same as a
	// drop during registration
	bDropAtAccept = "drop-at-accept"
)

var behTerm = map[string]string{
	bHealthy: "BHealthy", bUnreachable: "BUnreachable", bRefuse: "BRefuse", bDropInReg: "BDropInReg",
	bSilentReg: "BSilentReg", bDropAfterReg: "BDropAfterReg", bCfgError: "BCfgError", bDropInCfg: "BDropAfterCfg",
	bCfgReject: "BCfgReject", bCfgErrorDrop: "BCfgErrorDrop", bCfgRejectDrop: "BCfgRejectDrop",
	bDropInSlowCfg: "BDropInSlowCfg", bCfgThenRefuse: "BCfgThenRefuse", bDropAtAccept: "BDropInReg",
}

type lifeOp struct {
	Op   string `json:"op"`             // start | stop | wait | lose | stopstart | startstart
	Beh  string `json:"beh,omitempty"`  // runtime behaviour for start / stopstart (startstart: of the second Start)
	Beh0 string `json:"beh0,omitempty"` // startstart: runtime behaviour for the first Start (meant to fail)
	N    int    `json:"n,omitempty"`    // startmany: number of Starts in a row
}

func (o lifeOp) String() string {
	if o.Op == "startstart" {
		return o.Op + "(" + o.Beh0 + "," + o.Beh + ")"
	}
	if o.Op == "startmany" {
		return fmt.Sprintf("startmany(%s,%d)", o.Beh, o.N)
	}
	if o.Beh != "" {
		return o.Op + "(" + o.Beh + ")"
	}
	return o.Op
}

func (o lifeOp) term() string {
	switch o.Op {
	case "start":
		return "OStart " + behTerm[o.Beh]
	case "run":
		return "ORun " + behTerm[o.Beh]
	case "stop":
		return "OStop"
	case "wait":
		return "OWait"
	case "lose":
		return "OLose"
	case "stopstart":
		return "OStopStart " + behTerm[o.Beh]
	case "startstart":
		return "OStartStart " + behTerm[o.Beh0] + " " + behTerm[o.Beh]
	case "startmany":
		return "OStartMany " + behTerm[o.Beh] + " " + coqfmt.Nat(o.N)
	}
	panic("unknown op " + o.Op)
}

type lifeObs struct {
	Class   string `json:"class"`   // ok | err | returned | blocked
	Started string `json:"started"` // true | false | blocked
	Closes  int    `json:"closes"`
	Waiting int    `json:"waiting"`
	Running int    `json:"running"` // Run calls still blocked
	// on the last observation of a sequence: what the plugin's handlers got from the stub's accessors
	AccessorCalls    int    `json:"accessor_calls,omitempty"`
	AccessorStuck    int    `json:"accessor_calls_not_returned,omitempty"`
	AccessorMismatch string `json:"accessor_mismatch,omitempty"`
	Err              string `json:"err,omitempty"`
	Ms               int64  `json:"ms"`
}

func (o lifeObs) term() string {
	k := map[string]string{"ok": "KOk", "err": "KErr", "returned": "KReturned", "blocked": "KBlocked", "crashed": "KCrashed"}[o.Class]
	st := map[string]string{"true": "(Some true)", "false": "(Some false)", "blocked": "None"}[o.Started]
	return fmt.Sprintf("{| o_class := %s; o_started := %s; o_closes := %s; o_waiting := %s; o_running := %s |}", k, st, coqfmt.Nat(o.Closes), coqfmt.Nat(o.Waiting), coqfmt.Nat(o.Running))
}

type lifeRaw struct {
	Stream    string            `json:"stream"`
	Ops       []lifeOp          `json:"ops"`
	Obs       []lifeObs         `json:"observed"`
	Deviation string            `json:"deviation,omitempty"`
	Signature map[string]string `json:"signature,omitempty"`
}

type lifeTiming struct {
	block time.Duration // "still blocked": >= 3x the longest legitimate time-out (registration time-out 400 ms)
	quiet time.Duration // nothing changed for this long = settled
}

func (r *rig) setBehaviour2(b string) {
	switch b {
	case bDropInReg:
		sc := healthyScript()
		sc.Register = "drop"
		r.unreachable.Store(false)
		r.pl.failCfg.Store(false)
		r.pl.cfgDelayMs.Store(0)
		r.rt.setScript(sc)
	case bSilentReg:
		sc := healthyScript()
		sc.Register = "silent"
		r.unreachable.Store(false)
		r.pl.failCfg.Store(false)
		r.pl.cfgDelayMs.Store(0)
		r.rt.setScript(sc)
	case bDropAtAccept:
		sc := healthyScript()
		sc.DropAtAccept = true
		r.unreachable.Store(false)
		r.pl.failCfg.Store(false)
		r.pl.cfgMask.Store(0)
		r.pl.cfgDelayMs.Store(0)
		r.rt.setScript(sc)
	case bDropInSlowCfg, bCfgThenRefuse:
		sc := healthyScript()
		r.unreachable.Store(false)
		r.pl.failCfg.Store(false)
		r.pl.cfgMask.Store(0)
		r.pl.cfgDelayMs.Store(0)
		if b == bDropInSlowCfg {
			sc.DropDuringCfgMs = 100
			r.pl.cfgDelayMs.Store(300)
		} else {
			sc.Register = "configure-then-refuse"
		}
		r.rt.setScript(sc)
	case bCfgReject, bCfgErrorDrop, bCfgRejectDrop:
		sc := healthyScript()
		if b != bCfgReject {
			sc.AfterCfgErr = "drop"
		}
		r.unreachable.Store(false)
		r.pl.cfgDelayMs.Store(0)
		r.pl.failCfg.Store(b == bCfgErrorDrop)
		r.pl.cfgMask.Store(0)
		if b != bCfgErrorDrop {
			r.pl.cfgMask.Store(2) // StopPodSandbox: the life plugin has no handler for it
		}
		r.rt.setScript(sc)
	default:
		r.setBehaviour(b)
	}
}

// quiesce waits until the close count, IsStarted and the number of blocked waiters have not
// changed for tm.quiet (IsStarted is not asked when the lock is known to be held for ever).
func (r *rig) quiesce(tm lifeTiming, waits, runs []*call, locked bool) (started string, closes, waiting, running int) {
	pendingOf := func(l []*call) int {
		n := 0
		for _, c := range l {
			if !c.returned() {
				n++
			}
		}
		return n
	}
	// blocked Wait and Run calls are counted in one number for the stability test and separately at the end
	snap := func() (string, int, int) {
		st := "blocked"
		if !locked {
			st = r.startedNow(tm.block)
		}
		return st, int(r.closes.Load()), pendingOf(waits)*1000 + pendingOf(runs)
	}
	// settled = unchanged for tm.quiet AND over at least 25 consecutive samples (a stall of the whole
	// process lets wall-clock time pass without anything having had a chance to run)
	ls, lc, lw := snap()
	since, same := time.Now(), 0
	deadline := time.Now().Add(40 * tm.quiet)
	for (time.Since(since) < tm.quiet || same < 25) && time.Now().Before(deadline) {
		time.Sleep(5 * time.Millisecond)
		s, c, w := snap()
		if s != ls || c != lc || w != lw {
			ls, lc, lw, since, same = s, c, w, time.Now(), 0
		} else {
			same++
		}
		if s == "blocked" {
			break
		}
	}
	return ls, lc, lw / 1000, lw % 1000
}

// stallWatch notices when the whole process did not get to run for a while (CPU contention, cgroup
// throttling): a goroutine that sleeps 10 ms at a time records every gap above 200 ms.  A sequence that
// overlaps such a gap is run again: its timing verdicts ("blocked", "settled") cannot be trusted.
type stallWatch struct {
	mu     sync.Mutex
	stalls [][2]time.Time
	stop   chan struct{}
}

func newStallWatch() *stallWatch {
	w := &stallWatch{stop: make(chan struct{})}
	go func() {
		last := time.Now()
		for {
			select {
			case <-w.stop:
				return
			default:
			}
			time.Sleep(10 * time.Millisecond)
			now := time.Now()
			if now.Sub(last) > 200*time.Millisecond {
				w.mu.Lock()
				w.stalls = append(w.stalls, [2]time.Time{last, now})
				w.mu.Unlock()
			}
			last = now
		}
	}()
	return w
}

func (w *stallWatch) overlaps(t0, t1 time.Time) bool {
	w.mu.Lock()
	defer w.mu.Unlock()
	for _, s := range w.stalls {
		if s[0].Before(t1) && s[1].After(t0) {
			return true
		}
	}
	return false
}

func (w *stallWatch) count() int {
	w.mu.Lock()
	defer w.mu.Unlock()
	return len(w.stalls)
}

func sameObs(a, b []lifeObs) bool {
	if len(a) != len(b) {
		return false
	}
	for i := range a {
		// what the confirmation is about: which operations returned, which did not; counts may differ between two
		// runs where the schedule matters (immediate restarts), the model's prediction set covers that
		if a[i].Class != b[i].Class || a[i].Started != b[i].Started {
			return false
		}
	}
	return true
}

func hasBlocked(obs []lifeObs) bool {
	for _, o := range obs {
		if o.Class == "blocked" || o.Started == "blocked" {
			return true
		}
	}
	return false
}

// runLifeChecked runs a sequence until a run is free of process stalls; an observation that contains
// "blocked" is accepted only when a second run with twice the bound observes exactly the same.
// retries counts the repetitions for the evidence.
func runLifeChecked(ops []lifeOp, tm lifeTiming, w *stallWatch, retries *atomic.Int32) ([]lifeObs, error) {
	var last []lifeObs
	base := tm
	var blockedRuns [][]lifeObs
	for attempt := 0; attempt < 5; attempt++ {
		// a "blocked" verdict that a run with twice the bound does not reproduce may be an operation that is only
		// slow (released by a time-out of the code under test that is longer than the bound): the bound doubles
		// with every attempt, so that such an operation ends up observed as what it is
		tm := base
		if attempt > 0 && attempt < 4 {
			tm.block = base.block << uint(attempt)
		} else if attempt == 4 {
			tm.block = base.block << 3
		}
		t0 := time.Now()
		obs, err := runLife(ops, tm)
		if err != nil {
			return nil, err
		}
		last = obs
		time.Sleep(15 * time.Millisecond) // let the watcher see a stall that just ended
		if w.overlaps(t0, time.Now()) {
			retries.Add(1)
			continue
		}
		if !hasBlocked(obs) {
			return obs, nil
		}
		blockedRuns = append(blockedRuns, obs)
		tm2 := tm
		tm2.block *= 2
		t1 := time.Now()
		obs2, err := runLife(ops, tm2)
		if err != nil {
			return nil, err
		}
		time.Sleep(15 * time.Millisecond)
		if !w.overlaps(t1, time.Now()) && sameObs(obs, obs2) {
			return obs, nil
		}
		if !w.overlaps(t1, time.Now()) && hasBlocked(obs2) {
			blockedRuns = append(blockedRuns, obs2)
		}
		retries.Add(1)
	}
	// a hang that happens only now and then (a scheduling window) is not reproduced by the very next run: two
	// stall-free runs that each saw an operation not return are accepted as that observation
	if len(blockedRuns) >= 2 {
		return blockedRuns[len(blockedRuns)-1], nil
	}
	return nil, fmt.Errorf("no stall-free, reproducible run in 5 attempts (last observation %+v)", last)
}

// runLife performs one sequence on a fresh stub and runtime.
func runLife(ops []lifeOp, tm lifeTiming) ([]lifeObs, error) {
	r, err := newRig()
	if err != nil {
		return nil, err
	}
	defer r.close()
	r.blockBound = tm.block
	var obs []lifeObs
	var waits, runs []*call
	ctx := context.Background()
	start := func(b string) *call {
		r.setBehaviour2(b)
		return launch(func() error { return r.st.Start(ctx) })
	}
	for _, op := range ops {
		t0 := time.Now()
		o := lifeObs{}
		locked := false
		switch op.Op {
		case "start", "stopstart", "startstart":
			if op.Op == "stopstart" {
				stop := launch(func() error { r.st.Stop(); return nil })
				if !stop.wait(tm.block) {
					o.Class, locked = "blocked", true
					break
				}
			}
			if op.Op == "startstart" {
				// the first Start, then at once the second: no settling in between
				first := start(op.Beh0)
				if !first.wait(tm.block) {
					o.Class, locked = "blocked", true
					break
				}
			}
			c := start(op.Beh)
			if !c.wait(tm.block) {
				o.Class, locked = "blocked", true
				break
			}
			if c.err != nil {
				o.Class, o.Err = "err", c.err.Error()
			} else {
				o.Class = "ok"
			}
			if op.Beh == bDropInCfg && c.err == nil {
				// the runtime end drops the connection 50 ms after it has the Configure response:
				// wait until that has happened (its own ttrpc client saw the connection go away)
				if s := r.rt.last(); s != nil {
					waitC(s.configured, tm.block)
					waitC(s.closed, tm.block)
				}
			}
		case "startmany":
			// many Starts in a row, each must come back (with an error) before the next; observed once at the end
			o.Class = "err"
			for k := 0; k < op.N; k++ {
				c := start(op.Beh)
				if !c.wait(tm.block) {
					o.Class, locked = "blocked", true
					o.Err = fmt.Sprintf("Start number %d of %d did not return", k+1, op.N)
					break
				}
				if c.err == nil {
					o.Class = "ok"
				}
			}
		case "run":
			// Run in a goroutine of its own: it either returns (its Start failed, or the session is over
			// already) or stays blocked with the stub started; a Start that does not finish = blocked
			r.setBehaviour2(op.Beh)
			before := r.startedNow(tm.block) // on a started stub Run has to come back with "already started"
			c := launch(func() error { return r.st.Run(ctx) })
			runs = append(runs, c)
			deadline := time.Now().Add(tm.block)
			for {
				if c.returned() {
					if c.err != nil {
						o.Class, o.Err = "err", c.err.Error()
					} else {
						o.Class = "ok"
					}
					break
				}
				if before == "false" && r.startedNow(100*time.Millisecond) == "true" {
					o.Class = "ok"
					break
				}
				if time.Now().After(deadline) {
					o.Class, locked = "blocked", true
					break
				}
				time.Sleep(2 * time.Millisecond)
			}
		case "stop":
			c := launch(func() error { r.st.Stop(); return nil })
			if !c.wait(tm.block) {
				o.Class, locked = "blocked", true
			} else {
				o.Class = "returned"
			}
		case "wait":
			waits = append(waits, launch(func() error { r.st.Wait(); return nil }))
			o.Class = "returned"
		case "lose":
			if s := r.rt.last(); s != nil {
				s.drop()
				waitC(s.closed, tm.block)
			}
			o.Class = "returned"
		default:
			return nil, fmt.Errorf("unknown op %q", op.Op)
		}
		o.Ms = time.Since(t0).Milliseconds()
		// a Configure hook that is still running (the slow one) reports when it is done: wait for that, bounded
		for dl := time.Now().Add(tm.block); r.pl.cfgReturned.Load() < r.pl.cfgs.Load() && time.Now().Before(dl); {
			time.Sleep(2 * time.Millisecond)
		}
		o.Started, o.Closes, o.Waiting, o.Running = r.quiesce(tm, waits, runs, locked)
		if o.Started == "blocked" && o.Class != "blocked" {
			// the operation returned but the lock is held: report it as it is, the sequence ends here
			locked = true
		}
		obs = append(obs, o)
		if locked {
			break
		}
	}
	if n := len(obs); n > 0 {
		obs[n-1].AccessorCalls = int(r.pl.accessed.Load())
		obs[n-1].AccessorStuck = int(r.pl.inAccessor.Load())
		if bad, _ := r.pl.accessBad.Load().(string); bad != "" {
			obs[n-1].AccessorMismatch = bad
		}
	}
	return obs, nil
}

// judge is the property's oracle in Go: which class each operation must have and whether the
// stub must be started afterwards; the first deviation is described and, when it is one of the
// three recorded defects of the pinned code, named.
func judge(ops []lifeOp, obs []lifeObs) (deviation, slug string) {
	started := false
	closes, waiting, running := 0, 0, 0 // close call-backs due so far (one per client created and closed), Wait / Run calls that must still block
	deadConn := ""                      // the behaviour of an earlier Start that failed after the connection was made
	for i, o := range obs {
		op := ops[i]
		wantClass, wantStarted := "returned", started
		endSession := func() {
			if started {
				closes++
				waiting, running = 0, 0
			}
			started = false
		}
		switch op.Op {
		case "startmany":
			if !started {
				wantClass, wantStarted = "err", false
				if op.Beh != bUnreachable {
					closes += op.N
				}
			} else {
				wantClass, wantStarted = "err", true
			}
		case "start", "stopstart", "startstart", "run":
			if op.Op == "stopstart" {
				endSession()
			}
			if op.Op == "run" && !started && op.Beh == bHealthy {
				running++ // Run stays blocked as long as the session is up
			}
			if op.Op == "startstart" && !started {
				// the first Start must fail and leave the stub idle; its client (if one was made) is closed
				switch op.Beh0 {
				case bHealthy, bDropInCfg:
					started = op.Beh0 == bHealthy
					if op.Beh0 == bDropInCfg {
						closes++
					}
				case bUnreachable:
				default:
					closes++
				}
			}
			switch {
			case started:
				wantClass, wantStarted = "err", true
			case op.Beh == bHealthy:
				wantClass, wantStarted = "ok", true
			case op.Beh == bDropInCfg:
				wantClass, wantStarted = "ok", false
				closes++
			case op.Beh == bUnreachable:
				wantClass, wantStarted = "err", false
			default:
				wantClass, wantStarted = "err", false
				closes++ // the client of the failed handshake is closed: its notification is delivered
			}
		case "stop", "lose":
			endSession()
			wantStarted = false
		case "wait":
			if started {
				waiting++
			}
		}
		ws := "false"
		if wantStarted {
			ws = "true"
		}
		if o.Class == wantClass && o.Started == ws && o.Closes == closes && o.Waiting == waiting && o.Running == running {
			started = wantStarted
			if (op.Op == "start" || op.Op == "run" || op.Op == "stopstart" || op.Op == "startstart") && o.Class == "err" && op.Beh != bUnreachable && op.Beh != bHealthy && op.Beh != bDropInCfg {
				deadConn = op.Beh
			}
			continue
		}
		deviation = fmt.Sprintf("operation %d %s: observed class=%s started=%s close call-backs=%d blocked Wait calls=%d blocked Run calls=%d, the property demands class=%s started=%s close call-backs=%d blocked Wait calls=%d blocked Run calls=%d",
			i, op, o.Class, o.Started, o.Closes, o.Waiting, o.Running, wantClass, ws, closes, waiting, running)
		isStart := op.Op == "start" || op.Op == "run" || op.Op == "stopstart" || op.Op == "startstart"
		switch {
		case o.Class == "blocked" && op.Beh == bDropAfterReg:
			slug = "start-blocks-on-drop-before-configure"
		case isStart && deadConn != "" && !started && o.Class == "err" && o.Started == "false":
			// a Start on the connection a failed Start left behind: fails although the runtime is healthy,
			// or (unreachable runtime) goes through the set-up on the dead connection and closes a client
			slug = "dead-conn-reused-after-failed-start"
		case (op.Op == "stopstart" || op.Op == "startstart") && o.Class == wantClass && wantStarted && o.Started == "false":
			slug = "stale-close-tears-down-new-session"
		}
		return deviation, slug
	}
	return "", ""
}

func parseSeq(s string) []lifeOp {
	var out []lifeOp
	for _, f := range strings.Fields(s) {
		op := lifeOp{Op: f}
		if i := strings.IndexByte(f, '('); i > 0 {
			op.Op, op.Beh = f[:i], strings.TrimSuffix(f[i+1:], ")")
			if j := strings.IndexByte(op.Beh, ','); j > 0 {
				if op.Op == "startmany" {
					fmt.Sscanf(op.Beh[j+1:], "%d", &op.N)
					op.Beh = op.Beh[:j]
				} else {
					op.Beh0, op.Beh = op.Beh[:j], op.Beh[j+1:]
				}
			}
		}
		if op.Op == "S" {
			op = lifeOp{Op: "start", Beh: bHealthy}
		}
		out = append(out, op)
	}
	return out
}

func lifeSequences(c *hx.Ctx) [][]lifeOp {
	var seqs [][]lifeOp
	add := func(s string) { seqs = append(seqs, parseSeq(s)) }
	// every sequence of Start (healthy runtime), Stop, Wait of length <= 4, and with connection loss of length <= 3
	var gen func(prefix []string, alphabet []string, n int)
	gen = func(prefix []string, alphabet []string, n int) {
		if len(prefix) > 0 {
			add(strings.Join(prefix, " "))
		}
		if n == 0 {
			return
		}
		for _, a := range alphabet {
			gen(append(append([]string{}, prefix...), a), alphabet, n-1)
		}
	}
	gen(nil, []string{"S", "stop", "wait"}, 4)
	seen := map[string]bool{}
	for _, s := range seqs {
		seen[fmt.Sprint(s)] = true
	}
	var withLose [][]lifeOp
	old := seqs
	seqs = nil
	gen(nil, []string{"S", "stop", "wait", "lose"}, 3)
	for _, s := range seqs {
		if !seen[fmt.Sprint(s)] {
			withLose = append(withLose, s)
		}
	}
	seqs = append(old, withLose...)

	faults := []string{bUnreachable, bRefuse, bDropInReg, bDropAfterReg, bCfgError, bDropInCfg, bCfgReject, bCfgErrorDrop, bCfgRejectDrop,
		bDropInSlowCfg, bCfgThenRefuse}
	for _, f := range faults {
		F := "start(" + f + ")"
		add(F)
		add(F + " S")
		add(F + " S stop S")
		add(F + " stop S")
		add(F + " wait S")
		add(F + " " + F + " S")
		add("S stop " + F + " S")
		// a failed Start after an established session has ended, then Stop (must return at once), then Start
		add("S stop " + F + " stop S")
		add("S lose " + F + " stop wait S")
		add("S lose " + F + " S wait stop")
		add("S wait stopstart(" + f + ") S")
	}
	// the registration time-out: short only once a Configure request has set it (400 ms)
	add("S stop start(" + bSilentReg + ") S")
	add("S lose start(" + bSilentReg + ") stop S")
	// immediate restarts: the outcome depends on who gets the lock first; repeated
	for i := 0; i < c.Pick(4, 12); i++ {
		add("S stopstart(healthy)")
		add("S wait stopstart(healthy) stop S")
		add("S stopstart(healthy) stopstart(healthy)")
	}
	add("stopstart(healthy) stopstart(healthy)")
	// a Start that fails after its client exists, at once followed by a healthy Start: the failed attempt's
	// close notification runs before or after the new Start got the lock; the new session must stay up
	for i := 0; i < c.Pick(3, 8); i++ {
		for _, f := range []string{bRefuse, bDropInReg, bDropAfterReg, bCfgError, bCfgReject} {
			add("startstart(" + f + ",healthy)")
			add("S stop startstart(" + f + ",healthy) wait")
			add("startstart(" + f + ",healthy) stop S")
		}
	}
	// Run in a goroutine of its own, the session ended from another one (Stop) or by the runtime end (lose):
	// Run must return, Stop must return, the close call-back runs once, Wait calls return
	for i := 0; i < c.Pick(3, 8); i++ {
		add("run(healthy) stop")
		add("run(healthy) lose")
		add("run(healthy) wait stop S")
		add("run(healthy) wait lose wait S stop")
	}
	add("run(healthy) stop run(healthy) lose run(healthy) stop")
	add("S run(healthy) stop")
	add("run(healthy) run(healthy) S stop")
	add("run(healthy) stopstart(healthy) stop")
	add("run(healthy) stop startstart(" + bCfgError + ",healthy) lose")
	for _, f := range faults {
		if f != bDropInCfg {
			add("run(" + f + ")")
			add("run(" + f + ") run(healthy) wait stop")
			add("run(healthy) lose run(" + f + ") S stop")
		}
	}
	// a Configure result that no Start consumed (slow hook overtaken by a drop; Configure before a refused registration),
	// then a Start against a runtime end that registers the plugin and drops without ever configuring it: must fail
	for _, f := range []string{bDropInSlowCfg, bCfgThenRefuse} {
		add("start(" + f + ") start(" + bDropAfterReg + ")")
		add("start(" + f + ") start(" + bDropAfterReg + ") S stop")
		add("S stop start(" + f + ") start(" + bDropAfterReg + ") run(healthy) lose")
		add("run(" + f + ") run(" + bDropAfterReg + ")")
	}
	// the runtime end closes the connection at byte offset 0, many times in a row (cheap: no handshake): every Start
	// must come back with an error; then the stub must still work
	for i := 0; i < c.Pick(4, 12); i++ {
		add("startmany(" + bDropAtAccept + ",300) S stop")
	}
	add("start(" + bDropAtAccept + ") S wait stop")
	add("startstart(unreachable,healthy) stop")
	add("S lose startstart(" + bCfgError + "," + bRefuse + ") S")
	// thorough: random longer sequences
	if !c.Quick() {
		rnd := c.Rand("stublife")
		letters := []string{"S", "S", "run(healthy)", "run(healthy)", "run(" + bRefuse + ")", "stop", "wait", "lose", "stopstart(healthy)", "startstart(" + bCfgError + ",healthy)", "startstart(" + bRefuse + ",healthy)"}
		for _, f := range faults {
			if f != bDropAfterReg {
				letters = append(letters, "start("+f+")")
			}
		}
		for i := 0; i < 150; i++ {
			n := 5 + rnd.Intn(4)
			var w []string
			for j := 0; j < n; j++ {
				w = append(w, letters[rnd.Intn(len(letters))])
			}
			add(strings.Join(w, " "))
		}
	}
	return seqs
}

func driveLife(c *hx.Ctx) error {
	tm := lifeTiming{block: 2 * time.Second, quiet: 250 * time.Millisecond}
	if !c.Quick() {
		tm = lifeTiming{block: 5 * time.Second, quiet: 400 * time.Millisecond}
	}
	sh := c.NewShard("life", lifeImports, "life_case", "corr_life", "holds_life", 400)

	var seqs [][]lifeOp
	// corpus first
	files, _ := filepath.Glob(filepath.Join(corpusDir("C16"), "*.json"))
	sort.Strings(files)
	for _, f := range files {
		data, err := os.ReadFile(f)
		if err != nil {
			return fmt.Errorf("corpus %s: %v", f, err)
		}
		var cs []struct {
			What string `json:"what"`
			Seq  string `json:"sequence"`
		}
		if err := json.Unmarshal(data, &cs); err != nil {
			return fmt.Errorf("corpus %s: %v", f, err)
		}
		for _, k := range cs {
			seqs = append(seqs, parseSeq(k.Seq))
			c.Count("corpus", 1)
		}
	}
	seqs = append(seqs, lifeSequences(c)...)

	results, stalls, retries, err := runInWorkers(c, seqs, tm)
	if err != nil {
		return err
	}
	c.Count("process-stalls-seen", stalls)
	c.Count("sequences-repeated", retries)

	for i, ops := range seqs {
		if results[i].Err != "" {
			return fmt.Errorf("sequence %v: %v", ops, results[i].Err)
		}
		obs := results[i].Obs
		if results[i].Crash != "" {
			c.Count("sequences-that-crashed-the-process", 1)
		}
		raw := lifeRaw{Stream: "life", Ops: ops, Obs: obs}
		dev, slug := judge(ops, obs)
		raw.Deviation = dev
		if slug != "" {
			raw.Signature = map[string]string{"finding": slug}
		}
		var ot, bt []string
		for _, o := range ops {
			ot = append(ot, o.term())
		}
		for _, o := range obs {
			bt = append(bt, o.term())
		}
		sh.Add(fmt.Sprintf("{| lc_ops := %s; lc_obs := %s |}", coqfmt.List(ot), coqfmt.List(bt)), raw)
		if n := len(obs); n > 0 {
			c.Count("handler-accessor-calls", obs[n-1].AccessorCalls)
			if obs[n-1].AccessorMismatch != "" {
				c.ImplFail("life", "C16: a handler asked the stub for the time-outs during the handshake and did not get what the runtime sent: "+obs[n-1].AccessorMismatch, raw)
			}
		}
		if dev != "" {
			c.ImplFail("life", "C16: "+dev, raw)
			c.Count("deviation/"+slug, 1)
		}
		key := fmt.Sprint(ops)
		nontrivial := false
		restarts, faults := 0, 0
		for j, o := range ops {
			if o.Beh != "" && o.Beh != bHealthy {
				faults++
			}
			if o.Beh0 != "" && o.Beh0 != bHealthy {
				faults++
			}
			if (j > 0 && (o.Op == "start" || o.Op == "stopstart" || o.Op == "run")) || o.Op == "startstart" {
				restarts++
			}
		}
		nontrivial = restarts > 0 || faults > 0
		c.Eval(key, nontrivial)
		c.Count(fmt.Sprintf("len=%d", len(ops)), 1)
		c.Count(fmt.Sprintf("faults=%d", faults), 1)
		for _, o := range obs {
			c.Count("class="+o.Class, 1)
		}
		if nontrivial {
			c.Sample(raw, 6)
		}
	}
	c.Stats.Exhaustive = false
	c.Stats.Rule = "stublife: one real stub.Stub (plugin with a Configure hook and one handler, OnClose counting) against the scripted runtime end " +
		"(unix socket + multiplex + ttrpc); per Start the runtime end is healthy, unreachable (dial fails), refuses registration, drops the " +
		"connection on receipt of RegisterPlugin, never answers it (registration time-out 400 ms, set by an earlier Configure), drops 50 ms after " +
		"answering it and before Configure, gets an error for Configure - because the plugin's hook fails or because the hook asks for an event " +
		"without handler and the stub refuses - and then either KEEPS the connection open for the rest of the run or drops it 50 ms later, " +
		"or drops once it has the Configure response; drops 100 ms after sending Configure while the plugin's Configure hook takes 300 ms (the hook " +
		"reports after Start has given up); configures the plugin before answering RegisterPlugin and then refuses. The plugin's Configure and " +
		"Synchronize handlers call the stub's RequestTimeout() and RegistrationTimeout() as a plugin may (they must return, with the values the " +
		"runtime end sent). Sequences: every " +
		"sequence of Start(healthy)/Stop/Wait of length <= 4 and with connection loss of length <= 3; for every fault f: f alone, f then " +
		"healthy restart(s), f after Stop / after a loss (also followed by Stop and a healthy Start), f in an immediate restart; Stop-then-immediate-Start repeated (the outcome depends on the " +
		"lock race; both schedules are in the model's prediction set); a Start failing after its client exists (refused, dropped in / after " +
		"registration, configuration error) followed AT ONCE by a healthy Start, alone, after Stop, and followed by Stop and Start, repeated: " +
		"the failed attempt's late close notification must not close the new session; Run() in a goroutine of its own (healthy runtime, or any " +
		"fault), then Stop from another goroutine or a drop by the runtime end, with Wait calls in between and restarts after: Run must have " +
		"returned, Stop must return (a hang is the observation 'blocked' after the bound, never a driver abort), one close call-back; thorough: 150 seeded sequences of length 5-8 over all operations. Observed per " +
		"operation after everything settled (nothing changed for 250/400 ms and 25 consecutive samples): class ok/err/returned/blocked (blocked = not returned after 2 s quick, " +
		"5 s thorough = >= 5x the longest legitimate time-out; accepted only if a second run with twice the bound observes the same; a sequence that " +
		"overlaps a stall of the whole process - a 10 ms heartbeat late by more than 200 ms - is run again), IsStarted, number of close call-backs, number of Wait calls and of Run calls still blocked. " +
		"corr: the observation sequence is one the LTS under the switches of the current code predicts; holds: it is one the LTS with all three " +
		"defects off predicts. non-trivial: the sequence contains a fault or a restart."
	return nil
}

// ---- worker processes ----------------------------------------------------------------------------
//
// The sequences run in re-executed child processes of this binary (driver "stublife-worker"): a panic in a
// goroutine of the code under test kills the process it happens in, and must be an observation ("crashed", with
// the child's last words) of the sequence that was running, not the end of the check.

type workerIn struct {
	BlockMs int64      `json:"block_ms"`
	QuietMs int64      `json:"quiet_ms"`
	Par     int        `json:"par"`
	Index   []int      `json:"index"`
	Seqs    [][]lifeOp `json:"seqs"`
}

type workerResult struct {
	Index int       `json:"index"`
	Obs   []lifeObs `json:"obs"`
	Err   string    `json:"err,omitempty"`
	Crash string    `json:"crash,omitempty"`
}

type workerDone struct {
	Stalls  int `json:"stalls"`
	Retries int `json:"retries"`
}

// lifeWorker runs the sequences of VERIF_LIFE_IN and appends one JSON line per finished sequence to VERIF_LIFE_OUT.
func lifeWorker(c *hx.Ctx) error {
	data, err := os.ReadFile(os.Getenv("VERIF_LIFE_IN"))
	if err != nil {
		return err
	}
	var in workerIn
	if err := json.Unmarshal(data, &in); err != nil {
		return err
	}
	out, err := os.OpenFile(os.Getenv("VERIF_LIFE_OUT"), os.O_CREATE|os.O_WRONLY|os.O_APPEND, 0o644)
	if err != nil {
		return err
	}
	defer out.Close()
	tm := lifeTiming{block: time.Duration(in.BlockMs) * time.Millisecond, quiet: time.Duration(in.QuietMs) * time.Millisecond}
	watch := newStallWatch()
	var retries atomic.Int32
	var mu sync.Mutex
	var wg sync.WaitGroup
	sem := make(chan struct{}, in.Par)
	for k := range in.Seqs {
		wg.Add(1)
		sem <- struct{}{}
		go func(k int) {
			defer wg.Done()
			defer func() { <-sem }()
			fmt.Fprintf(os.Stderr, "VERIF-SEQ-BEGIN %d\n", in.Index[k])
			obs, err := runLifeChecked(in.Seqs[k], tm, watch, &retries)
			r := workerResult{Index: in.Index[k], Obs: obs}
			if err != nil {
				r.Err = err.Error()
			}
			line, _ := json.Marshal(r)
			mu.Lock()
			out.Write(append(line, '\n'))
			mu.Unlock()
			fmt.Fprintf(os.Stderr, "VERIF-SEQ-END %d\n", in.Index[k])
		}(k)
	}
	wg.Wait()
	close(watch.stop)
	line, _ := json.Marshal(workerDone{Stalls: watch.count(), Retries: int(retries.Load())})
	out.Write(append([]byte("DONE "), append(line, '\n')...))
	return nil
}

// runInWorkers distributes the sequences over child processes; a child that dies marks the sequences it was
// running as crashed, the ones it had not begun are given to another child.
func runInWorkers(c *hx.Ctx, seqs [][]lifeOp, tm lifeTiming) ([]workerResult, int, int, error) {
	results := make([]workerResult, len(seqs))
	done := make([]bool, len(seqs))
	scratch, err := os.MkdirTemp("", "hstub_workers")
	if err != nil {
		return nil, 0, 0, err
	}
	defer os.RemoveAll(scratch)
	var mu sync.Mutex
	stalls, retries := 0, 0
	var firstErr error
	batchNo := 0
	runBatch := func(idx []int) (requeue []int) {
		mu.Lock()
		batchNo++
		n := batchNo
		mu.Unlock()
		in := workerIn{BlockMs: tm.block.Milliseconds(), QuietMs: tm.quiet.Milliseconds(), Par: 2, Index: idx}
		for _, i := range idx {
			in.Seqs = append(in.Seqs, seqs[i])
		}
		inFile := filepath.Join(scratch, fmt.Sprintf("in_%d.json", n))
		outFile := filepath.Join(scratch, fmt.Sprintf("out_%d.jsonl", n))
		outDir := filepath.Join(scratch, fmt.Sprintf("w_%d", n))
		data, _ := json.Marshal(in)
		os.WriteFile(inFile, data, 0o644)
		cmd := exec.Command(os.Args[0], "-out", outDir, "-seed", fmt.Sprint(c.Seed), "-tier", c.Tier, "-repo", c.Repo, "stublife-worker")
		cmd.Env = append(os.Environ(), "VERIF_LIFE_IN="+inFile, "VERIF_LIFE_OUT="+outFile)
		var stderr strings.Builder
		cmd.Stderr = &stderr
		runErr := cmd.Run()
		begun, ended := map[int]bool{}, map[int]bool{}
		var lastWords []string
		for _, l := range strings.Split(stderr.String(), "\n") {
			var i int
			switch {
			case strings.HasPrefix(l, "VERIF-SEQ-BEGIN "):
				fmt.Sscanf(l, "VERIF-SEQ-BEGIN %d", &i)
				begun[i] = true
			case strings.HasPrefix(l, "VERIF-SEQ-END "):
				fmt.Sscanf(l, "VERIF-SEQ-END %d", &i)
				ended[i] = true
			case strings.TrimSpace(l) != "":
				lastWords = append(lastWords, l)
			}
		}
		finished := false
		mu.Lock()
		defer mu.Unlock()
		if data, err := os.ReadFile(outFile); err == nil {
			for _, l := range strings.Split(string(data), "\n") {
				if rest, ok := strings.CutPrefix(l, "DONE "); ok {
					var d workerDone
					json.Unmarshal([]byte(rest), &d)
					stalls += d.Stalls
					retries += d.Retries
					finished = true
					continue
				}
				var r workerResult
				if l != "" && json.Unmarshal([]byte(l), &r) == nil && r.Index >= 0 && r.Index < len(seqs) {
					results[r.Index], done[r.Index] = r, true
				}
			}
		}
		if finished && runErr == nil {
			return nil
		}
		// the child died: what it was running crashed it
		if len(lastWords) > 12 {
			lastWords = lastWords[:12]
		}
		words := strings.Join(lastWords, " | ")
		culprits := 0
		for _, i := range idx {
			if done[i] {
				continue
			}
			if begun[i] && !ended[i] {
				culprits++
				results[i] = workerResult{Index: i, Crash: words,
					Obs: []lifeObs{{Class: "crashed", Started: "blocked", Err: "the process running this sequence died: " + words}}}
				done[i] = true
			} else {
				requeue = append(requeue, i)
			}
		}
		if culprits == 0 && firstErr == nil {
			firstErr = fmt.Errorf("a worker process died (%v) without a sequence in flight: %s", runErr, words)
		}
		return requeue
	}
	// batches of 16 sequences, 6 children at a time
	var queue [][]int
	for i := 0; i < len(seqs); i += 16 {
		var idx []int
		for j := i; j < i+16 && j < len(seqs); j++ {
			idx = append(idx, j)
		}
		queue = append(queue, idx)
	}
	for round := 0; len(queue) > 0 && round < 40; round++ {
		var next [][]int
		var wg sync.WaitGroup
		sem := make(chan struct{}, 6)
		var nmu sync.Mutex
		for _, idx := range queue {
			wg.Add(1)
			sem <- struct{}{}
			go func(idx []int) {
				defer wg.Done()
				defer func() { <-sem }()
				if rq := runBatch(idx); len(rq) > 0 {
					nmu.Lock()
					next = append(next, rq)
					nmu.Unlock()
				}
			}(idx)
		}
		wg.Wait()
		queue = next
	}
	if firstErr != nil {
		return nil, 0, 0, firstErr
	}
	for i := range seqs {
		if !done[i] {
			return nil, 0, 0, fmt.Errorf("sequence %v was not run", seqs[i])
		}
	}
	return results, stalls, retries, nil
}
