(* C08 — what is observable about synchronisation, and the exactly-once predicate.
   The same boolean function is (a) proved true of every reachable state of the
   LTS (Proofs/SyncLockProofs.v) and (b) evaluated on what the real plugins and
   the real runtime store observed (Run/RunSyncLock.v). *)
From Coq Require Import String Ascii List Bool Arith.
From NRI Require Import Base.Strs Base.Assoc Model.SyncLock.
Import ListNotations.
Open Scope string_scope.
Open Scope list_scope.

Record plugin_obs := {
  po_name : pid;
  po_registered : bool;            (* completed registration (is in r.plugins) *)
  po_snapshot : list cid;          (* ids of the Synchronize snapshot it received *)
  po_creates : list cid            (* ids of the CreateContainer requests it received, in order *)
}.

Record observation := { ob_store : list cid; ob_plugins : list plugin_obs }.

Fixpoint nodup_b (l : list string) : bool :=
  match l with
  | [] => true
  | x :: r => negb (smem x r) && nodup_b r
  end.

(* a registered plugin: every container of the store is in the snapshot or was
   announced by a creation request, never both, never neither; and no creation
   request is seen twice *)
Definition plugin_exactly_once (st : list cid) (po : plugin_obs) : bool :=
  negb (po_registered po)
  || (forallb (fun c => xorb (smem c (po_snapshot po)) (smem c (po_creates po))) st
      && nodup_b (po_creates po)
      && nodup_b (po_snapshot po)).   (* po_snapshot = everything it was sent in Synchronize requests: a container sent in two snapshots is learnt twice *)

Definition exactly_once_b (o : observation) : bool :=
  forallb (plugin_exactly_once (ob_store o)) (ob_plugins o).

(* projection of a model state to an observation *)
Definition snap_of (pc : ppc) : list cid :=
  match pc with
  | PSnapshot ids | PActivated ids | PDone ids | PClosed ids => ids
  | _ => []
  end.

Definition creates_of (p : pid) (rc : list (pid * cid)) : list cid :=
  map snd (filter (fun e => String.eqb p (fst e)) rc).

Definition obs_of_state (s : state) : observation :=
  {| ob_store := store s;
     ob_plugins := map (fun e => {| po_name := fst e;
                                    po_registered := smem (fst e) (active s);
                                    po_snapshot := snap_of (snd e);
                                    po_creates := rev (creates_of (fst e) (recv s)) |}) (plugs s) |}.

(* plugin ids of the model are INSTANCES (connections); the harness calls the k-th instance (k > 1) of the
   plugin registered as "idx-name" "idx-name#k".  [name_of] is what plugin.name() returns for it. *)
Fixpoint name_of (p : pid) : string :=
  match p with
  | EmptyString => EmptyString
  | String c r => if Ascii.eqb c "#"%char then EmptyString else String c (name_of r)
  end.

(* r.plugins: the live instances and the closed ones not yet dropped *)
Definition listed (s : state) : list pid := active s ++ zombies s.

(* NOT the code: a clean-up that identifies closed plugins by NAME (for the refuted variant in Properties/C08.v) *)
Definition drop_closed_by_name (closed l : list pid) : list pid :=
  filter (fun q => negb (smem (name_of q) (map name_of closed))) l.
