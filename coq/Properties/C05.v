(* C05 — container updates are collected once per target with exactly the fields set. *)
From Coq Require Import String List Bool.
From NRI Require Import Model.Types Model.Result Proofs.ResultProofs.
Import ListNotations.

(* an update that targets the container currently being created fails the request — wherever it
   stands in the plugin's list and also when it is marked ignore-failure *)
Theorem C05_self_update_rejected :
  forall us1 u us2 s c,
    s_create s = Some c -> u_id u = c_id c -> exists e, update_all (us1 ++ u :: us2) s = Err e.
Proof. exact self_update_fails. Qed.
Print Assumptions C05_self_update_rejected.
