(* C17 — proofs about Model/Register.v: index and mask validation for every input (bit-level,
   no sweep), the sequential accept loop for every list of connections, the socket directory
   mode for every umask. *)
From Coq Require Import String Ascii List Bool ZArith NArith Lia Permutation.
From NRI Require Import Base.Strs Model.Consts Model.Event Model.RegConsts Model.Register Spec.RegisterSpec.
Import ListNotations.
Open Scope string_scope.
Open Scope list_scope.
Open Scope Z_scope.

(* ---------------- C17_index_is_two_digits ---------------- *)
Lemma is_digit_in a : is_digit a = true -> In a digits.
Proof.
  destruct a as [[] [] [] [] [] [] [] []]; intros H; vm_compute in H; try discriminate H; unfold digits; cbn [In]; auto 12.
Qed.

Lemma all_indices_check : forallb check_index all_indices = true.
Proof. vm_compute. reflexivity. Qed.

Theorem index_is_two_digits s : check_index s = true <-> In s all_indices.
Proof.
  split.
  - destruct s as [|a [|b [|c r]]]; cbn [check_index]; try discriminate.
    intros H. apply andb_prop in H. destruct H as [Ha Hb]. unfold all_indices. apply in_flat_map.
    exists a. split; [apply is_digit_in; exact Ha|]. apply in_map_iff. exists b. split; [reflexivity|apply is_digit_in; exact Hb].
  - intros H. pose proof all_indices_check as A. rewrite forallb_forall in A. apply A. exact H.
Qed.

Lemma all_indices_count : length all_indices = 100%nat /\ NoDup all_indices.
Proof.
  split; [reflexivity|]. apply (NoDup_count_occ' string_dec). intros x Hx.
  assert (A : forallb (fun y => Nat.eqb (count_occ string_dec all_indices y) 1) all_indices = true) by (vm_compute; reflexivity).
  rewrite forallb_forall in A. apply Nat.eqb_eq. apply A. exact Hx.
Qed.

(* ---------------- C17_mask_valid ---------------- *)
Lemma valid_events_nonneg : 0 <= valid_events.
Proof. apply Z.leb_le. reflexivity. Qed.

Lemma wrap32_range z : - 2 ^ 31 <= wrap32 z < 2 ^ 31.
Proof. unfold wrap32. pose proof (Z.mod_pos_bound (z + 2 ^ 31) (2 ^ 32) eq_refl). lia. Qed.

Lemma wrap32_id z : - 2 ^ 31 <= z < 2 ^ 31 -> wrap32 z = z.
Proof. intros H. unfold wrap32. rewrite Z.mod_small by lia. lia. Qed.

(* no bit outside v: the value lies in [0, v] and is a sub-mask of v — for every integer, by bits *)
Lemma no_extra_bits m v : 0 <= v -> Z.land m (Z.lnot v) = 0 -> Z.land m v = m /\ 0 <= m <= v.
Proof.
  intros Hv H.
  assert (E : Z.land m v = m).
  { apply Z.bits_inj'. intros n Hn. rewrite Z.land_spec.
    assert (B : Z.testbit (Z.land m (Z.lnot v)) n = false) by (rewrite H; apply Z.bits_0).
    rewrite Z.land_spec, Z.lnot_spec in B by exact Hn.
    destruct (Z.testbit m n); destruct (Z.testbit v n); cbn in *; congruence. }
  split; [exact E|]. rewrite <- E. split.
  - apply Z.land_nonneg. right. exact Hv.
  - assert (D : Z.ldiff (Z.land m v) v = 0).
    { apply Z.bits_inj'. intros n Hn. rewrite Z.ldiff_spec, Z.land_spec, Z.bits_0.
      destruct (Z.testbit m n); destruct (Z.testbit v n); reflexivity. }
    pose proof (Z.sub_nocarry_ldiff v (Z.land m v) D) as S.
    assert (0 <= Z.ldiff v (Z.land m v)) by (apply Z.ldiff_nonneg; left; exact Hv). lia.
Qed.

Lemma sub_mask_bits m v : Z.land m v = m -> forall i, 0 <= i -> Z.testbit m i = true -> Z.testbit v i = true.
Proof.
  intros E i Hi Hm. rewrite <- E in Hm. rewrite Z.land_spec in Hm. apply andb_prop in Hm. tauto.
Qed.

Lemma bits_no_extra m v : (forall i, 0 <= i -> Z.testbit m i = true -> Z.testbit v i = true) -> Z.land m (Z.lnot v) = 0.
Proof.
  intros H. apply Z.bits_inj'. intros n Hn. rewrite Z.land_spec, Z.lnot_spec, Z.bits_0 by exact Hn.
  destruct (Z.testbit m n) eqn:Hm; [|reflexivity]. rewrite (H n Hn Hm). reflexivity.
Qed.

Theorem mask_valid raw e : configure_events raw = inl e ->
  - 2 ^ 31 <= wrap32 raw < 2 ^ 31 /\
  ((wrap32 raw = 0 /\ e = valid_events) \/
   (0 < wrap32 raw <= valid_events /\ e = wrap32 raw /\ only_valid_bits (wrap32 raw))).
Proof.
  unfold configure_events. intros H. split; [apply wrap32_range|]. cbv zeta in H.
  remember (wrap32 raw) as m eqn:Em. clear Em.
  destruct (Z.eqb_spec m 0) as [E0|N0].
  - left. inversion H. auto.
  - right. destruct (Z.eqb_spec (Z.land m (Z.lnot valid_events)) 0) as [E|N]; [|discriminate].
    inversion H; subst e. destruct (no_extra_bits m valid_events valid_events_nonneg E) as [S R].
    split; [lia|]. split; [reflexivity|]. unfold only_valid_bits. apply sub_mask_bits. exact S.
Qed.

Theorem mask_accept_iff raw : (exists e, configure_events raw = inl e) <-> mask_ok (wrap32 raw).
Proof.
  split.
  - intros [e H]. destruct (mask_valid raw e H) as [_ [[E _]|[R [_ B]]]]; [left; exact E|right; auto].
  - unfold configure_events. intros [E|[R B]].
    + rewrite E. cbn. eauto.
    + destruct (Z.eqb_spec (wrap32 raw) 0) as [E0|N0]; [eauto|].
      rewrite (bits_no_extra _ _ B). cbn. eauto.
Qed.

Lemma configure_subscribed raw e : configure_events raw = inl e -> e = subscribed raw.
Proof.
  unfold configure_events, subscribed. destruct (wrap32 raw =? 0); [congruence|].
  destruct (Z.land (wrap32 raw) (Z.lnot valid_events) =? 0); congruence.
Qed.

Lemma mask_ok_b_spec m : mask_ok_b m = true <-> mask_ok m.
Proof.
  unfold mask_ok_b, mask_ok. split.
  - intros H. apply orb_prop in H. destruct H as [H|H]; [left; apply Z.eqb_eq; exact H|right].
    apply andb_prop in H. destruct H as [H H3]. apply andb_prop in H. destruct H as [H1 H2].
    apply Z.ltb_lt in H1. apply Z.leb_le in H2. apply Z.eqb_eq in H3. split; [lia|].
    unfold only_valid_bits. apply sub_mask_bits. exact H3.
  - intros [E|[R B]]; [subst; reflexivity|]. apply orb_true_intro. right.
    destruct (no_extra_bits m valid_events valid_events_nonneg (bits_no_extra _ _ B)) as [S _].
    rewrite S, Z.eqb_refl. destruct (Z.ltb_spec 0 m); [|lia]. destruct (Z.leb_spec m valid_events); [reflexivity|lia].
Qed.

(* ValidEvents is a full block of low bits (2^(Event_LAST-1) - 1): every value in range is a valid mask,
   and a subscribed event is one of the defined events *)
Lemma valid_events_shape : valid_events = 2 ^ (event_last - 1) - 1 /\ 1 <= event_last - 1.
Proof. split; [reflexivity|]. apply Z.leb_le. reflexivity. Qed.

Theorem mask_range_accepted raw : 0 <= wrap32 raw <= valid_events -> mask_ok (wrap32 raw).
Proof.
  intros R. destruct (Z.eq_dec (wrap32 raw) 0) as [E|N]; [left; exact E|right]. split; [lia|].
  intros i Hi Hb. destruct valid_events_shape as [S K]. rewrite S.
  assert (Hlt : i < event_last - 1).
  { destruct (Z.lt_ge_cases i (event_last - 1)) as [L|G]; [exact L|exfalso].
    assert (P : wrap32 raw < 2 ^ i).
    { apply Z.lt_le_trans with (2 ^ (event_last - 1)); [lia|]. apply Z.pow_le_mono_r; lia. }
    rewrite (Z.bits_above_log2 (wrap32 raw) i) in Hb; [discriminate|lia|].
    apply Z.log2_lt_pow2; lia. }
  replace (2 ^ (event_last - 1) - 1) with (Z.ones (event_last - 1)) by (rewrite Z.ones_equiv; lia).
  apply Z.ones_spec_low. lia.
Qed.

(* ---------------- C17_activated_iff_valid ---------------- *)
Theorem handle_good_iff c n i e :
  handle c = OGood n i e <->
  exists raw, c_reg c = RegNow n i /\ n <> "" /\ In i all_indices /\
              c_cfg c = CfgReply raw /\ mask_ok (wrap32 raw) /\ e = subscribed raw /\ c_sync c = SyncOk.
Proof.
  unfold handle, register_plugin. split.
  - destruct (c_reg c) as [|n0 i0| |n0 i0]; try discriminate.
    destruct (String.eqb_spec n0 "") as [E|N]; [discriminate|].
    destruct (check_index i0) eqn:Hi; [|discriminate].
    destruct (c_cfg c) as [| | |raw]; try discriminate.
    destruct (configure_events raw) as [ev|extra] eqn:Hc; [|discriminate].
    destruct (c_sync c); try discriminate. intros H. inversion H; subst.
    exists raw. repeat split; auto.
    + apply index_is_two_digits. exact Hi.
    + apply (proj1 (mask_accept_iff raw)). exists e. exact Hc.
    + apply configure_subscribed. exact Hc.
  - intros (raw & Hr & Hn & Hi & Hc & Hm & He & Hs). rewrite Hr, Hc, Hs.
    destruct (String.eqb_spec n "") as [E|N]; [contradiction|].
    apply index_is_two_digits in Hi. rewrite Hi.
    apply (proj2 (mask_accept_iff raw)) in Hm. destruct Hm as [ev Hev]. rewrite Hev.
    rewrite (configure_subscribed raw ev Hev) in *. subst e. reflexivity.
Qed.

Lemma handle_good_wf c : (exists n i e, handle c = OGood n i e) <-> well_formed c.
Proof.
  split.
  - intros (n & i & e & H). apply handle_good_iff in H. destruct H as (raw & H1 & H2 & H3 & H4 & H5 & H6 & H7).
    exists n, i, raw. repeat split; assumption.
  - intros (n & i & raw & H1 & H2 & H3 & H4 & H5 & H6). exists n, i, (subscribed raw).
    apply handle_good_iff. exists raw. repeat split; auto.
Qed.

Lemma handle_wf_plugin c : well_formed c ->
  handle c = OGood (pl_name (plugin_of c)) (pl_idx (plugin_of c)) (pl_events (plugin_of c)).
Proof.
  intros (n & i & raw & H1 & H2 & H3 & H4 & H5 & H6). unfold plugin_of. rewrite H1, H4. cbn [pl_name pl_idx pl_events].
  apply handle_good_iff. exists raw. repeat split; auto.
Qed.

Lemma well_formed_b_spec c : well_formed_b c = true <-> well_formed c.
Proof.
  unfold well_formed_b, well_formed. split.
  - destruct (c_reg c) as [|n0 i0| |n i]; try discriminate. destruct (c_cfg c) as [| | |raw]; try discriminate.
    destruct (c_sync c); try discriminate. intros H. apply andb_prop in H. destruct H as [H H3].
    apply andb_prop in H. destruct H as [H1 H2]. exists n, i, raw. repeat split; auto.
    + intros ->. discriminate.
    + apply smem_In. exact H2.
    + apply mask_ok_b_spec. exact H3.
  - intros (n & i & raw & H1 & H2 & H3 & H4 & H5 & H6). rewrite H1, H4, H6.
    apply smem_In in H3. apply mask_ok_b_spec in H5. rewrite H3, H5.
    destruct (String.eqb_spec n ""); [contradiction|reflexivity].
Qed.

(* the loop *)
Lemma insert_perm p l : Permutation (insert_plugin p l) (p :: l).
Proof.
  induction l as [|q r IH]; cbn [insert_plugin]; [reflexivity|].
  destruct (String.ltb (pl_idx p) (pl_idx q)); [reflexivity|].
  rewrite IH. apply perm_swap.
Qed.

Lemma sort_perm l : Permutation (sort_plugins l) l.
Proof.
  induction l as [|p r IH]; cbn [sort_plugins fold_right]; [reflexivity|].
  fold (sort_plugins r). rewrite insert_perm. constructor. exact IH.
Qed.

Lemma activate_perm a o : Permutation (activate a o) (a ++ goods [o]).
Proof.
  destruct o; cbn [activate goods]; rewrite ?app_nil_r; try reflexivity. apply sort_perm.
Qed.

Lemma goods_app a b : goods (a ++ b) = goods a ++ goods b.
Proof.
  induction a as [|o r IH]; cbn [app goods]; [reflexivity|]. destruct o; rewrite ?IH; reflexivity.
Qed.

(* each connection's outcome depends on that connection only: earlier ones neither block nor alter it *)
Theorem loop_outcomes conns : forall a, snd (accept_loop a conns) = map handle conns.
Proof.
  induction conns as [|c r IH]; intros a; cbn [accept_loop map]; [reflexivity|].
  specialize (IH (activate a (handle c))). destruct (accept_loop (activate a (handle c)) r) as [a' os].
  cbn [snd] in *. rewrite IH. reflexivity.
Qed.

Theorem loop_active conns : forall a, Permutation (fst (accept_loop a conns)) (a ++ goods (map handle conns)).
Proof.
  induction conns as [|c r IH]; intros a; cbn [accept_loop map].
  - cbn [fst goods]. rewrite app_nil_r. reflexivity.
  - specialize (IH (activate a (handle c))). destruct (accept_loop (activate a (handle c)) r) as [a' os].
    cbn [fst] in *. rewrite IH, activate_perm, <- app_assoc.
    change (handle c :: map handle r) with ([handle c] ++ map handle r). rewrite goods_app. reflexivity.
Qed.

Lemma goods_in p os : In p (goods os) <-> In (OGood (pl_name p) (pl_idx p) (pl_events p)) os.
Proof.
  induction os as [|o r IH]; cbn [goods In]; [tauto|].
  destruct o; cbn [In]; rewrite IH; split; intros H; try tauto;
    try (destruct H as [H|H]; [discriminate|tauto]).
  - destruct H as [H|H]; [|tauto]. left. subst p. reflexivity.
  - destruct H as [H|H]; [|tauto]. left. inversion H. destruct p; reflexivity.
Qed.

Lemma in_activated_iff conns p : In p (activated conns) <-> In p (goods (map handle conns)).
Proof.
  unfold activated. pose proof (loop_active conns []) as P. cbn [app] in P. split; intros H.
  - eapply Permutation_in; [exact P|exact H].
  - eapply Permutation_in; [apply Permutation_sym; exact P|exact H].
Qed.

Theorem activated_iff_valid conns p :
  In p (activated conns) <-> exists c, In c conns /\ well_formed c /\ p = plugin_of c.
Proof.
  rewrite in_activated_iff, goods_in, in_map_iff. split.
  - intros [c [Hc Hin]]. exists c. split; [exact Hin|].
    assert (W : well_formed c) by (apply handle_good_wf; eauto). split; [exact W|].
    rewrite (handle_wf_plugin c W) in Hc. injection Hc as E1 E2 E3.
    destruct p as [a b d]; destruct (plugin_of c) as [a' b' d']; cbn in *; congruence.
  - intros [c [Hin [W ->]]]. exists c. split; [apply handle_wf_plugin; exact W|exact Hin].
Qed.

(* nothing but validated, timely connections is ever sent Synchronize *)
Definition reaches_sync (c : conn) : bool :=
  match handle c with OGood _ _ _ | OSyncFailed => true | _ => false end.

Theorem sync_only_after_validation c : reaches_sync c = true ->
  exists name idx raw, c_reg c = RegNow name idx /\ name <> "" /\ In idx all_indices /\
                       c_cfg c = CfgReply raw /\ mask_ok (wrap32 raw).
Proof.
  unfold reaches_sync, handle, register_plugin.
  destruct (c_reg c) as [|n0 i0| |n i]; try discriminate.
  destruct (String.eqb_spec n "") as [E|N]; [discriminate|].
  destruct (check_index i) eqn:Hi; [|discriminate].
  destruct (c_cfg c) as [| | |raw]; try discriminate.
  destruct (configure_events raw) as [ev|extra] eqn:Hc; [|discriminate].
  intros _. exists n, i, raw. repeat split; auto.
  - apply index_is_two_digits. exact Hi.
  - apply (proj1 (mask_accept_iff raw)). exists ev. exact Hc.
Qed.

(* ---------------- C17_bad_do_not_block ---------------- *)
Lemma goods_bad bad : Forall (fun c => ~ well_formed c) bad -> goods (map handle bad) = [].
Proof.
  induction bad as [|c r IH]; intros F; [reflexivity|]. inversion F as [|x xs Hc Hr]; subst.
  cbn [map goods]. destruct (handle c) eqn:E; try (apply IH; exact Hr).
  exfalso. apply Hc. apply handle_good_wf. eauto.
Qed.

Fixpoint total_stall (treg treq : Z) (os : list outcome) : Z :=
  match os with [] => 0 | o :: r => stall treg treq o + total_stall treg treq r end.

Lemma total_stall_bound treg treq os : 0 <= treg -> 0 <= treq ->
  0 <= total_stall treg treq os <= Z.of_nat (length os) * Z.max treg treq.
Proof.
  intros Hr Hq. induction os as [|o r IH]; cbn [total_stall length]; [lia|].
  assert (0 <= stall treg treq o <= Z.max treg treq) by (destruct o; cbn [stall]; lia).
  rewrite Nat2Z.inj_succ. lia.
Qed.

Theorem bad_do_not_block bad good rest :
  Forall (fun c => ~ well_formed c) bad -> well_formed good ->
  activated (bad ++ [good]) = [plugin_of good] /\
  In (plugin_of good) (activated (bad ++ good :: rest)) /\
  nth_error (outcomes (bad ++ good :: rest)) (length bad) =
    Some (OGood (pl_name (plugin_of good)) (pl_idx (plugin_of good)) (pl_events (plugin_of good))) /\
  (forall treg treq, 0 <= treg -> 0 <= treq ->
     total_stall treg treq (firstn (length bad) (outcomes (bad ++ good :: rest)))
       <= Z.of_nat (length bad) * Z.max treg treq).
Proof.
  intros F W. pose proof (handle_wf_plugin good W) as HG. split; [|split; [|split]].
  - unfold activated. pose proof (loop_active (bad ++ [good]) []) as P. cbn [app] in P.
    rewrite map_app, goods_app, (goods_bad bad F) in P. cbn [map app] in P. rewrite HG in P. cbn [goods] in P.
    apply Permutation_sym, Permutation_length_1_inv in P. rewrite P. destruct (plugin_of good); reflexivity.
  - apply activated_iff_valid. exists good. split; [apply in_app_iff; right; left; reflexivity|auto].
  - unfold outcomes. rewrite loop_outcomes, map_app. rewrite nth_error_app2 by (rewrite map_length; lia).
    rewrite map_length, Nat.sub_diag. cbn [map nth_error]. rewrite HG. reflexivity.
  - intros treg treq Hr Hq. unfold outcomes. rewrite loop_outcomes, map_app.
    rewrite firstn_app, map_length, Nat.sub_diag. cbn [firstn]. rewrite app_nil_r.
    rewrite <- (map_length handle bad) at 1. rewrite firstn_all.
    pose proof (total_stall_bound treg treq (map handle bad) Hr Hq) as B. rewrite map_length in B. lia.
Qed.

(* ---------------- C17_dir_private ---------------- *)
Lemma umasks_in u : 0 <= u < 512 -> In u umasks.
Proof.
  intros H. unfold umasks. apply in_map_iff. exists (Z.to_nat u). split; [lia|]. apply in_seq. lia.
Qed.

Lemma all_umasks_private : forallb (fun u => private_mode (dir_mode u) && (Z.land (dir_mode u) 448 =? Z.land 448 (Z.lnot u))) umasks = true.
Proof. vm_compute. reflexivity. Qed.

Theorem dir_private u : 0 <= u < 512 ->
  Z.land (dir_mode u) 63 = 0 /\ Z.land (dir_mode u) 448 = Z.land 448 (Z.lnot u).
Proof.
  intros H. pose proof all_umasks_private as A. rewrite forallb_forall in A. specialize (A u (umasks_in u H)).
  apply andb_prop in A. destruct A as [A1 A2]. unfold private_mode in A1. split; apply Z.eqb_eq; assumption.
Qed.

(* the same for every integer umask, by bits *)
Theorem dir_private_any u : Z.land (dir_mode u) 63 = 0.
Proof.
  unfold dir_mode. rewrite <- Z.land_assoc, (Z.land_comm (Z.lnot u) 63), Z.land_assoc.
  replace (Z.land socket_dir_mode 63) with 0 by reflexivity. apply Z.land_0_l.
Qed.

(* ---------------- listener ---------------- *)
Theorem no_listener_when_disabled u : start_listener true u = None.
Proof. reflexivity. Qed.

Theorem listener_when_enabled u : start_listener false u = Some (dir_mode u).
Proof. reflexivity. Qed.

(* ---------------- the deadline of the register phase ---------------- *)
(* the outcome of a connection whose RegisterPlugin call arrives [at_ms] after the runtime started serving it:
   refused as timed out exactly when it arrives at or after the REGISTRATION time-out; before it, the outcome is
   that of an immediate registration; the request time-out has no influence *)
Theorem register_deadline t_reg t_req at_ms name idx cfg sy :
  (t_reg <= at_ms -> handle (timed_conn t_reg t_req at_ms name idx cfg sy) = ORegTimeout) /\
  (at_ms < t_reg -> handle (timed_conn t_reg t_req at_ms name idx cfg sy)
                    = handle {| c_reg := RegNow name idx; c_cfg := cfg; c_sync := sy |}) /\
  (forall t_req', timed_conn t_reg t_req at_ms name idx cfg sy = timed_conn t_reg t_req' at_ms name idx cfg sy).
Proof.
  unfold timed_conn, reg_at, handle. cbn [c_reg c_cfg c_sync].
  destruct (Z.ltb_spec at_ms t_reg) as [H|H]; repeat split; try reflexivity; intros; lia.
Qed.

(* in particular: late for the registration time-out but early for a longer request time-out is still refused,
   and late for a short request time-out but early for the registration time-out is still served *)
Theorem register_deadline_cases t_reg t_req at_ms name idx cfg sy :
  (t_reg <= at_ms < t_req -> ~ exists n i e, handle (timed_conn t_reg t_req at_ms name idx cfg sy) = OGood n i e) /\
  (t_req <= at_ms < t_reg -> well_formed {| c_reg := RegNow name idx; c_cfg := cfg; c_sync := sy |} ->
     exists n i e, handle (timed_conn t_reg t_req at_ms name idx cfg sy) = OGood n i e).
Proof.
  destruct (register_deadline t_reg t_req at_ms name idx cfg sy) as (A & B & _). split.
  - intros [H _] (n & i & e & E). rewrite (A H) in E. discriminate.
  - intros [_ H] W. rewrite (B H). apply handle_good_wf. exact W.
Qed.
