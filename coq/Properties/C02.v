(* C02 — plugins touching disjoint items, or removing before setting, never conflict.
   Only statements here; proofs are in Proofs/LedgerProofs.v and Proofs/RefineLedger.v. *)
From Coq Require Import String List Bool ZArith.
From NRI Require Import Model.Types Model.Result Spec.AbsLedger Proofs.LedgerProofs Proofs.RefineLedger.
From NRI Require Properties.C01.
Import ListNotations.

(* (1) The abstract ledger: if no key is claimed twice in the whole history (no two plugins set the
   same item of the same container) and none is held beforehand, there is no conflict — whatever is
   released. *)
Theorem C02_abs_disjoint_no_conflict :
  forall gs o d,
    NoDup (concat (map g_claims gs)) ->
    (forall k, In k (concat (map g_claims gs)) -> lmem k o = false) ->
    exists r, abs_run gs o d = Some r.
Proof. exact abs_disjoint_no_conflict. Qed.
Print Assumptions C02_abs_disjoint_no_conflict.

(* (2) Refinement: for EVERY request, EVERY original container / requested resources and EVERY chain of
   responses: no abstract conflict and no update of the container being created => the model of
   result.go succeeds.  A plugin is therefore never blamed for an item it did not set. *)
Theorem C02_no_false_conflict :
  forall rq rps, Forall wf_rp rps ->
    abs_conflict (req_created rq) rps = false -> self_update (req_created rq) rps = false ->
    exists s, snd (run_request rq rps) = Ok s.
Proof. exact no_conflict_succeeds. Qed.
Print Assumptions C02_no_false_conflict.

(* (1)+(2): disjoint writers always succeed *)
Theorem C02_disjoint_writers_succeed :
  forall rq rps, Forall wf_rp rps ->
    NoDup (concat (map g_claims (all_groups (req_created rq) rps))) ->
    self_update (req_created rq) rps = false ->
    exists s, snd (run_request rq rps) = Ok s.
Proof. exact disjoint_writers_succeed. Qed.
Print Assumptions C02_disjoint_writers_succeed.

(* "whatever else the original container or the runtime's own update request contains": whether a
   request succeeds depends on the plugins' responses and on WHICH container is being created, not on
   the container's content nor on the resources the runtime asked for (fully pre-populated or empty) *)
Theorem C02_request_content_irrelevant :
  forall rq rq' rps, Forall wf_rp rps -> req_created rq = req_created rq' ->
    ((exists s, snd (run_request rq rps) = Ok s) <-> (exists s', snd (run_request rq' rps) = Ok s')).
Proof. exact verdict_ignores_request_content. Qed.
Print Assumptions C02_request_content_irrelevant.

(* removal releases — with a set in the same response: a response that marks for removal every item
   it sets cannot conflict with anything before it *)
Theorem C02_remove_then_set_never_conflicts :
  forall pre g o d o' d',
    abs_run pre o d = Some (o', d') -> NoDup (g_claims g) ->
    (forall k, In k (g_claims g) -> In k (g_releases g)) ->
    exists r, abs_run (pre ++ [g]) o d = Some r.
Proof. exact abs_remove_then_set. Qed.
Print Assumptions C02_remove_then_set_never_conflicts.

(* removal releases — without a set: after a response that only removes, the next response may set
   what was removed *)
Theorem C02_lone_removal_releases :
  forall pre g g' o d o' d',
    abs_run pre o d = Some (o', d') -> g_claims g = [] -> NoDup (g_claims g') ->
    (forall k, In k (g_claims g') -> In k (g_releases g) \/ In k (g_releases g')) ->
    exists r, abs_run (pre ++ [g; g']) o d = Some r.
Proof. exact abs_lone_removal_releases. Qed.
Print Assumptions C02_lone_removal_releases.

(* non-vacuity *)
Example C02_example_remove_then_set :
  abs_conflict (Some "c"%string)
    [ {| rp_adjust := Some (with_a_ann adj_empty [("k", "A")]%string); rp_updates := [] |};
      {| rp_adjust := Some (with_a_ann adj_empty [("-k", ""); ("k", "B")]%string); rp_updates := [] |} ] = false.
Proof. reflexivity. Qed.

(* A sets env E, B only removes it, C sets it again; the update request of a fully pre-populated
   container, two plugins writing disjoint fields: both succeed in the model *)
Example C02_example_lone_removal :
  let rps := [ {| rp_adjust := Some (with_a_env adj_empty [("E", "A")]%string); rp_updates := [] |};
               {| rp_adjust := Some (with_a_env adj_empty [("-E", "")]%string); rp_updates := [] |};
               {| rp_adjust := Some (with_a_env adj_empty [("E", "C")]%string); rp_updates := [] |} ] in
  abs_conflict (Some "c"%string) rps = false /\ exists s, snd (run_request (RCreate NRI.Properties.C01.ex_c) rps) = Ok s.
Proof. split; [reflexivity|eexists; vm_compute; reflexivity]. Qed.
