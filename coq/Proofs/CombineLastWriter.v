(* Combination theorems for C03, part 9: "every value appears as set by its final owner, every
   requested removal takes effect" (the clause shared with C01: never silently replaced or joined).
   For every item kind: if rp is the last plugin naming the item (no plugin after it sets it or
   carries its removal marker), then in the combined result apply_adj c0 (reply) the item has the
   value rp gave it — and no value when rp only carries its removal marker (the markable kinds).
   Proved on the sequential reference side and transferred through combined_OEq. *)
From Coq Require Import String Ascii List Bool ZArith Arith Lia.
From NRI Require Import Base.Lists Base.Strs Base.Assoc Model.Types Model.Result Spec.Apply
  Proofs.KeyedProofs Proofs.CombineWf Proofs.CombineBase Proofs.CombineFamilies Proofs.CombineProofs
  Proofs.CombineCorollaries Proofs.CombineWitness.
Import ListNotations.
Open Scope string_scope.
Open Scope list_scope.

Lemma apply_all_split c pre p post :
  apply_all c (pre ++ p :: post) = apply_all (apply_adj (apply_all c pre) p) post.
Proof. rewrite apply_all_app, apply_all_cons. reflexivity. Qed.

Lemma adjs_split pre rp post : adjs (pre ++ rp :: post) = adjs pre ++ adj_of rp :: adjs post.
Proof. unfold adjs. rewrite map_app. reflexivity. Qed.

(* ---------- keyed list families, one step ---------- *)
Section KLast.
Variables (E W : Type) (ekey : E -> string) (wkey : W -> string) (inj : E -> W).
Variable good : E -> Prop.
Hypothesis inj_key : forall e, good e -> marked (ekey e) = false -> wkey (inj e) = ekey e.

Lemma apply_keyed_set c es k e :
  (forall x, In x es -> good x) ->
  kfind ekey k (r_adds ekey es) = Some e ->
  kfind wkey k (apply_keyed ekey wkey inj c es) = Some (inj e).
Proof.
  intros Hg He. rewrite kfind_apply_keyed.
  assert (Hm : smem k (r_mods ekey es) = true).
  { apply smem_In. unfold r_mods. destruct (kfind_Some_key _ _ _ _ He) as [<- Hin]. apply in_map. exact Hin. }
  rewrite Hm, andb_false_r.
  rewrite (kfind_map_inj _ _ ekey wkey inj good inj_key) by (apply adds_good; exact Hg).
  rewrite He. reflexivity.
Qed.

Lemma apply_keyed_removed c es k :
  (forall x, In x es -> good x) ->
  ~ In k (map ekey es) -> In (mark k) (map ekey es) ->
  kfind wkey k (apply_keyed ekey wkey inj c es) = None.
Proof.
  intros Hg Hn Hm. rewrite kfind_apply_keyed.
  assert (Hd : smem k (r_dels ekey es) = true).
  { apply smem_In. unfold r_dels. apply in_map_iff in Hm. destruct Hm as [e [He Hin]].
    apply in_map_iff. exists e. split; [rewrite He; apply rawkey_mark|].
    apply filter_In. split; [exact Hin|]. rewrite He. apply marked_mark. }
  rewrite Hd. cbn [negb andb].
  rewrite (kfind_map_inj _ _ ekey wkey inj good inj_key) by (apply adds_good; exact Hg).
  assert (Ha : kfind ekey k (r_adds ekey es) = None).
  { apply kfind_None_notin. intros Hi. apply Hn. unfold r_adds in Hi. apply in_map_iff in Hi. destruct Hi as [e [He Hin]].
    apply filter_In in Hin. apply in_map_iff. exists e. tauto. }
  rewrite Ha. reflexivity.
Qed.

(* with distinct set keys (W2, which a successful step guarantees) every entry that is set is THE set of its key *)
Lemma kfind_adds_In es e :
  NoDup (r_mods ekey es) -> In e es -> marked (ekey e) = false -> kfind ekey (ekey e) (r_adds ekey es) = Some e.
Proof.
  intros Hnd Hin Hm. assert (Ha : In e (r_adds ekey es)) by (apply filter_In; split; [exact Hin|rewrite Hm; reflexivity]).
  unfold r_mods in Hnd. revert Hnd Ha. generalize (r_adds ekey es) as l. induction l as [|x r IH]; intros Hnd Ha; [contradiction|].
  cbn [map] in Hnd. inversion Hnd as [|? ? Hx Hr]; subst. cbn [kfind].
  destruct Ha as [->|Ha]; [rewrite String.eqb_refl; reflexivity|].
  destruct (String.eqb_spec (ekey e) (ekey x)) as [Heq|_]; [|apply IH; assumption].
  exfalso. apply Hx. rewrite <- Heq. apply in_map. exact Ha.
Qed.
End KLast.

(* ---------- sequential side, family by family ---------- *)
Lemma seq_mounts_last k pre p post c :
  (forall q, In q post -> ~ names_mount k q) ->
  (forall e, kfind m_dest k (r_adds m_dest (a_mounts p)) = Some e ->
             kfind m_dest k (c_mounts (apply_all c (pre ++ p :: post))) = Some e) /\
  (~ In k (map m_dest (a_mounts p)) -> In (mark k) (map m_dest (a_mounts p)) ->
   kfind m_dest k (c_mounts (apply_all c (pre ++ p :: post))) = None).
Proof.
  intros Hpost. rewrite apply_all_split, (apply_all_mounts_frame k post _ Hpost). cbn [apply_adj c_mounts]. split.
  - intros e He. apply (apply_keyed_set _ _ m_dest m_dest (fun m => m) mgood m_inj_key); [intros; exact I|exact He].
  - intros Hn Hm. apply (apply_keyed_removed _ _ m_dest m_dest (fun m => m) mgood m_inj_key); [intros; exact I|exact Hn|exact Hm].
Qed.

Lemma seq_devices_last k pre p post c :
  (forall q, In q post -> ~ names_device k q) ->
  (forall e, kfind d_path k (r_adds d_path (a_devices p)) = Some e ->
             kfind d_path k (c_devices (apply_all c (pre ++ p :: post))) = Some e) /\
  (~ In k (map d_path (a_devices p)) -> In (mark k) (map d_path (a_devices p)) ->
   kfind d_path k (c_devices (apply_all c (pre ++ p :: post))) = None).
Proof.
  intros Hpost. rewrite apply_all_split, (apply_all_devices_frame k post _ Hpost). cbn [apply_adj c_devices]. split.
  - intros e He. apply (apply_keyed_set _ _ d_path d_path (fun d => d) dgood d_inj_key); [intros; exact I|exact He].
  - intros Hn Hm. apply (apply_keyed_removed _ _ d_path d_path (fun d => d) dgood d_inj_key); [intros; exact I|exact Hn|exact Hm].
Qed.

Lemma seq_env_last k pre p post c :
  adj_wf p -> (forall q, In q post -> adj_wf q) ->
  (forall q, In q post -> ~ names_env k q) ->
  (forall e, kfind fst k (r_adds fst (a_env p)) = Some e ->
             kfind env_key k (c_env (apply_all c (pre ++ p :: post))) = Some (env_to_oci e)) /\
  (~ In k (map fst (a_env p)) -> In (mark k) (map fst (a_env p)) ->
   kfind env_key k (c_env (apply_all c (pre ++ p :: post))) = None).
Proof.
  intros Hp Hwf Hpost. rewrite apply_all_split, (apply_all_env_frame k post _ Hwf Hpost). cbn [apply_adj c_env].
  assert (Hg : forall x, In x (a_env p) -> egood x) by (intros x Hx; apply (aw_env p Hp x Hx)).
  split.
  - intros e He. apply (apply_keyed_set _ _ env_entry_key env_key env_to_oci egood e_inj_key); [exact Hg|exact He].
  - intros Hn Hm. apply (apply_keyed_removed _ _ env_entry_key env_key env_to_oci egood e_inj_key); [exact Hg|exact Hn|exact Hm].
Qed.

(* singletons *)
Definition args_value (args : list string) : list string :=
  match args with a0 :: rest => if String.eqb a0 "" then rest else args | [] => [] end.

Lemma apply_all_args_frame ps : forall c, (forall p, In p ps -> a_args p = []) -> c_args (apply_all c ps) = c_args c.
Proof.
  induction ps as [|p r IH]; intros c H; [reflexivity|].
  rewrite apply_all_cons, IH by (intros q Hq; apply H; right; exact Hq).
  cbn [apply_adj c_args]. rewrite (H p (or_introl eq_refl)). reflexivity.
Qed.

Lemma apply_all_cgroups_frame ps : forall c, (forall p, In p ps -> a_cgroups p = "") -> c_cgroups (apply_all c ps) = c_cgroups c.
Proof.
  induction ps as [|p r IH]; intros c H; [reflexivity|].
  rewrite apply_all_cons, IH by (intros q Hq; apply H; right; exact Hq).
  cbn [apply_adj c_cgroups]. rewrite (H p (or_introl eq_refl)). reflexivity.
Qed.

Lemma apply_all_oom_frame ps : forall c, (forall p, In p ps -> a_oom p = None) -> c_oom (apply_all c ps) = c_oom c.
Proof.
  induction ps as [|p r IH]; intros c H; [reflexivity|].
  rewrite apply_all_cons, IH by (intros q Hq; apply H; right; exact Hq).
  cbn [apply_adj c_oom]. rewrite (H p (or_introl eq_refl)). reflexivity.
Qed.

Lemma seq_args_last pre p post c :
  args_wf (a_args p) -> a_args p <> [] -> (forall q, In q post -> a_args q = []) ->
  c_args (apply_all c (pre ++ p :: post)) = args_value (a_args p).
Proof.
  intros Hwf Hne Hpost. rewrite apply_all_split, (apply_all_args_frame post _ Hpost). cbn [apply_adj c_args].
  destruct (a_args p) as [|a0 rest]; [contradiction|]. cbn [args_wf] in Hwf. cbn [apply_args args_value].
  destruct (String.eqb_spec a0 "") as [E|_]; [|reflexivity].
  destruct (Hwf E) as [r0 [rest' [-> _]]]. reflexivity.
Qed.

Lemma seq_cgroups_last pre p post c :
  a_cgroups p <> "" -> (forall q, In q post -> a_cgroups q = "") ->
  c_cgroups (apply_all c (pre ++ p :: post)) = a_cgroups p.
Proof.
  intros Hne Hpost. rewrite apply_all_split, (apply_all_cgroups_frame post _ Hpost). cbn [apply_adj c_cgroups].
  destruct (String.eqb_spec (a_cgroups p) ""); [contradiction|reflexivity].
Qed.

Lemma seq_oom_last pre p post c v :
  a_oom p = Some v -> (forall q, In q post -> a_oom q = None) ->
  c_oom (apply_all c (pre ++ p :: post)) = Some v.
Proof.
  intros Hv Hpost. rewrite apply_all_split, (apply_all_oom_frame post _ Hpost). cbn [apply_adj c_oom]. rewrite Hv. reflexivity.
Qed.

(* resources *)
Lemma seq_scal_last f pre p post c v :
  flookup f (r_scal (a_res p)) = Some v -> (forall q, In q post -> flookup f (r_scal (a_res q)) = None) ->
  flookup f (r_scal (c_res (apply_all c (pre ++ p :: post)))) = Some v.
Proof.
  intros Hv Hpost. rewrite apply_all_split, (apply_all_scal_frame f post _ Hpost).
  cbn [apply_adj c_res apply_res r_scal]. rewrite flookup_apply_scal, Hv. reflexivity.
Qed.

Lemma seq_uni_last k pre p post c v :
  alast k (r_uni (a_res p)) = Some v -> (forall q, In q post -> ~ In k (map fst (r_uni (a_res q)))) ->
  alookup k (r_uni (c_res (apply_all c (pre ++ p :: post)))) = Some v.
Proof.
  intros Hv Hpost. rewrite apply_all_split, (apply_all_uni_frame k post _ Hpost).
  cbn [apply_adj c_res apply_res r_uni]. fold (set_all (r_uni (a_res p)) (r_uni (c_res (apply_all c pre)))).
  rewrite alookup_set_all, Hv. reflexivity.
Qed.

(* hugepage limits are read as a map in which the last entry of a size wins (hp_eqb) *)
Lemma alast_app {V} k (a b : list (string * V)) :
  alast k (a ++ b) = match alast k b with Some v => Some v | None => alast k a end.
Proof. unfold alast. rewrite rev_app_distr, alookup_app. reflexivity. Qed.

Lemma apply_all_hp_frame k ps : forall c,
  (forall p, In p ps -> ~ In k (map fst (r_hp (a_res p)))) ->
  alast k (r_hp (c_res (apply_all c ps))) = alast k (r_hp (c_res c)).
Proof.
  induction ps as [|p r IH]; intros c H; [reflexivity|].
  rewrite apply_all_cons, IH by (intros q Hq; apply H; right; exact Hq).
  cbn [apply_adj c_res apply_res r_hp]. rewrite alast_app.
  assert (Ha : alast k (r_hp (a_res p)) = None) by (apply alast_None_notin; apply (H p (or_introl eq_refl))).
  rewrite Ha. reflexivity.
Qed.

Lemma seq_hp_last k pre p post c v :
  alast k (r_hp (a_res p)) = Some v -> (forall q, In q post -> ~ In k (map fst (r_hp (a_res q)))) ->
  alast k (r_hp (c_res (apply_all c (pre ++ p :: post)))) = Some v.
Proof.
  intros Hv Hpost. rewrite apply_all_split, (apply_all_hp_frame k post _ Hpost).
  cbn [apply_adj c_res apply_res r_hp]. rewrite alast_app, Hv. reflexivity.
Qed.

(* ---------- W2 for the plugins of a successful request: each names a key at most once as a set ---------- *)
Lemma adjust_ok_nodup p x y :
  adjust p x = Ok y ->
  NoDup (r_mods m_dest (a_mounts p)) /\ NoDup (r_mods fst (a_env p)) /\ NoDup (r_mods d_path (a_devices p)).
Proof.
  intros H. unfold adjust, bind in H. destruct x as [[c a] o].
  destruct (adj_annotations (a_ann p) (c, a, o)) as [[[c1 a1] o1]|e1]; [|discriminate].
  destruct (adj_mounts (a_mounts p) _) as [[[c2 a2] o2]|e2] eqn:S2; [|discriminate].
  destruct (adj_mounts_spec _ _ _ _ _ _ _ S2) as [r2 [v2 [_ [_ K2]]]].
  destruct (adj_env (a_env p) _) as [[[c3 a3] o3]|e3] eqn:S3; [|discriminate].
  destruct (adj_env_spec _ _ _ _ _ _ _ S3) as [r3 [v3 [_ [_ K3]]]].
  destruct (adj_args (a_args p) _) as [[[c4 a4] o4]|e4]; [|discriminate].
  destruct (adj_hooks (a_hooks p) _) as [[[c5 a5] o5]|e5]; [|discriminate].
  destruct (adj_devices (a_devices p) _) as [[[c6 a6] o6]|e6] eqn:S6; [|discriminate].
  destruct (adj_devices_spec _ _ _ _ _ _ _ S6) as [r6 [v6 [_ [_ K6]]]].
  split; [|split].
  - apply (kstep_nodup _ _ m_dest m_dest (fun m => m) IMount _ _ _ _ _ _ K2).
  - apply (kstep_nodup _ _ env_entry_key env_key env_to_oci IEnv _ _ _ _ _ _ K3).
  - apply (kstep_nodup _ _ d_path d_path (fun d => d) IDev _ _ _ _ _ _ K6).
Qed.

Lemma apply_response_create rp s s' :
  apply_response rp s = Ok s' -> (exists c, s_create s = Some c) -> exists c', s_create s' = Some c'.
Proof.
  intros H [c Hc]. unfold apply_response in H. rewrite Hc in H. destruct (rp_adjust rp) as [q|].
  - destruct (adjust q (c, s_adjust s, s_own s)) as [[[c' a'] o']|e]; cbn [bind] in H; [|discriminate].
    destruct (update_all_frame _ _ _ H) as [G _]. cbn [s_create] in G. exists c'. exact G.
  - cbn [bind] in H. destruct (update_all_frame _ _ _ H) as [G _]. exists c. congruence.
Qed.

Lemma steps_create rps : forall s s', steps rps s = Ok s' -> (exists c, s_create s = Some c) -> exists c', s_create s' = Some c'.
Proof.
  induction rps as [|rp r IH]; intros s s' H Hc; cbn [steps] in H; [inversion H; subst; exact Hc|].
  destruct (apply_response rp s) as [s1|e] eqn:E; cbn [bind] in H; [|discriminate].
  apply (IH _ _ H). apply (apply_response_create _ _ _ E Hc).
Qed.

Lemma steps_member_nodup c0 pre rp post s :
  steps (pre ++ rp :: post) (init_state (RCreate c0)) = Ok s ->
  let p := adj_of rp in
  NoDup (r_mods m_dest (a_mounts p)) /\ NoDup (r_mods fst (a_env p)) /\ NoDup (r_mods d_path (a_devices p)).
Proof.
  intros H p. rewrite steps_app in H.
  destruct (steps pre (init_state (RCreate c0))) as [s1|e] eqn:E1; cbn [bind] in H; [|discriminate].
  cbn [steps] in H. destruct (apply_response rp s1) as [s2|e] eqn:E2; cbn [bind] in H; [|discriminate].
  destruct (steps_create pre _ _ E1 (ex_intro _ c0 eq_refl)) as [c Hc].
  unfold apply_response in E2. rewrite Hc in E2. unfold p, adj_of.
  destruct (rp_adjust rp) as [q|]; [|cbn [adj_empty a_mounts a_env a_devices]; repeat split; constructor].
  destruct (adjust q (c, s_adjust s1, s_own s1)) as [y|e] eqn:Ha; cbn [bind] in E2; [|discriminate].
  apply (adjust_ok_nodup q _ _ Ha).
Qed.

(* ====================================================================== *)
(* the theorem, on the combined result                                    *)
(* ====================================================================== *)
Section Last.
Variables (c0 : container) (pre post : list response) (rp : response) (s : st).
Let rps := pre ++ rp :: post.
Let p := adj_of rp.
Let r := apply_adj c0 (s_adjust s).
Hypothesis Hwf : wf_create c0 rps = true.
Hypothesis Hok : snd (run_request (RCreate c0) rps) = Ok s.

Lemma last_OEq : OEq r (apply_all c0 (adjs pre ++ p :: adjs post)).
Proof. unfold r, p. rewrite <- adjs_split. apply (combined_OEq c0 rps s Hwf Hok). Qed.

Lemma last_wf_p : adj_wf p.
Proof. apply (wf_create_sound c0 rps Hwf). unfold rps. rewrite adjs_split. apply in_or_app. right. left. reflexivity. Qed.

Lemma last_wf_post q : In q (adjs post) -> adj_wf q.
Proof. intros Hq. apply (wf_create_sound c0 rps Hwf). unfold rps. rewrite adjs_split. apply in_or_app. right. right. exact Hq. Qed.

Lemma last_nodup :
  NoDup (r_mods m_dest (a_mounts p)) /\ NoDup (r_mods fst (a_env p)) /\ NoDup (r_mods d_path (a_devices p)).
Proof.
  unfold run_request in Hok. rewrite run_plugins_snd in Hok. apply (steps_member_nodup c0 pre rp post s Hok).
Qed.

(* annotations: CombineCorollaries.annotation_last_writer *)

Theorem last_writer_mounts k :
  (forall q, In q (adjs post) -> ~ names_mount k q) ->
  (forall e, In e (a_mounts p) -> m_dest e = k -> marked k = false -> kfind m_dest k (c_mounts r) = Some e) /\
  (~ In k (map m_dest (a_mounts p)) -> In (mark k) (map m_dest (a_mounts p)) -> kfind m_dest k (c_mounts r) = None).
Proof.
  intros Hpost. destruct (seq_mounts_last k (adjs pre) p (adjs post) c0 Hpost) as [H1 H2].
  split.
  - intros e Hin He Hm. rewrite (oe_mounts _ _ last_OEq). apply H1. subst k.
    apply (kfind_adds_In _ m_dest); [apply last_nodup|exact Hin|exact Hm].
  - intros Hn Hmk. rewrite (oe_mounts _ _ last_OEq). apply H2; assumption.
Qed.

Theorem last_writer_devices k :
  (forall q, In q (adjs post) -> ~ names_device k q) ->
  (forall e, In e (a_devices p) -> d_path e = k -> marked k = false -> kfind d_path k (c_devices r) = Some e) /\
  (~ In k (map d_path (a_devices p)) -> In (mark k) (map d_path (a_devices p)) -> kfind d_path k (c_devices r) = None).
Proof.
  intros Hpost. destruct (seq_devices_last k (adjs pre) p (adjs post) c0 Hpost) as [H1 H2].
  split.
  - intros e Hin He Hm. rewrite (oe_devices _ _ last_OEq). apply H1. subst k.
    apply (kfind_adds_In _ d_path); [apply last_nodup|exact Hin|exact Hm].
  - intros Hn Hmk. rewrite (oe_devices _ _ last_OEq). apply H2; assumption.
Qed.

(* the environment entry of name k is "k=v" *)
Theorem last_writer_env k :
  (forall q, In q (adjs post) -> ~ names_env k q) ->
  (forall v, In (k, v) (a_env p) -> marked k = false -> kfind env_key k (c_env r) = Some (k ++ "=" ++ v)%string) /\
  (~ In k (map fst (a_env p)) -> In (mark k) (map fst (a_env p)) -> kfind env_key k (c_env r) = None).
Proof.
  intros Hpost. destruct (seq_env_last k (adjs pre) p (adjs post) c0 last_wf_p last_wf_post Hpost) as [H1 H2].
  split.
  - intros v Hin Hm. rewrite (oe_env _ _ last_OEq).
    apply (H1 (k, v)). apply (kfind_adds_In _ fst (a_env p) (k, v)); [apply last_nodup|exact Hin|exact Hm].
  - intros Hn Hmk. rewrite (oe_env _ _ last_OEq). apply H2; assumption.
Qed.

Theorem last_writer_singletons :
  (a_args p <> [] -> (forall q, In q (adjs post) -> a_args q = []) -> c_args r = args_value (a_args p)) /\
  (a_cgroups p <> "" -> (forall q, In q (adjs post) -> a_cgroups q = "") -> c_cgroups r = a_cgroups p) /\
  (forall v, a_oom p = Some v -> (forall q, In q (adjs post) -> a_oom q = None) -> c_oom r = Some v).
Proof.
  split; [|split].
  - intros Hne Hpost. rewrite (oe_args _ _ last_OEq). apply seq_args_last; [apply (aw_args p last_wf_p)|exact Hne|exact Hpost].
  - intros Hne Hpost. rewrite (oe_cgroups _ _ last_OEq). apply seq_cgroups_last; assumption.
  - intros v Hv Hpost. rewrite (oe_oom _ _ last_OEq). apply seq_oom_last; assumption.
Qed.

Theorem last_writer_resources :
  (forall f v, flookup f (r_scal (a_res p)) = Some v -> (forall q, In q (adjs post) -> flookup f (r_scal (a_res q)) = None) ->
               flookup f (r_scal (c_res r)) = Some v) /\
  (forall k v, alast k (r_hp (a_res p)) = Some v -> (forall q, In q (adjs post) -> ~ In k (map fst (r_hp (a_res q)))) ->
               alast k (r_hp (c_res r)) = Some v) /\
  (forall k v, alast k (r_uni (a_res p)) = Some v -> (forall q, In q (adjs post) -> ~ In k (map fst (r_uni (a_res q)))) ->
               alookup k (r_uni (c_res r)) = Some v).
Proof.
  split; [|split].
  - intros f v Hv Hpost. rewrite (oe_scal _ _ last_OEq). apply seq_scal_last; assumption.
  - intros k v Hv Hpost. rewrite (oe_hp _ _ last_OEq). apply seq_hp_last; assumption.
  - intros k v Hv Hpost. rewrite (oe_uni _ _ last_OEq). apply seq_uni_last; assumption.
Qed.
End Last.

(* non-vacuity: in the example history plugin 2 is the last one naming mount "/x" (it removes and re-sets it) *)
Lemma ex_last_writer :
  ex_rps = [ex_R ex_A1] ++ ex_R ex_A2 :: skipn 2 ex_rps /\
  In (ex_mt "/x" "2") (a_mounts (adj_of (ex_R ex_A2))) /\
  (forall q, In q (adjs (skipn 2 ex_rps)) -> ~ names_mount "/x" q).
Proof.
  split; [reflexivity|]. split; [cbn; tauto|].
  intros q Hq [H|H]; cbn in Hq; destruct Hq as [<-|[<-|[]]]; cbn in H;
    repeat (destruct H as [H|H]; [discriminate H|]); exact H.
Qed.
