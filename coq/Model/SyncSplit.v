(* C09 — model of the split synchronisation of a registering plugin.

   Sender   pkg/adaptation/plugin.go   synchronize, recalcObjsPerSyncMsg
   Receiver pkg/stub/stub.go           Synchronize, collectSync, deliverSync; close (the
                                       boundary between two connections of one stub)
   Activation bookkeeping pkg/adaptation/adaptation.go
                                       acceptPluginConnections, startPlugins/syncPlugins

   Executable definitions only (they are run by vm_compute on the harness cases);
   proofs are in Proofs/SyncFloatProofs.v and Proofs/SyncSplitProofs.v. *)
From Coq Require Import List ZArith Bool Floats.SpecFloat.
From NRI Require Import Model.SyncConsts.
Import ListNotations.
Open Scope Z_scope.

(* ------------------------------------------------------------------ *)
(** * float64 arithmetic used by recalcObjsPerSyncMsg *)

Definition f64_prec : Z := 53.
Definition f64_emax : Z := 1024.

(* float64(n) for a Go int n *)
Definition f64_of_int (n : Z) : spec_float := binary_normalize f64_prec f64_emax n 0 false.
Definition f64_div : spec_float -> spec_float -> spec_float := SFdiv f64_prec f64_emax.
Definition f64_mul : spec_float -> spec_float -> spec_float := SFmul f64_prec f64_emax.
(* a > b *)
Definition f64_gt (a b : spec_float) : bool := SFltb b a.

(* int(f): truncation toward zero.  For NaN, the infinities and values outside
   int64 the Go specification leaves the result to the implementation; amd64
   yields the "integer indefinite" value -2^63, which is what is modelled.  None
   of these cases is reachable from synchronize (Proofs/SyncFloatProofs.v). *)
Definition int_indefinite : Z := - 2 ^ 63.
Definition int_of_f64 (f : spec_float) : Z :=
  match f with
  | S754_zero _ => 0
  | S754_finite s m e =>
      let a := Z.shiftl (Zpos m) e in
      let v := if s then - a else a in
      if (- 2 ^ 63 <=? v) && (v <? 2 ^ 63) then v else int_indefinite
  | _ => int_indefinite
  end.

(* factor := float64(maxLen) / float64(msgLen); if factor > 0.9 { factor = 0.9 } *)
Definition sync_factor (maxLen msgLen : Z) : spec_float :=
  let factor := f64_div (f64_of_int maxLen) (f64_of_int msgLen) in
  if f64_gt factor sync_cap_cmp then sync_cap_set else factor.

(* int(float64(n) * factor) *)
Definition sync_scale (n : Z) (factor : spec_float) : Z :=
  int_of_f64 (f64_mul (f64_of_int n) factor).

(* ------------------------------------------------------------------ *)
(** * recalcObjsPerSyncMsg

    Called with the error of a rejected message.  The error classes that are not
    an oversized-message error are handled by the caller in this model
    ([XOther] below); here [maxLen] / [msgLen] are e.MaximumLength() and
    e.RejectedLength().  [None] = the function returns an error. *)
(* if pods+ctrs <= minObjsPerMsg { return error }; the operator is regenerated from the source *)
Definition gives_up (n : Z) : bool :=
  if sync_giveup_le then n <=? min_objs_per_msg else n <? min_objs_per_msg.

Definition recalc (pods ctrs maxLen msgLen : Z) : option (Z * Z) :=
  if gives_up (pods + ctrs) then None
  else if (msgLen =? 0) || (maxLen =? 0) || (msgLen <=? maxLen) then None
  else
    let factor := sync_factor maxLen msgLen in
    let newPods := sync_scale pods factor in
    let newCtrs := sync_scale ctrs factor in
    (* never scale a non-empty share down to zero *)
    let newPods := if (0 <? pods) && (newPods =? 0) then 1 else newPods in
    let newCtrs := if (0 <? ctrs) && (newCtrs =? 0) then 1 else newCtrs in
    if newPods + newCtrs <? min_objs_per_msg
    then Some (Z.quot min_objs_per_msg 2, Z.quot min_objs_per_msg 2)
    else Some (newPods, newCtrs).

(* ------------------------------------------------------------------ *)
(** * Sender: plugin.synchronize *)

(* what the transport says about one message *)
Inductive xres :=
| XOk                                  (* the message reaches the plugin *)
| XOversize (maxLen msgLen : Z)        (* ttrpc.OversizedMessageErr *)
| XOther.                              (* any other transport error *)

Definition len {X} (l : list X) : Z := Z.of_nat (length l).
Definition take {X} (n : Z) (l : list X) : list X := firstn (Z.to_nat n) l.
Definition drop {X} (n : Z) (l : list X) : list X := skipn (Z.to_nat n) l.
(* l[:n] is legal iff 0 <= n <= cap(l); the model takes cap = len *)
Definition slice_ok {X} (l : list X) (n : Z) : bool := (0 <=? n) && (n <=? len l).
(* if n > len(l) { n = len(l) } *)
Definition clamp {X} (n : Z) (l : list X) : Z := if len l <? n then len l else n.
Definition is_nil {X} (l : list X) : bool := match l with [] => true | _ => false end.

Section Sender.
  Variables A B U PS : Type.       (* pods, containers, updates, state of the plugin end *)

  Record reply := { r_more : bool; r_update : list U }.
  Definition chunk := (list A * list B * bool)%type.   (* Pods, Containers, More *)

  Inductive fail_reason :=
  | FSplit        (* recalcObjsPerSyncMsg gave up, or a transport error *)
  | FPeerProto    (* "plugin does not handle split sync requests" *)
  | FPeerErr.     (* the plugin answered with an error *)

  (* [sent] = the messages that reached the plugin, in order *)
  Inductive outcome :=
  | Delivered (sent : list chunk) (upd : list U) (st : PS)
  | Failed (why : fail_reason) (sent : list chunk) (st : PS)
  | Panic (sent : list chunk)            (* slice bounds out of range *)
  | OutOfFuel (sent : list chunk).

  Definition push (c : chunk) (o : outcome) : outcome :=
    match o with
    | Delivered s u st => Delivered (c :: s) u st
    | Failed w s st => Failed w (c :: s) st
    | Panic s => Panic (c :: s)
    | OutOfFuel s => OutOfFuel (c :: s)
    end.

  (* the messages that reached the plugin *)
  Definition sent_of (o : outcome) : list chunk :=
    match o with Delivered s _ _ | Failed _ s _ | Panic s | OutOfFuel s => s end.

  (* [xmit]: what the SENDING side says about a message (ttrpc checks the size before anything is
     written); only its XOversize answer makes the loop recalculate and try again.  [peer]: the plugin's
     answer to a message that was delivered; None = an error of whatever kind.  plugin.synchronize hands
     that error to recalcObjsPerSyncMsg too, which returns an error for everything that is not the
     send-side *ttrpc.OversizedMessageErr (status code other than ResourceExhausted: the error itself;
     ResourceExhausted without the rejected/maximum lengths: "failed to synchronize plugin with split
     messages"), so the synchronisation ends - the model does not look at the kind of a peer's error. *)
  Variable xmit : list A -> list B -> bool -> xres.
  Variable peer : PS -> list A -> list B -> bool -> PS * option reply.
  Variable rc : Z -> Z -> Z -> Z -> option (Z * Z).   (* recalcObjsPerSyncMsg *)

  (* one iteration of the for loop per unit of fuel *)
  Fixpoint sync_loop (fuel : nat) (ps : list A) (cs : list B) (pp cp : Z) (st : PS) : outcome :=
    match fuel with
    | O => OutOfFuel []
    | S fuel' =>
      if negb (slice_ok ps pp && slice_ok cs cp) then Panic [] else
      let mp := take pp ps in
      let mc := take cp cs in
      let more := (pp <? len ps) || (cp <? len cs) in
      match xmit mp mc more with
      | XOk =>
        let '(st', r) := peer st mp mc more in
        let c := (mp, mc, more) in
        match r with
        | None => Failed FPeerErr [c] st'
        | Some rp =>
          if negb more then Delivered [c] (r_update rp) st'
          else if negb (is_nil (r_update rp)) || negb (Bool.eqb (r_more rp) more)
          then Failed FPeerProto [c] st'
          else
            let ps' := drop pp ps in
            let cs' := drop cp cs in
            push c (sync_loop fuel' ps' cs' (clamp pp ps') (clamp cp cs') st')
        end
      | XOversize maxLen msgLen =>
        match rc pp cp maxLen msgLen with
        | None => Failed FSplit [] st
        | Some (pp', cp') => sync_loop fuel' ps cs (clamp pp' ps) (clamp cp' cs) st
        end
      | XOther => Failed FSplit [] st
      end
    end.

  Definition synchronize (fuel : nat) (pods : list A) (ctrs : list B) (st : PS) : outcome :=
    sync_loop fuel pods ctrs (len pods) (len ctrs) st.

  (* acceptPluginConnections: plugins register one after the other on one runtime (the plugin-sync lock
     serialises them); each is synchronised by its own call of synchronize with the state the runtime
     holds then.  synchronize starts from podsPerMsg = len(pods), ctrsPerMsg = len(containers) and neither
     reads nor writes a field of the Adaptation: nothing is carried from one registration to the next. *)
  Definition registration := (list A * list B * PS)%type.
  Definition sync_one (fuel : list A -> list B -> nat) (r : registration) : outcome :=
    let '(pods, ctrs, st) := r in synchronize (fuel pods ctrs) pods ctrs st.
  Definition sync_all (fuel : list A -> list B -> nat) (regs : list registration) : list outcome :=
    map (sync_one fuel) regs.

  (* iterations that always suffice (Proofs: C09_safety) *)
  Definition sync_fuel (pods : list A) (ctrs : list B) : nat :=
    S (2 * (length pods + length ctrs)).

  (* synchronize returns a nil error exactly when the state was delivered *)
  Definition outcome_ok (o : outcome) : bool :=
    match o with Delivered _ _ _ => true | _ => false end.

  (* the plugin end fed a sequence of messages: its final state and its replies *)
  Fixpoint peer_run (st : PS) (msgs : list chunk) : PS * list (option reply) :=
    match msgs with
    | [] => (st, [])
    | (mp, mc, more) :: r =>
        let '(st', rp) := peer st mp mc more in
        let '(st'', rps) := peer_run st' r in
        (st'', rp :: rps)
    end.
End Sender.

Arguments r_more {U}. Arguments r_update {U}. Arguments Build_reply {U}.
Arguments Delivered {A B U PS}. Arguments Failed {A B U PS}. Arguments Panic {A B U PS}. Arguments OutOfFuel {A B U PS}.
Arguments sent_of {A B U PS}. Arguments push {A B U PS}. Arguments sync_loop {A B U PS}. Arguments synchronize {A B U PS}.
Arguments sync_one {A B U PS}. Arguments sync_all {A B U PS}. Arguments sync_fuel {A B}. Arguments outcome_ok {A B U PS}. Arguments peer_run {A B U PS}.

(* ------------------------------------------------------------------ *)
(** * The transport as a function of object sizes

    A message is the ttrpc request envelope around the encoded
    SynchronizeRequest.  [w] gives the encoded size of one object inside a
    request (tag, length prefix, body), [more_cost] the size of More=true, [hdr]
    the envelope without its payload field, [L] ttrpc's maximum message length. *)
Fixpoint sumZ (l : list Z) : Z := match l with [] => 0 | x :: r => x + sumZ r end.

(* number of bytes of the base-128 varint of n (n >= 0); 10 bytes cover 64 bits *)
Definition varint_len (n : Z) : Z :=
  if n <? 2^7 then 1 else if n <? 2^14 then 2 else if n <? 2^21 then 3 else if n <? 2^28 then 4
  else if n <? 2^35 then 5 else if n <? 2^42 then 6 else if n <? 2^49 then 7 else if n <? 2^56 then 8
  else if n <? 2^63 then 9 else 10.

Definition payload_len {A B} (wa : A -> Z) (wb : B -> Z) (more_cost : Z) (mp : list A) (mc : list B) (more : bool) : Z :=
  sumZ (map wa mp) + sumZ (map wb mc) + (if more then more_cost else 0).

(* a bytes field that is empty is not encoded at all *)
Definition msg_len (hdr payload : Z) : Z :=
  if payload <=? 0 then hdr else hdr + 1 + varint_len payload + payload.

Definition xmit_size {A B} (wa : A -> Z) (wb : B -> Z) (hdr more_cost L : Z) (mp : list A) (mc : list B) (more : bool) : xres :=
  let m := msg_len hdr (payload_len wa wb more_cost mp mc more) in
  if m <=? L then XOk else XOversize L m.

(* ------------------------------------------------------------------ *)
(** * Receiver: stub.Synchronize / collectSync / deliverSync *)
Section Stub.
  Variables A B U : Type.

  Record stub_state := {
    ss_acc : option (list A * list B);       (* stub.syncReq *)
    ss_calls : list (list A * list B)        (* invocations of the plugin's Synchronize handler so far *)
  }.
  Definition stub_init : stub_state := {| ss_acc := None; ss_calls := [] |}.

  (* handlers.Synchronize; None = the plugin has no such handler.  The handler itself
     answers with updates or with an error (None). *)
  Variable handler : option (list A -> list B -> option (list U)).

  Definition stub_append (acc : option (list A * list B)) (ps : list A) (cs : list B) : list A * list B :=
    match acc with
    | None => (ps, cs)
    | Some (aps, acs) => (aps ++ ps, acs ++ cs)
    end.

  Definition stub_sync (st : stub_state) (ps : list A) (cs : list B) (more : bool) : stub_state * option (reply U) :=
    match handler with
    | None => (st, Some {| r_more := more; r_update := [] |})
    | Some h =>
      if more then
        (* collectSync *)
        ({| ss_acc := Some (stub_append (ss_acc st) ps cs); ss_calls := ss_calls st |},
         Some {| r_more := more; r_update := [] |})
      else
        (* deliverSync *)
        let '(aps, acs) := stub_append (ss_acc st) ps cs in
        let st' := {| ss_acc := None; ss_calls := ss_calls st ++ [(aps, acs)] |} in
        match h aps acs with
        | Some upd => (st', Some {| r_more := false; r_update := upd |})
        | None => (st', None)
        end
    end.

End Stub.

Arguments ss_acc {A B}. Arguments ss_calls {A B}. Arguments Build_stub_state {A B}.
Arguments stub_init {A B}. Arguments stub_append {A B}. Arguments stub_sync {A B U}.

(* ------------------------------------------------------------------ *)
(** * Receiver across connections: stub.close

    One stub.Stub value can be started again after its connection was lost or after
    Stop (plugins do so from their onClose handler).  The chunks collected so far,
    stub.syncReq, are a field of that value and so outlive the connection unless
    close() discards them.  close() is what both connClosed (connection lost) and
    Stop run, and Start refuses to run before it ("stub already started"), so exactly
    one close lies between the messages of two connections.

      func (stub *stub) close() { ...; stub.started = false; stub.conn = nil; stub.syncReq = nil }

    [resets] = the last assignment is there (Model/SyncConsts.v: close_resets_sync,
    regenerated from stub.go on every run).  close() returns early when the stub is not
    started; collectSync takes the lock Start holds until it has set started, so a stub
    that has collected anything is started. *)
Section StubSessions.
  Variables A B U : Type.
  Variable handler : option (list A -> list B -> option (list U)).

  Definition stub_close (resets : bool) (st : stub_state A B) : stub_state A B :=
    {| ss_acc := if resets then None else ss_acc st; ss_calls := ss_calls st |}.

  (* one connection: the Synchronize messages it carries, then close *)
  Definition stub_session (resets : bool) (st : stub_state A B) (msgs : list (chunk A B)) : stub_state A B :=
    stub_close resets (fst (peer_run (stub_sync handler) st msgs)).

  (* the connections of one stub value, in order *)
  Definition stub_sessions (resets : bool) (st : stub_state A B) (conns : list (list (chunk A B))) : stub_state A B :=
    fold_left (stub_session resets) conns st.
End StubSessions.

Arguments stub_close {A B}. Arguments stub_session {A B U}. Arguments stub_sessions {A B U}.

(* ------------------------------------------------------------------ *)
(** * Activation bookkeeping of the adaptation

    acceptPluginConnections:   err = r.syncFn(ctx, p.synchronize)
                               if err == nil { r.plugins = append(r.plugins, p); r.sortPlugins() }
    [propagates] says whether the runtime's SyncFn returns the error of the
    call-back it is handed (containerd and CRI-O do; the harness does). *)
Section Activation.
  Variable P : Type.
  Variable sort_plugins : list P -> list P.     (* r.sortPlugins *)

  Definition syncfn_result (propagates sync_ok : bool) : bool := sync_ok || negb propagates.

  Definition accept_external (propagates : bool) (active : list P) (p : P) (sync_ok : bool) : list P :=
    if syncfn_result propagates sync_ok then sort_plugins (active ++ [p]) else active.

  (* startPlugins/syncPlugins: the started pre-installed plugins whose synchronize succeeded *)
  Fixpoint sync_plugins (sync_ok : P -> bool) (started : list P) (plugins : list P) : list P :=
    match started with
    | [] => plugins
    | p :: r => if sync_ok p then sync_plugins sync_ok r (plugins ++ [p]) else sync_plugins sync_ok r plugins
    end.
  Definition start_plugins (sync_ok : P -> bool) (started : list P) : list P :=
    sort_plugins (sync_plugins sync_ok started []).
End Activation.

Arguments accept_external {P}. Arguments sync_plugins {P}. Arguments start_plugins {P}.
