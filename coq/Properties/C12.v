(* C12 — both wire encodings of every protocol message agree.
   This file contains only statements closed by [exact].

   One model codec (Model/Proto.v) stands for both Go codecs: the correspondence run shows that
   proto.Marshal(Deterministic), MarshalVT and the model produce the same bytes, that SizeVT is the
   model's [size], and that proto.Unmarshal / UnmarshalVT return what the model's [decode] returns.
   The theorems below are about that model, on the schema regenerated from the descriptor compiled
   into pkg/api/api.pb.go (Model/Schema.v), for ALL values. *)
From Coq Require Import String Ascii List Bool ZArith NArith.
From NRI Require Import Model.Proto Model.Schema Proofs.ProtoWireProofs Proofs.ProtoProofs.
Import ListNotations.
Local Open Scope N_scope.

(* ---- varints ---- *)

(* every uint64 survives encodeVarint / the decoders' varint loop, whatever bytes follow *)
Theorem C12_varint_roundtrip : forall n rest,
  n < 18446744073709551616 -> dec_varint (enc_varint n ++ rest) = Some (n, rest).
Proof. exact varint_roundtrip. Qed.
Print Assumptions C12_varint_roundtrip.

(* sov (the size computation of SizeVT) is the number of bytes encodeVarint writes, for every n *)
Theorem C12_sov_is_length : forall n, blen (enc_varint n) = sov n.
Proof. exact sov_is_length. Qed.
Print Assumptions C12_sov_is_length.

(* every integer in the range of its Go type (int32, int64, uint32, uint64, bool, enum) comes back
   from its uint64 conversion *)
Theorem C12_scalar_roundtrip : forall k z, in_range k z = true -> of_u64 k (to_u64 z) = z.
Proof. exact of_to_u64. Qed.
Print Assumptions C12_scalar_roundtrip.

(* negative int32 / int64 / enum values are written as the 10 bytes of their 64-bit two's complement *)
Theorem C12_negative_varint : forall k z, in_range k z = true -> (z < 0)%Z ->
  blen (enc_varint (to_u64 z)) = 10 /\ of_u64 k (to_u64 z) = z.
Proof. exact negative_varint_ten_bytes. Qed.
Print Assumptions C12_negative_varint.

(* ---- wire level ---- *)

(* a length-delimited field is read back whole, followed by whatever follows it *)
Theorem C12_ld_roundtrip : forall num (b rest : bytes) fu,
  0 < num -> num <= max_field_number -> blen b < two64 ->
  dec_wire_aux (S fu) (enc_wfield (num, WBytes b) ++ rest)
  = option_map (cons (num, WBytes b)) (dec_wire_aux fu rest).
Proof. exact ld_roundtrip. Qed.
Print Assumptions C12_ld_roundtrip.

(* any list of (field number, varint | bytes) is read back from its encoding *)
Theorem C12_wire_roundtrip : forall ws, wf_wire ws = true -> dec_wire (enc_wire ws) = Some ws.
Proof. exact wire_roundtrip. Qed.
Print Assumptions C12_wire_roundtrip.

(* ---- the schema regenerated from api.pb.go ---- *)

(* field numbers strictly increasing and legal, only supported constructs, every referenced message
   resolvable and of smaller rank (acyclic), message names distinct *)
Theorem C12_schema_wf : schema_wf schema = true.
Proof. exact nri_schema_wf. Qed.
Print Assumptions C12_schema_wf.

(* every top-level message of api.proto is in the schema; no nested message was left out *)
Theorem C12_schema_complete :
  forallb (fun n => match find_msg n schema with Some _ => true | None => false end) schema_messages = true
  /\ N.of_nat (length schema) = schema_message_count
  /\ N.of_nat (length schema_messages) = schema_message_count
  /\ schema_untranslated_nested = 0.
Proof. exact nri_schema_complete. Qed.
Print Assumptions C12_schema_complete.

(* ---- messages ---- *)

(* SizeVT's arithmetic equals the number of bytes written: every message name, every value *)
Theorem C12_size_is_length : forall name v, size schema name v = blen (encode schema name v).
Proof. exact nri_size_is_length. Qed.
Print Assumptions C12_size_is_length.

(* decoding an encoding returns the original message — every message type, every well-formed value
   (shape of the descriptor, integers in the range of their Go type, distinct map keys in ANY
   iteration order, lengths below 2^64): zero scalars and empty strings come back as such, an unset
   optional sub-message comes back unset (VNone), one set to zero or empty comes back set (VMsg) *)
Theorem C12_decode_encode : forall name v,
  wf_value schema name v = true -> decode schema name (encode schema name v) = Some v.
Proof. exact nri_decode_encode. Qed.
Print Assumptions C12_decode_encode.

(* the same for any well-formed schema (the proof does not depend on the NRI descriptors) *)
Theorem C12_decode_encode_any_schema : forall sch, schema_wf sch = true -> forall name v,
  wf_value sch name v = true -> decode sch name (encode sch name v) = Some v.
Proof. exact decode_encode. Qed.
Print Assumptions C12_decode_encode_any_schema.

Theorem C12_size_is_length_any_schema : forall sch name v, size sch name v = blen (encode sch name v).
Proof. exact size_is_length. Qed.
Print Assumptions C12_size_is_length_any_schema.

(* different messages never share an encoding *)
Theorem C12_encode_injective : forall name v1 v2,
  wf_value schema name v1 = true -> wf_value schema name v2 = true ->
  encode schema name v1 = encode schema name v2 -> v1 = v2.
Proof. exact nri_encode_injective. Qed.
Print Assumptions C12_encode_injective.

(* ---- non-vacuity ---- *)
Local Open Scope string_scope.
Local Open Scope list_scope.

(* ContainerUpdate{ container_id, linux{ resources{ memory, cpu, hugepage_limits, blockio_class,
   rdt_class, unified, devices, pids } }, ignore_failure }: optional wrappers unset (VNone), set to
   zero / empty (VMsg [VScalar 0]) and set; int64 min / max, uint64 max, negative int64; a map with an
   empty key and value; a repeated field with an empty element.  (corpus/C12/boundary.json holds the
   bytes both Go codecs produce for this message; the harness replays it on every run.) *)
Definition ex_update : value :=
  VMsg [VString "ctr0";
        VMsg [VMsg [
          VMsg [VMsg [VScalar (-9223372036854775808)]; VMsg [VScalar 0]; VNone; VMsg [VScalar 9223372036854775807];
                VNone; VMsg [VScalar 18446744073709551615]; VMsg [VScalar 1]; VMsg [VScalar 0]];
          VMsg [VNone; VMsg [VScalar (-1)]; VMsg [VScalar 100000]; VNone; VNone; VString "0-3"; VString ""];
          VRep [VMsg [VString "2MB"; VScalar 18446744073709551615]; VMsg [VString ""; VScalar 0]];
          VMsg [VString ""]; VNone;
          VMap [("", ""); ("memory.high", "max")];
          VRep [VMsg [VScalar 1; VString "c"; VMsg [VScalar (-1)]; VNone; VString "rwm"]];
          VMsg [VScalar (-1)]]];
        VScalar 1].

Example C12_example_roundtrip :
  wf_value schema "ContainerUpdate" ex_update = true
  /\ decode schema "ContainerUpdate" (encode schema "ContainerUpdate" ex_update) = Some ex_update
  /\ size schema "ContainerUpdate" ex_update = 174
  /\ blen (encode schema "ContainerUpdate" ex_update) = 174.
Proof. vm_compute. repeat split; reflexivity. Qed.

(* unset and set-to-zero differ on the wire and both come back as they were *)
Example C12_example_presence :
  let unset := VMsg [VString ""; VRepStr []; VRepStr []; VNone] in
  let zero := VMsg [VString ""; VRepStr []; VRepStr []; VMsg [VScalar 0]] in
  wf_value schema "Hook" unset = true /\ wf_value schema "Hook" zero = true
  /\ encode schema "Hook" unset = [] /\ blen (encode schema "Hook" zero) = 2
  /\ decode schema "Hook" (encode schema "Hook" unset) = Some unset
  /\ decode schema "Hook" (encode schema "Hook" zero) = Some zero.
Proof. vm_compute. repeat split; reflexivity. Qed.

Example C12_example_negative : blen (enc_varint (to_u64 (-1))) = 10 /\ of_u64 KInt32 (to_u64 (-2147483648)) = (-2147483648)%Z.
Proof. vm_compute. split; reflexivity. Qed.

Example C12_example_domain : schema_message_count = 49 /\ schema_map_entry_count = 6.
Proof. split; reflexivity. Qed.
