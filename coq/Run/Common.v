(* Shared helpers for evaluating correspondence cases written by the harness. *)
From Coq Require Import String List Bool ZArith NArith.
Import ListNotations.

Fixpoint fails_from {A} (i : nat) (f : A -> bool) (l : list A) : list nat :=
  match l with
  | [] => []
  | x :: r => if f x then fails_from (S i) f r else i :: fails_from (S i) f r
  end.
(* indices (from 0) of the cases on which f is false *)
Definition fails {A} (f : A -> bool) (l : list A) : list nat := fails_from 0 f l.

Definition count_true {A} (f : A -> bool) (l : list A) : nat := length (filter f l).

Definition opt_eqb {A} (eqb : A -> A -> bool) (a b : option A) : bool :=
  match a, b with
  | Some x, Some y => eqb x y
  | None, None => true
  | _, _ => false
  end.

Fixpoint list_eqb {A} (eqb : A -> A -> bool) (a b : list A) : bool :=
  match a, b with
  | [], [] => true
  | x :: r, y :: s => eqb x y && list_eqb eqb r s
  | _, _ => false
  end.

Definition pair_eqb {A B} (ea : A -> A -> bool) (eb : B -> B -> bool) (a b : A * B) : bool :=
  ea (fst a) (fst b) && eb (snd a) (snd b).
