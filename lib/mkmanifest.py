#!/usr/bin/env python3
"""Regenerates MANIFEST.json from lib/props.py (claimed checks) and properties.jsonl (ids)."""
import json, os, sys
VERIF = os.path.dirname(os.path.dirname(os.path.abspath(__file__)))
sys.path.insert(0, os.path.join(VERIF, "lib"))
import props

ids = [json.loads(l)["id"] for l in open(os.path.join(VERIF, "properties.jsonl")) if l.strip()]
checks, na = [], []
for pid in ids:
    P = props.PROPS.get(pid)
    if not P or not P.get("claimed", True):
        na.append({"property_id": pid, "reason": (P or {}).get("na_reason", "check not built yet in this round; see DESIGN.md section 3 for the planned theorems")})
        continue
    checks.append({
        "property_id": pid,
        "quick_cmd": "./check %s --tier quick" % pid,
        "thorough_cmd": "./check %s --tier thorough" % pid,
        "evidence_file": "evidence/%s.json" % pid,
        "replay_cmd_template": "./check %s --replay {path}" % pid,
        "engine": P.get("engine", "coq+" + "+".join(d.split(":")[-1] for d in P["drivers"])),
        "level_claimed": {"category": "proof", "text": P["level_text"], "design_ref": P.get("design_ref", "DESIGN.md section 3")},
        "level_note": P["level_note"],
        "technique": P.get("technique", "machine-checked proof in Coq 8.16 over a hand-written executable model + correspondence check against the implementation"),
    })
m = {
    "version": 1,
    "setup_cmd": "./setup.sh",
    "hooks": {"guard": "verif", "enable": "go build -tags verif (the harness is always built with the tag)", "baseline_off_cmd": props.BASELINE_OFF_CMD, "source_commits": props.HOOK_COMMITS, "add_only": True},
    "engines": props.ENGINES,
    "checks": checks,
    "notes": props.NOTES,
    "not_applicable": na,
}
json.dump(m, open(os.path.join(VERIF, "MANIFEST.json"), "w"), indent=1)
print("MANIFEST.json: %d checks, %d not_applicable" % (len(checks), len(na)))
