// h_proto — correspondence driver of C12 (both wire encodings of every protocol
// message agree).  For every message type found in the descriptor compiled into
// pkg/api it builds values through protoreflect on the generated Go types, runs
// both codecs (google.golang.org/protobuf reflection codec; the generated
// MarshalVT/UnmarshalVT/SizeVT) and records bytes, sizes and decoded messages as
// Coq terms for Run/RunProto.v.
package main

import (
	"encoding/hex"
	"fmt"
	"math"
	"os"
	"path/filepath"
	"sort"
	"strings"

	"encoding/json"
	"math/rand"

	"github.com/containerd/nri/pkg/api"
	"google.golang.org/protobuf/encoding/protowire"
	"google.golang.org/protobuf/proto"
	"google.golang.org/protobuf/reflect/protoreflect"
	"google.golang.org/protobuf/reflect/protoregistry"

	"verif/harness/internal/coqfmt"
	"verif/harness/internal/hx"
)

func main() { hx.Main(map[string]func(*hx.Ctx) error{"proto": driveProto}) }

const imports = "From Coq Require Import Init.Byte.\nFrom NRI Require Import Model.Proto Run.Common Run.RunProto."

type vtMsg interface {
	MarshalVT() ([]byte, error)
	UnmarshalVT([]byte) error
	SizeVT() int
}

// ---------------------------------------------------------------- descriptors

func sortedFields(md protoreflect.MessageDescriptor) []protoreflect.FieldDescriptor {
	fs := md.Fields()
	out := make([]protoreflect.FieldDescriptor, 0, fs.Len())
	for i := 0; i < fs.Len(); i++ {
		out = append(out, fs.Get(i))
	}
	sort.SliceStable(out, func(a, b int) bool { return out[a].Number() < out[b].Number() })
	return out
}

func messageTypes(c *hx.Ctx) []protoreflect.MessageType {
	fd := api.File_pkg_api_api_proto
	var out []protoreflect.MessageType
	for i := 0; i < fd.Messages().Len(); i++ {
		md := fd.Messages().Get(i)
		mt, err := protoregistry.GlobalTypes.FindMessageByName(md.FullName())
		if err != nil {
			c.HarnessError("message type %s not registered: %v", md.FullName(), err)
			continue
		}
		out = append(out, mt)
		for j := 0; j < md.Messages().Len(); j++ {
			if !md.Messages().Get(j).IsMapEntry() {
				c.HarnessError("nested message %s is not covered by the schema translator", md.Messages().Get(j).FullName())
			}
		}
	}
	return out
}

// ---------------------------------------------------------------- Coq printer

// byteList prints bytes as a Coq list of Init.Byte constructors (parsed much faster
// by coqc than string or number literals).
func byteList(b []byte) string {
	if len(b) == 0 {
		return "[]"
	}
	var sb strings.Builder
	sb.Grow(5*len(b) + 2)
	sb.WriteByte('[')
	for i, c := range b {
		if i > 0 {
			sb.WriteByte(';')
		}
		fmt.Fprintf(&sb, "x%02x", c)
	}
	sb.WriteByte(']')
	return sb.String()
}

func strTerm(s string) string {
	if coqfmt.Printable(s) && len(s) <= 24 {
		return coqfmt.Str(s)
	}
	return "(sb " + byteList([]byte(s)) + ")"
}

func scalarZ(f protoreflect.FieldDescriptor, v protoreflect.Value) (string, bool) {
	switch f.Kind() {
	case protoreflect.Int32Kind, protoreflect.Int64Kind:
		return coqfmt.Z(v.Int()), true
	case protoreflect.Uint32Kind, protoreflect.Uint64Kind:
		return coqfmt.ZU(v.Uint()), true
	case protoreflect.BoolKind:
		if v.Bool() {
			return "1%Z", true
		}
		return "0%Z", true
	case protoreflect.EnumKind:
		return coqfmt.Z(int64(v.Enum())), true
	case protoreflect.Sint32Kind, protoreflect.Sint64Kind, protoreflect.Sfixed32Kind, protoreflect.Sfixed64Kind:
		// a wire type the model does not have (the schema changed under it): keep the VALUE so that the case is
		// still recorded and judged by the implementation-only oracle; the model will disagree on the bytes
		outsideModel[string(f.FullName())+" ("+f.Kind().String()+")"] = true
		return coqfmt.Z(v.Int()), true
	case protoreflect.Fixed32Kind, protoreflect.Fixed64Kind:
		outsideModel[string(f.FullName())+" ("+f.Kind().String()+")"] = true
		return coqfmt.ZU(v.Uint()), true
	}
	return "", false
}

// fields whose kind the Coq codec model does not cover (empty on the pinned schema)
var outsideModel = map[string]bool{}

// term prints a message as a Model.Proto.value: one value per field in field-number
// order; map entries sorted by key.  Default values are printed with the abbreviations
// of Run/RunProto.v (v0 = VScalar 0, s0 = VString "", r0 = VRepStr [], l0 = VRep [],
// m0 = VMap []) to keep the case files small.
func term(m protoreflect.Message) string {
	var items []string
	for _, f := range sortedFields(m.Descriptor()) {
		v := m.Get(f)
		switch {
		case f.IsMap():
			var ks []string
			mp := v.Map()
			mp.Range(func(k protoreflect.MapKey, _ protoreflect.Value) bool { ks = append(ks, k.String()); return true })
			sort.Strings(ks)
			var es []string
			for _, k := range ks {
				es = append(es, coqfmt.Pair(strTerm(k), strTerm(mp.Get(protoreflect.ValueOfString(k).MapKey()).String())))
			}
			if len(es) == 0 {
				items = append(items, "m0")
			} else {
				items = append(items, "VMap "+coqfmt.List(es))
			}
		case f.IsList() && f.Kind() == protoreflect.StringKind:
			var es []string
			for i := 0; i < v.List().Len(); i++ {
				es = append(es, strTerm(v.List().Get(i).String()))
			}
			if len(es) == 0 {
				items = append(items, "r0")
			} else {
				items = append(items, "VRepStr "+coqfmt.List(es))
			}
		case f.IsList() && f.Kind() == protoreflect.MessageKind:
			var es []string
			for i := 0; i < v.List().Len(); i++ {
				es = append(es, term(v.List().Get(i).Message()))
			}
			if len(es) == 0 {
				items = append(items, "l0")
			} else {
				items = append(items, "VRep "+coqfmt.List(es))
			}
		case f.Kind() == protoreflect.MessageKind:
			if m.Has(f) {
				items = append(items, term(v.Message()))
			} else {
				items = append(items, "VNone")
			}
		case f.Kind() == protoreflect.StringKind && !f.IsList():
			if v.String() == "" {
				items = append(items, "s0")
			} else {
				items = append(items, "VString "+strTerm(v.String()))
			}
		default:
			z, ok := scalarZ(f, v)
			if !ok || f.IsList() {
				panic(fmt.Sprintf("h_proto: field %s of kind %s is outside the model", f.FullName(), f.Kind()))
			}
			if z == "0%Z" {
				items = append(items, "v0")
			} else {
				items = append(items, "VScalar "+z)
			}
		}
	}
	return "VMsg " + coqfmt.List(items)
}

// ---------------------------------------------------------------- observation

type rawCase struct {
	Stream string `json:"stream"`
	Msg    string `json:"msg"`
	What   string `json:"what"`
	PB     string `json:"pb_hex"`
	VT     string `json:"vt_hex,omitempty"`
	SizeVT int    `json:"sizevt"`
	Term   string `json:"value"`
	Notes  string `json:"notes,omitempty"`
}

func safely(what string, f func() error) (err error) {
	defer func() {
		if r := recover(); r != nil {
			err = fmt.Errorf("%s panicked: %v", what, r)
		}
	}()
	return f()
}

// decodeObs decodes b into a fresh message of m's type with the given decoder and
// prints what came out.
func decodeObs(m proto.Message, orig string, b []byte, vt bool) (obs string, equal bool, note string) {
	n := m.ProtoReflect().New().Interface()
	var err error
	if vt {
		err = safely("UnmarshalVT", func() error { return n.(vtMsg).UnmarshalVT(b) })
	} else {
		err = safely("proto.Unmarshal", func() error { return proto.Unmarshal(b, n) })
	}
	if err != nil {
		return "ObsErr", false, err.Error()
	}
	t := term(n.ProtoReflect())
	eq := proto.Equal(m, n)
	if t == orig {
		return "ObsSame", eq, ""
	}
	return "(ObsVal (" + t + "))", eq, "decoded to a different message"
}

type observer struct {
	c      *hx.Ctx
	sh     *hx.Shard
	stream string
}

// observe runs both codecs on m and records the case.
func (o *observer) observe(m proto.Message, what string, nontrivial bool) {
	c := o.c
	name := string(m.ProtoReflect().Descriptor().Name())
	orig := term(m.ProtoReflect())
	rc := rawCase{Stream: o.stream, Msg: name, What: what, Term: orig}
	fail := func(msg string) { c.ImplFail(o.stream, msg, rc) }

	var pb []byte
	if err := safely("proto.Marshal", func() (e error) { pb, e = proto.MarshalOptions{Deterministic: true}.Marshal(m); return }); err != nil {
		fail("proto.Marshal failed: " + err.Error())
		return
	}
	rc.PB = hex.EncodeToString(pb)
	pbsize := proto.Size(m)
	if pbsize != len(pb) {
		fail(fmt.Sprintf("proto.Size = %d but proto.Marshal wrote %d bytes", pbsize, len(pb)))
	}
	pbOfPb, eq, note := decodeObs(m, orig, pb, false)
	if !eq {
		fail("proto.Unmarshal(proto.Marshal(m)) != m: " + note)
	}
	// the non-deterministic marshaller must decode to the same message as well
	if pb2, err := proto.Marshal(m); err != nil {
		fail("proto.Marshal (default options) failed: " + err.Error())
	} else if _, eq, note := decodeObs(m, orig, pb2, false); !eq {
		fail("proto.Unmarshal(proto.Marshal(m)) != m (default options): " + note)
	}

	v, hasVT := m.(vtMsg)
	vtHex, sizeVT := "", 0
	pbOfVt, vtOfPb, vtOfVt := "ObsSame", "ObsSame", "ObsSame"
	var vb []byte
	if hasVT {
		if err := safely("SizeVT", func() error { sizeVT = v.SizeVT(); return nil }); err != nil {
			fail(err.Error())
			return
		}
		if err := safely("MarshalVT", func() (e error) { vb, e = v.MarshalVT(); return }); err != nil {
			fail("MarshalVT failed: " + err.Error())
			return
		}
		vtHex = hex.EncodeToString(vb)
		rc.VT, rc.SizeVT = vtHex, sizeVT
		if sizeVT != len(vb) {
			fail(fmt.Sprintf("SizeVT = %d but MarshalVT wrote %d bytes", sizeVT, len(vb)))
		}
		pbOfVt, eq, note = decodeObs(m, orig, vb, false)
		if !eq {
			fail("proto.Unmarshal(MarshalVT(m)) != m: " + note)
		}
		vtOfPb, eq, note = decodeObs(m, orig, pb, true)
		if !eq {
			fail("UnmarshalVT(proto.Marshal(m)) != m: " + note)
		}
		vtOfVt, eq, note = decodeObs(m, orig, vb, true)
		if !eq {
			fail("UnmarshalVT(MarshalVT(m)) != m: " + note)
		}
	}
	vtSame := hasVT && vtHex == rc.PB
	vtList := "[]"
	if hasVT && !vtSame {
		vtList = byteList(vb)
		c.Count("vt_bytes_differ_from_deterministic_marshal(map order)", 1)
	}
	// constructor application: coqc elaborates it several times faster than the {| ... |} notation;
	// argument order = field order of Run.RunProto.proto_case
	o.sh.Add(fmt.Sprintf("(Build_proto_case %s (%s) %s %s %s %s %s %s %s %s %s %s)",
		coqfmt.Str(name), orig, byteList(pb), coqfmt.N(uint64(pbsize)), coqfmt.Bool(hasVT), coqfmt.Bool(vtSame), vtList, coqfmt.N(uint64(sizeVT)),
		pbOfPb, pbOfVt, vtOfPb, vtOfVt), rc)
	c.Eval(o.stream+"/"+name+"/"+rc.PB, nontrivial && len(pb) > 0)
	c.Count("cases."+o.stream, 1)
	c.Count(fmt.Sprintf("bytes.%s", sizeBucket(len(pb))), 1)
	if len(pb) > 40 && len(pb) < 120 {
		c.Sample(map[string]interface{}{"stream": o.stream, "msg": name, "what": what, "pb_hex": rc.PB, "sizevt": sizeVT}, 6)
	}
}

func sizeBucket(n int) string {
	switch {
	case n == 0:
		return "0"
	case n < 16:
		return "1-15"
	case n < 128:
		return "16-127"
	case n < 512:
		return "128-511"
	}
	return "512+"
}

// ---------------------------------------------------------------- value generators

var (
	str127 = strings.Repeat("x", 127)
	str128 = strings.Repeat("y", 128)
	str300 = strings.Repeat("abcdefghij", 30)
)

// varintEdges: the values at which the varint grows by one byte, as uint64
func varintEdges() []uint64 {
	var out []uint64
	for k := uint(1); k <= 9; k++ {
		out = append(out, (uint64(1)<<(7*k))-1, uint64(1)<<(7*k))
	}
	return out
}

func scalarValues(f protoreflect.FieldDescriptor) []protoreflect.Value {
	var out []protoreflect.Value
	switch f.Kind() {
	case protoreflect.Int32Kind:
		for _, v := range []int64{1, -1, 2, -2, 127, 128, -128, -129, 16383, 16384, 1 << 21, 1<<28 - 1, 1 << 28, math.MaxInt32, math.MinInt32, math.MaxInt32 - 1, math.MinInt32 + 1} {
			out = append(out, protoreflect.ValueOfInt32(int32(v)))
		}
	case protoreflect.EnumKind:
		seen := map[int32]bool{}
		vals := []int32{1, -1, 127, 128, math.MaxInt32, math.MinInt32}
		for i := 0; i < f.Enum().Values().Len(); i++ {
			vals = append(vals, int32(f.Enum().Values().Get(i).Number()))
		}
		for _, v := range vals {
			if v != 0 && !seen[v] {
				seen[v] = true
				out = append(out, protoreflect.ValueOfEnum(protoreflect.EnumNumber(v)))
			}
		}
	case protoreflect.Int64Kind:
		vals := []int64{1, -1, 2, -2, -128, math.MaxInt32, math.MinInt32, math.MaxInt32 + 1, math.MinInt32 - 1, math.MaxInt64, math.MinInt64, math.MaxInt64 - 1, math.MinInt64 + 1, 1 << 62, -(1 << 62)}
		for _, e := range varintEdges() {
			vals = append(vals, int64(e))
		}
		for _, v := range vals {
			out = append(out, protoreflect.ValueOfInt64(v))
		}
	case protoreflect.Uint32Kind:
		for _, v := range []uint32{1, 2, 127, 128, 16383, 16384, 1<<21 - 1, 1 << 21, 1<<28 - 1, 1 << 28, 1 << 31, 1<<31 - 1, math.MaxUint32, math.MaxUint32 - 1, 0o755, 0o4000} {
			out = append(out, protoreflect.ValueOfUint32(v))
		}
	case protoreflect.Uint64Kind:
		vals := []uint64{1, 2, math.MaxUint32, math.MaxUint32 + 1, math.MaxInt64, 1 << 63, 1<<63 + 1, math.MaxUint64, math.MaxUint64 - 1}
		vals = append(vals, varintEdges()...)
		for _, v := range vals {
			out = append(out, protoreflect.ValueOfUint64(v))
		}
	case protoreflect.BoolKind:
		out = append(out, protoreflect.ValueOfBool(true))
	case protoreflect.StringKind:
		for _, s := range []string{"a", "value", str127, str128, str300, "with \"quotes\" and spaces", "héllo ✓ \U0001F600"} {
			out = append(out, protoreflect.ValueOfString(s))
		}
	case protoreflect.Sint32Kind, protoreflect.Sfixed32Kind:
		// kinds the pinned schema does not use: still exercised, so that a schema that drifts under one codec only
		// is judged by the implementation-only oracle instead of stopping the driver
		for _, v := range []int64{1, -1, 100, -100, math.MaxInt32, math.MinInt32} {
			out = append(out, protoreflect.ValueOfInt32(int32(v)))
		}
	case protoreflect.Sint64Kind, protoreflect.Sfixed64Kind:
		for _, v := range []int64{1, -1, 100, -100, math.MaxInt64, math.MinInt64} {
			out = append(out, protoreflect.ValueOfInt64(v))
		}
	case protoreflect.Fixed32Kind:
		for _, v := range []uint32{1, 100, math.MaxUint32} {
			out = append(out, protoreflect.ValueOfUint32(v))
		}
	case protoreflect.Fixed64Kind:
		for _, v := range []uint64{1, 100, math.MaxUint64} {
			out = append(out, protoreflect.ValueOfUint64(v))
		}
	default:
		panic(fmt.Sprintf("h_proto: scalar kind %s of %s is outside the model", f.Kind(), f.FullName()))
	}
	return out
}

// typical: one representative non-default value for a scalar or string field
func typical(f protoreflect.FieldDescriptor, r *rand.Rand) protoreflect.Value {
	vs := scalarValues(f)
	return vs[r.Intn(len(vs))]
}

var mapShapes = []map[string]string{
	{"": ""}, {"k": ""}, {"": "v"}, {"key": "value"},
	{"b": "1", "a": "2"},
	{"io.kubernetes.pod": "x", "": "empty-key", "z": "", "m": str128, "A": "upper sorts first"},
}
var listShapes = [][]string{{""}, {"a"}, {"a", "", "b"}, {"", ""}, {str128, "x", str127}}

func setMap(m protoreflect.Message, f protoreflect.FieldDescriptor, kv map[string]string) {
	mp := m.Mutable(f).Map()
	for k, v := range kv {
		mp.Set(protoreflect.ValueOfString(k).MapKey(), protoreflect.ValueOfString(v))
	}
}

// fillOne sets exactly one field of sub (a typical value; sub-messages present-but-empty)
func fillOne(sub protoreflect.Message, f protoreflect.FieldDescriptor, r *rand.Rand) {
	switch {
	case f.IsMap():
		setMap(sub, f, mapShapes[3+r.Intn(2)])
	case f.IsList() && f.Kind() == protoreflect.MessageKind:
		sub.Mutable(f).List().AppendMutable()
	case f.IsList():
		for _, s := range listShapes[1+r.Intn(2)] {
			sub.Mutable(f).List().Append(protoreflect.ValueOfString(s))
		}
	case f.Kind() == protoreflect.MessageKind:
		sub.Mutable(f)
	default:
		sub.Set(f, typical(f, r))
	}
}

// singles: every field of every message type set alone, over the interesting values of its kind
func singles(o *observer, mt protoreflect.MessageType, r *rand.Rand) {
	md := mt.Descriptor()
	name := string(md.Name())
	o.observe(mt.New().Interface(), "empty message", false)
	for _, f := range sortedFields(md) {
		what := fmt.Sprintf("only %s.%s", name, f.Name())
		o.c.Count("fields.singly", 1)
		switch {
		case f.IsMap():
			for _, kv := range mapShapes {
				m := mt.New()
				setMap(m, f, kv)
				o.observe(m.Interface(), what+fmt.Sprintf(" (map of %d)", len(kv)), true)
				o.c.Count("shape.map", 1)
			}
		case f.IsList() && f.Kind() == protoreflect.StringKind:
			for _, l := range listShapes {
				m := mt.New()
				for _, s := range l {
					m.Mutable(f).List().Append(protoreflect.ValueOfString(s))
				}
				o.observe(m.Interface(), what+fmt.Sprintf(" (list of %d)", len(l)), true)
				o.c.Count("shape.repeated_string", 1)
			}
		case f.Kind() == protoreflect.MessageKind:
			// absent is the empty-message case above; present-but-empty; each sub-field alone;
			// for repeated fields also several elements, empty ones in between
			sub := sortedFields(f.Message())
			mk := func(fill func(protoreflect.Message)) protoreflect.Message {
				m := mt.New()
				if f.IsList() {
					fill(m.Mutable(f).List().AppendMutable().Message())
				} else {
					fill(m.Mutable(f).Message())
				}
				return m
			}
			o.observe(mk(func(protoreflect.Message) {}).Interface(), what+" (present, empty)", true)
			o.c.Count("shape.present_empty_submessage", 1)
			for _, sf := range sub {
				sf := sf
				o.observe(mk(func(s protoreflect.Message) { fillOne(s, sf, r) }).Interface(), what+"."+string(sf.Name()), true)
				o.c.Count("shape.nested_single", 1)
				// an optional wrapper / sub-message inside: unset, set to zero (present-empty), set to a value
				if sf.Kind() == protoreflect.MessageKind && !sf.IsList() && !sf.IsMap() {
					for _, ssf := range sortedFields(sf.Message()) {
						ssf := ssf
						o.observe(mk(func(s protoreflect.Message) { fillOne(s.Mutable(sf).Message(), ssf, r) }).Interface(),
							what+"."+string(sf.Name())+"."+string(ssf.Name()), true)
						o.c.Count("shape.nested_optional_value", 1)
					}
				}
			}
			if f.IsList() {
				m := mt.New()
				l := m.Mutable(f).List()
				l.AppendMutable()
				e := l.AppendMutable().Message()
				for _, sf := range sub {
					fillOne(e, sf, r)
				}
				l.AppendMutable()
				o.observe(m.Interface(), what+" (empty, full, empty)", true)
				o.c.Count("shape.repeated_message", 1)
			}
		default:
			for _, v := range scalarValues(f) {
				m := mt.New()
				m.Set(f, v)
				o.observe(m.Interface(), what, true)
				if f.Kind() == protoreflect.StringKind {
					o.c.Count("shape.string", 1)
				} else {
					o.c.Count("shape.scalar_boundary", 1)
				}
			}
		}
	}
}

const printable = "abcdefghijklmnopqrstuvwxyzABCDEFGHIJKLMNOPQRSTUVWXYZ0123456789 -_./=:,\"'{}"

func randString(r *rand.Rand) string {
	switch r.Intn(12) {
	case 0:
		return ""
	case 1:
		return str127[:120+r.Intn(8)] + str128[:r.Intn(12)]
	case 2:
		return "üñî-" + string(rune(0x4e00+r.Intn(500)))
	}
	n := 1 + r.Intn(14)
	b := make([]byte, n)
	for i := range b {
		b[i] = printable[r.Intn(len(printable))]
	}
	return string(b)
}

func randScalar(f protoreflect.FieldDescriptor, r *rand.Rand) protoreflect.Value {
	if f.Kind() == protoreflect.StringKind {
		return protoreflect.ValueOfString(randString(r))
	}
	if r.Intn(3) == 0 {
		return typical(f, r)
	}
	bits := uint(1 + r.Intn(64))
	u := r.Uint64() >> (64 - bits)
	switch f.Kind() {
	case protoreflect.Int32Kind:
		return protoreflect.ValueOfInt32(int32(u))
	case protoreflect.EnumKind:
		return protoreflect.ValueOfEnum(protoreflect.EnumNumber(int32(u)))
	case protoreflect.Int64Kind:
		if r.Intn(2) == 0 {
			return protoreflect.ValueOfInt64(-int64(u >> 1))
		}
		return protoreflect.ValueOfInt64(int64(u))
	case protoreflect.Uint32Kind:
		return protoreflect.ValueOfUint32(uint32(u))
	case protoreflect.Uint64Kind:
		return protoreflect.ValueOfUint64(u)
	case protoreflect.BoolKind:
		return protoreflect.ValueOfBool(u&1 == 1)
	case protoreflect.Sint32Kind, protoreflect.Sfixed32Kind:
		return protoreflect.ValueOfInt32(int32(u))
	case protoreflect.Sint64Kind, protoreflect.Sfixed64Kind:
		return protoreflect.ValueOfInt64(int64(u))
	case protoreflect.Fixed32Kind:
		return protoreflect.ValueOfUint32(uint32(u))
	case protoreflect.Fixed64Kind:
		return protoreflect.ValueOfUint64(u)
	}
	panic(fmt.Sprintf("h_proto: scalar kind %s of %s is outside the model", f.Kind(), f.FullName()))
}

// randFill sets each field of m with probability p (sub-messages recursively, thinner with depth)
func randFill(m protoreflect.Message, r *rand.Rand, p float64, depth int) {
	for _, f := range sortedFields(m.Descriptor()) {
		if r.Float64() >= p {
			continue
		}
		switch {
		case f.IsMap():
			n := r.Intn(4)
			mp := m.Mutable(f).Map()
			for i := 0; i < n; i++ {
				mp.Set(protoreflect.ValueOfString(randString(r)).MapKey(), protoreflect.ValueOfString(randString(r)))
			}
		case f.IsList() && f.Kind() == protoreflect.MessageKind:
			if depth <= 0 {
				continue
			}
			n := 1 + r.Intn(3)
			for i := 0; i < n; i++ {
				randFill(m.Mutable(f).List().AppendMutable().Message(), r, p*0.7, depth-1)
			}
		case f.IsList():
			n := 1 + r.Intn(3)
			for i := 0; i < n; i++ {
				m.Mutable(f).List().Append(protoreflect.ValueOfString(randString(r)))
			}
		case f.Kind() == protoreflect.MessageKind:
			if depth <= 0 {
				continue
			}
			randFill(m.Mutable(f).Message(), r, p*0.8, depth-1)
		default:
			m.Set(f, randScalar(f, r))
		}
	}
}

func randMessage(mt protoreflect.MessageType, r *rand.Rand, maxBytes int) protoreflect.Message {
	p := []float64{0.9, 0.6, 0.35, 0.2}[r.Intn(4)]
	for try := 0; ; try++ {
		m := mt.New()
		randFill(m, r, p, 5)
		sz := proto.Size(m.Interface())
		if try > 40 {
			return mt.New()
		}
		if sz == 0 && mt.Descriptor().Fields().Len() > 0 {
			p = 0.5 + p/2 // nothing was set: try again with a higher fill probability
			continue
		}
		if sz <= maxBytes {
			return m
		}
		p *= 0.75
	}
}

// changeInPlace alters the message object itself: clears a populated field (the encoding shrinks), fills
// further fields (it grows), or alters a populated sub-message (a nested change).
func changeInPlace(m protoreflect.Message, r *rand.Rand) string {
	var set, subs []protoreflect.FieldDescriptor
	m.Range(func(f protoreflect.FieldDescriptor, _ protoreflect.Value) bool {
		set = append(set, f)
		if f.Kind() == protoreflect.MessageKind && !f.IsList() && !f.IsMap() {
			subs = append(subs, f)
		}
		return true
	})
	sort.Slice(set, func(i, j int) bool { return set[i].Number() < set[j].Number() })
	sort.Slice(subs, func(i, j int) bool { return subs[i].Number() < subs[j].Number() })
	switch k := r.Intn(3); {
	case k == 0 && len(set) > 0:
		m.Clear(set[r.Intn(len(set))])
		return "cleared a field"
	case k == 1 && len(subs) > 0:
		sub := m.Mutable(subs[r.Intn(len(subs))]).Message()
		if r.Intn(2) == 0 {
			return "nested: " + changeInPlace(sub, r)
		}
		randFill(sub, r, 0.6, 3)
		return "nested: filled further fields"
	}
	randFill(m, r, 0.5, 4)
	return "filled further fields"
}

// reencode: the codecs are functions of the message's current value, not of what the same object held when it
// was last sized or encoded. The generated codec is asked FIRST after every in-place change (the reflection
// codec keeps a size cache of its own in the same struct), and is compared with the reflection codec on a copy.
func reencode(o *observer, mt protoreflect.MessageType, r *rand.Rand, steps int) {
	c := o.c
	m := randMessage(mt, r, 300)
	o.observe(m.Interface(), "fresh object", true)
	for step := 1; step <= steps; step++ {
		how := changeInPlace(m, r)
		what := fmt.Sprintf("same object, change #%d: %s", step, how)
		if v, ok := m.Interface().(vtMsg); ok {
			var size int
			var vb []byte
			rc := rawCase{Stream: o.stream, Msg: string(mt.Descriptor().Name()), What: what, Term: term(m)}
			if err := safely("SizeVT/MarshalVT", func() (e error) { size = v.SizeVT(); vb, e = v.MarshalVT(); return }); err != nil {
				c.ImplFail(o.stream, "re-encoding an object after it was changed: "+err.Error(), rc)
				continue
			}
			ref := proto.Clone(m.Interface())
			pb, err := proto.MarshalOptions{Deterministic: true}.Marshal(ref)
			if err != nil {
				c.HarnessError("reencode: marshal of the copy: %v", err)
				continue
			}
			rc.PB, rc.VT, rc.SizeVT = hex.EncodeToString(pb), hex.EncodeToString(vb), size
			if size != len(vb) || len(vb) != len(pb) {
				c.ImplFail(o.stream, fmt.Sprintf("after an in-place change SizeVT = %d, MarshalVT wrote %d bytes, the reflection codec %d", size, len(vb), len(pb)), rc)
			}
			back := mt.New().Interface()
			if err := safely("proto.Unmarshal", func() error { return proto.Unmarshal(vb, back) }); err != nil || !proto.Equal(back, ref) {
				c.ImplFail(o.stream, "after an in-place change proto.Unmarshal(MarshalVT(m)) != m", rc)
			}
			c.Count("reencode."+strings.SplitN(how, ":", 2)[0], 1)
		}
		o.observe(m.Interface(), what, true)
	}
}

// ---------------------------------------------------------------- decoder stream (non-canonical inputs)

type wireField struct {
	num protowire.Number
	typ protowire.Type
	raw []byte // the whole field including its tag
	val []byte // payload of a length-delimited field
}

func splitWire(b []byte) ([]wireField, bool) {
	var out []wireField
	for len(b) > 0 {
		num, typ, n := protowire.ConsumeTag(b)
		if n < 0 {
			return nil, false
		}
		m := protowire.ConsumeFieldValue(num, typ, b[n:])
		if m < 0 {
			return nil, false
		}
		wf := wireField{num: num, typ: typ, raw: b[:n+m]}
		if typ == protowire.BytesType {
			v, _ := protowire.ConsumeBytes(b[n:])
			wf.val = v
		}
		out = append(out, wf)
		b = b[n+m:]
	}
	return out, true
}

// mutateWire rewrites a canonical encoding into another valid (or truncated) input of the decoders
func mutateWire(md protoreflect.MessageDescriptor, b []byte, r *rand.Rand) ([]byte, string) {
	fs, ok := splitWire(b)
	if !ok {
		return b, "unchanged"
	}
	join := func(fs []wireField) []byte {
		var out []byte
		for _, f := range fs {
			out = append(out, f.raw...)
		}
		return out
	}
	switch k := r.Intn(7); k {
	case 0: // fields in another order
		r.Shuffle(len(fs), func(i, j int) { fs[i], fs[j] = fs[j], fs[i] })
		return join(fs), "shuffled"
	case 1: // an earlier occurrence of a scalar / string field that must lose, or an explicit default
		sf := sortedFields(md)
		if len(sf) == 0 {
			return b, "unchanged"
		}
		f := sf[r.Intn(len(sf))]
		if f.IsList() || f.IsMap() || f.Kind() == protoreflect.MessageKind {
			return b, "unchanged"
		}
		var pre []byte
		if f.Kind() == protoreflect.StringKind {
			pre = protowire.AppendTag(nil, f.Number(), protowire.BytesType)
			pre = protowire.AppendString(pre, []string{"", "loser"}[r.Intn(2)])
		} else {
			pre = protowire.AppendTag(nil, f.Number(), protowire.VarintType)
			pre = protowire.AppendVarint(pre, []uint64{0, 1, 77, math.MaxUint64}[r.Intn(4)])
		}
		if r.Intn(2) == 0 {
			return append(pre, b...), "duplicate-first"
		}
		return append(append([]byte{}, b...), pre...), "duplicate-last"
	case 2: // a sub-message split into two occurrences (merge)
		var idx []int
		for i, f := range fs {
			fd := md.Fields().ByNumber(f.num)
			if fd != nil && fd.Kind() == protoreflect.MessageKind && !fd.IsList() && !fd.IsMap() && len(f.val) > 0 {
				idx = append(idx, i)
			}
		}
		if len(idx) == 0 {
			return b, "unchanged"
		}
		i := idx[r.Intn(len(idx))]
		sub, ok := splitWire(fs[i].val)
		if !ok || len(sub) < 2 {
			return b, "unchanged"
		}
		cut := 1 + r.Intn(len(sub)-1)
		one := protowire.AppendBytes(protowire.AppendTag(nil, fs[i].num, protowire.BytesType), join(sub[:cut]))
		two := protowire.AppendBytes(protowire.AppendTag(nil, fs[i].num, protowire.BytesType), join(sub[cut:]))
		var out []byte
		out = append(out, join(fs[:i])...)
		out = append(out, one...)
		if r.Intn(2) == 0 {
			out = append(out, join(fs[i+1:])...)
			out = append(out, two...)
		} else {
			out = append(out, two...)
			out = append(out, join(fs[i+1:])...)
		}
		return out, "split-submessage"
	case 3: // truncated
		if len(b) == 0 {
			return b, "unchanged"
		}
		return b[:r.Intn(len(b))], "truncated"
	case 4: // unknown fields (varint and bytes), which both decoders skip
		extra := protowire.AppendVarint(protowire.AppendTag(nil, protowire.Number(1000+r.Intn(1000)), protowire.VarintType), r.Uint64())
		extra = protowire.AppendString(protowire.AppendTag(extra, protowire.Number(200+r.Intn(100)), protowire.BytesType), "unknown")
		at := 0
		if len(fs) > 0 {
			at = r.Intn(len(fs) + 1)
		}
		var out []byte
		out = append(out, join(fs[:at])...)
		out = append(out, extra...)
		out = append(out, join(fs[at:])...)
		return out, "unknown-fields"
	case 5: // non-minimal varint for a tag's value: re-encode first varint field with padding
		for i, f := range fs {
			if f.typ == protowire.VarintType {
				_, _, n := protowire.ConsumeTag(f.raw)
				v, _ := protowire.ConsumeVarint(f.raw[n:])
				if v < 1<<56 {
					padded := append([]byte{}, f.raw[:n]...)
					enc := protowire.AppendVarint(nil, v)
					enc[len(enc)-1] |= 0x80
					enc = append(enc, 0x00)
					padded = append(padded, enc...)
					fs[i].raw = padded
					return join(fs), "padded-varint"
				}
			}
		}
		return b, "unchanged"
	default: // length prefix pointing past the end
		for i, f := range fs {
			if f.typ == protowire.BytesType {
				bad := protowire.AppendTag(nil, f.num, protowire.BytesType)
				bad = protowire.AppendVarint(bad, uint64(len(b)+1+r.Intn(1000)))
				bad = append(bad, f.val...)
				fs[i].raw = bad
				return join(fs[:i+1]), "overlong-length"
			}
		}
		return b, "unchanged"
	}
}

// decoderEdges: for every field of the type, hand-made inputs that no encoder writes but every
// decoder must accept: explicit defaults, values wider than the field (truncation), any non-zero
// bool, several occurrences of a scalar / string (last wins) and of a sub-message (merged), map
// entries with missing, reordered or repeated key / value.
func decoderEdges(md protoreflect.MessageDescriptor, r *rand.Rand) (out [][]byte, kinds []string) {
	add := func(kind string, b []byte) { out = append(out, b); kinds = append(kinds, kind) }
	tagv := func(n protowire.Number, v uint64) []byte {
		return protowire.AppendVarint(protowire.AppendTag(nil, n, protowire.VarintType), v)
	}
	tagb := func(n protowire.Number, b []byte) []byte {
		return protowire.AppendBytes(protowire.AppendTag(nil, n, protowire.BytesType), b)
	}
	for _, f := range sortedFields(md) {
		n := f.Number()
		switch {
		case f.IsMap():
			k1 := tagb(1, []byte("k"))
			v1 := tagb(2, []byte("v1"))
			v2 := tagb(2, []byte("v2"))
			add("map-key-only", tagb(n, k1))
			add("map-value-only", tagb(n, v1))
			add("map-empty-entry", tagb(n, nil))
			add("map-value-before-key", tagb(n, append(append([]byte{}, v1...), k1...)))
			add("map-repeated-value-in-entry", tagb(n, append(append(append([]byte{}, k1...), v1...), v2...)))
			add("map-duplicate-key", append(tagb(n, append(append([]byte{}, k1...), v1...)), tagb(n, append(append([]byte{}, k1...), v2...))...))
			add("map-unknown-field-in-entry", tagb(n, append(append(append([]byte{}, k1...), tagv(3, 7)...), v1...)))
		case f.IsList() && f.Kind() == protoreflect.MessageKind:
			add("repeated-empty-elements", append(tagb(n, nil), tagb(n, nil)...))
		case f.IsList():
			add("repeated-interleaved", append(append(tagb(n, []byte("a")), tagv(1999, 1)...), tagb(n, nil)...))
		case f.Kind() == protoreflect.MessageKind:
			sub := sortedFields(f.Message())
			add("submessage-twice-empty", append(tagb(n, nil), tagb(n, nil)...))
			if len(sub) > 0 {
				sf := sub[r.Intn(len(sub))]
				var p []byte
				switch {
				case sf.IsMap() || sf.IsList() || sf.Kind() == protoreflect.MessageKind:
					p = tagb(sf.Number(), nil)
				case sf.Kind() == protoreflect.StringKind:
					p = tagb(sf.Number(), []byte("x"))
				default:
					p = tagv(sf.Number(), 5)
				}
				if !sf.IsMap() {
					add("submessage-merged-with-empty", append(tagb(n, p), tagb(n, nil)...))
					add("submessage-empty-then-set", append(tagb(n, nil), tagb(n, p)...))
				}
			}
		case f.Kind() == protoreflect.StringKind:
			add("string-explicit-empty", tagb(n, nil))
			add("string-last-wins", append(tagb(n, []byte("first")), tagb(n, []byte("second"))...))
			add("string-reset-to-empty", append(tagb(n, []byte("first")), tagb(n, nil)...))
		default:
			for _, v := range []uint64{0, 2, 77, 1 << 31, 1<<32 | 1, 1 << 63, math.MaxUint64} {
				add("scalar-explicit", tagv(n, v))
			}
			add("scalar-last-wins", append(tagv(n, 9), tagv(n, 3)...))
			add("scalar-reset-to-zero", append(tagv(n, 9), tagv(n, 0)...))
			add("scalar-padded-varint", append(protowire.AppendTag(nil, n, protowire.VarintType), 0x81, 0x80, 0x00))
		}
	}
	return
}

type rawDec struct {
	Stream string `json:"stream"`
	Msg    string `json:"msg"`
	Kind   string `json:"kind"`
	Bytes  string `json:"hex"`
	PB     string `json:"pb"`
	VT     string `json:"vt"`
}

func decObs(mt protoreflect.MessageType, b []byte, vt bool) string {
	n := mt.New().Interface()
	var err error
	if vt {
		err = safely("UnmarshalVT", func() error { return n.(vtMsg).UnmarshalVT(b) })
	} else {
		err = safely("proto.Unmarshal", func() error { return proto.Unmarshal(b, n) })
	}
	if err != nil {
		if strings.Contains(err.Error(), "panicked") {
			return "PANIC " + err.Error()
		}
		return "ObsErr"
	}
	return "(ObsVal (" + term(n.ProtoReflect()) + "))"
}

// ---------------------------------------------------------------- corpus

type corpusCase struct {
	Msg  string `json:"msg"`
	PB   string `json:"pb_hex"`
	What string `json:"what"`
}

func replayCorpus(c *hx.Ctx, o *observer, byName map[string]protoreflect.MessageType) {
	dir := filepath.Join(filepath.Dir(filepath.Dir(os.Args[0])), "corpus", "C12")
	if _, err := os.Stat(dir); err != nil {
		dir = "/verif/corpus/C12"
	}
	files, _ := filepath.Glob(filepath.Join(dir, "*.json"))
	sort.Strings(files)
	for _, f := range files {
		raw, err := os.ReadFile(f)
		if err != nil {
			c.HarnessError("corpus %s: %v", f, err)
			continue
		}
		var cs []corpusCase
		if err := json.Unmarshal(raw, &cs); err != nil {
			c.HarnessError("corpus %s: %v", f, err)
			continue
		}
		for _, k := range cs {
			mt, ok := byName[k.Msg]
			if !ok {
				c.HarnessError("corpus %s: unknown message %s", f, k.Msg)
				continue
			}
			b, err := hex.DecodeString(k.PB)
			if err != nil {
				c.HarnessError("corpus %s: %v", f, err)
				continue
			}
			m := mt.New().Interface()
			if err := proto.Unmarshal(b, m); err != nil {
				c.HarnessError("corpus %s: %s does not decode: %v", f, k.What, err)
				continue
			}
			o.observe(m, "corpus: "+k.What, true)
		}
	}
}

// ---------------------------------------------------------------- invalid UTF-8 (observed, not judged)

// observeInvalidUTF8 records how the two codecs treat a Go string that is not valid UTF-8.  Such a
// string is not a value of the proto3 type "string", so C12 is silent about it (props/C12.json,
// assumptions); on the pinned tree the reflection codec refuses to encode and to decode it while the
// generated VT codec does neither check.  Only counted, never a failure.
func observeInvalidUTF8(c *hx.Ctx) {
	bad := "ok\xff\xfe"
	msgs := []proto.Message{
		&api.Mount{Type: bad},
		&api.KeyValue{Key: "k", Value: bad},
		&api.Mount{Options: []string{"ro", bad}},
		&api.PodSandbox{Labels: map[string]string{"k": bad}},
	}
	for _, m := range msgs {
		_, perr := proto.Marshal(m)
		vb, verr := m.(vtMsg).MarshalVT()
		if perr != nil {
			c.Count("utf8_invalid.reflection_codec_refuses_to_encode", 1)
		} else {
			c.Count("utf8_invalid.reflection_codec_encodes", 1)
		}
		if verr != nil {
			c.Count("utf8_invalid.vt_codec_refuses_to_encode", 1)
			continue
		}
		c.Count("utf8_invalid.vt_codec_encodes", 1)
		n := m.ProtoReflect().New().Interface()
		if err := proto.Unmarshal(vb, n); err != nil {
			c.Count("utf8_invalid.reflection_codec_refuses_vt_bytes", 1)
		} else {
			c.Count("utf8_invalid.reflection_codec_decodes_vt_bytes", 1)
		}
		n2 := m.ProtoReflect().New().Interface()
		if err := n2.(vtMsg).UnmarshalVT(vb); err != nil {
			c.Count("utf8_invalid.vt_codec_refuses_vt_bytes", 1)
		} else {
			c.Count("utf8_invalid.vt_codec_decodes_vt_bytes", 1)
		}
	}
}

// ---------------------------------------------------------------- driver

func driveProto(c *hx.Ctx) error {
	types := messageTypes(c)
	byName := map[string]protoreflect.MessageType{}
	withVT := 0
	for _, mt := range types {
		byName[string(mt.Descriptor().Name())] = mt
		if _, ok := mt.New().Interface().(vtMsg); ok {
			withVT++
		}
	}
	c.Count("types.total", len(types))
	c.Count("types.with_generated_vt_codec", withVT)
	if c.Stats.Extra == nil {
		c.Stats.Extra = map[string]interface{}{}
	}
	c.Stats.Extra["message_types"] = len(types)
	c.Stats.Extra["message_types_with_vt_codec"] = withVT

	perShard := 250

	// 1. corpus
	oc := &observer{c: c, stream: "s1_corpus", sh: c.NewShard("s1_corpus", imports, "proto_case", "corr_proto", "holds_proto", perShard)}
	replayCorpus(c, oc, byName)

	// 2. every field singly, boundary values, optionals, maps, repeated
	os1 := &observer{c: c, stream: "s2_single", sh: c.NewShard("s2_single", imports, "proto_case", "corr_proto", "holds_proto", perShard)}
	rs := c.Rand("single")
	for _, mt := range types {
		singles(os1, mt, rs)
	}

	// 3. random combinations
	or := &observer{c: c, stream: "s3_random", sh: c.NewShard("s3_random", imports, "proto_case", "corr_proto", "holds_proto", perShard)}
	rr := c.Rand("random")
	perType := c.Pick(24, 1500)
	for _, mt := range types {
		for i := 0; i < perType; i++ {
			maxBytes := 400
			if i%8 == 7 {
				maxBytes = 1200
			}
			m := randMessage(mt, rr, maxBytes)
			o := or
			o.observe(m.Interface(), fmt.Sprintf("random #%d", i), true)
		}
	}

	// 3b. the same object changed in place and encoded again
	oe := &observer{c: c, stream: "s5_reencode", sh: c.NewShard("s5_reencode", imports, "proto_case", "corr_proto", "holds_proto", perShard)}
	re := c.Rand("reencode")
	for _, mt := range types {
		for i := 0; i < c.Pick(3, 120); i++ {
			reencode(oe, mt, re, 3)
		}
	}

	// 4. decoder inputs that no encoder produces
	ds := c.NewShard("s4_decode", imports, "dec_case", "corr_dec", "", perShard)
	rd := c.Rand("decode")
	perTypeD := c.Pick(12, 300)
	decOne := func(mt protoreflect.MessageType, hasVT bool, mb []byte, kind string) {
		pbO := decObs(mt, mb, false)
		vtO := "ObsErr"
		if hasVT {
			vtO = decObs(mt, mb, true)
		}
		rd0 := rawDec{Stream: "s4_decode", Msg: string(mt.Descriptor().Name()), Kind: kind, Bytes: hex.EncodeToString(mb), PB: pbO, VT: vtO}
		if strings.HasPrefix(pbO, "PANIC") || strings.HasPrefix(vtO, "PANIC") {
			c.ImplFail("s4_decode", "a decoder panicked on "+kind+" input", rd0)
			return
		}
		if hasVT && pbO != vtO {
			// the two decoders disagree on an input both accept or refuse: recorded, judged by corr_dec
			c.Count("decode.decoders_disagree", 1)
		}
		ds.Add(fmt.Sprintf("(Build_dec_case %s %s %s %s %s)",
			coqfmt.Str(rd0.Msg), byteList(mb), pbO, coqfmt.Bool(hasVT), vtO), rd0)
		c.Eval("decode/"+rd0.Msg+"/"+rd0.Bytes, kind != "unchanged")
		c.Count("decode."+kind, 1)
		if pbO == "ObsErr" {
			c.Count("decode.refused", 1)
		} else {
			c.Count("decode.accepted", 1)
		}
	}
	for _, mt := range types {
		_, hasVT := mt.New().Interface().(vtMsg)
		edges, kinds := decoderEdges(mt.Descriptor(), rd)
		for i := range edges {
			decOne(mt, hasVT, edges[i], kinds[i])
		}
		for i := 0; i < perTypeD; i++ {
			m := randMessage(mt, rd, 300)
			b, err := proto.MarshalOptions{Deterministic: true}.Marshal(m.Interface())
			if err != nil {
				c.HarnessError("decode stream: marshal: %v", err)
				continue
			}
			mb, kind := mutateWire(mt.Descriptor(), b, rd)
			for try := 0; kind == "unchanged" && try < 12; try++ {
				mb, kind = mutateWire(mt.Descriptor(), b, rd)
			}
			decOne(mt, hasVT, mb, kind)
		}
	}

	observeInvalidUTF8(c)

	for f := range outsideModel {
		c.Count("field_kind_outside_model."+f, 1)
	}
	c.Stats.Rule = fmt.Sprintf("all %d message types of the compiled descriptor (%d with generated MarshalVT/UnmarshalVT/SizeVT, compared against both codecs); "+
		"single: every field alone over the boundary values of its kind (varint length edges, +-1, min/max of the Go type, strings of 127/128/300 bytes and multi-byte UTF-8), "+
		"sub-messages absent / present-empty / each sub-field alone / optional wrappers unset, zero and set, repeated and map shapes incl. empty keys and values; "+
		"random: random field subsets, nesting depth <= 5; reencode: one object sized and encoded, then changed in place (field cleared / further fields filled / nested change) and encoded again three times, the generated codec asked first; decode: per field hand-made non-canonical inputs (explicit defaults, over-wide integers, repeated occurrences, merged sub-messages, partial / reordered / duplicate map entries) and canonical bytes rewritten (shuffled, duplicated, split sub-message, truncated, unknown fields, padded varints, overlong length). "+
		"A case is non-trivial when it encodes to at least one byte (decode stream: when the bytes were rewritten).", len(types), withVT)
	return nil
}
