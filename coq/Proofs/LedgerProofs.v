(* Proofs about the abstract ownership ledger (Spec/AbsLedger.v). *)
From Coq Require Import String Ascii List Bool ZArith Arith Lia.
From NRI Require Import Base.Lists Base.Strs Base.Assoc Model.Types Spec.AbsLedger.
Import ListNotations.
Open Scope string_scope.
Open Scope list_scope.

(* ---------- abstract ledger facts ---------- *)
Lemma lmem_lremove k x o : lmem k (lremove x o) = lmem k o && negb (lkey_eqb x k).
Proof.
  unfold lmem, lremove. induction o as [|y r IH]; simpl; [reflexivity|].
  destruct (lkey_eqb_spec x y) as [->|Hxy]; simpl.
  - rewrite IH. destruct (lkey_eqb_spec k y) as [->|Hky]; simpl.
    + destruct (lkey_eqb_spec y y); [|contradiction]. simpl. rewrite andb_false_r. reflexivity.
    + reflexivity.
  - rewrite IH. destruct (lkey_eqb_spec k y) as [->|Hky]; simpl.
    + destruct (lkey_eqb_spec x y); [contradiction|]. reflexivity.
    + reflexivity.
Qed.

Lemma abs_claims_fail_mem ks o o' : abs_claims ks o = (false, o') -> exists k, In k ks.
Proof. destruct ks; simpl; [discriminate|]. intros _. eexists; left; reflexivity. Qed.

(* a held key that is claimed again is refused *)
Lemma abs_claims_held k ks o : lmem k o = true -> In k ks -> fst (abs_claims ks o) = false.
Proof.
  revert o. induction ks as [|x r IH]; simpl; intros o Hm Hin; [contradiction|].
  destruct (lmem x o) eqn:Hx; [reflexivity|].
  destruct Hin as [->|Hin]; [congruence|].
  apply IH; [|exact Hin]. unfold lmem in *. simpl. rewrite Hm. apply orb_true_r.
Qed.

Lemma abs_claims_keeps k ks o : lmem k o = true -> lmem k (snd (abs_claims ks o)) = true.
Proof.
  revert o. induction ks as [|x r IH]; simpl; intros o Hm; [exact Hm|].
  destruct (lmem x o); [exact Hm|]. apply IH. unfold lmem in *. simpl. rewrite Hm. apply orb_true_r.
Qed.

Lemma abs_claims_adds k ks o : In k ks -> fst (abs_claims ks o) = true -> lmem k (snd (abs_claims ks o)) = true.
Proof.
  revert o. induction ks as [|x r IH]; simpl; intros o Hin Hok; [contradiction|].
  destruct (lmem x o) eqn:Hx; [discriminate|].
  destruct Hin as [->|Hin].
  - apply abs_claims_keeps. unfold lmem. simpl. destruct (lkey_eqb_spec k k); [reflexivity|contradiction].
  - apply IH; assumption.
Qed.

Lemma abs_run_app a b o d :
  abs_run (a ++ b) o d = match abs_run a o d with None => None | Some (o', d') => abs_run b o' d' end.
Proof.
  revert o d. induction a as [|g r IH]; simpl; intros o d; [reflexivity|].
  destruct (abs_claims (g_claims g) _) as [[|] o2]; [apply IH|].
  destruct (g_ignorable g); [apply IH|reflexivity].
Qed.

Lemma releases_keep k rs o : lmem k o = true -> ~ In k rs -> lmem k (fold_left (fun o k => lremove k o) rs o) = true.
Proof.
  revert o. induction rs as [|x r IH]; simpl; intros o Hm Hn; [exact Hm|].
  apply IH; [|tauto]. rewrite lmem_lremove, Hm. simpl.
  destruct (lkey_eqb_spec x k) as [->|]; [exfalso; apply Hn; left; reflexivity|reflexivity].
Qed.

(* a key that is held, not released by anybody up to a later claimant, makes the run a conflict *)
Lemma abs_run_held k pre g2 post o d :
  lmem k o = true ->
  (forall g, In g (pre ++ [g2]) -> ~ In k (g_releases g)) ->
  In k (g_claims g2) -> g_ignorable g2 = false ->
  abs_run (pre ++ g2 :: post) o d = None.
Proof.
  revert o d. induction pre as [|g r IH]; intros o d Hm Hrel Hc Hi.
  - simpl. pose proof (releases_keep k (g_releases g2) o Hm (Hrel g2 (or_introl eq_refl))) as Hk.
    pose proof (abs_claims_held k (g_claims g2) _ Hk Hc) as Hf.
    destruct (abs_claims (g_claims g2) _) as [[|] o2]; simpl in Hf; [discriminate|]. rewrite Hi. reflexivity.
  - cbn [app abs_run].
    pose proof (releases_keep k (g_releases g) o Hm (Hrel g (or_introl eq_refl))) as Hk.
    pose proof (abs_claims_keeps k (g_claims g) _ Hk) as Hk2.
    assert (Hrel' : forall g0, In g0 (r ++ [g2]) -> ~ In k (g_releases g0)) by (intros g0 H0; apply Hrel; right; exact H0).
    destruct (abs_claims (g_claims g) _) as [[|] o2]; simpl in Hk2.
    + apply IH; assumption.
    + destruct (g_ignorable g); [apply IH; assumption|reflexivity].
Qed.

Theorem abs_collision_conflicts k pre1 g1 pre g2 post o d :
  g_ignorable g1 = false -> g_ignorable g2 = false ->
  In k (g_claims g1) -> In k (g_claims g2) ->
  (forall g, In g (pre ++ [g2]) -> ~ In k (g_releases g)) ->
  abs_run (pre1 ++ g1 :: pre ++ g2 :: post) o d = None.
Proof.
  intros Hi1 Hi2 Hc1 Hc2 Hrel. rewrite abs_run_app.
  destruct (abs_run pre1 o d) as [[o' d']|]; [|reflexivity].
  cbn [abs_run].
  destruct (abs_claims (g_claims g1) _) as [[|] o2] eqn:Hcl.
  - apply abs_run_held with (k := k); try assumption.
    match type of Hcl with abs_claims _ ?oo = _ => pose proof (abs_claims_adds k (g_claims g1) oo Hc1) as Ha end.
    rewrite Hcl in Ha. apply Ha. reflexivity.
  - rewrite Hi1. reflexivity.
Qed.

(* ---------- disjoint claims never conflict ---------- *)
Lemma abs_claims_fresh ks o :
  NoDup ks -> (forall k, In k ks -> lmem k o = false) ->
  fst (abs_claims ks o) = true /\ forall k, lmem k (snd (abs_claims ks o)) = true -> lmem k o = true \/ In k ks.
Proof.
  revert o. induction ks as [|x r IH]; simpl; intros o Hnd Hf.
  - split; [reflexivity|]. intros k H. left. exact H.
  - rewrite (Hf x (or_introl eq_refl)). inversion Hnd as [|? ? Hx Hr]; subst.
    destruct (IH (x :: o) Hr) as [Hok Hsub].
    + intros k Hk. unfold lmem. simpl. destruct (lkey_eqb_spec k x) as [E|Hne]; [subst k; contradiction|].
      simpl. apply Hf. right. exact Hk.
    + split; [exact Hok|]. intros k Hk. apply Hsub in Hk. destruct Hk as [Hk|Hk]; [|right; right; exact Hk].
      unfold lmem in Hk. simpl in Hk. destruct (lkey_eqb_spec k x) as [E|Hne]; [right; left; symmetry; exact E|left; exact Hk].
Qed.

Lemma releases_sub k rs o : lmem k (fold_left (fun o k => lremove k o) rs o) = true -> lmem k o = true.
Proof.
  revert o. induction rs as [|x r IH]; simpl; intros o H; [exact H|].
  apply IH in H. rewrite lmem_lremove in H. apply andb_true_iff in H. tauto.
Qed.

Theorem abs_disjoint_no_conflict gs o d :
  NoDup (concat (map g_claims gs)) ->
  (forall k, In k (concat (map g_claims gs)) -> lmem k o = false) ->
  exists r, abs_run gs o d = Some r.
Proof.
  revert o d. induction gs as [|g r IH]; intros o d Hnd Hf; [eexists; reflexivity|].
  cbn [abs_run map concat] in *. destruct (NoDup_app_inv _ _ Hnd) as [Hnd1 [Hnd2 Hdis]].
  assert (Hfresh : forall k, In k (g_claims g) -> lmem k (fold_left (fun o k => lremove k o) (g_releases g) o) = false).
  { intros k Hk. destruct (lmem k (fold_left _ _ _)) eqn:E; [|reflexivity].
    apply releases_sub in E. rewrite Hf in E; [discriminate|]. apply in_or_app. left. exact Hk. }
  destruct (abs_claims_fresh (g_claims g) _ Hnd1 Hfresh) as [Hok Hsub].
  destruct (abs_claims (g_claims g) _) as [[|] o2]; simpl in Hok; [|discriminate].
  apply IH.
  - exact Hnd2.
  - intros k Hk. simpl in Hsub. destruct (lmem k o2) eqn:E; [|reflexivity]. exfalso.
    apply Hsub in E. destruct E as [E|E].
    + apply releases_sub in E. rewrite Hf in E; [discriminate|]. apply in_or_app. right. exact Hk.
    + apply (Hdis k E Hk).
Qed.
