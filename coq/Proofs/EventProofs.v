From Coq Require Import String List Bool ZArith Lia.
From NRI Require Import Base.Strs Base.Assoc Model.Consts Model.Event.
Import ListNotations.
Open Scope Z_scope.

Lemma in_masks_upto n m : 1 <= m <= n -> In m (masks_upto n).
Proof.
  intros H. unfold masks_upto. apply in_map_iff. exists (Z.to_nat m). split; [lia|].
  apply in_seq. lia.
Qed.

(* the whole finite domain, evaluated by the kernel's VM on the regenerated tables *)
Lemma all_masks_roundtrip : forallb mask_roundtrips (masks_upto valid_events) = true.
Proof. vm_compute. reflexivity. Qed.

Lemma mask_roundtrip m : 1 <= m <= valid_events -> parse [pretty m] = Some m.
Proof.
  intros H. pose proof all_masks_roundtrip as A. rewrite forallb_forall in A.
  specialize (A m (in_masks_upto _ _ H)). unfold mask_roundtrips in A.
  destruct (parse [pretty m]) as [m'|]; [|discriminate]. apply Z.eqb_eq in A. congruence.
Qed.

(* printing is injective on valid masks (corollary) *)
Lemma pretty_injective m1 m2 :
  1 <= m1 <= valid_events -> 1 <= m2 <= valid_events -> pretty m1 = pretty m2 -> m1 = m2.
Proof.
  intros H1 H2 E. apply mask_roundtrip in H1. apply mask_roundtrip in H2. rewrite E in H1. congruence.
Qed.
