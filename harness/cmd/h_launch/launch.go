package main

// C18 driver: generated plugin directories + drop-in directories, a real Adaptation
// launching copies of the probe plugin, observation of what was launched, with what
// environment / descriptors / configuration, in which order the survivors are invoked,
// and what is left in the process table.

import (
	"bufio"
	"context"
	"encoding/json"
	"errors"
	"fmt"
	"io"
	"math/rand"
	"net"
	"os"
	"path/filepath"
	"sort"
	"strconv"
	"strings"
	"syscall"
	"time"

	"github.com/containerd/nri/pkg/adaptation"
	"github.com/containerd/nri/pkg/api"

	"verif/harness/internal/coqfmt"
	"verif/harness/internal/hx"
	"verif/harness/internal/probe"
)

type entry struct {
	Name string `json:"name"`
	// file (probe copy or small text file, depending on the execute bits), dir, junk
	// (execute bits, not a binary), symlink (to a probe), symlinkdir, symlinknx
	Kind  string `json:"kind"`
	Mode  uint32 `json:"mode"`   // requested permission bits
	IsDir bool   `json:"is_dir"` // as lstat reports it (input of the model)
	Perm  uint32 `json:"perm"`   // as lstat reports it (input of the model)
}

type dropin struct {
	File    string `json:"file"`
	Kind    string `json:"kind"` // content | dir (present but unreadable: EISDIR)
	Content string `json:"content"`
}

type pluginObs struct {
	File       string   `json:"file"`
	Count      int      `json:"count"`
	Env        []string `json:"env"`
	Stub       string   `json:"stub"`
	Fds        []int    `json:"fds"`
	FdTargets  []string `json:"fd_targets"`
	Fd3Socket  bool     `json:"fd3_socket"`
	ConfigSeen bool     `json:"config_seen"`
	Config     string   `json:"config"`
	Pid        int      `json:"pid"`
	Cwd        string   `json:"cwd"`
	AfterStart int      `json:"after_start"` // 0 gone, 1 zombie, 2 running
	AfterStop  int      `json:"after_stop"`
	Reaped     int      `json:"reaped_after_drop"` // dielater / hanglater, not silent: state some time after the event that dropped it
}

type eventObs struct {
	AfterDeath bool     `json:"after_death"`
	Kind       string   `json:"kind"`
	Err        string   `json:"err"`
	Order      []string `json:"order"`
}

type launchCase struct {
	Stream   string            `json:"stream"`
	ID       string            `json:"id"`
	Entries  []entry           `json:"entries"`
	Dropins  []dropin          `json:"dropins"`
	Outcomes map[string]string `json:"outcomes"`
	Listen   bool              `json:"listen"`
	// "dies later, then Stop with nothing in between": after the plugins marked dielater / hanglater have lost
	// their connection the driver sends NO event or request; it waits until the runtime has noticed and calls Stop
	// behaviour of the runtime's SyncFn: "" calls the synchronisation callback and returns nil; "before" returns an
	// error WITHOUT calling it; "after" calls it and then returns an error.  Start must fail as a whole in the last
	// two, and every plugin launched by the attempt must be gone from the process table when it returns.
	SyncFn string `json:"sync_fn"`
	// how the plugin and drop-in directories are handed to the Adaptation: "" absolute; "rel" plugins / dropins relative
	// to the runtime's working directory (the scratch directory of the case); "rel-slash" with a trailing slash;
	// "rel-dot" ./plugins; "rel-dotdot" a/../plugins; "abs-slash", "abs-dotdot" the same spellings of absolute paths.
	// The outcome must not depend on the spelling.
	PathForm   string      `json:"path_form"`
	RuntimeCwd string      `json:"runtime_cwd"`
	Silent     bool        `json:"silent_stop"`
	PreEvents  bool        `json:"pre_events"` // silent cases: two events are sent before the connections are lost
	Noticed    bool        `json:"noticed_before_stop"`
	StartOK    bool        `json:"start_ok"`
	StartErr   string      `json:"start_err"`
	Obs        []pluginObs `json:"obs"`
	Events     []eventObs  `json:"events"`
	WallMs     int64       `json:"wall_ms"`
}

var (
	execModes   = []uint32{0o755, 0o700, 0o100, 0o010, 0o001, 0o111, 0o555, 0o511, 0o750, 0o711, 0o654, 0o645}
	nonexModes  = []uint32{0o644, 0o600, 0o444, 0o666, 0o000, 0o640, 0o664}
	goodBases   = []string{"alpha", "beta", "gamma", "logger", "a-b", "x--y", "-lead", "v1.2", "Foo", "conf", "a.conf", "00", "7", "10-nested", "z_"}
	malformed   = []string{"nodash", "1-short", "123-long", "ab-alpha", "1a-x", "-10-x", "10_under", " 1-x", "+1-x", "1 -x", "x10-alpha", "10", "1", "--", "-", "a1-x", "1.-x", "0x-a"}
	idxPool     = []string{"00", "01", "05", "09", "10", "11", "19", "20", "50", "90", "99"}
	confStrings = []string{"", "key: value", "{\"a\": 1}", "# only a comment", "x", "name=first", "level: debug  "}
)

func stateCode(st string) int {
	switch {
	case st == "":
		return 0
	case notRunning(st):
		return 1
	}
	return 2
}

func pickIdx(r *rand.Rand) string {
	if r.Intn(3) == 0 {
		return fmt.Sprintf("%02d", r.Intn(100))
	}
	return idxPool[r.Intn(len(idxPool))]
}

// ---------------------------------------------------------------- environment of a run

type launchEnv struct {
	c       *hx.Ctx
	scratch string
	probe   string
	pool    map[uint32]string // permission bits -> a private copy of the probe with these bits
	n       int
	keep    []io.Closer
	slow    int // budget of cases that wait for a registration time-out
	late    int // number of waits for a process to disappear that ran to the end of their margin
}

// waitGone is waitGone with a budget: on a tree that leaves processes behind everywhere, only the first few
// survivors are given the full margin (the run has its failing inputs by then); the others get half a second,
// so that the run ends with a verdict instead of the driver's time limit.  On a tree that reaps its plugins no
// wait ever reaches its margin and nothing changes.
func (e *launchEnv) waitGone(pid int, d time.Duration) string {
	if e.late >= 3 && d > 500*time.Millisecond {
		d = 500 * time.Millisecond
	}
	st := waitGone(pid, d)
	if st != "" {
		e.late++
	}
	return st
}

func copyFile(src, dst string, mode uint32) error {
	in, err := os.Open(src)
	if err != nil {
		return err
	}
	defer in.Close()
	out, err := os.OpenFile(dst, os.O_WRONLY|os.O_CREATE|os.O_TRUNC, 0o600)
	if err != nil {
		return err
	}
	if _, err := io.Copy(out, in); err != nil {
		out.Close()
		return err
	}
	if err := out.Close(); err != nil {
		return err
	}
	return os.Chmod(dst, os.FileMode(mode))
}

func (e *launchEnv) probeWithMode(mode uint32) (string, error) {
	if p, ok := e.pool[mode]; ok {
		return p, nil
	}
	p := filepath.Join(e.scratch, fmt.Sprintf("probe.%03o", mode))
	if err := copyFile(e.probe, p, mode); err != nil {
		return "", err
	}
	e.pool[mode] = p
	return p, nil
}

// materialise creates the directories of one case and fills in what lstat says.
func (e *launchEnv) materialise(lc *launchCase) (root string, err error) {
	e.n++
	root = filepath.Join(e.scratch, fmt.Sprintf("case%04d", e.n))
	plug, rep, drop := filepath.Join(root, "plugins"), filepath.Join(root, "reports"), filepath.Join(root, "dropins")
	for _, d := range []string{plug, rep, drop} {
		if err = os.MkdirAll(d, 0o755); err != nil {
			return
		}
	}
	nxfile := filepath.Join(root, "plain.txt")
	if err = os.WriteFile(nxfile, []byte("not a plugin\n"), 0o644); err != nil {
		return
	}
	adir := filepath.Join(root, "somedir")
	if err = os.MkdirAll(adir, 0o755); err != nil {
		return
	}
	for i := range lc.Entries {
		en := &lc.Entries[i]
		p := filepath.Join(plug, en.Name)
		switch en.Kind {
		case "file":
			if en.Mode&0o111 != 0 {
				var src string
				if src, err = e.probeWithMode(en.Mode); err != nil {
					return
				}
				err = os.Link(src, p)
			} else {
				if err = os.WriteFile(p, []byte("not a plugin\n"), 0o600); err == nil {
					err = os.Chmod(p, os.FileMode(en.Mode))
				}
			}
		case "junk":
			if err = os.WriteFile(p, []byte("this is not an executable format\n"), 0o600); err == nil {
				err = os.Chmod(p, os.FileMode(en.Mode))
			}
		case "dir":
			if err = os.Mkdir(p, 0o755); err == nil {
				err = os.Chmod(p, os.FileMode(en.Mode))
			}
		case "symlink":
			var src string
			if src, err = e.probeWithMode(0o755); err != nil {
				return
			}
			err = os.Symlink(src, p)
		case "symlinkdir":
			err = os.Symlink(adir, p)
		case "symlinknx":
			err = os.Symlink(nxfile, p)
		default:
			err = fmt.Errorf("unknown entry kind %q", en.Kind)
		}
		if err != nil {
			return
		}
		var fi os.FileInfo
		if fi, err = os.Lstat(p); err != nil {
			return
		}
		en.IsDir = fi.IsDir()
		en.Perm = uint32(fi.Mode() & 0o777)
	}
	for _, d := range lc.Dropins {
		p := filepath.Join(drop, d.File)
		if d.Kind == "dir" {
			err = os.Mkdir(p, 0o755)
		} else {
			err = os.WriteFile(p, []byte(d.Content), 0o644)
		}
		if err != nil {
			return
		}
	}
	return root, nil
}

// ---------------------------------------------------------------- running one case

func readLaunches(rep, file string) []probe.Launch {
	f, err := os.Open(filepath.Join(rep, file+".launch"))
	if err != nil {
		return nil
	}
	defer f.Close()
	var out []probe.Launch
	sc := bufio.NewScanner(f)
	sc.Buffer(make([]byte, 1<<20), 1<<20)
	for sc.Scan() {
		var l probe.Launch
		if json.Unmarshal(sc.Bytes(), &l) == nil {
			out = append(out, l)
		}
	}
	return out
}

func eventOrder(rep, kind, id string) []string {
	b, _ := os.ReadFile(filepath.Join(rep, "events.log"))
	out := []string{}
	for _, line := range strings.Split(string(b), "\n") {
		f := strings.Split(line, " ")
		if len(f) < 3 {
			continue
		}
		if f[len(f)-2] == kind && f[len(f)-1] == id {
			out = append(out, strings.Join(f[:len(f)-2], " "))
		}
	}
	return out
}

const (
	longRegistration = 20 * time.Second // never reached by a plugin that registers at all
	slowRegistration = 2500 * time.Millisecond
	requestTimeout   = 10 * time.Second
	// request time-out while Start runs in cases with a probe that hangs or is slow in Synchronize: at least 10 x
	// probe.SyncSlowDelay, and far above the few milliseconds a healthy probe needs
	syncRequestTimeout = 3 * time.Second
)

func (e *launchEnv) run(lc *launchCase) error {
	t0 := time.Now()
	root, err := e.materialise(lc)
	if err != nil {
		return fmt.Errorf("materialise %s: %w", lc.ID, err)
	}
	defer os.RemoveAll(root)
	plug, rep, drop := filepath.Join(root, "plugins"), filepath.Join(root, "reports"), filepath.Join(root, "dropins")

	hasNoReg := false
	for _, o := range lc.Outcomes {
		if o == probe.BNoReg {
			hasNoReg = true
		}
	}
	if hasNoReg {
		adaptation.SetPluginRegistrationTimeout(slowRegistration)
	} else {
		adaptation.SetPluginRegistrationTimeout(longRegistration)
	}
	adaptation.SetPluginRequestTimeout(requestTimeout)
	for _, o := range lc.Outcomes {
		if o == probe.BSyncHang || o == probe.BSyncSlow {
			adaptation.SetPluginRequestTimeout(syncRequestTimeout)
			defer adaptation.SetPluginRequestTimeout(requestTimeout)
		}
	}

	pods := []*api.PodSandbox{{Id: "pod0", Name: "pod0", Namespace: "default"}}
	ctrs := []*api.Container{{Id: "ctr0", PodSandboxId: "pod0", Name: "ctr0"}}
	syncFn := func(ctx context.Context, cb adaptation.SyncCB) error {
		switch lc.SyncFn {
		case "before":
			return errors.New("verif-runtime: cannot list pods (failing before the NRI callback)")
		case "after":
			if _, err := cb(ctx, pods, ctrs); err != nil {
				return err
			}
			return errors.New("verif-runtime: failing after the NRI callback")
		}
		_, err := cb(ctx, pods, ctrs)
		return err
	}
	updateFn := func(context.Context, []*api.ContainerUpdate) ([]*api.ContainerUpdate, error) { return nil, nil }
	plugArg, dropArg := plug, drop
	if lc.PathForm != "" {
		if err := os.MkdirAll(filepath.Join(root, "a"), 0o755); err != nil {
			return err
		}
		switch lc.PathForm {
		case "rel":
			plugArg, dropArg = "plugins", "dropins"
		case "rel-slash":
			plugArg, dropArg = "plugins/", "dropins/"
		case "rel-dot":
			plugArg, dropArg = "./plugins", "./dropins"
		case "rel-dotdot":
			plugArg, dropArg = "a/../plugins", "a/../dropins"
		case "abs-slash":
			plugArg, dropArg = plug+"/", drop+"/"
		case "abs-dotdot":
			plugArg, dropArg = root+"/a/../plugins", root+"/a/../dropins"
		default:
			return fmt.Errorf("unknown path form %q", lc.PathForm)
		}
		if strings.HasPrefix(lc.PathForm, "rel") {
			// the runtime's working directory is the scratch directory of the case while the Adaptation lives; the
			// driver is sequential and writes nothing of its own until run returns
			old, err := os.Getwd()
			if err != nil {
				return err
			}
			if err := os.Chdir(root); err != nil {
				return err
			}
			defer os.Chdir(old)
		}
	}
	lc.RuntimeCwd, _ = os.Getwd()
	opts := []adaptation.Option{adaptation.WithPluginPath(plugArg), adaptation.WithPluginConfigPath(dropArg)}
	if lc.Listen {
		opts = append(opts, adaptation.WithSocketPath(filepath.Join(root, "sock", "nri.sock")))
	} else {
		opts = append(opts, adaptation.WithDisabledExternalConnections())
	}
	// descriptors of "the runtime" opened for this case, the way Go and pkg/net open them (close-on-exec): a file, a
	// pipe and a socket pair that no launched plugin may see
	var extras []io.Closer
	if f, err := os.Create(filepath.Join(root, "runtime-case-private.txt")); err == nil {
		extras = append(extras, f)
	}
	if pr, pw, err := os.Pipe(); err == nil {
		extras = append(extras, pr, pw)
	}
	if fds, err := syscall.Socketpair(syscall.AF_UNIX, syscall.SOCK_STREAM|syscall.SOCK_CLOEXEC, 0); err == nil {
		extras = append(extras, os.NewFile(uintptr(fds[0]), "case-pair-0"), os.NewFile(uintptr(fds[1]), "case-pair-1"))
	}
	defer func() {
		for _, x := range extras {
			x.Close()
		}
	}()
	socketsBefore := ownSockets(nil)
	a, err := adaptation.New("verif-runtime", "v0", syncFn, updateFn, opts...)
	if err != nil {
		return fmt.Errorf("adaptation.New: %w", err)
	}
	serr := a.Start()
	adaptation.SetPluginRequestTimeout(requestTimeout) // events get the long time-out again
	lc.StartOK = serr == nil
	if serr != nil {
		lc.StartErr = serr.Error()
	}

	// what was launched, with what
	pids := map[string]int{}
	for _, en := range lc.Entries {
		ls := readLaunches(rep, en.Name)
		if len(ls) == 0 {
			continue
		}
		l := ls[0]
		po := pluginObs{File: en.Name, Count: len(ls), Env: probe.SortedEnv(l.Env), Stub: l.Stub, Pid: l.Pid, Cwd: l.Cwd}
		for k := range l.Fds {
			n, _ := strconv.Atoi(k)
			po.Fds = append(po.Fds, n)
		}
		sort.Ints(po.Fds)
		for _, n := range po.Fds {
			po.FdTargets = append(po.FdTargets, l.Fds[strconv.Itoa(n)])
		}
		po.Fd3Socket = strings.HasPrefix(l.Fds["3"], "socket:")
		if b, err := os.ReadFile(filepath.Join(rep, en.Name+".config")); err == nil {
			var cf probe.Config
			if json.Unmarshal(b, &cf) == nil {
				po.ConfigSeen, po.Config = true, cf.Config
				if cf.Runtime != "verif-runtime" || cf.Version != "v0" || cf.Count != 1 {
					po.Config = fmt.Sprintf("<<unexpected configure request: %+v>>", cf)
				}
			}
		}
		pids[en.Name] = l.Pid
		lc.Obs = append(lc.Obs, po)
	}
	sort.Slice(lc.Obs, func(i, j int) bool { return lc.Obs[i].File < lc.Obs[j].File })

	// process table right after Start: skipped plugins must not be running, the others must be
	for i := range lc.Obs {
		po := &lc.Obs[i]
		o := lc.Outcomes[po.File]
		if lc.StartOK && active(o) {
			po.AfterStart = stateCode(procState(po.Pid))
		} else if !lc.StartOK {
			// Start failed as a whole: the clean-up (Kill + Wait) is synchronous, the entry must be gone
			po.AfterStart = stateCode(e.waitGone(po.Pid, 5*time.Second))
		} else {
			po.AfterStart = stateCode(waitNotRunning(po.Pid, 3*time.Second))
		}
	}

	if lc.StartOK {
		fire := func(after bool, kind, id string) {
			var err error
			if kind == "runpod" {
				err = a.RunPodSandbox(context.Background(), &api.StateChangeEvent{Pod: &api.PodSandbox{Id: id, Name: id}})
			} else {
				_, err = a.CreateContainer(context.Background(), &api.CreateContainerRequest{
					Pod: &api.PodSandbox{Id: "pod0", Name: "pod0"}, Container: &api.Container{Id: id, PodSandboxId: "pod0", Name: id}})
			}
			eo := eventObs{AfterDeath: after, Kind: kind, Order: eventOrder(rep, kind, id)}
			if err != nil {
				eo.Err = err.Error()
			}
			lc.Events = append(lc.Events, eo)
		}
		if !lc.Silent || lc.PreEvents {
			fire(false, "runpod", "ev1")
			fire(false, "create", "ev2")
		}
		var dying []string
		for f, o := range lc.Outcomes {
			if o == probe.BDieLater || o == probe.BHangLater {
				if _, ok := pids[f]; ok {
					dying = append(dying, f)
				}
			}
		}
		sort.Strings(dying)
		if len(dying) > 0 {
			mine := ownSockets(socketsBefore) // the runtime's ends of this case's connections (and its listener)
			for _, f := range dying {
				os.WriteFile(filepath.Join(rep, "die."+f), nil, 0o644)
			}
			// the plugin's side: the process has exited, or reports that it has closed its end
			for _, f := range dying {
				if lc.Outcomes[f] == probe.BDieLater {
					if st := waitNotRunning(pids[f], 10*time.Second); !notRunning(st) {
						e.c.HarnessError("%s: probe %s did not exit on request (state %q)", lc.ID, f, st)
					}
				} else if !waitFile(filepath.Join(rep, f+".closed"), 10*time.Second) {
					e.c.HarnessError("%s: probe %s did not close its connection on request", lc.ID, f)
				}
			}
			if lc.Silent {
				// The runtime's side, observed without going through the plugins: plugin.close() (run by the
				// connection's close handler) sets the closed mark and then closes the runtime's end of the
				// socket pair, which disappears from this process' descriptor table.  Nothing here is a bound:
				// when the runtime has not noticed yet, Stop finds an open plugin and the case is an ordinary
				// stop; the margin only makes "already marked closed, not yet pruned" the usual situation.
				deadline := time.Now().Add(5 * time.Second)
				for {
					left := 0
					for ino := range ownSockets(socketsBefore) {
						if mine[ino] {
							left++
						}
					}
					if left <= len(mine)-len(dying) {
						lc.Noticed = true
						break
					}
					if time.Now().After(deadline) {
						break
					}
					time.Sleep(2 * time.Millisecond)
				}
				time.Sleep(150 * time.Millisecond)
			} else {
				time.Sleep(50 * time.Millisecond) // let the runtime's reader see the closed connection (not a bound)
				fire(true, "runpod", "ev3")
				fire(true, "create", "ev4")
				fire(true, "runpod", "ev5")
				for i := range lc.Obs {
					if o := lc.Outcomes[lc.Obs[i].File]; o == probe.BDieLater || o == probe.BHangLater {
						lc.Obs[i].Reaped = stateCode(e.waitGone(lc.Obs[i].Pid, 10*time.Second))
					}
				}
			}
		}
	}
	a.Stop()
	for i := range lc.Obs {
		// Kill and Wait are synchronous inside Start/Stop (and were awaited above for plugins dropped by an
		// event): the process table entry must be gone — no live process, no zombie child of this process.
		// The margin only guards against a slow exit.  A process that was already found running after it
		// should have been killed is not waited for again.
		d := 5 * time.Second
		if !active(lc.Outcomes[lc.Obs[i].File]) && lc.Obs[i].AfterStart == 2 {
			d = 300 * time.Millisecond
		}
		lc.Obs[i].AfterStop = stateCode(e.waitGone(lc.Obs[i].Pid, d))
	}
	// leave nothing behind whatever the verdict (a zombie of a plugin the runtime never waited for
	// disappears with this process)
	for _, po := range lc.Obs {
		if po.AfterStop == 2 {
			if p, err := os.FindProcess(po.Pid); err == nil {
				p.Kill()
			}
		}
	}
	lc.WallMs = time.Since(t0).Milliseconds()
	return nil
}

// ---------------------------------------------------------------- the property's oracle, in Go

func checkIndex(s string) bool {
	return len(s) == 2 && s[0] >= '0' && s[0] <= '9' && s[1] >= '0' && s[1] <= '9'
}

// wellFormed: two ASCII digits, a dash, a name (the name may be empty or contain dashes).
func wellFormed(name string) (idx, base string, ok bool) {
	if len(name) >= 3 && checkIndex(name[:2]) && name[2] == '-' {
		return name[:2], name[3:], true
	}
	return "", "", false
}

type dropState struct {
	present, readable bool
	content           string
}

func lookupDrop(ds []dropin, file string) dropState {
	for _, d := range ds {
		if d.File == file {
			return dropState{true, d.Kind == "content", d.Content}
		}
	}
	return dropState{}
}

// specConfig: (config, ok); !ok = the first present drop-in cannot be read (Start fails, I6)
func specConfig(ds []dropin, idx, base string) (string, bool) {
	for _, f := range []string{idx + "-" + base + ".conf", base + ".conf"} {
		st := lookupDrop(ds, f)
		if st.present {
			return st.content, st.readable
		}
	}
	return "", true
}

func launches(o string) bool { return o != "execfail" }
func configured(o string) bool {
	return o == "" || o == probe.BCfgErr || o == probe.BSyncFail || o == probe.BDieLater || o == probe.BHangLater ||
		o == probe.BSyncHang || o == probe.BSyncSlow
}
func active(o string) bool {
	return o == "" || o == probe.BDieLater || o == probe.BHangLater || o == probe.BSyncSlow
}
func survives(o string) bool { return o == "" || o == probe.BSyncSlow }

// oracle evaluates the English statement on the observation; returns the list of clauses violated.
func oracle(lc *launchCase) []string {
	var bad []string
	ents := append([]entry{}, lc.Entries...)
	sort.Slice(ents, func(i, j int) bool { return ents[i].Name < ents[j].Name })
	type disc struct{ file, idx, base, cfg string }
	var ds []disc
	startOK := true
	for _, en := range ents {
		if en.IsDir || en.Perm&0o111 == 0 {
			continue
		}
		idx, base, ok := wellFormed(en.Name)
		if !ok {
			startOK = false
			break
		}
		cfg, ok := specConfig(lc.Dropins, idx, base)
		if !ok {
			startOK = false
			break
		}
		ds = append(ds, disc{en.Name, idx, base, cfg})
	}
	syncFails := lc.SyncFn != ""
	if startOK && syncFails != !lc.StartOK {
		bad = append(bad, fmt.Sprintf("start: the runtime's SyncFn fails=%v, observed ok=%v (%s)", syncFails, lc.StartOK, lc.StartErr))
		return bad
	}
	if !startOK && lc.StartOK {
		bad = append(bad, fmt.Sprintf("start: expected ok=%v observed ok=%v (%s)", startOK, lc.StartOK, lc.StartErr))
		return bad
	}
	if syncFails && len(lc.Events) != 0 {
		bad = append(bad, "events recorded although Start failed")
	}
	obs := map[string]pluginObs{}
	for _, po := range lc.Obs {
		obs[po.File] = po
	}
	if !startOK {
		if len(lc.Obs) != 0 {
			bad = append(bad, "start failed but something was launched")
		}
		return bad
	}
	want := 0
	var act, surv []disc
	for _, d := range ds {
		o := lc.Outcomes[d.file]
		if !launches(o) {
			if _, ok := obs[d.file]; ok {
				bad = append(bad, d.file+": reported a launch although it cannot be executed")
			}
			continue
		}
		want++
		po, ok := obs[d.file]
		if !ok {
			bad = append(bad, d.file+": executable, well-formed, not launched")
			continue
		}
		if po.Count != 1 {
			bad = append(bad, fmt.Sprintf("%s: launched %d times", d.file, po.Count))
		}
		env := []string{api.PluginNameEnvVar + "=" + d.base, api.PluginIdxEnvVar + "=" + d.idx, api.PluginSocketEnvVar + "=3"}
		sort.Strings(env)
		if strings.Join(env, "\x00") != strings.Join(po.Env, "\x00") {
			bad = append(bad, fmt.Sprintf("%s: environment %q, expected %q", d.file, po.Env, env))
		}
		if d.base != "" && po.Stub != d.idx+"-"+d.base {
			bad = append(bad, fmt.Sprintf("%s: stub identity %q", d.file, po.Stub))
		}
		if po.Cwd != lc.RuntimeCwd {
			bad = append(bad, fmt.Sprintf("%s: started in working directory %q, the runtime's is %q", d.file, po.Cwd, lc.RuntimeCwd))
		}
		if fmt.Sprint(po.Fds) != "[0 1 2 3]" || !po.Fd3Socket {
			bad = append(bad, fmt.Sprintf("%s: descriptors %v %v", d.file, po.Fds, po.FdTargets))
		}
		if configured(o) {
			if !po.ConfigSeen || po.Config != d.cfg {
				bad = append(bad, fmt.Sprintf("%s: configuration seen=%v %q, expected %q", d.file, po.ConfigSeen, po.Config, d.cfg))
			}
		} else if po.ConfigSeen {
			bad = append(bad, d.file+": configured although it never registered")
		}
		if syncFails {
			if po.AfterStart == 2 {
				bad = append(bad, d.file+": Start failed as a whole but the launched plugin is still running")
			} else if po.AfterStart != 0 {
				bad = append(bad, d.file+": Start failed as a whole, the launched plugin is dead but was never waited for (zombie)")
			}
		} else if active(o) {
			act = append(act, d)
			if po.AfterStart != 2 {
				bad = append(bad, d.file+": healthy plugin not running after Start")
			}
		} else if po.AfterStart == 2 {
			bad = append(bad, d.file+": skipped plugin still running after Start")
		}
		if survives(o) {
			surv = append(surv, d)
		}
		if po.AfterStop == 2 {
			bad = append(bad, d.file+": still running after Stop")
		} else if po.AfterStop != 0 {
			bad = append(bad, d.file+": dead but never waited for (zombie) after Stop")
		}
	}
	if len(lc.Obs) != want {
		bad = append(bad, fmt.Sprintf("%d launch reports for %d launchable plugins", len(lc.Obs), want))
	}
	for _, ev := range lc.Events {
		exp := act
		if ev.AfterDeath {
			exp = surv
		}
		if ev.Err != "" {
			bad = append(bad, "event "+ev.Kind+" failed: "+ev.Err)
		}
		var a, b []string
		for _, d := range exp {
			a = append(a, d.file)
		}
		b = append(b, ev.Order...)
		for i := 1; i < len(ev.Order); i++ {
			if ev.Order[i-1][:2] > ev.Order[i][:2] {
				bad = append(bad, fmt.Sprintf("event %s: invocation order %v not by index", ev.Kind, ev.Order))
				break
			}
		}
		sort.Strings(a)
		sort.Strings(b)
		if strings.Join(a, "\x00") != strings.Join(b, "\x00") {
			bad = append(bad, fmt.Sprintf("event %s (after death=%v): invoked %v, expected the set %v", ev.Kind, ev.AfterDeath, ev.Order, a))
		}
	}
	return bad
}

// ---------------------------------------------------------------- Coq rendering

func outcomeCoq(o string) string {
	switch o {
	case "":
		return "OGood"
	case "execfail":
		return "OExecFail"
	case probe.BExit:
		return "OExit"
	case probe.BNoReg:
		return "ONoReg"
	case probe.BCloseFd:
		return "OCloseFd"
	case probe.BCfgErr:
		return "OCfgErr"
	case probe.BSyncFail:
		return "OSyncFail"
	case probe.BDieLater:
		return "ODieLater"
	case probe.BHangLater:
		return "OHangLater"
	case probe.BSyncHang:
		return "OSyncFail" // timed_outcome: it does not answer within the request time-out
	case probe.BSyncSlow:
		return "OGood" // timed_outcome: it answers within the request time-out
	}
	panic("outcome " + o)
}

func (lc *launchCase) coq() string {
	var ents, drops, outs, obs, evs []string
	for _, en := range lc.Entries {
		ents = append(ents, fmt.Sprintf("{| de_name := %s; de_is_dir := %s; de_mode := %s |}", coqfmt.Str(en.Name), coqfmt.Bool(en.IsDir), coqfmt.N(uint64(en.Perm))))
	}
	for _, d := range lc.Dropins {
		v := "DUnreadable"
		if d.Kind == "content" {
			v = "(DContent " + coqfmt.Str(d.Content) + ")"
		}
		drops = append(drops, coqfmt.Pair(coqfmt.Str(d.File), v))
	}
	keys := []string{}
	for k := range lc.Outcomes {
		keys = append(keys, k)
	}
	sort.Strings(keys)
	for _, k := range keys {
		outs = append(outs, coqfmt.Pair(coqfmt.Str(k), outcomeCoq(lc.Outcomes[k])))
	}
	for _, po := range lc.Obs {
		var fds []string
		for _, n := range po.Fds {
			fds = append(fds, coqfmt.N(uint64(n)))
		}
		cfg := "None"
		if po.ConfigSeen {
			cfg = "(Some " + coqfmt.Str(po.Config) + ")"
		}
		obs = append(obs, fmt.Sprintf("{| po_file := %s; po_count := %s; po_env := %s; po_stub := %s; po_fds := %s; po_fd3_socket := %s; po_config := %s; po_after_start := %s; po_after_stop := %s |}",
			coqfmt.Str(po.File), coqfmt.N(uint64(po.Count)), coqfmt.StrList(po.Env), coqfmt.Str(po.Stub), coqfmt.List(fds), coqfmt.Bool(po.Fd3Socket), cfg, coqfmt.N(uint64(po.AfterStart)), coqfmt.N(uint64(po.AfterStop))))
	}
	for _, ev := range lc.Events {
		evs = append(evs, fmt.Sprintf("{| eo_after_death := %s; eo_err := %s; eo_order := %s |}", coqfmt.Bool(ev.AfterDeath), coqfmt.Bool(ev.Err != ""), coqfmt.StrList(ev.Order)))
	}
	return fmt.Sprintf("{| lc_entries := %s; lc_dropins := %s; lc_outcomes := %s; lc_sync_calls := %s; lc_sync_fails := %s; lc_start_ok := %s; lc_obs := %s; lc_events := %s |}",
		coqfmt.List(ents), coqfmt.List(drops), coqfmt.List(outs), coqfmt.Bool(lc.SyncFn != "before"), coqfmt.Bool(lc.SyncFn != ""), coqfmt.Bool(lc.StartOK), coqfmt.List(obs), coqfmt.List(evs))
}

// ---------------------------------------------------------------- generators

type nameSet map[string]bool

func (s nameSet) fresh(r *rand.Rand, gen func() string) string {
	for i := 0; i < 200; i++ {
		n := gen()
		if !s[n] {
			s[n] = true
			return n
		}
	}
	panic("cannot find a fresh name")
}

func goodName(r *rand.Rand) string { return pickIdx(r) + "-" + goodBases[r.Intn(len(goodBases))] }

func behName(r *rand.Rand, beh string) string {
	suffix := []string{"", "1", "-x", ".v2"}[r.Intn(4)]
	pre := []string{"", "p-", "my"}[r.Intn(3)]
	return pickIdx(r) + "-" + pre + beh + suffix
}

func (lc *launchCase) add(name, kind string, mode uint32) {
	lc.Entries = append(lc.Entries, entry{Name: name, Kind: kind, Mode: mode})
	switch kind {
	case "junk", "symlinkdir", "symlinknx":
		if _, _, ok := wellFormed(name); ok {
			lc.Outcomes[name] = "execfail"
		}
	case "file", "symlink":
		if kind == "symlink" || mode&0o111 != 0 {
			if b := probe.Behaviour(name); b != "" {
				if _, _, ok := wellFormed(name); ok {
					lc.Outcomes[name] = b
				}
			}
		}
	}
}

func newCase(stream string, i int, r *rand.Rand) *launchCase {
	return &launchCase{Stream: stream, ID: fmt.Sprintf("%s/%d", stream, i), Outcomes: map[string]string{}, Listen: r.Intn(4) == 0,
		Entries: []entry{}, Dropins: []dropin{}, Obs: []pluginObs{}, Events: []eventObs{}}
}

func shuffleEntries(r *rand.Rand, lc *launchCase) {
	r.Shuffle(len(lc.Entries), func(i, j int) { lc.Entries[i], lc.Entries[j] = lc.Entries[j], lc.Entries[i] })
}

// discovery: mixed directory contents; one case in four contains an executable with a malformed name
func genDiscovery(r *rand.Rand, i int) *launchCase {
	lc := newCase("discovery", i, r)
	ns := nameSet{}
	n := r.Intn(9)
	for k := 0; k < n; k++ {
		switch x := r.Intn(100); {
		case x < 40:
			lc.add(ns.fresh(r, func() string { return goodName(r) }), "file", execModes[r.Intn(len(execModes))])
		case x < 55:
			lc.add(ns.fresh(r, func() string { return goodName(r) }), "file", nonexModes[r.Intn(len(nonexModes))])
		case x < 65:
			lc.add(ns.fresh(r, func() string { return malformed[r.Intn(len(malformed))] }), "file", nonexModes[r.Intn(len(nonexModes))])
		case x < 72:
			lc.add(ns.fresh(r, func() string { return goodName(r) }), "dir", []uint32{0o755, 0o700, 0o711}[r.Intn(3)])
		case x < 79:
			lc.add(ns.fresh(r, func() string { return malformed[r.Intn(len(malformed))] }), "dir", []uint32{0o755, 0o700}[r.Intn(2)])
		case x < 84:
			lc.add(ns.fresh(r, func() string { return goodName(r) }), "symlink", 0o777)
		case x < 87:
			lc.add(ns.fresh(r, func() string { return goodName(r) }), "symlinkdir", 0o777)
		case x < 90:
			lc.add(ns.fresh(r, func() string { return goodName(r) }), "symlinknx", 0o777)
		case x < 95:
			lc.add(ns.fresh(r, func() string { return goodName(r) }), "junk", execModes[r.Intn(len(execModes))])
		default:
			lc.add(ns.fresh(r, func() string { return pickIdx(r) + "-" }), "file", 0o755)
		}
	}
	if i%4 == 3 {
		kinds := []string{"file", "file", "file", "junk", "symlink", "symlinkdir"}
		for k := 0; k <= r.Intn(2); k++ {
			lc.add(ns.fresh(r, func() string { return malformed[r.Intn(len(malformed))] }), kinds[r.Intn(len(kinds))], execModes[r.Intn(len(execModes))])
		}
	}
	shuffleEntries(r, lc)
	return lc
}

// dropins: every pair of states of (idx-name.conf, name.conf) — missing, readable with content, present but
// unreadable, present and EMPTY —, i%16 selects the pair of the first plugin
func genDropins(r *rand.Rand, i int) *launchCase {
	lc := newCase("dropins", i, r)
	ns := nameSet{}
	n := 1 + r.Intn(3)
	seen := map[string]bool{}
	addDrop := func(file string, state int) {
		if seen[file] || state == 0 {
			return
		}
		seen[file] = true
		if state == 1 {
			lc.Dropins = append(lc.Dropins, dropin{File: file, Kind: "content", Content: confStrings[r.Intn(len(confStrings))] + fmt.Sprintf(" #%s", file)})
		} else if state == 3 {
			lc.Dropins = append(lc.Dropins, dropin{File: file, Kind: "content", Content: ""}) // exists, zero bytes
		} else {
			lc.Dropins = append(lc.Dropins, dropin{File: file, Kind: "dir"})
		}
	}
	sharedBase := goodBases[r.Intn(len(goodBases))]
	for k := 0; k < n; k++ {
		var name string
		if k > 0 && r.Intn(2) == 0 {
			name = ns.fresh(r, func() string { return pickIdx(r) + "-" + sharedBase })
		} else if k == 0 {
			name = ns.fresh(r, func() string { return pickIdx(r) + "-" + sharedBase })
		} else {
			name = ns.fresh(r, func() string { return goodName(r) })
		}
		lc.add(name, "file", 0o755)
		idx, base, _ := wellFormed(name)
		var s1, s2 int
		if k == 0 {
			s1, s2 = (i%16)/4, (i%16)%4
		} else {
			// mostly readable or missing; unreadable makes Start fail as a whole
			s1, s2 = []int{0, 0, 1, 1, 1, 2, 3, 3}[r.Intn(8)], []int{0, 1, 1, 1, 3}[r.Intn(5)]
		}
		addDrop(idx+"-"+base+".conf", s1)
		addDrop(base+".conf", s2)
	}
	// unrelated files in the drop-in directory
	for _, f := range []string{"other.conf", sharedBase + ".conf.bak", "99-" + sharedBase + ".yaml", sharedBase} {
		if r.Intn(3) == 0 {
			addDrop(f, 1)
		}
	}
	if r.Intn(3) == 0 {
		lc.add(ns.fresh(r, func() string { return goodName(r) }), "file", 0o644)
	}
	shuffleEntries(r, lc)
	return lc
}

// faults: every failure mode next to healthy plugins
func genFaults(r *rand.Rand, i int, allowSlow bool) *launchCase {
	lc := newCase("faults", i, r)
	ns := nameSet{}
	behs := []string{probe.BExit, probe.BCfgErr, probe.BSyncFail, probe.BDieLater, probe.BCloseFd, "junk", probe.BHangLater}
	n := 2 + r.Intn(4)
	forced := behs[i%len(behs)]
	if allowSlow {
		forced = probe.BNoReg
	}
	for k := 0; k < n; k++ {
		b := ""
		if k == 0 {
			b = forced
		} else if k > 1 && r.Intn(2) == 0 {
			b = behs[r.Intn(len(behs))]
		}
		switch b {
		case "":
			lc.add(ns.fresh(r, func() string { return goodName(r) }), "file", execModes[r.Intn(len(execModes))])
		case "junk":
			lc.add(ns.fresh(r, func() string { return goodName(r) }), "junk", 0o755)
		default:
			lc.add(ns.fresh(r, func() string { return behName(r, b) }), "file", 0o755)
		}
	}
	if r.Intn(2) == 0 {
		name := lc.Entries[r.Intn(len(lc.Entries))].Name
		if idx, base, ok := wellFormed(name); ok {
			lc.Dropins = append(lc.Dropins, dropin{File: []string{idx + "-" + base, base}[r.Intn(2)] + ".conf", Kind: "content", Content: "fault: " + name})
		}
	}
	shuffleEntries(r, lc)
	return lc
}

// order: many healthy plugins, indices with and without ties
func genOrder(r *rand.Rand, i int) *launchCase {
	lc := newCase("order", i, r)
	ns := nameSet{}
	n := 3 + r.Intn(6)
	for k := 0; k < n; k++ {
		lc.add(ns.fresh(r, func() string {
			if r.Intn(2) == 0 {
				return fmt.Sprintf("%02d", r.Intn(100)) + "-" + goodBases[r.Intn(len(goodBases))]
			}
			return goodName(r)
		}), "file", 0o755)
	}
	if r.Intn(3) == 0 {
		lc.add(ns.fresh(r, func() string { return behName(r, probe.BDieLater) }), "file", 0o755)
	}
	shuffleEntries(r, lc)
	return lc
}

// stopsilent: healthy plugins next to plugins that lose their connection some time after start-up — by exiting
// or by closing it and staying alive —, then Stop with no event or request in between
func genSilent(r *rand.Rand, i int) *launchCase {
	lc := newCase("stopsilent", i, r)
	lc.Silent, lc.PreEvents = true, i%4 >= 2
	ns := nameSet{}
	later := []string{probe.BHangLater, probe.BDieLater}
	behs := []string{later[i%2]}
	if r.Intn(2) == 0 {
		behs = append(behs, later[r.Intn(2)])
	}
	if r.Intn(4) == 0 {
		behs = append(behs, []string{probe.BExit, probe.BCloseFd, probe.BCfgErr}[r.Intn(3)])
	}
	for _, b := range behs {
		b := b
		lc.add(ns.fresh(r, func() string { return behName(r, b) }), "file", 0o755)
	}
	for k := r.Intn(4); k > 0; k-- {
		lc.add(ns.fresh(r, func() string { return goodName(r) }), "file", execModes[r.Intn(len(execModes))])
	}
	shuffleEntries(r, lc)
	return lc
}

// startfail: one to three plugins that launch, register and are configured (some of them refusing Configure or
// Synchronize, or exiting at once), and a runtime whose SyncFn fails — two times in three before it ever calls the
// NRI callback.  Start fails as a whole; nothing launched by the attempt may survive it.
func genStartFail(r *rand.Rand, i int) *launchCase {
	lc := newCase("startfail", i, r)
	lc.SyncFn = []string{"before", "after", "before"}[i%3]
	ns := nameSet{}
	for k := 1 + r.Intn(3); k > 0; k-- {
		lc.add(ns.fresh(r, func() string { return goodName(r) }), "file", execModes[r.Intn(len(execModes))])
	}
	if r.Intn(2) == 0 {
		b := []string{probe.BSyncFail, probe.BCfgErr, probe.BExit, probe.BDieLater, probe.BHangLater, probe.BCloseFd}[r.Intn(6)]
		lc.add(ns.fresh(r, func() string { return behName(r, b) }), "file", 0o755)
	}
	if r.Intn(3) == 0 {
		lc.add(ns.fresh(r, func() string { return goodName(r) }), "junk", 0o755)
	}
	if r.Intn(2) == 0 {
		name := lc.Entries[r.Intn(len(lc.Entries))].Name
		if _, base, ok := wellFormed(name); ok {
			lc.Dropins = append(lc.Dropins, dropin{File: base + ".conf", Kind: "content", Content: "startfail: " + name})
		}
	}
	shuffleEntries(r, lc)
	return lc
}

// synctimeout: at least three plugins; one hangs in Synchronize until the runtime's (short) request time-out, with
// zero to two healthy plugins before it and at least two after it in index order; or (every fourth case) twelve
// plugins that each answer Synchronize after a tenth of the time-out, together longer than one time-out.  Every
// plugin's start depends on its own behaviour only: the healthy and the slow ones are all kept and invoked in order.
func genSyncTimeout(r *rand.Rand, i int) *launchCase {
	lc := newCase("synctimeout", i, r)
	ns := nameSet{}
	idxs := r.Perm(100)
	if i%4 == 3 {
		idxs = idxs[:12]
		sort.Ints(idxs)
		for _, x := range idxs {
			lc.add(ns.fresh(r, func() string { return fmt.Sprintf("%02d-%s%s", x, []string{"", "p-"}[r.Intn(2)], probe.BSyncSlow) }), "file", 0o755)
		}
		shuffleEntries(r, lc)
		return lc
	}
	k := 3 + r.Intn(3)
	idxs = idxs[:k]
	sort.Ints(idxs)
	hang := r.Intn(k - 2) // at least two plugins after it
	for n, x := range idxs {
		x := x
		switch {
		case n == hang:
			lc.add(ns.fresh(r, func() string { return fmt.Sprintf("%02d-%s%s", x, []string{"", "my"}[r.Intn(2)], probe.BSyncHang) }), "file", 0o755)
		case n > hang && r.Intn(4) == 0:
			lc.add(ns.fresh(r, func() string { return fmt.Sprintf("%02d-%s", x, probe.BSyncSlow) }), "file", 0o755)
		default:
			lc.add(ns.fresh(r, func() string { return fmt.Sprintf("%02d-%s", x, goodBases[r.Intn(len(goodBases))]) }), "file", execModes[r.Intn(len(execModes))])
		}
	}
	shuffleEntries(r, lc)
	return lc
}

// declared: three to five healthy plugins with distinct indices, one or two of which register under an identity of
// their own (probe.RegAs): an index that would sort elsewhere, an empty name, a malformed index, another name.  A
// launched plugin's identity is its file name whatever it declares: all are kept, invoked at their file-name
// position, running after Start and gone after Stop.
func genDeclared(r *rand.Rand, i int) *launchCase {
	lc := newCase("declared", i, r)
	ns := nameSet{}
	k := 3 + r.Intn(3)
	idxs := r.Perm(98)[:k] // 1..98 below: room for a declared index before and after every file index
	sort.Ints(idxs)
	for n := range idxs {
		idxs[n]++
	}
	variant := func(pos int, v int) string {
		switch v {
		case 0: // first file index, declares one behind the last
			return fmt.Sprintf("%02d-%s.i%02d", idxs[pos], probe.RegAs, idxs[k-1]+1)
		case 1: // empty name
			return fmt.Sprintf("%02d-%s.n", idxs[pos], probe.RegAs)
		case 2: // malformed index
			return fmt.Sprintf("%02d-%s.i%s", idxs[pos], probe.RegAs, []string{"9", "ab", "", "100", "1x", "-1"}[r.Intn(6)])
		}
		// last file index, declares one before the first, and another name
		return fmt.Sprintf("%02d-%s.i%02d.nelse", idxs[pos], probe.RegAs, idxs[0]-1)
	}
	special := map[int]int{}
	switch v := i % 4; v {
	case 0:
		special[0] = 0
	case 3:
		special[k-1] = 3
	default:
		special[r.Intn(k)] = v
	}
	if r.Intn(2) == 0 { // a second one, any variant that fits its position
		pos := r.Intn(k)
		if _, taken := special[pos]; !taken {
			v := 1 + r.Intn(2)
			if pos == 0 && r.Intn(2) == 0 {
				v = 0
			}
			special[pos] = v
		}
	}
	for n, x := range idxs {
		x := x
		if v, ok := special[n]; ok {
			lc.add(variant(n, v), "file", 0o755)
			ns[lc.Entries[len(lc.Entries)-1].Name] = true
			continue
		}
		lc.add(ns.fresh(r, func() string { return fmt.Sprintf("%02d-%s", x, goodBases[r.Intn(len(goodBases))]) }), "file", execModes[r.Intn(len(execModes))])
	}
	shuffleEntries(r, lc)
	return lc
}

// pathforms: the directories of a dropins / order case handed over in every spelling (relative to the runtime's
// working directory, trailing slash, ./, a/../, and the same for absolute paths)
var pathForms = []string{"rel", "rel-slash", "rel-dot", "rel-dotdot", "abs-slash", "abs-dotdot"}

func genPathForms(r *rand.Rand, i int) *launchCase {
	var lc *launchCase
	if i%2 == 0 {
		lc = genDropins(r, 1+4*r.Intn(4)) // pairs without an unreadable file for the first plugin
	} else {
		lc = genOrder(r, i)
	}
	lc.Stream, lc.ID, lc.PathForm = "pathforms", fmt.Sprintf("pathforms/%d", i), pathForms[i%len(pathForms)]
	return lc
}

// ---------------------------------------------------------------- corpus

// loadCorpus reads <verif>/corpus/C18/*.json: directory contents replayed before the generated streams.
func loadCorpus() ([]*launchCase, error) {
	files, _ := filepath.Glob(filepath.Join(verifDir(), "corpus", "C18", "*.json"))
	sort.Strings(files)
	var out []*launchCase
	for _, f := range files {
		b, err := os.ReadFile(f)
		if err != nil {
			return nil, err
		}
		var in struct {
			ID      string   `json:"id"`
			Entries []entry  `json:"entries"`
			Dropins []dropin `json:"dropins"`
			Silent  bool     `json:"silent_stop"`
			PreEv   bool     `json:"pre_events"`
			SyncFn  string   `json:"sync_fn"`
			Form    string   `json:"path_form"`
		}
		if err := json.Unmarshal(b, &in); err != nil {
			return nil, fmt.Errorf("%s: %w", f, err)
		}
		lc := &launchCase{Stream: "corpus", ID: in.ID, Outcomes: map[string]string{}, Entries: []entry{}, Dropins: in.Dropins, Obs: []pluginObs{}, Events: []eventObs{},
			Silent: in.Silent, PreEvents: in.PreEv, SyncFn: in.SyncFn, PathForm: in.Form}
		if lc.Dropins == nil {
			lc.Dropins = []dropin{}
		}
		for _, en := range in.Entries {
			lc.add(en.Name, en.Kind, en.Mode)
		}
		out = append(out, lc)
	}
	return out, nil
}

// ---------------------------------------------------------------- driver

func driveLaunch(c *hx.Ctx) error {
	scratch, err := os.MkdirTemp("", "h_launch_c18_")
	if err != nil {
		return err
	}
	defer os.RemoveAll(scratch)
	t0 := time.Now()
	probeBin := filepath.Join(scratch, "probeplugin")
	if err := goBuild(filepath.Join(verifDir(), "harness"), probeBin, "./cmd/probeplugin", true, "verif"); err != nil {
		return err
	}
	buildMs := time.Since(t0).Milliseconds()
	env := &launchEnv{c: c, scratch: scratch, probe: probeBin, pool: map[uint32]string{}}

	// descriptors of "the runtime" that no plugin may see: a file, a pipe, a listening
	// socket, an accepted connection (all opened the way Go opens them: close-on-exec)
	if f, err := os.Create(filepath.Join(scratch, "runtime-private.txt")); err == nil {
		env.keep = append(env.keep, f)
	}
	if pr, pw, err := os.Pipe(); err == nil {
		env.keep = append(env.keep, pr, pw)
	}
	if l, err := net.Listen("unix", filepath.Join(scratch, "runtime.sock")); err == nil {
		env.keep = append(env.keep, l)
		if cn, err := net.Dial("unix", filepath.Join(scratch, "runtime.sock")); err == nil {
			env.keep = append(env.keep, cn)
		}
	}
	defer func() {
		for _, k := range env.keep {
			k.Close()
		}
	}()

	imports := "From NRI Require Import Model.Launch Run.Common Run.RunLaunch."
	type stream struct {
		name string
		n    int
		gen  func(r *rand.Rand, i int) *launchCase
	}
	slow := c.Pick(2, 8)
	streams := []stream{
		{"discovery", c.Pick(28, 400), genDiscovery},
		{"dropins", c.Pick(18, 180), genDropins},
		{"faults", c.Pick(18, 240), func(r *rand.Rand, i int) *launchCase { return genFaults(r, i, i < slow) }},
		{"order", c.Pick(10, 150), genOrder},
		{"stopsilent", c.Pick(8, 120), genSilent},
		{"startfail", c.Pick(6, 90), genStartFail},
		{"synctimeout", c.Pick(2, 24), genSyncTimeout},
		{"declared", c.Pick(4, 80), genDeclared},
		{"pathforms", c.Pick(6, 60), genPathForms},
	}
	corpus, err := loadCorpus()
	if err != nil {
		return err
	}
	if len(corpus) > 0 {
		streams = append([]stream{{"corpus", len(corpus), func(_ *rand.Rand, i int) *launchCase { return corpus[i] }}}, streams...)
	}
	var total, failing int
	for _, s := range streams {
		r := c.Rand("launch/" + s.name)
		sh := c.NewShard("launch_"+s.name, imports, "launch_case", "corr_launch", "holds_launch", 200)
		for i := 0; i < s.n; i++ {
			lc := s.gen(r, i)
			if err := env.run(lc); err != nil {
				return err
			}
			total++
			bad := oracle(lc)
			sh.Add(lc.coq(), lc)
			launched, skipped := 0, 0
			for _, po := range lc.Obs {
				launched++
				if !active(lc.Outcomes[po.File]) {
					skipped++
				}
			}
			if lc.Silent {
				// non-trivial: Stop met at least one plugin whose lost connection the runtime had already noticed
				later := 0
				for _, po := range lc.Obs {
					if o := lc.Outcomes[po.File]; o == probe.BDieLater || o == probe.BHangLater {
						later++
					}
				}
				c.Eval("launch/"+s.name+"/"+fmt.Sprint(lc.Entries, lc.Dropins, lc.PreEvents), later > 0 && lc.Noticed)
				c.Count("c18.silent_stop.cases", 1)
				c.Count("c18.silent_stop.lost_connections", later)
				if lc.Noticed {
					c.Count("c18.silent_stop.noticed_before_stop", 1)
				}
			} else if lc.SyncFn != "" {
				// non-trivial: processes existed when the runtime's SyncFn failed
				c.Eval("launch/"+s.name+"/"+fmt.Sprint(lc.Entries, lc.Dropins, lc.SyncFn), launched > 0 && !lc.StartOK)
				c.Count("c18.syncfn_fails."+lc.SyncFn, 1)
				c.Count("c18.syncfn_fails.launched", launched)
			} else {
				c.Eval("launch/"+s.name+"/"+fmt.Sprint(lc.Entries, lc.Dropins), launched > 0 || !lc.StartOK)
			}
			{
				// plugins after (in index order) one that hangs in Synchronize, and slow ones
				ents := append([]entry{}, lc.Entries...)
				sort.Slice(ents, func(a, b int) bool { return ents[a].Name < ents[b].Name })
				hung := false
				for _, en := range ents {
					switch o := lc.Outcomes[en.Name]; {
					case o == probe.BSyncHang:
						hung = true
						c.Count("c18.sync_timeout.hanging", 1)
					case o == probe.BSyncSlow:
						c.Count("c18.sync_timeout.slow", 1)
					case hung && o == "" && en.Kind == "file" && en.Perm&0o111 != 0:
						c.Count("c18.sync_timeout.healthy_after_hanging", 1)
					}
				}
			}
			if lc.PathForm != "" {
				c.Count("c18.path_form."+lc.PathForm, 1)
				c.Count("c18.path_form.launched", launched)
			}
			for _, po := range lc.Obs {
				// launched plugins declaring an identity of their own when they register
				if name, idx, setName, setIdx, ok := probe.Declared(po.File); ok {
					switch {
					case setName && name == "":
						c.Count("c18.declared.empty_name", 1)
					case setIdx && !checkIndex(idx):
						c.Count("c18.declared.malformed_index", 1)
					case setIdx && idx != po.File[:2]:
						c.Count("c18.declared.other_index", 1)
					}
				}
			}
			for _, d := range lc.Dropins {
				if d.Kind == "content" && d.Content == "" {
					c.Count("c18.dropin.empty", 1)
				}
			}
			c.Count("c18.cases."+s.name, 1)
			c.Count("c18.entries", len(lc.Entries))
			for _, en := range lc.Entries {
				c.Count("c18.entry."+en.Kind, 1)
				if en.Perm&0o111 != 0 && !en.IsDir {
					c.Count("c18.entry.executable", 1)
				}
			}
			for _, o := range lc.Outcomes {
				c.Count("c18.outcome."+o, 1)
			}
			for _, d := range lc.Dropins {
				c.Count("c18.dropin."+d.Kind, 1)
			}
			c.Count("c18.launched", launched)
			c.Count("c18.skipped_after_launch", skipped)
			if lc.StartOK {
				c.Count("c18.start.ok", 1)
			} else {
				c.Count("c18.start.failed", 1)
			}
			if s.name == "dropins" {
				c.Count(fmt.Sprintf("c18.dropin_pair.%d%d", (i%16)/4, (i%16)%4), 1)
			}
			if len(bad) > 0 {
				failing++
				c.ImplFail("launch_"+s.name, strings.Join(bad, "; "), lc)
			}
			if i < 2 {
				c.Sample(map[string]interface{}{"stream": s.name, "entries": lc.Entries, "dropins": lc.Dropins, "start_ok": lc.StartOK, "events": lc.Events, "launched": launched}, 8)
			}
		}
	}
	// A stream that misses its target shape is a fault of the driver — unless the tree under check caused it: several
	// shapes are read off the observation (something was launched, the runtime noticed a lost connection, …), and a
	// tree that breaks the property can break them too (a plugin that inherits a second descriptor of its socket
	// never looks disconnected).  When the statement's oracle has already failed on cases of this run, those cases
	// are the verdict (VIOLATION with a replay) and the missed shapes are only recorded; when every observation
	// agrees with the statement a missed shape is a harness error as before.
	var missed []string
	shapeMissed := func(format string, args ...interface{}) {
		if failing > 0 {
			missed = append(missed, fmt.Sprintf(format, args...))
			return
		}
		c.HarnessError(format, args...)
	}
	if c.Stats.Distribution["c18.launched"] == 0 || c.Stats.Distribution["c18.start.failed"] == 0 {
		shapeMissed("launch streams missed their target shape: %v", c.Stats.Distribution)
	}
	if c.Stats.Distribution["c18.syncfn_fails.before"] == 0 || c.Stats.Distribution["c18.syncfn_fails.after"] == 0 ||
		c.Stats.Distribution["c18.syncfn_fails.launched"] == 0 || c.Stats.Distribution["c18.dropin_pair.31"] == 0 {
		shapeMissed("start-failure / empty drop-in cases missed their target shape: %v", c.Stats.Distribution)
	}
	if c.Stats.Distribution["c18.sync_timeout.hanging"] == 0 || c.Stats.Distribution["c18.sync_timeout.healthy_after_hanging"] < 2 ||
		c.Stats.Distribution["c18.sync_timeout.slow"] < 12 {
		shapeMissed("synchronisation time-out cases missed their target shape: %v", c.Stats.Distribution)
	}
	if c.Stats.Distribution["c18.declared.empty_name"] == 0 || c.Stats.Distribution["c18.declared.malformed_index"] == 0 ||
		c.Stats.Distribution["c18.declared.other_index"] == 0 {
		shapeMissed("declared-identity cases missed their target shape: %v", c.Stats.Distribution)
	}
	if c.Stats.Distribution["c18.path_form.rel"] == 0 || c.Stats.Distribution["c18.path_form.launched"] == 0 {
		shapeMissed("path-form cases missed their target shape: %v", c.Stats.Distribution)
	}
	if n := c.Stats.Distribution["c18.silent_stop.cases"]; n == 0 || 2*c.Stats.Distribution["c18.silent_stop.noticed_before_stop"] < n {
		shapeMissed("silent-stop cases missed their target shape (Stop after the runtime has noticed a lost connection, no event in between): %v", c.Stats.Distribution)
	}
	c.Stats.Extra = map[string]interface{}{"probe_build_ms": buildMs, "cases": total, "cases_failing_go_oracle": failing, "target_shapes_missed_while_the_oracle_failed": missed,
		"observed_only": "launch-once, environment, descriptor inheritance (/proc/self/fd of the child), kill and reap (/proc/<pid>/stat) are operating-system behaviour observed on the implementation; they are not proved"}
	c.Stats.Rule = "generated plugin directories (probe copies with every execute-bit pattern, non-executables, sub-directories, symbolic links, non-binaries, malformed names), drop-in directories (all 16 state pairs of idx-name.conf x name.conf over missing / content / unreadable / present but empty), failure modes chosen by the probe's file name (exits at once, never registers, closes its socket, Configure fails, Synchronize fails, exits later, closes its connection later and keeps running) started by a real Adaptation; after the later deaths either three more events are sent (the dead plugins are dropped, killed and reaped) or - stream stopsilent and two corpus cases - NO event or request: the driver waits until the runtime has closed its end of the lost connections (its own descriptor table) and calls Stop; stream pathforms and one corpus case: the plugin and drop-in directories handed over as relative paths (the runtime's working directory is the case's scratch directory), with a trailing slash, ./ and a/../ spellings, relative and absolute - same expectations as for absolute paths, and every launched process reports the runtime's working directory as its own; stream declared and one corpus case: healthy plugins whose RegisterPlugin request declares an identity of their own (an index that would sort elsewhere, an empty name, a malformed index, another name) next to ordinary ones - all must be kept, invoked at their file-name position, running after Start, gone after Stop; stream synctimeout and two corpus cases: with a 3 s request time-out one plugin never answers Synchronize (it is dropped and killed) while healthy plugins before and after it in index order, and twelve plugins that each answer after 300 ms, must all be kept and invoked in order; stream startfail and two corpus cases: the runtime's SyncFn returns an error before or after calling the NRI callback, Start must fail and every process launched by the attempt must be gone when it returns; after Stop every launched pid must be gone from the process table (no live process, no zombie child); a case is non-trivial when at least one process was launched or Start failed on a malformed name / unreadable drop-in"
	return nil
}
