package main

import (
	"bytes"
	"context"
	"encoding/json"
	"errors"
	"fmt"
	"math/rand"
	"os"
	"os/exec"
	"path/filepath"
	"sort"
	"strconv"
	"strings"
	"sync"
	"sync/atomic"
	"time"

	"github.com/containerd/nri/pkg/adaptation"
	"github.com/containerd/nri/pkg/api"
	"github.com/containerd/nri/pkg/stub"

	"verif/harness/internal/coqfmt"
	"verif/harness/internal/hx"
)

// Every stress run of the synclock driver executes in a re-executed copy of this binary.  A runtime
// whose sync lock is released once too often dies with an unrecoverable "fatal error: sync: RUnlock of
// unlocked RWMutex"; in a child process that is an OBSERVATION of the run (reported as a failure of
// the property's oracle by the parent), not the end of the driver.
const syncLockHelperArg = "-synclock-helper"

// Bounds.  A run takes a few hundred milliseconds; log entries follow each other within microseconds
// to milliseconds (the longest silent stretches are the probe's wait for a plugin to be configured and
// its 100 ms window).
const (
	slStallBound = 20 * time.Second  // no log entry for that long: the run is stuck, dumped as it stands (an observation)
	slRunBound   = 120 * time.Second // a run that is not over by then is dumped as it stands (an observation)
	slChildBound = 300 * time.Second // the parent kills a child that did not even dump (machinery failure)
	slProbeGrace = 100 * time.Millisecond
	// probe 3: the request time-out in force while a registration is pending, and how long the block is
	// held meanwhile (more than 3x the time-out).  No request of the unchanged runtime ever runs under the short time-out
	// (it is set from inside the plugin's Configure handler and reset before the block is released).
	slShortTimeout = 300 * time.Millisecond
	slLongHold     = 1000 * time.Millisecond
	slLongTimeout  = 60 * time.Second
	slMaxFailing   = 3 // failing runs after which the stream stops: the verdict is settled
)

// what the parent asks of one run
type slSpec struct {
	Dir      string      `json:"dir"` // scratch directory, created and removed by the parent
	R        int         `json:"r"`
	P        int         `json:"p"`
	N        int         `json:"n"`
	Starts   []int       `json:"starts"`
	Modes    []string    `json:"modes"`    // per plugin: ok | syncerr (its Synchronize handler fails) | syncdrop (it disconnects during synchronisation) | syncerr1 (its handler fails the first time only) | rtfail (the runtime's SyncFn fails after the callback returned, the first time only)
	DblSeed  int64       `json:"dbl_seed"` // PRNG of the choice which blocks are released twice, and how
	Probe    int         `json:"probe"`    // 0 none, 6 a slow synchronisation during which another goroutine asks for a block under a short request time-out, 4 a waiting registration whose plugin goes away, 5 a block taken before Start and held across it, 1 two blocks held / one released twice, 2 released, ANOTHER block taken, released again, 3 a block held for a multiple of the request time-out with a registration pending
	Restarts []slRestart `json:"restarts"` // after the stream: plugins that stop and register again under the same name
}

type slRestart struct {
	Plugin  int  `json:"plugin"`
	Control bool `json:"control"` // a request between the disconnection and the re-registration (flushes the closed instance)
}

type slResult struct {
	Case *slCase `json:"case,omitempty"`
	Err  string  `json:"err,omitempty"` // failure of the machinery inside the run
}

// one entry of the API-level log (Model/SyncLock.v: lev)
type logEv struct {
	Kind string   `json:"k"` // acq rel rel2 recv ret store enter srecv sret close
	G    string   `json:"g,omitempty"`
	P    string   `json:"p,omitempty"` // plugin instance, or (enter/sret, before resolution) the sync session
	C    string   `json:"c,omitempty"`
	IDs  []string `json:"ids,omitempty"`
	OK   bool     `json:"ok,omitempty"`
	sess int
}

// one connection of a plugin = one plugin INSTANCE of the model: "idx-name", then "idx-name#2", ...
type slSession struct {
	inst     string
	snapshot []string // EVERYTHING it was sent in Synchronize requests (two snapshots: every id twice)
	creates  []string
	syncs    int
	sess     int   // the last SyncFn invocation that synchronised it, -1: none
	allSess  []int // all of them (more than one: the runtime synchronised the instance again)
	started  bool  // stub.Start returned nil: the plugin is configured, its registration is pending or done
	stopped  bool  // disconnected by the harness (restart)
}

type slPlugin struct {
	run      *slRun
	name     string
	mode     string
	stub     stub.Stub
	cur      *slSession
	sessions []*slSession
	onConfig func() // run once inside the Configure handler (probe 3)
	rtFailed bool   // mode rtfail: the runtime-side failure has been played
	closes   int32  // connection-closed notifications of the stub
	stops    int32  // disconnections the harness (or the plugin's own script) caused
}

type slRun struct {
	a       *adaptation.Adaptation
	spec    slSpec
	out     string
	plugins []*slPlugin

	mu     sync.Mutex // protects log, store, every plugin's records: one linearisation
	log    []logEv
	store  []string
	sess   int
	sessOK map[int]bool // SyncFn invocations that returned nil
	viol   []string

	// held: sync blocks currently held = between the "acquired" log entry and the "released" log entry
	// of the block's FIRST Unblock.  A repeated Unblock of a released block does not touch it.
	held       int32
	wantBlock  int32  // goroutines inside a BlockPluginSync call
	acqs       int32  // blocks acquired so far
	inSync     int32  // SyncFn invocations in progress
	rets       int32  // SyncFn returns
	total      int32  // containers created so far
	progress   int32  // log entries so far
	twice      int32  // blocks released a second time
	twiceOther int32  // ... while another block was held
	twiceLate  int32  // ... after another goroutine had acquired a block in between
	slowHook   func() // probe 6: run once inside SyncFn, after the callback returned, the exclusive section still held
	starting   int32  // Adaptation.Start in progress: its SyncFn invocation is start-up, not a registration
	abandon    int32  // a violation was seen: no further Unblock is issued, the run is dumped as it stands
	stalled    int32
	once       sync.Once
	herr       atomic.Value
}

// violation records a failure of the oracle and freezes the run: from now on no goroutine calls
// Unblock any more (on a runtime whose lock count is off that would be fatal), and the watchdog
// writes out the log as it stands.
func (r *slRun) violation(format string, args ...interface{}) {
	r.mu.Lock()
	if len(r.viol) < 10 {
		r.viol = append(r.viol, fmt.Sprintf(format, args...))
	}
	r.mu.Unlock()
	atomic.StoreInt32(&r.abandon, 1)
}

func (r *slRun) parkIfAbandoned() {
	if atomic.LoadInt32(&r.abandon) != 0 {
		select {}
	}
}

// appendLocked: call with r.mu held.
func (r *slRun) appendLocked(e logEv) {
	r.log = append(r.log, e)
	atomic.AddInt32(&r.progress, 1)
}

func (r *slRun) logEv(e logEv) {
	r.mu.Lock()
	r.appendLocked(e)
	r.mu.Unlock()
}

// syncFn is the runtime side of a plugin synchronisation: it must never overlap a held sync block.
func (r *slRun) syncFn(ctx context.Context, cb adaptation.SyncCB) error {
	if atomic.LoadInt32(&r.starting) != 0 {
		// Start synchronises the (here: no) pre-installed plugins once: not part of the log, not judged
		_, err := cb(ctx, nil, nil)
		return err
	}
	atomic.AddInt32(&r.inSync, 1)
	if h := atomic.LoadInt32(&r.held); h != 0 {
		r.violation("SyncFn entered while %d sync block(s) held", h)
	}
	r.mu.Lock()
	k := r.sess
	r.sess++
	snap := append([]string{}, r.store...)
	r.appendLocked(logEv{Kind: "enter", sess: k, IDs: snap})
	r.mu.Unlock()

	// the session number travels to the plugin inside the snapshot, which is how the log learns
	// which plugin this invocation synchronised
	pods := []*api.PodSandbox{{Id: "sync-" + strconv.Itoa(k), Name: "sync"}}
	ctrs := make([]*api.Container, len(snap))
	for i, id := range snap {
		ctrs[i] = &api.Container{Id: id, PodSandboxId: "pod0", Name: id}
	}
	_, err := cb(ctx, pods, ctrs)
	if err == nil {
		// mode rtfail: the runtime's own part fails AFTER the callback delivered the snapshot and
		// returned (say, it cannot apply the updates the plugin asked for) — the first time only
		r.mu.Lock()
		for _, p := range r.plugins {
			if p.mode == "rtfail" && !p.rtFailed && p.cur.sess == k {
				p.rtFailed = true
				err = errors.New("scripted runtime failure after the sync callback returned")
			}
		}
		r.mu.Unlock()
	}

	r.mu.Lock()
	hook := r.slowHook
	r.slowHook = nil
	r.mu.Unlock()
	if hook != nil && err == nil {
		hook()
	}

	if h := atomic.LoadInt32(&r.held); h != 0 {
		r.violation("%d sync block(s) held when SyncFn was about to return", h)
	}
	r.mu.Lock()
	r.appendLocked(logEv{Kind: "sret", sess: k, OK: err == nil})
	if r.sessOK == nil {
		r.sessOK = map[int]bool{}
	}
	r.sessOK[k] = err == nil
	// an invocation whose snapshot reached no plugin (the plugin was gone before its turn came: probe 4) is not
	// one of the synchronisations the run waits for
	named := false
	for _, p := range r.plugins {
		if p.cur.sess == k {
			named = true
		}
	}
	r.mu.Unlock()
	atomic.AddInt32(&r.inSync, -1)
	if named {
		atomic.AddInt32(&r.rets, 1)
	}
	return err
}

func (p *slPlugin) Synchronize(_ context.Context, pods []*api.PodSandbox, ctrs []*api.Container) ([]*api.ContainerUpdate, error) {
	k := -1
	for _, pod := range pods {
		if strings.HasPrefix(pod.Id, "sync-") {
			k, _ = strconv.Atoi(pod.Id[5:])
		}
	}
	ids := make([]string, len(ctrs))
	for i, c := range ctrs {
		ids[i] = c.Id
	}
	r := p.run
	r.mu.Lock()
	s := p.cur
	s.syncs++
	first := s.syncs == 1
	s.sess = k
	s.allSess = append(s.allSess, k)
	s.snapshot = append(s.snapshot, ids...)
	r.appendLocked(logEv{Kind: "srecv", P: s.inst, IDs: ids, sess: k})
	r.mu.Unlock()
	switch p.mode {
	case "syncerr":
		return nil, errors.New("scripted synchronization failure")
	case "syncerr1":
		if first { // a plain (non-fatal) error, once
			return nil, errors.New("scripted synchronization failure, first time only")
		}
	case "syncdrop":
		// the plugin goes away in the middle of its synchronisation
		before := atomic.LoadInt32(&p.closes)
		atomic.AddInt32(&p.stops, 1)
		go p.stub.Stop()
		for t0 := time.Now(); atomic.LoadInt32(&p.closes) == before && time.Since(t0) < 10*time.Second; {
			time.Sleep(100 * time.Microsecond)
		}
	}
	return nil, nil
}

func (p *slPlugin) CreateContainer(_ context.Context, _ *api.PodSandbox, c *api.Container) (*api.ContainerAdjustment, []*api.ContainerUpdate, error) {
	g := c.Id
	if i := strings.IndexByte(g, '-'); i > 0 {
		g = g[:i]
	}
	r := p.run
	r.mu.Lock()
	s := p.cur
	s.creates = append(s.creates, c.Id)
	r.appendLocked(logEv{Kind: "recv", G: g, P: s.inst, C: c.Id})
	r.mu.Unlock()
	return nil, nil, nil
}

// Configure: subscribe to everything the plugin handles (mask 0).
func (p *slPlugin) Configure(context.Context, string, string, string) (api.EventMask, error) {
	p.run.mu.Lock()
	f := p.onConfig
	p.onConfig = nil
	p.run.mu.Unlock()
	if f != nil {
		f()
	}
	return 0, nil
}

// noise: requests outside any sync block keep the adaptation mutex busy
func (p *slPlugin) StartContainer(context.Context, *api.PodSandbox, *api.Container) error { return nil }

type slCase struct {
	Trace     []logEv     `json:"trace"`
	Store     []string    `json:"store"`
	Plugins   []slPlugObs `json:"plugins"`
	Must      []string    `json:"must_be_registered"` // instances whose registration must be complete at the end of the log
	Viol      []string    `json:"violations,omitempty"`
	Abandoned bool        `json:"abandoned,omitempty"` // frozen after a violation and dumped as it stood
	Stalled   bool        `json:"stalled,omitempty"`   // ... because nothing happened any more
	Crash     string      `json:"crash,omitempty"`     // the runtime died inside the sync lock (no log survives)
	Twice     int         `json:"released_twice"`
	TwiceOth  int         `json:"released_twice_while_another_block_held"`
	TwiceLate int         `json:"released_twice_after_another_goroutine_acquired"`
	SyncFails int         `json:"failed_synchronisations"`
	Reregs    int         `json:"reregistrations"`
	Spec      *slSpec     `json:"spec,omitempty"`
}

type slPlugObs struct {
	Name       string   `json:"name"`       // the instance
	Registered bool     `json:"registered"` // synchronised successfully and still connected
	Snapshot   []string `json:"snapshot"`
	Creates    []string `json:"creates"`
}

func (e logEv) coq() string {
	switch e.Kind {
	case "acq":
		return "LBlockAcq " + coqfmt.Str(e.G)
	case "rel":
		return "LBlockRel " + coqfmt.Str(e.G)
	case "rel2":
		return "LBlockRelAgain " + coqfmt.Str(e.G)
	case "recv":
		return fmt.Sprintf("LRecv %s %s %s", coqfmt.Str(e.G), coqfmt.Str(e.P), coqfmt.Str(e.C))
	case "ret":
		return fmt.Sprintf("LCreateRet %s %s", coqfmt.Str(e.G), coqfmt.Str(e.C))
	case "store":
		return fmt.Sprintf("LStore %s %s", coqfmt.Str(e.G), coqfmt.Str(e.C))
	case "enter":
		return fmt.Sprintf("LSyncEnter %s %s", coqfmt.Str(e.P), coqfmt.StrList(e.IDs))
	case "srecv":
		return fmt.Sprintf("LSyncRecv %s %s", coqfmt.Str(e.P), coqfmt.StrList(e.IDs))
	case "sret":
		return fmt.Sprintf("LSyncRet %s %s", coqfmt.Str(e.P), coqfmt.Bool(e.OK))
	case "close":
		return "LClose " + coqfmt.Str(e.P)
	}
	panic("unknown log event " + e.Kind)
}

// ---------------------------------------------------------------- the runtime's use of the API, logged

var slPod = &api.PodSandbox{Id: "pod0", Name: "pod0", Namespace: "default"}

// acquire: "block acquired" is logged after BlockPluginSync returned.
func (r *slRun) acquire(gn string) *adaptation.PluginSyncBlock {
	r.parkIfAbandoned()
	atomic.AddInt32(&r.wantBlock, 1)
	b := r.a.BlockPluginSync()
	atomic.AddInt32(&r.wantBlock, -1)
	atomic.AddInt32(&r.held, 1)
	atomic.AddInt32(&r.acqs, 1)
	if atomic.LoadInt32(&r.inSync) != 0 {
		r.violation("sync block acquired by %s while SyncFn in progress", gn)
	}
	r.logEv(logEv{Kind: "acq", G: gn})
	return b
}

func (r *slRun) create(gn, id string) {
	_, err := r.a.CreateContainer(context.Background(), &api.CreateContainerRequest{Pod: slPod,
		Container: &api.Container{Id: id, PodSandboxId: slPod.Id, Name: id}})
	r.logEv(logEv{Kind: "ret", G: gn, C: id})
	if err != nil {
		r.herr.Store(fmt.Errorf("CreateContainer %s: %w", id, err))
	}
}

// bookkeeping: the runtime's own store, inside the same block as the creation
func (r *slRun) keep(gn, id string) {
	r.mu.Lock()
	r.store = append(r.store, id)
	r.appendLocked(logEv{Kind: "store", G: gn, C: id})
	r.mu.Unlock()
	atomic.AddInt32(&r.total, 1)
}

// release: the FIRST Unblock of a block; "block released" is logged (and the held-block counter
// decremented) before the call.
func (r *slRun) release(gn string, b *adaptation.PluginSyncBlock) {
	r.logEv(logEv{Kind: "rel", G: gn})
	if atomic.LoadInt32(&r.inSync) != 0 {
		r.violation("SyncFn in progress while %s still holds its sync block", gn)
	}
	atomic.AddInt32(&r.held, -1)
	r.parkIfAbandoned()
	b.Unblock()
}

// releaseAgain: a repeated Unblock of a block this goroutine already released (explicit Unblock on the
// success path plus a deferred one: "Safe to call multiple times but only from a single goroutine").
// It must not change anything: the held-block counter is NOT touched, whoever else holds a block
// keeps holding it.  acqsAtRelease: the number of blocks acquired when this block was released first.
func (r *slRun) releaseAgain(gn string, b *adaptation.PluginSyncBlock, acqsAtRelease int32) {
	r.parkIfAbandoned()
	atomic.AddInt32(&r.twice, 1)
	if atomic.LoadInt32(&r.held) > 0 {
		atomic.AddInt32(&r.twiceOther, 1)
		if atomic.LoadInt32(&r.acqs) != acqsAtRelease {
			atomic.AddInt32(&r.twiceLate, 1)
		}
	}
	r.logEv(logEv{Kind: "rel2", G: gn})
	b.Unblock()
}

// createInBlock is one creation with its bookkeeping inside a sync block.  twice: 0 the block is
// released once; 1 a deferred second Unblock follows the first at once; 2 the deferred second Unblock
// is issued only after ANOTHER goroutine has acquired a block (or 1 ms have passed: with a
// registration waiting for the exclusive section nobody can).
func (r *slRun) createInBlock(gn, id string, twice int) {
	b := r.acquire(gn)
	var at int32
	if twice > 0 {
		defer func() {
			if twice == 2 {
				for t0 := time.Now(); atomic.LoadInt32(&r.acqs) == at && time.Since(t0) < time.Millisecond; {
					time.Sleep(10 * time.Microsecond)
				}
			}
			r.releaseAgain(gn, b, at)
		}()
	}
	r.create(gn, id)
	r.keep(gn, id)
	at = atomic.LoadInt32(&r.acqs)
	r.release(gn, b)
}

// waitConfigured: stub.Start returns once the plugin is configured: the runtime is then about to
// request the exclusive section.  Whether it has got that far does not matter for what follows (no
// property says that a plugin is configured while blocks are held): after a short wait the scenario
// goes on and the result of Start is collected at the end of the run.
func (r *slRun) waitConfigured(started chan error) (pending chan error) {
	select {
	case err := <-started:
		if err != nil {
			r.herr.Store(fmt.Errorf("stub 0 start: %w", err))
		}
	case <-time.After(2 * time.Second):
		pending = started
	}
	time.Sleep(5 * time.Millisecond)
	return pending
}

// window: a block is still held; a synchronisation entered now is flagged by syncFn.
func (r *slRun) window() {
	for t0 := time.Now(); time.Since(t0) < slProbeGrace; time.Sleep(time.Millisecond) {
		r.parkIfAbandoned()
	}
}

// probe 1: two blocks are held, a plugin is waiting to be synchronised, the first block is released
// TWICE while the second is in the middle of a creation (request relayed, bookkeeping not yet done).
// The plugin must stay out until the second block is released.
func (r *slRun) probeHeldTogether(startPlugin func(j int) chan error) (pending chan error) {
	ba := r.acquire("ga")
	bb := r.acquire("gb")
	pending = r.waitConfigured(startPlugin(0))
	r.create("gb", "gb-c0")
	r.create("ga", "ga-c0")
	r.keep("ga", "ga-c0")
	at := atomic.LoadInt32(&r.acqs)
	r.release("ga", ba)
	r.releaseAgain("ga", ba, at)
	r.window()
	r.keep("gb", "gb-c0")
	r.release("gb", bb)
	return pending
}

// probe 2: the first block is released; only THEN another request takes a block (all from one
// goroutine: a runtime that recycles block handles hands it the first one's), a plugin connects and
// waits, the second request relays its creation, and the first block's deferred Unblock is issued:
// stale, it must not touch the block of the second request.
func (r *slRun) probeInterleaved(startPlugin func(j int) chan error) (pending chan error) {
	ba := r.acquire("ga")
	r.create("ga", "ga-c0")
	r.keep("ga", "ga-c0")
	at := atomic.LoadInt32(&r.acqs)
	r.release("ga", ba)
	bb := r.acquire("gb")
	pending = r.waitConfigured(startPlugin(0))
	r.create("gb", "gb-c0")
	r.releaseAgain("ga", ba, at)
	r.window()
	r.keep("gb", "gb-c0")
	r.release("gb", bb)
	return pending
}

// probe 3: a block is held, a plugin connects; from the moment it is configured (set inside its own
// Configure handler, i.e. before the runtime goes on to request the exclusive section) the plugin
// request time-out is short; the block stays held for more than three times that; the time-out is long
// again BEFORE the block is released.  How long a registration was pending must not matter: after the
// release the plugin is synchronised and active (judged at the end of the run: must-be-registered,
// exactly-once).  On the unchanged runtime no request ever runs under the short time-out.
func (r *slRun) probeHeldLong(startPlugin func(j int) chan error) (pending chan error) {
	bh := r.acquire("gh")
	r.mu.Lock()
	r.plugins[0].onConfig = func() { adaptation.SetPluginRequestTimeout(slShortTimeout) }
	r.mu.Unlock()
	pending = r.waitConfigured(startPlugin(0))
	for t0 := time.Now(); time.Since(t0) < slLongHold; time.Sleep(time.Millisecond) {
		r.parkIfAbandoned()
	}
	adaptation.SetPluginRequestTimeout(slLongTimeout)
	r.create("gh", "gh-c0")
	r.keep("gh", "gh-c0")
	r.release("gh", bh)
	return pending
}

// probe 4: a block is held; plugin 1 ("A") connects, is configured and waits for the exclusive section;
// A goes away (its own side closes the connection) WHILE it is waiting; plugin 0 ("B") connects and waits,
// too; then the block is released.  B's registration must complete and blocks must be granted as ever
// (the rest of the run; a runtime that is stuck is reported by the watchdog).
func (r *slRun) probeAbandonedWaiter(startPlugin func(j int) chan error) (pending chan error) {
	bh := r.acquire("gh")
	pa := r.plugins[1]
	select {
	case err := <-startPlugin(1):
		if err != nil {
			r.herr.Store(fmt.Errorf("stub 1 start: %w", err))
		}
	case <-time.After(2 * time.Second):
	}
	time.Sleep(5 * time.Millisecond)
	before := atomic.LoadInt32(&pa.closes)
	atomic.AddInt32(&pa.stops, 1)
	pa.stub.Stop()
	for t0 := time.Now(); atomic.LoadInt32(&pa.closes) == before; time.Sleep(100 * time.Microsecond) {
		if time.Since(t0) > 10*time.Second {
			r.herr.Store(fmt.Errorf("stub of %s did not report its connection closed within 10s of Stop", pa.name))
			break
		}
	}
	time.Sleep(20 * time.Millisecond) // the runtime's end of the connection notices, too
	// B connects: the accept loop serves connections one after the other, so B is queued behind A's turn (or
	// is configured and waits itself, if the runtime has let go of A); its Start returns later
	pending = startPlugin(0)
	time.Sleep(10 * time.Millisecond)
	r.create("gh", "gh-c0")
	r.keep("gh", "gh-c0")
	r.release("gh", bh)
	return pending
}

// probe 5: the block was taken BEFORE Adaptation.Start and is still held; a plugin connects; the request
// is relayed; the block must keep the plugin out until it is released.
func (r *slRun) probeHeldAcrossStart(bs *adaptation.PluginSyncBlock, startPlugin func(j int) chan error) (pending chan error) {
	pending = r.waitConfigured(startPlugin(0))
	r.create("gs", "gs-c0")
	r.window()
	r.keep("gs", "gs-c0")
	r.release("gs", bs)
	return pending
}

// probe 6: a SLOW synchronisation.  No block is held, a plugin connects and is synchronised at once; after the
// callback has returned the driver's SyncFn stays in the exclusive section for a further second (a runtime
// applying what the plugin asked for).  At the start of that second the plugin request time-out is made
// short (300 ms) and another goroutine asks for a sync block and creates a container: the block must not
// be granted before the section is given up, however long that takes — block acquisition has no time
// bound.  The time-out is long again before SyncFn returns: on the unchanged runtime no request ever runs
// under the short one (the callback's deadline was fixed before, the creation's is fixed after).
func (r *slRun) probeSlowSync(startPlugin func(j int) chan error) (pending chan error) {
	done := make(chan struct{})
	r.mu.Lock()
	r.slowHook = func() {
		adaptation.SetPluginRequestTimeout(slShortTimeout)
		go func() {
			r.createInBlock("gq", "gq-c0", 0)
			close(done)
		}()
		for t0 := time.Now(); time.Since(t0) < slLongHold && atomic.LoadInt32(&r.abandon) == 0; {
			time.Sleep(time.Millisecond)
		}
		adaptation.SetPluginRequestTimeout(slLongTimeout)
	}
	r.mu.Unlock()
	pending = r.waitConfigured(startPlugin(0))
	for {
		select {
		case <-done:
			return pending
		case <-time.After(time.Millisecond):
			r.parkIfAbandoned()
		}
	}
}

// buildCase: call with r.mu held.
func (r *slRun) buildCase(abandoned bool) *slCase {
	// resolve sync sessions to plugin instances through what the plugins received
	sessName := map[int]string{}
	for _, p := range r.plugins {
		for _, s := range p.sessions {
			for _, k := range s.allSess {
				sessName[k] = s.inst
			}
		}
	}
	// a SyncFn invocation that failed without reaching any plugin is the turn of a plugin that went away while it
	// was waiting (mode pendrop), in order
	anon := []int{}
	for _, e := range r.log {
		if _, ok := sessName[e.sess]; e.Kind == "enter" && !ok {
			anon = append(anon, e.sess)
		}
	}
	for _, p := range r.plugins {
		if p.mode == "pendrop" && len(anon) > 0 && len(p.sessions[0].allSess) == 0 {
			sessName[anon[0]] = p.sessions[0].inst
			p.sessions[0].allSess = []int{anon[0]}
			anon = anon[1:]
		}
	}
	okSess := map[int]bool{}
	stalled := atomic.LoadInt32(&r.stalled) != 0
	cs := &slCase{Store: append([]string{}, r.store...), Viol: append([]string{}, r.viol...), Must: []string{},
		Abandoned: abandoned, Stalled: stalled, Twice: int(atomic.LoadInt32(&r.twice)), TwiceOth: int(atomic.LoadInt32(&r.twiceOther)),
		TwiceLate: int(atomic.LoadInt32(&r.twiceLate))}
	for _, e := range r.log {
		switch e.Kind {
		case "enter", "sret":
			n, ok := sessName[e.sess]
			if !ok {
				n = "?" + strconv.Itoa(e.sess)
			}
			e.P = n
			if e.Kind == "sret" {
				if e.OK {
					okSess[e.sess] = true
				} else {
					cs.SyncFails++
				}
			}
		}
		cs.Trace = append(cs.Trace, e)
	}
	// "once the last block is released pending registrations complete": judged when the log ends with no
	// block held and no synchronisation in progress — at the regular end of a run, and in a run that got stuck
	quiet := atomic.LoadInt32(&r.held) == 0 && atomic.LoadInt32(&r.inSync) == 0 && (!abandoned || stalled)
	for _, p := range r.plugins {
		for k, s := range p.sessions {
			// rtfail / syncerr1: connected to the end, and registered iff the runtime's LAST word on them was success
			// (the unchanged runtime gives them one synchronisation, which fails)
			if p.mode == "pendrop" && len(s.allSess) == 0 {
				continue // it went away before its turn and the runtime never ran it through SyncFn: not in the log, not observed
			}
			connected := p.mode == "ok" || p.mode == "rtfail" || p.mode == "syncerr1"
			live := connected && !s.stopped && k == len(p.sessions)-1
			synced := s.sess >= 0 && okSess[s.sess]
			snap := []string{} // what an instance was sent in a synchronisation that failed is void (it is in the log)
			if synced {
				snap = append(snap, s.snapshot...)
			}
			cs.Plugins = append(cs.Plugins, slPlugObs{Name: s.inst, Registered: live && synced,
				Snapshot: snap, Creates: append([]string{}, s.creates...)})
			if live && p.mode == "ok" && s.started && quiet {
				cs.Must = append(cs.Must, s.inst)
			}
			if s.syncs > 1 || (!abandoned && s.syncs != 1 && p.mode != "pendrop") {
				cs.Viol = append(cs.Viol, fmt.Sprintf("plugin %s was synchronized %d times", s.inst, s.syncs))
			}
			if k > 0 {
				cs.Reregs++
			}
		}
	}
	return cs
}

func writeResult(out string, res *slResult) {
	js, err := json.Marshal(res)
	if err == nil {
		err = os.WriteFile(out+".tmp", js, 0o644)
	}
	if err == nil {
		err = os.Rename(out+".tmp", out)
	}
	if err != nil {
		fmt.Fprintln(os.Stderr, "synclock helper:", err)
		os.Exit(2)
	}
}

// dumpAndExit writes the run as it stands and ends the process WITHOUT touching the Adaptation again.
func (r *slRun) dumpAndExit() {
	r.once.Do(func() {
		r.mu.Lock()
		cs := r.buildCase(true)
		r.mu.Unlock()
		writeResult(r.out, &slResult{Case: cs})
	})
	os.Exit(0)
}

// watchdog: after a violation, when nothing happens any more, or when the run does not end, the log is
// written out as it stands.
func (r *slRun) watchdog(base int32) {
	t0, last, lastAt := time.Now(), int32(-1), time.Now()
	for {
		time.Sleep(2 * time.Millisecond)
		if atomic.LoadInt32(&r.abandon) != 0 {
			// let a synchronisation in progress return, so that the log shows it whole
			for dl := time.Now().Add(3 * time.Second); atomic.LoadInt32(&r.inSync) != 0 && time.Now().Before(dl); {
				time.Sleep(time.Millisecond)
			}
			time.Sleep(20 * time.Millisecond)
			r.dumpAndExit()
		}
		if p := atomic.LoadInt32(&r.progress); p != last {
			last, lastAt = p, time.Now()
		}
		if stuck, over := time.Since(lastAt) > slStallBound, time.Since(t0) > slRunBound; stuck || over {
			atomic.StoreInt32(&r.stalled, 1)
			what := fmt.Sprintf("nothing happened for %v", slStallBound)
			if !stuck {
				what = fmt.Sprintf("the run was not over after %v", slRunBound)
			}
			r.violation("%s: %d sync block(s) held, %d goroutine(s) waiting in BlockPluginSync, %d synchronisation(s) in progress, %d synchronisation(s) done: a registration does not complete / a sync block cannot be taken although no block is held",
				what, atomic.LoadInt32(&r.held), atomic.LoadInt32(&r.wantBlock), atomic.LoadInt32(&r.inSync), atomic.LoadInt32(&r.rets)-base)
		}
	}
}

// oneSyncLockRun: R goroutines x N creations inside sync blocks (some released twice), P stubs
// registering at points of the creation stream chosen by the PRNG (some failing their synchronisation),
// one noise goroutine; then plugins that disconnect and register again under the same name.
func oneSyncLockRun(spec slSpec, out string) (*slCase, error) {
	R, P, N, starts := spec.R, spec.P, spec.N, spec.Starts
	sock := filepath.Join(spec.Dir, "nri.sock")
	r := &slRun{spec: spec, out: out}
	a, err := newAdaptation(spec.Dir, sock, r.syncFn)
	if err != nil {
		return nil, err
	}
	r.a = a
	var early *adaptation.PluginSyncBlock
	if spec.Probe == 5 { // a block taken BEFORE Start and held across it
		early = r.acquire("gs")
	}
	atomic.StoreInt32(&r.starting, 1)
	err = a.Start()
	atomic.StoreInt32(&r.starting, 0)
	if err != nil {
		return nil, err
	}
	defer a.Stop()
	base := atomic.LoadInt32(&r.rets)
	go r.watchdog(base)

	ctx := context.Background()
	stop := make(chan struct{})
	var wg, nwg sync.WaitGroup

	// noise
	nwg.Add(1)
	go func() {
		defer nwg.Done()
		ctr := &api.Container{Id: "noise", PodSandboxId: slPod.Id, Name: "noise"}
		for {
			select {
			case <-stop:
				return
			default:
			}
			a.StartContainer(ctx, &api.StateChangeEvent{Pod: slPod, Container: ctr})
			time.Sleep(20 * time.Microsecond)
		}
	}()

	// plugins
	r.plugins = make([]*slPlugin, P)
	for j := 0; j < P; j++ {
		p := &slPlugin{run: r, name: fmt.Sprintf("%02d-p%d", (j*37)%100, j), mode: spec.Modes[j]}
		p.cur = &slSession{inst: p.name, sess: -1}
		p.sessions = []*slSession{p.cur}
		st, err := stub.New(p, stub.WithPluginName(fmt.Sprintf("p%d", j)), stub.WithPluginIdx(fmt.Sprintf("%02d", (j*37)%100)),
			stub.WithSocketPath(sock), stub.WithOnClose(func() { atomic.AddInt32(&p.closes, 1) }))
		if err != nil {
			return nil, err
		}
		p.stub = st
		r.plugins[j] = p
	}
	expected := int32(0) // connections that go through SyncFn
	startPlugin := func(j int) chan error {
		ch := make(chan error, 1)
		p := r.plugins[j]
		r.mu.Lock()
		s := p.cur
		r.mu.Unlock()
		go func() {
			err := p.stub.Start(ctx)
			if err == nil {
				r.mu.Lock()
				s.started = true
				r.mu.Unlock()
			}
			ch <- err
		}()
		return ch
	}
	first := 0
	var pwg sync.WaitGroup
	if spec.Probe != 0 {
		first = 1
		expected++
		probe := r.probeHeldTogether
		switch spec.Probe {
		case 2:
			probe = r.probeInterleaved
		case 3:
			probe = r.probeHeldLong
		case 4:
			probe = r.probeAbandonedWaiter
		case 5:
			probe = func(sp func(j int) chan error) chan error { return r.probeHeldAcrossStart(early, sp) }
		case 6:
			probe = r.probeSlowSync
		}
		if pending := probe(startPlugin); pending != nil {
			pwg.Add(1)
			go func() {
				defer pwg.Done()
				if err := <-pending; err != nil {
					r.herr.Store(fmt.Errorf("stub 0 start: %w", err))
				}
			}()
		}
	}
	for j := first; j < P; j++ {
		if spec.Modes[j] == "pendrop" {
			continue // started and stopped by probe 4; whether the runtime still runs it through SyncFn is not counted on
		}
		pwg.Add(1)
		expected++
		go func(j int) {
			defer pwg.Done()
			for atomic.LoadInt32(&r.total) < int32(starts[j]) {
				time.Sleep(50 * time.Microsecond)
			}
			if err := <-startPlugin(j); err != nil {
				r.herr.Store(fmt.Errorf("stub %d start: %w", j, err))
			}
		}(j)
	}

	// runtime goroutines
	for g := 0; g < R; g++ {
		wg.Add(1)
		go func(g int) {
			defer wg.Done()
			gn := "g" + strconv.Itoa(g)
			rnd := rand.New(rand.NewSource(spec.DblSeed + int64(g)*7919))
			for i := 0; i < N; i++ {
				twice := 0
				if x := rnd.Intn(100); x < 30 {
					twice = 1
				} else if x < 45 {
					twice = 2
				}
				r.createInBlock(gn, gn+"-c"+strconv.Itoa(i), twice)
				if i%3 == g%3 {
					time.Sleep(time.Duration(30*(g+1)) * time.Microsecond)
				}
			}
		}(g)
	}
	wg.Wait()
	pwg.Wait()
	// every block is released: pending registrations complete (a registration that does not is reported
	// by the watchdog: nothing is logged while waiting here).  Then one more block: acquired only
	// after the last finishedPluginSync, i.e. after the last activation
	settle := func() {
		for atomic.LoadInt32(&r.rets)-base < expected {
			r.parkIfAbandoned()
			time.Sleep(200 * time.Microsecond)
		}
		r.parkIfAbandoned()
		atomic.AddInt32(&r.wantBlock, 1)
		b := a.BlockPluginSync()
		atomic.AddInt32(&r.wantBlock, -1)
		b.Unblock()
	}
	settle()
	close(stop)
	nwg.Wait()

	// plugins that disconnect and register again under the same index and name, the runtime being quiet
	for n, rs := range spec.Restarts {
		p := r.plugins[rs.Plugin]
		r.mu.Lock()
		synced := r.sessOK[p.cur.sess]
		r.mu.Unlock()
		if !synced {
			continue // the runtime refused to register it (judged at the end): nothing to disconnect
		}
		before := atomic.LoadInt32(&p.closes)
		atomic.AddInt32(&p.stops, 1)
		p.stub.Stop()
		for t0 := time.Now(); atomic.LoadInt32(&p.closes) == before; time.Sleep(100 * time.Microsecond) {
			if time.Since(t0) > 10*time.Second {
				return nil, fmt.Errorf("stub of %s did not report its connection closed within 10s of Stop", p.name)
			}
		}
		r.mu.Lock()
		p.cur.stopped = true
		r.appendLocked(logEv{Kind: "close", P: p.cur.inst})
		r.mu.Unlock()
		time.Sleep(10 * time.Millisecond) // the runtime's end of the connection notices, too
		if rs.Control {
			r.createInBlock("gt", "gt-r"+strconv.Itoa(n), 0)
		}
		r.mu.Lock()
		p.cur = &slSession{inst: p.name + "#" + strconv.Itoa(len(p.sessions)+1), sess: -1}
		p.sessions = append(p.sessions, p.cur)
		r.mu.Unlock()
		expected++
		if err := <-startPlugin(rs.Plugin); err != nil {
			return nil, fmt.Errorf("stub of %s, second start: %w", p.name, err)
		}
		settle()
	}

	// a tail of creations that every registered plugin must see as requests
	for i := 0; i < 2; i++ {
		r.createInBlock("gt", "gt-c"+strconv.Itoa(i), i)
	}
	r.parkIfAbandoned()
	r.mu.Lock()
	cs := r.buildCase(false)
	r.mu.Unlock()
	// a healthy plugin whose connection went away: machinery — unless the runtime itself refused to register it
	// (its handler succeeded, the runtime reports the synchronisation failed and closes it): that is judged
	reg := map[string]bool{}
	for _, po := range cs.Plugins {
		reg[po.Name] = po.Registered
	}
	for _, p := range r.plugins {
		if p.mode == "ok" && atomic.LoadInt32(&p.closes) != atomic.LoadInt32(&p.stops) && reg[p.cur.inst] {
			r.herr.Store(fmt.Errorf("plugin %s lost its connection during the run", p.name))
		}
	}
	if e := r.herr.Load(); e != nil {
		return nil, e.(error)
	}
	for _, p := range r.plugins {
		p.stub.Stop()
	}
	return cs, nil
}

// syncLockHelper runs in the re-executed copy: SPEC OUT
func syncLockHelper(args []string) int {
	if len(args) != 2 {
		return 2
	}
	js, err := os.ReadFile(args[0])
	if err != nil {
		fmt.Fprintln(os.Stderr, err)
		return 2
	}
	var spec slSpec
	if err := json.Unmarshal(js, &spec); err != nil {
		fmt.Fprintln(os.Stderr, err)
		return 2
	}
	adaptation.SetPluginRegistrationTimeout(60 * time.Second)
	adaptation.SetPluginRequestTimeout(slLongTimeout)
	cs, err := oneSyncLockRun(spec, args[1])
	res := &slResult{Case: cs}
	if err != nil {
		res = &slResult{Err: err.Error()}
	}
	writeResult(args[1], res)
	return 0
}

// runSyncLockChild executes one run in a child process and interprets how it ended.
func runSyncLockChild(exe string, i int, spec slSpec) (*slCase, error) {
	dir, err := scratch("sl")
	if err != nil {
		return nil, err
	}
	defer os.RemoveAll(dir)
	spec.Dir = dir
	specFile, outFile := filepath.Join(dir, "spec.json"), filepath.Join(dir, "result.json")
	js, _ := json.Marshal(spec)
	if err := os.WriteFile(specFile, js, 0o644); err != nil {
		return nil, err
	}
	ctx, cancel := context.WithTimeout(context.Background(), slChildBound)
	defer cancel()
	cmd := exec.CommandContext(ctx, exe, syncLockHelperArg, specFile, outFile)
	var errb bytes.Buffer
	cmd.Stdout, cmd.Stderr = &errb, &errb
	runErr := cmd.Run()
	if res, rerr := os.ReadFile(outFile); rerr == nil && runErr == nil {
		var r slResult
		if err := json.Unmarshal(res, &r); err != nil {
			return nil, err
		}
		if r.Err != "" {
			return nil, fmt.Errorf("%s", r.Err)
		}
		if r.Case == nil {
			return nil, fmt.Errorf("synclock helper wrote no case")
		}
		r.Case.Spec = &spec
		return r.Case, nil
	}
	log := errb.String()
	if k := strings.Index(log, "fatal error: sync:"); k >= 0 {
		// the Go runtime's own check of the lock: the sync lock was unlocked more often than locked.
		// The harness calls Unblock at most twice per block, from the goroutine that took it.
		line := log[k:]
		if j := strings.IndexByte(line, '\n'); j > 0 {
			line = line[:j]
		}
		return &slCase{Crash: line, Spec: &spec, Must: []string{},
			Viol: []string{"the runtime died in the plugin sync lock (" + line + "): an Unblock released a lock its block did not hold"}}, nil
	}
	// anything else (including a data race report of a -race build) is passed on as it is
	fmt.Fprintln(os.Stderr, log)
	return nil, fmt.Errorf("synclock helper for run %d failed: %v", i, runErr)
}

// exactlyOnce is the Go twin of Run/RunSyncLock.v: holds_sync (Spec/SyncLockSpec.v: exactly_once_b for
// every live instance, and every instance of Must registered).
func exactlyOnce(cs *slCase) []string {
	var bad []string
	reg := map[string]bool{}
	for _, p := range cs.Plugins {
		reg[p.Name] = p.Registered
		if !p.Registered {
			continue
		}
		snap := map[string]bool{}
		for _, id := range p.Snapshot {
			if snap[id] {
				bad = append(bad, fmt.Sprintf("%s: %s sent in more than one snapshot", p.Name, id))
			}
			snap[id] = true
		}
		cr := map[string]int{}
		for _, id := range p.Creates {
			cr[id]++
		}
		for _, id := range p.Creates {
			if cr[id] > 1 {
				bad = append(bad, fmt.Sprintf("%s: %s created %d times", p.Name, id, cr[id]))
				cr[id] = 1
			}
		}
		for _, id := range cs.Store {
			switch {
			case snap[id] && cr[id] > 0:
				bad = append(bad, fmt.Sprintf("%s: %s both in the snapshot and created", p.Name, id))
			case !snap[id] && cr[id] == 0:
				bad = append(bad, fmt.Sprintf("%s: %s neither in the snapshot nor created", p.Name, id))
			}
		}
	}
	for _, n := range cs.Must {
		if !reg[n] {
			bad = append(bad, fmt.Sprintf("%s: its registration is not complete although no sync block is held", n))
		}
	}
	return bad
}

func driveSyncLock(c *hx.Ctx) error {
	exe, err := os.Executable()
	if err != nil {
		return err
	}
	sh := c.NewShard("synclock", "From NRI Require Import Model.SyncLock Spec.SyncLockSpec Run.Common Run.RunSyncLock.",
		"sync_case", "corr_sync", "holds_sync", 8)
	rnd := c.Rand("synclock")
	runs := c.Pick(40, 400)
	overlapped, failing, twiceOther, twiceLate, syncFails, reregs, reregServed := 0, 0, 0, 0, 0, 0, 0
	probes := map[int]int{}
	stalled := false
	for i := 0; i < runs && failing < slMaxFailing && !stalled; i++ {
		R := 2 + rnd.Intn(c.Pick(4, 8))
		P := 1 + rnd.Intn(c.Pick(5, 9))
		if i < 10 && P < 3 {
			P = 3
		}
		N := c.Pick(6, 12) + rnd.Intn(c.Pick(10, 24))
		starts := make([]int, P)
		for j := range starts {
			starts[j] = rnd.Intn(R*N*9/10 + 1)
		}
		if i%8 == 0 { // a burst: all registrations queue up at the same point
			for j := range starts {
				starts[j] = R * N / 2
			}
		}
		// plugin 0 is always healthy (it is the probe's and the restarts' plugin); the others fail their
		// synchronisation now and then, the first runs make sure both ways of failing occur, early in the stream
		modes := make([]string, P)
		for j := range modes {
			modes[j] = "ok"
			if x := rnd.Intn(100); j > 0 && x < 12 {
				modes[j] = "syncerr"
			} else if j > 0 && x < 20 {
				modes[j] = "syncdrop"
			}
		}
		switch i {
		case 2:
			modes[1], starts[1] = "syncerr", 1
		case 3:
			modes[1], starts[1] = "syncdrop", 1
		case 5:
			modes[1], starts[1] = "rtfail", 1
		case 6:
			modes[1], starts[1] = "syncerr1", 1
		}
		for j := 2; j < P; j++ { // and now and then among the others
			if x := rnd.Intn(100); modes[j] == "ok" && x < 4 {
				modes[j] = "rtfail"
			} else if modes[j] == "ok" && x < 8 {
				modes[j] = "syncerr1"
			}
		}
		probe := 0
		switch x := rnd.Intn(4); {
		case i == 0 || x == 0:
			probe = 1
		case i == 1 || x == 1:
			probe = 2
		}
		if i == 4 || (i > 4 && rnd.Intn(c.Pick(40, 25)) == 0) { // one second each: the fifth run, and now and then
			probe = 3
		}
		if x := rnd.Intn(12); i == 7 || (i > 8 && x == 0 && P >= 2) {
			probe = 4
			modes[1] = "pendrop"
		} else if i == 8 || (i > 8 && x == 1) {
			probe = 5
		}
		if i == 9 || (i > 9 && rnd.Intn(c.Pick(60, 30)) == 0) { // one second each
			probe = 6
		}
		var restarts []slRestart
		switch x := rnd.Intn(6); {
		case i == 1 || x < 2:
			restarts = []slRestart{{Plugin: 0}}
		case i == 3 || x == 2:
			restarts = []slRestart{{Plugin: 0, Control: true}}
		}
		spec := slSpec{R: R, P: P, N: N, Starts: starts, Modes: modes, DblSeed: rnd.Int63(), Probe: probe, Restarts: restarts}
		cs, err := runSyncLockChild(exe, i, spec)
		if err != nil {
			return fmt.Errorf("run %d: %w", i, err)
		}
		c.Count("synclock.runs", 1)
		probes[probe]++
		c.Count(fmt.Sprintf("synclock.runs_with_probe_%d", probe), 1)
		if cs.Crash != "" {
			failing++
			c.Count("synclock.runs_runtime_died_in_sync_lock", 1)
			c.Eval(fmt.Sprint("synclock/", i), false)
			c.ImplFail("synclock", strings.Join(cs.Viol, "; "), cs)
			continue
		}
		var tr []string
		for _, e := range cs.Trace {
			tr = append(tr, e.coq())
		}
		var pos []string
		nontrivial := false
		for _, p := range cs.Plugins {
			s, cr := append([]string{}, p.Snapshot...), p.Creates
			sort.Strings(s)
			pos = append(pos, fmt.Sprintf("{| po_name := %s; po_registered := %s; po_snapshot := %s; po_creates := %s |}",
				coqfmt.Str(p.Name), coqfmt.Bool(p.Registered), coqfmt.StrList(s), coqfmt.StrList(cr)))
			if p.Registered && len(p.Snapshot) > 0 && len(p.Creates) > 2 {
				nontrivial = true
				overlapped++
			}
			if p.Registered && strings.Contains(p.Name, "#") && len(p.Creates) >= 2 {
				reregServed++
			}
		}
		sh.Add(fmt.Sprintf("{| sc_trace := %s; sc_store := %s; sc_plugins := %s; sc_must := %s |}",
			coqfmt.List(tr), coqfmt.StrList(cs.Store), coqfmt.List(pos), coqfmt.StrList(cs.Must)), cs)
		c.Eval(fmt.Sprint("synclock/", i), nontrivial)
		c.Count("synclock.log_events", len(cs.Trace))
		c.Count("synclock.containers", len(cs.Store))
		c.Count("synclock.plugin_instances", len(cs.Plugins))
		c.Count("synclock.blocks_released_twice", cs.Twice)
		c.Count("synclock.blocks_released_twice_while_another_block_held", cs.TwiceOth)
		c.Count("synclock.blocks_released_twice_after_another_goroutine_acquired", cs.TwiceLate)
		c.Count("synclock.synchronisations_failed", cs.SyncFails)
		c.Count("synclock.reregistrations_same_name", cs.Reregs)
		twiceOther += cs.TwiceOth
		twiceLate += cs.TwiceLate
		syncFails += cs.SyncFails
		reregs += cs.Reregs
		if cs.Abandoned {
			c.Count("synclock.runs_frozen_after_violation", 1)
		}
		if cs.Stalled {
			stalled = true // every further run would wait out the same bound: the verdict is settled
			c.Count("synclock.runs_stuck", 1)
		}
		if bad := exactlyOnce(cs); len(bad) > 0 || len(cs.Viol) > 0 {
			failing++
			c.ImplFail("synclock", strings.Join(append(bad, cs.Viol...), "; "), cs)
		}
		if i < 2 {
			c.Sample(map[string]interface{}{"R": R, "P": P, "N": N, "probe": probe, "modes": modes, "restarts": restarts, "log_events": len(cs.Trace),
				"released_twice": cs.Twice, "released_twice_while_another_block_held": cs.TwiceOth, "plugins": cs.Plugins[:1]}, 4)
		}
	}
	c.Count("synclock.plugins_registered_mid_stream", overlapped)
	c.Count("synclock.reregistered_instances_served_later_creations", reregServed)
	// target shapes of the stream — judged only when no run failed (a failing run is the result then)
	if failing == 0 {
		if overlapped == 0 {
			c.HarnessError("synclock: no plugin registered while containers were being created")
		}
		if twiceOther == 0 || twiceLate == 0 || probes[1] == 0 || probes[2] == 0 || probes[3] == 0 || probes[4] == 0 || probes[5] == 0 || probes[6] == 0 {
			c.HarnessError("synclock: blocks released twice while another block was held: %d, after another goroutine acquired: %d, probes: %v", twiceOther, twiceLate, probes)
		}
		if syncFails < 2 {
			c.HarnessError("synclock: only %d failing synchronisations", syncFails)
		}
		if reregs < 2 || reregServed < 2 {
			c.HarnessError("synclock: %d re-registrations under the same name, %d of them served later creations", reregs, reregServed)
		}
	} else {
		c.Count("synclock.failing_runs", failing)
	}
	c.Stats.Rule = "synclock: every run in a child process (a runtime that dies inside its sync lock is an observation): R goroutines x N CreateContainer requests inside BlockPluginSync/Unblock on one real Adaptation while P real stubs register at PRNG-chosen points of the creation stream (every 8th run: all at once) and a noise goroutine fires StartContainer outside any block; about 25% of the plugins other than the first FAIL their synchronisation (handler error every time or the first time only, the plugin disconnects during it, or the runtime's own SyncFn returns an error AFTER the callback delivered the snapshot — the first time only: the unchanged runtime never synchronises an instance twice; po_snapshot is everything an instance was sent) and the others must still be registered and blocks obtainable; about 45% of the blocks are released TWICE (explicit Unblock plus a deferred one, the use the doc comment allows), a third of those only after another goroutine has acquired a block; the held-block counter and the log count a block as released at its first Unblock only; half of the runs start with a probe (1: two blocks held, a plugin waiting, the first released twice while the second is between relaying its creation and its bookkeeping; 2: the first block released, THEN a second one taken, a plugin waiting, then the first one's stale second Unblock) that must keep the plugin out for a further 100 ms; a few runs start with probe 3: a block held for 1 s with a registration pending while the plugin request time-out is 300 ms (set from inside the plugin's Configure handler, reset before the release: no request of the unchanged runtime runs under it), after which the registration must complete like any other; probe 4: a block held, plugin A configured and waiting, A's own side closes the connection while it waits, plugin B waits too, release — B and everybody later must be registered and blocks granted; probe 6: a slow synchronisation — the driver's SyncFn stays in the exclusive section for 1 s after the callback returned, meanwhile the plugin request time-out is 300 ms and another goroutine asks for a block and creates a container: the block must not be granted before the section is given up; probe 5: a block taken BEFORE Adaptation.Start, held across it, a plugin connects, the creation is relayed, 100 ms window, bookkeeping, release; half of the runs end with the first plugin disconnecting and registering again under the same index and name with no request in between (a third of those: one request in between), followed by creations the fresh instance must be sent; a run in which nothing is logged for 20 s is dumped as it stands (stuck registrations / blocks are an observation); non-trivial = some plugin completed registration with a non-empty snapshot and more than two creation requests"
	return nil
}
