(* Model of pkg/adaptation/result.go (function by function) and of the request
   loops of pkg/adaptation/adaptation.go (CreateContainer, UpdateContainer,
   StopContainer): how the responses of a chain of plugins are merged.
   No proofs here: the model must keep running when a proof breaks. *)
From Coq Require Import String Ascii List Bool ZArith.
From NRI Require Import Base.Strs Base.Assoc Model.Types.
Import ListNotations.
Open Scope string_scope.
Open Scope list_scope.

Inductive err := EConflict (k : lkey) | ESelfUpdate (id : string).
Inductive res (A : Type) := Ok (a : A) | Err (e : err).
Arguments Ok {A}. Arguments Err {A}.

Definition ledger := list lkey.

(* owners.claimX: refuse when taken, otherwise record *)
Definition claim (k : lkey) (o : ledger) : res ledger :=
  if lmem k o then Err (EConflict k) else Ok (k :: o).

Fixpoint claim_all (ks : list lkey) (o : ledger) : res ledger :=
  match ks with
  | [] => Ok o
  | k :: r => match claim k o with Err e => Err e | Ok o' => claim_all r o' end
  end.

(* ---------- the keyed list families: adjustMounts, adjustDevices, adjustEnv ---------- *)
Section Keyed.
Variables (E W : Type).
Variable ekey : E -> string.      (* key of a response / reply entry, possibly marked *)
Variable wkey : W -> string.      (* key of an entry of the container shown to plugins *)
Variable inj : E -> W.            (* how an accepted entry enters the container *)
Variable mk : string -> item.     (* ledger item of a key *)

Definition k_dels (es : list E) : list string :=
  map (fun e => rawkey (ekey e)) (filter (fun e => marked (ekey e)) es).
Definition k_adds (es : list E) : list E := filter (fun e => negb (marked (ekey e))) es.
Definition k_mods (es : list E) : list string := map ekey (k_adds es).
Definition k_lone (es : list E) : list E :=
  filter (fun e => marked (ekey e) && negb (smem (rawkey (ekey e)) (k_mods es))) es.

(* clearX for every collected entry that is marked for removal *)
Definition k_clear (id : string) (d : list string) (reply : list E) (o : ledger) : ledger :=
  fold_left (fun o e => if smem (ekey e) d then lremove (id, mk (ekey e)) o else o) reply o.

Definition kstep (id : string) (es reply : list E) (view : list W) (o : ledger)
  : res (list E * list W * ledger) :=
  match es with
  | [] => Ok (reply, view, o)
  | _ =>
      let d := k_dels es in
      let m := k_mods es in
      let o1 := k_clear id d reply o in
      let reply1 := filter (fun e => negb (smem (ekey e) d)) reply in
      let view1 := filter (fun w => negb (smem (wkey w) d) && negb (smem (wkey w) m)) view in
      match claim_all (map (fun k => (id, mk k)) m) o1 with
      | Err e => Err e
      | Ok o2 => Ok (reply1 ++ k_adds es ++ k_lone es, view1 ++ map inj (k_adds es), o2)
      end
  end.
End Keyed.
Arguments k_dels {E}. Arguments k_adds {E}. Arguments k_mods {E}. Arguments k_lone {E}.
Arguments k_clear {E}. Arguments kstep {E W}.

Definition env_entry_key (e : string * string) : string := fst e.
Definition env_to_oci (e : string * string) : string := fst e ++ "=" ++ snd e.
(* splitEnvVar: the key is what precedes the first '=' (the whole string without one) *)
Definition env_key (s : string) : string := fst (cut "="%char s).

(* ---------- adjustAnnotations (map typed) ---------- *)
Definition ann_dels (ann : list (string * string)) : list string :=
  map (fun e => rawkey (fst e)) (filter (fun e => marked (fst e)) ann).
Definition ann_sets (ann : list (string * string)) : list (string * string) :=
  filter (fun e => negb (marked (fst e))) ann.

Fixpoint ann_apply_sets (id : string) (dels : list string) (sets : list (string * string))
         (view reply : list (string * string)) (o : ledger)
  : res (list (string * string) * list (string * string) * ledger) :=
  match sets with
  | [] => Ok (view, reply, o)
  | (k, v) :: r =>
      let '(view1, reply1, o1) :=
        if smem k dels then (aremove k view, aset (mark k) "" reply, lremove (id, IAnn k) o)
        else (view, reply, o) in
      match claim (id, IAnn k) o1 with
      | Err e => Err e
      | Ok o2 => ann_apply_sets id dels r (aset k v view1) (aset k v reply1) o2
      end
  end.

Fixpoint ann_apply_lone (id : string) (lone : list string)
         (view reply : list (string * string)) (o : ledger)
  : list (string * string) * list (string * string) * ledger :=
  match lone with
  | [] => (view, reply, o)
  | k :: r => ann_apply_lone id r (aremove k view) (aset (mark k) "" (aremove k reply)) (lremove (id, IAnn k) o)
  end.

Definition adjust_annotations (id : string) (ann view reply : list (string * string)) (o : ledger)
  : res (list (string * string) * list (string * string) * ledger) :=
  let dels := ann_dels ann in
  let sets := ann_sets ann in
  match ann_apply_sets id dels sets view reply o with
  | Err e => Err e
  | Ok (view1, reply1, o1) =>
      let lone := filter (fun k => negb (smem k (map fst sets))) dels in
      Ok (ann_apply_lone id lone view1 reply1 o1)
  end.

(* ---------- resources ---------- *)
(* one scalar field after the other: claim, then write to every destination *)
Fixpoint claim_scalars (id : string) (fs : list sfield) (src : list (sfield * sval))
         (dst : list (sfield * sval)) (o : ledger) : res (list (sfield * sval)) * ledger :=
  match fs with
  | [] => (Ok dst, o)
  | f :: r =>
      match flookup f src with
      | None => claim_scalars id r src dst o
      | Some v =>
          match claim (id, IScal f) o with
          | Err e => (Err e, o)
          | Ok o' => claim_scalars id r src (fset f v dst) o'
          end
      end
  end.

Fixpoint claim_hp (id : string) (hp : list (string * Z)) (dst : list (string * Z)) (o : ledger)
  : res (list (string * Z)) * ledger :=
  match hp with
  | [] => (Ok dst, o)
  | (size, lim) :: r =>
      match claim (id, IHp size) o with
      | Err e => (Err e, o)
      | Ok o' => claim_hp id r (dst ++ [(size, lim)]) o'
      end
  end.

Fixpoint claim_unified (id : string) (uni : list (string * string)) (dst : list (string * string)) (o : ledger)
  : res (list (string * string)) * ledger :=
  match uni with
  | [] => (Ok dst, o)
  | (k, v) :: r =>
      match claim (id, IUni k) o with
      | Err e => (Err e, o)
      | Ok o' => claim_unified id r (aset k v dst) o'
      end
  end.

(* the common body of adjustResources and updateResources: src is the plugin's
   resources, dst the resources being written; the ledger is returned even on
   failure because claims made before a refused one stay recorded *)
Definition merge_resources (id : string) (src dst : resources) (o : ledger) : res resources * ledger :=
  match claim_scalars id scalars_a (r_scal src) (r_scal dst) o with
  | (Err e, o1) => (Err e, o1)
  | (Ok sc1, o1) =>
      match claim_hp id (r_hp src) (r_hp dst) o1 with
      | (Err e, o2) => (Err e, o2)
      | (Ok hp1, o2) =>
          match claim_unified id (r_uni src) (r_uni dst) o2 with
          | (Err e, o3) => (Err e, o3)
          | (Ok un1, o3) =>
              match claim_scalars id scalars_b (r_scal src) sc1 o3 with
              | (Err e, o4) => (Err e, o4)
              | (Ok sc2, o4) => (Ok {| r_scal := sc2; r_hp := hp1; r_uni := un1 |}, o4)
              end
          end
      end
  end.

(* ---------- state of one request ---------- *)
Record acc_update := { au_id : string; au_res : resources; au_ignore : bool }.

Record st := {
  s_create : option container;             (* create request: the container shown to plugins *)
  s_update : option (string * resources);  (* update request: container id, resources shown to plugins *)
  s_adjust : adjustment;                   (* reply.adjust *)
  s_updates : list acc_update;             (* accumulated updates, in order of first mention *)
  s_own : ledger
}.

Definition set_view (s : st) (c : container) : st :=
  {| s_create := Some c; s_update := s_update s; s_adjust := s_adjust s; s_updates := s_updates s; s_own := s_own s |}.

Definition with_c_ann c v := {| c_id := c_id c; c_ann := v; c_mounts := c_mounts c; c_env := c_env c; c_args := c_args c;
  c_hooks := c_hooks c; c_rlimits := c_rlimits c; c_devices := c_devices c; c_res := c_res c; c_cgroups := c_cgroups c; c_oom := c_oom c |}.
Definition with_c_mounts c v := {| c_id := c_id c; c_ann := c_ann c; c_mounts := v; c_env := c_env c; c_args := c_args c;
  c_hooks := c_hooks c; c_rlimits := c_rlimits c; c_devices := c_devices c; c_res := c_res c; c_cgroups := c_cgroups c; c_oom := c_oom c |}.
Definition with_c_env c v := {| c_id := c_id c; c_ann := c_ann c; c_mounts := c_mounts c; c_env := v; c_args := c_args c;
  c_hooks := c_hooks c; c_rlimits := c_rlimits c; c_devices := c_devices c; c_res := c_res c; c_cgroups := c_cgroups c; c_oom := c_oom c |}.
Definition with_c_args c v := {| c_id := c_id c; c_ann := c_ann c; c_mounts := c_mounts c; c_env := c_env c; c_args := v;
  c_hooks := c_hooks c; c_rlimits := c_rlimits c; c_devices := c_devices c; c_res := c_res c; c_cgroups := c_cgroups c; c_oom := c_oom c |}.
Definition with_c_hooks c v := {| c_id := c_id c; c_ann := c_ann c; c_mounts := c_mounts c; c_env := c_env c; c_args := c_args c;
  c_hooks := v; c_rlimits := c_rlimits c; c_devices := c_devices c; c_res := c_res c; c_cgroups := c_cgroups c; c_oom := c_oom c |}.
Definition with_c_rlimits c v := {| c_id := c_id c; c_ann := c_ann c; c_mounts := c_mounts c; c_env := c_env c; c_args := c_args c;
  c_hooks := c_hooks c; c_rlimits := v; c_devices := c_devices c; c_res := c_res c; c_cgroups := c_cgroups c; c_oom := c_oom c |}.
Definition with_c_devices c v := {| c_id := c_id c; c_ann := c_ann c; c_mounts := c_mounts c; c_env := c_env c; c_args := c_args c;
  c_hooks := c_hooks c; c_rlimits := c_rlimits c; c_devices := v; c_res := c_res c; c_cgroups := c_cgroups c; c_oom := c_oom c |}.
Definition with_c_res c v := {| c_id := c_id c; c_ann := c_ann c; c_mounts := c_mounts c; c_env := c_env c; c_args := c_args c;
  c_hooks := c_hooks c; c_rlimits := c_rlimits c; c_devices := c_devices c; c_res := v; c_cgroups := c_cgroups c; c_oom := c_oom c |}.
Definition with_c_cgroups c v := {| c_id := c_id c; c_ann := c_ann c; c_mounts := c_mounts c; c_env := c_env c; c_args := c_args c;
  c_hooks := c_hooks c; c_rlimits := c_rlimits c; c_devices := c_devices c; c_res := c_res c; c_cgroups := v; c_oom := c_oom c |}.
Definition with_c_oom c v := {| c_id := c_id c; c_ann := c_ann c; c_mounts := c_mounts c; c_env := c_env c; c_args := c_args c;
  c_hooks := c_hooks c; c_rlimits := c_rlimits c; c_devices := c_devices c; c_res := c_res c; c_cgroups := c_cgroups c; c_oom := v |}.

Definition with_a_ann a v := {| a_ann := v; a_mounts := a_mounts a; a_env := a_env a; a_args := a_args a; a_hooks := a_hooks a;
  a_rlimits := a_rlimits a; a_cdi := a_cdi a; a_devices := a_devices a; a_res := a_res a; a_cgroups := a_cgroups a; a_oom := a_oom a |}.
Definition with_a_mounts a v := {| a_ann := a_ann a; a_mounts := v; a_env := a_env a; a_args := a_args a; a_hooks := a_hooks a;
  a_rlimits := a_rlimits a; a_cdi := a_cdi a; a_devices := a_devices a; a_res := a_res a; a_cgroups := a_cgroups a; a_oom := a_oom a |}.
Definition with_a_env a v := {| a_ann := a_ann a; a_mounts := a_mounts a; a_env := v; a_args := a_args a; a_hooks := a_hooks a;
  a_rlimits := a_rlimits a; a_cdi := a_cdi a; a_devices := a_devices a; a_res := a_res a; a_cgroups := a_cgroups a; a_oom := a_oom a |}.
Definition with_a_args a v := {| a_ann := a_ann a; a_mounts := a_mounts a; a_env := a_env a; a_args := v; a_hooks := a_hooks a;
  a_rlimits := a_rlimits a; a_cdi := a_cdi a; a_devices := a_devices a; a_res := a_res a; a_cgroups := a_cgroups a; a_oom := a_oom a |}.
Definition with_a_hooks a v := {| a_ann := a_ann a; a_mounts := a_mounts a; a_env := a_env a; a_args := a_args a; a_hooks := v;
  a_rlimits := a_rlimits a; a_cdi := a_cdi a; a_devices := a_devices a; a_res := a_res a; a_cgroups := a_cgroups a; a_oom := a_oom a |}.
Definition with_a_rlimits a v := {| a_ann := a_ann a; a_mounts := a_mounts a; a_env := a_env a; a_args := a_args a; a_hooks := a_hooks a;
  a_rlimits := v; a_cdi := a_cdi a; a_devices := a_devices a; a_res := a_res a; a_cgroups := a_cgroups a; a_oom := a_oom a |}.
Definition with_a_cdi a v := {| a_ann := a_ann a; a_mounts := a_mounts a; a_env := a_env a; a_args := a_args a; a_hooks := a_hooks a;
  a_rlimits := a_rlimits a; a_cdi := v; a_devices := a_devices a; a_res := a_res a; a_cgroups := a_cgroups a; a_oom := a_oom a |}.
Definition with_a_devices a v := {| a_ann := a_ann a; a_mounts := a_mounts a; a_env := a_env a; a_args := a_args a; a_hooks := a_hooks a;
  a_rlimits := a_rlimits a; a_cdi := a_cdi a; a_devices := v; a_res := a_res a; a_cgroups := a_cgroups a; a_oom := a_oom a |}.
Definition with_a_res a v := {| a_ann := a_ann a; a_mounts := a_mounts a; a_env := a_env a; a_args := a_args a; a_hooks := a_hooks a;
  a_rlimits := a_rlimits a; a_cdi := a_cdi a; a_devices := a_devices a; a_res := v; a_cgroups := a_cgroups a; a_oom := a_oom a |}.
Definition with_a_cgroups a v := {| a_ann := a_ann a; a_mounts := a_mounts a; a_env := a_env a; a_args := a_args a; a_hooks := a_hooks a;
  a_rlimits := a_rlimits a; a_cdi := a_cdi a; a_devices := a_devices a; a_res := a_res a; a_cgroups := v; a_oom := a_oom a |}.
Definition with_a_oom a v := {| a_ann := a_ann a; a_mounts := a_mounts a; a_env := a_env a; a_args := a_args a; a_hooks := a_hooks a;
  a_rlimits := a_rlimits a; a_cdi := a_cdi a; a_devices := a_devices a; a_res := a_res a; a_cgroups := a_cgroups a; a_oom := v |}.

(* the adjustment part of a request's state: (container shown, reply, ledger) *)
Definition cra := (container * adjustment * ledger)%type.

Definition adj_annotations (ann : list (string * string)) (x : cra) : res cra :=
  let '(c, a, o) := x in
  match ann with
  | [] => Ok x
  | _ => match adjust_annotations (c_id c) ann (c_ann c) (a_ann a) o with
         | Err e => Err e
         | Ok (v, r, o') => Ok (with_c_ann c v, with_a_ann a r, o')
         end
  end.

Definition adj_mounts (ms : list mount) (x : cra) : res cra :=
  let '(c, a, o) := x in
  match kstep m_dest m_dest (fun m => m) IMount (c_id c) ms (a_mounts a) (c_mounts c) o with
  | Err e => Err e
  | Ok (r, v, o') => Ok (with_c_mounts c v, with_a_mounts a r, o')
  end.

Definition adj_env (es : list (string * string)) (x : cra) : res cra :=
  let '(c, a, o) := x in
  match kstep env_entry_key env_key env_to_oci IEnv (c_id c) es (a_env a) (c_env c) o with
  | Err e => Err e
  | Ok (r, v, o') => Ok (with_c_env c v, with_a_env a r, o')
  end.

Definition adj_devices (ds : list device) (x : cra) : res cra :=
  let '(c, a, o) := x in
  match kstep d_path d_path (fun d => d) IDev (c_id c) ds (a_devices a) (c_devices c) o with
  | Err e => Err e
  | Ok (r, v, o') => Ok (with_c_devices c v, with_a_devices a r, o')
  end.

Definition adj_args (args : list string) (x : cra) : res cra :=
  let '(c, a, o) := x in
  match args with
  | [] => Ok x
  | a0 :: rest =>
      let '(o1, args1) := if String.eqb a0 "" then (lremove (c_id c, IArgs) o, rest) else (o, args) in
      match claim (c_id c, IArgs) o1 with
      | Err e => Err e
      | Ok o2 => Ok (with_c_args c args1, with_a_args a args1, o2)
      end
  end.

Definition adj_hooks (h : hooks) (x : cra) : res cra :=
  let '(c, a, o) := x in
  Ok (with_c_hooks c (hooks_append (c_hooks c) h), with_a_hooks a (hooks_append (a_hooks a) h), o).

Definition adj_resources (r : resources) (x : cra) : res cra :=
  let '(c, a, o) := x in
  (* the container's and the reply's resources receive the same writes *)
  match merge_resources (c_id c) r (c_res c) o with
  | (Err e, _) => Err e
  | (Ok cres, o') =>
      match merge_resources (c_id c) r (a_res a) o with
      | (Err e, _) => Err e
      | (Ok ares, _) => Ok (with_c_res c cres, with_a_res a ares, o')
      end
  end.

Definition adj_cgroups (p : string) (x : cra) : res cra :=
  let '(c, a, o) := x in
  if String.eqb p "" then Ok x
  else match claim (c_id c, ICgroups) o with
       | Err e => Err e
       | Ok o' => Ok (with_c_cgroups c p, with_a_cgroups a p, o')
       end.

Definition adj_oom (v : option Z) (x : cra) : res cra :=
  let '(c, a, o) := x in
  match v with
  | None => Ok x
  | Some _ => match claim (c_id c, IOom) o with
              | Err e => Err e
              | Ok o' => Ok (with_c_oom c v, with_a_oom a v, o')
              end
  end.

Fixpoint adj_rlimits (ls : list rlimit) (x : cra) : res cra :=
  match ls with
  | [] => Ok x
  | l :: r =>
      let '(c, a, o) := x in
      match claim (c_id c, IRlimit (rl_type l)) o with
      | Err e => Err e
      | Ok o' => adj_rlimits r (with_c_rlimits c (c_rlimits c ++ [l]), with_a_rlimits a (a_rlimits a ++ [l]), o')
      end
  end.

Fixpoint adj_cdi (ds : list string) (x : cra) : res cra :=
  match ds with
  | [] => Ok x
  | d :: r =>
      let '(c, a, o) := x in
      match claim (c_id c, ICdi d) o with
      | Err e => Err e
      | Ok o' => adj_cdi r (c, with_a_cdi a (a_cdi a ++ [d]), o')
      end
  end.

Definition bind {A B} (x : res A) (f : A -> res B) : res B :=
  match x with Err e => Err e | Ok a => f a end.

(* result.adjust: the fixed order of the per-field functions *)
Definition adjust (p : adjustment) (x : cra) : res cra :=
  bind (adj_annotations (a_ann p) x) (fun x =>
  bind (adj_mounts (a_mounts p) x) (fun x =>
  bind (adj_env (a_env p) x) (fun x =>
  bind (adj_args (a_args p) x) (fun x =>
  bind (adj_hooks (a_hooks p) x) (fun x =>
  bind (adj_devices (a_devices p) x) (fun x =>
  bind (adj_resources (a_res p) x) (fun x =>
  bind (adj_cgroups (a_cgroups p) x) (fun x =>
  bind (adj_oom (a_oom p) x) (fun x =>
  bind (adj_rlimits (a_rlimits p) x) (fun x =>
  adj_cdi (a_cdi p) x)))))))))).

(* ---------- updates ---------- *)
Fixpoint find_acc (id : string) (l : list acc_update) : option acc_update :=
  match l with
  | [] => None
  | a :: r => if String.eqb id (au_id a) then Some a else find_acc id r
  end.

Fixpoint put_acc (a : acc_update) (l : list acc_update) : list acc_update :=
  match l with
  | [] => [a]
  | b :: r => if String.eqb (au_id a) (au_id b) then a :: r else b :: put_acc a r
  end.

(* getContainerUpdate + updateResources for one ContainerUpdate of one plugin *)
Definition update_one (u : update) (s : st) : res st :=
  let id := u_id u in
  let self := match s_create s with Some c => String.eqb (c_id c) id | None => false end in
  if self then Err (ESelfUpdate id) else
  let acc := match find_acc id (s_updates s) with
             | Some a => {| au_id := id; au_res := au_res a; au_ignore := au_ignore a && u_ignore u |}
             | None => {| au_id := id; au_res := res_empty; au_ignore := u_ignore u |}
             end in
  let ups1 := put_acc acc (s_updates s) in
  let s1 := {| s_create := s_create s; s_update := s_update s; s_adjust := s_adjust s; s_updates := ups1; s_own := s_own s |} in
  match u_res u with
  | None => Ok s1
  | Some r =>
      let own_req := match s_update s with Some (oid, _) => String.eqb oid id | None => false end in
      let base := if own_req then match s_update s with Some (_, rr) => rr | None => res_empty end else au_res acc in
      match merge_resources id r base (s_own s) with
      | (Err e, o') =>
          if u_ignore u
          then Ok {| s_create := s_create s; s_update := s_update s; s_adjust := s_adjust s; s_updates := ups1; s_own := o' |}
          else Err e
      | (Ok r', o') =>
          let acc' := {| au_id := id; au_res := r'; au_ignore := au_ignore acc |} in
          Ok {| s_create := s_create s;
                s_update := if own_req then match s_update s with Some (oid, _) => Some (oid, r') | None => None end else s_update s;
                s_adjust := s_adjust s; s_updates := put_acc acc' ups1; s_own := o' |}
      end
  end.

Fixpoint update_all (us : list update) (s : st) : res st :=
  match us with
  | [] => Ok s
  | u :: r => bind (update_one u s) (update_all r)
  end.

(* result.apply for one plugin's response *)
Definition apply_response (rp : response) (s : st) : res st :=
  bind (match s_create s, rp_adjust rp with
        | Some c, Some p =>
            match adjust p (c, s_adjust s, s_own s) with
            | Err e => Err e
            | Ok (c', a', o') => Ok {| s_create := Some c'; s_update := s_update s; s_adjust := a'; s_updates := s_updates s; s_own := o' |}
            end
        | _, _ => Ok s
        end) (update_all (rp_updates rp)).

(* ---------- requests ---------- *)
Inductive request :=
| RCreate (c : container)
| RUpdate (id : string) (r : resources)
| RStop (id : string).

Definition init_state (rq : request) : st :=
  match rq with
  | RCreate c => {| s_create := Some c; s_update := None; s_adjust := adj_empty; s_updates := []; s_own := [] |}
  | RUpdate id r => {| s_create := None; s_update := Some (id, r); s_adjust := adj_empty; s_updates := []; s_own := [] |}
  | RStop _ => {| s_create := None; s_update := None; s_adjust := adj_empty; s_updates := []; s_own := [] |}
  end.

(* what a plugin is shown before it answers *)
Inductive shown := ShownContainer (c : container) | ShownResources (r : resources) | ShownNothing.
Definition view_of (s : st) : shown :=
  match s_create s, s_update s with
  | Some c, _ => ShownContainer c
  | None, Some (_, r) => ShownResources r
  | None, None => ShownNothing
  end.

(* the plugin loop: returns the views shown to the plugins that were asked, and the outcome *)
Fixpoint run_plugins (rps : list response) (s : st) (views : list shown) : list shown * res st :=
  match rps with
  | [] => (views, Ok s)
  | rp :: r =>
      let views' := views ++ [view_of s] in
      match apply_response rp s with
      | Err e => (views', Err e)
      | Ok s' => run_plugins r s' views'
      end
  end.

Definition run_request (rq : request) (rps : list response) : list shown * res st :=
  run_plugins rps (init_state rq) [].

(* the updates handed to the runtime: createContainerResponse / updateContainerResponse /
   stopContainerResponse.  None stands for the nil entry appended for an untouched container. *)
Definition response_updates (rq : request) (s : st) : list (option acc_update) :=
  match rq with
  | RUpdate id _ =>
      map Some (filter (fun a => negb (String.eqb id (au_id a))) (s_updates s)) ++ [find_acc id (s_updates s)]
  | _ => map Some (s_updates s)
  end.
