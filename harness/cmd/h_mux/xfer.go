package main

import (
	"bytes"
	"crypto/sha256"
	"encoding/binary"
	"encoding/hex"
	"fmt"
	"net"
	"sync"
	"sync/atomic"
	"time"

	"github.com/containerd/nri/pkg/net/multiplex"
)

// ---------------------------------------------------------------- scenario

type wr struct {
	ID   uint32 `json:"id"`
	Size int    `json:"size"`
}

// xferScn: both ends open IDs; on each side every writer goroutine issues its Writes in
// order; one reader goroutine per (side, id) keeps up with the queue (flow control by
// credits so that at most QLen frames per connection are ever unread).
type xferScn struct {
	Transport string    `json:"transport"`
	QLen      int       `json:"qlen"`
	IDs       []uint32  `json:"ids"`
	Progs     [2][][]wr `json:"progs"` // side -> writer -> writes
	ByteLevel bool      `json:"bytelevel"`
	// Gated: writers (indices into Progs[side]) that start only when their side's trunk is in the
	// middle of a payload of a MiB or more, i.e. while another writer's multi-frame Write holds the
	// trunk: they then compete for the trunk at every point where that Write could let go of it
	Gated [2][]int `json:"gated,omitempty"`
	// Gone[d]: ids the writers of side d also write to although nobody can read them at the other end:
	// never opened there, or (GoneClosed[d], a subset) opened there and closed with conn.Close before the
	// start.  The receiving reader has to drop exactly those frames and nothing else.
	Gone       [2][]uint32 `json:"gone,omitempty"`
	GoneClosed [2][]uint32 `json:"goneclosed,omitempty"`
	// Blocked: the readers of both Muxes stay blocked (WithBlockedRead) until every writer has finished
	// ("written": everything is in the socket buffer back to back, as when a runtime unblocks a plugin's Mux
	// late) or until a payload of a MiB or more is on its way ("big").  Unix socketpair only.
	Blocked string `json:"blocked,omitempty"`
	// LateReaders: the application's readers start only when every writer has finished: the frames wait in the
	// connections' queues, up to the configured queue length (the credits), also far above the default length
	LateReaders bool `json:"latereaders,omitempty"`
	// Deadlines[side]: Set*Deadline calls made on logical connections of that side just before the writers start,
	// with a deadline that has expired already.  No-ops for the Mux: the transfer on every connection is unaffected
	Deadlines [2][]dlop `json:"deadlines,omitempty"`
	// Plain[side]: the Mux is created without WithBlockedRead (never blocked).  Unblocks[side]: that many extra
	// Unblock() calls, the first just before the writers start, the others while they write.  No-ops for the Mux.
	Plain    [2]bool `json:"plain,omitempty"`
	Unblocks [2]int  `json:"unblocks,omitempty"`
}

type dlop struct {
	ID   uint32 `json:"id"`
	Kind int    `json:"kind"` // 0 both, 1 read, 2 write
}

// blockedWait: a blocked scenario is unblocked after this time at the latest (the socket buffer was too
// small for the whole traffic: the scenario is still valid, only less adversarial)
const blockedWait = 3 * time.Second

// gateWait is how long a gated writer waits for the large payload before it writes anyway.
const gateWait = 5 * time.Second

type frameHdr struct {
	ID   uint32 `json:"id"`
	Size int    `json:"size"`
}

type serialWrite struct {
	ID     uint32 `json:"id"`
	Size   int    `json:"size"`
	Writer int    `json:"writer"` // -1: the end marker written by the harness after all writers finished
	Seq    int    `json:"seq"`
	Hex    string `json:"hex,omitempty"`
}

type readObs struct {
	ID    uint32   `json:"id"`
	Sizes []int    `json:"sizes"`
	Hex   []string `json:"hex,omitempty"`
	Hash  string   `json:"hash"` // sha256 of everything read
	Want  string   `json:"want"` // sha256 of everything written to the id in trunk order
	Err   string   `json:"err,omitempty"`
}

// dirObs: one direction (side d writes, side 1-d reads)
type dirObs struct {
	Frames   []frameHdr    `json:"frames"`
	Serial   []serialWrite `json:"serial"`
	TrunkHex string        `json:"trunk,omitempty"`
	Regroup  string        `json:"regroup,omitempty"` // non-empty: the trunk does not parse into whole writes
	Reads    []readObs     `json:"reads"`
	Bytes    int           `json:"bytes"`
}

type xferObs struct {
	Dir   [2]dirObs `json:"dir"`
	Fails []string  `json:"fails,omitempty"` // write errors, read errors, time-outs
	Hung  bool      `json:"hung,omitempty"`  // the transfer did not complete within the bound
	Early bool      `json:"early,omitempty"` // a blocked scenario was unblocked by the timer
}

// payload of write number seq of writer w: the first byte identifies the writer, the
// content depends on seq and position so that lost, duplicated or reordered chunks show.
func payload(writer, seq, size int) []byte {
	b := make([]byte, size)
	base := 48 + 6*writer
	for p := range b {
		b[p] = byte(base + (seq*3+p+p/7)%6)
	}
	return b
}

const maxWriters = 12

func endMarker(id uint32) []byte { return []byte(fmt.Sprintf("~END~%d", id)) }

func framesOf(size, maxp int) int {
	if size == 0 {
		return 1
	}
	return (size + maxp - 1) / maxp
}

// credits: at most n frames of one connection in flight
type credits struct {
	mu   sync.Mutex
	cond *sync.Cond
	n    int
	dead bool
}

func newCredits(n int) *credits {
	c := &credits{n: n}
	c.cond = sync.NewCond(&c.mu)
	return c
}
func (c *credits) acquire(k int) bool {
	c.mu.Lock()
	defer c.mu.Unlock()
	for c.n < k && !c.dead {
		c.cond.Wait()
	}
	if c.dead {
		return false
	}
	c.n -= k
	return true
}
func (c *credits) release(k int) {
	c.mu.Lock()
	c.n += k
	c.mu.Unlock()
	c.cond.Broadcast()
}
func (c *credits) kill() {
	c.mu.Lock()
	c.dead = true
	c.mu.Unlock()
	c.cond.Broadcast()
}

// ---------------------------------------------------------------- execution (child)

func execXfer(s *xferScn, maxp int) *xferObs {
	o := &xferObs{}
	var fmu sync.Mutex
	fail := func(format string, a ...interface{}) {
		fmu.Lock()
		if len(o.Fails) < 20 {
			o.Fails = append(o.Fails, fmt.Sprintf(format, a...))
		}
		fmu.Unlock()
	}
	ca, cb, err := connPair(s.Transport)
	if err != nil {
		fail("harness: transport: %v", err)
		return o
	}
	recs := [2]*recConn{newRec(ca, -1), newRec(cb, -1)}
	var muxes [2]multiplex.Mux
	conns := [2]map[uint32]net.Conn{{}, {}}
	for side := 0; side < 2; side++ {
		if s.Plain[side] && s.Blocked == "" {
			muxes[side] = multiplex.Multiplex(recs[side], multiplex.WithReadQueueLength(s.QLen))
		} else {
			muxes[side] = multiplex.Multiplex(recs[side], multiplex.WithReadQueueLength(s.QLen), multiplex.WithBlockedRead())
		}
		for _, id := range append(append([]uint32{}, s.IDs...), s.Gone[side]...) {
			cn, err := muxes[side].Open(multiplex.ConnID(id))
			if err != nil {
				fail("Open(%d): %v", id, err)
				return o
			}
			conns[side][id] = cn
		}
	}
	for side := 0; side < 2; side++ {
		// ids that were open at the receiving end and are closed again before anything is sent
		for _, id := range s.GoneClosed[1-side] {
			cn, err := muxes[side].Open(multiplex.ConnID(id))
			if err == nil {
				err = cn.Close()
			}
			if err != nil {
				fail("Open+Close(%d): %v", id, err)
				return o
			}
		}
	}
	unblock := func() {
		for side := 0; side < 2; side++ {
			if !(s.Plain[side] && s.Blocked == "") {
				muxes[side].Unblock()
			}
		}
	}
	writtenC := make(chan struct{})
	var early atomic.Bool
	switch s.Blocked {
	case "":
		unblock()
	case "written":
		go func() {
			select {
			case <-writtenC:
			case <-time.After(blockedWait):
				early.Store(true)
			}
			unblock()
		}()
	case "big":
		go func() {
			t := time.After(blockedWait)
			for side := 0; side < 2; side++ {
				select {
				case <-recs[side].bigC:
				case <-writtenC:
				case <-t:
					early.Store(true)
				}
			}
			unblock()
		}()
	}
	defer func() { o.Early = early.Load() }()

	// largest frame any reader can get
	bufSize := 64
	for side := 0; side < 2; side++ {
		for _, prog := range s.Progs[side] {
			for _, w := range prog {
				n := w.Size
				if n > maxp {
					n = maxp
				}
				if n > bufSize {
					bufSize = n
				}
			}
		}
	}

	// cr[d][id]: credits of direction d (side d writes)
	var cr [2]map[uint32]*credits
	for d := 0; d < 2; d++ {
		cr[d] = map[uint32]*credits{}
		for _, id := range s.IDs {
			cr[d][id] = newCredits(s.QLen)
		}
	}
	killAll := func() {
		for d := 0; d < 2; d++ {
			for _, c := range cr[d] {
				c.kill()
			}
		}
	}

	type readState struct {
		mu    sync.Mutex
		sizes []int
		hexes []string
		h     interface {
			Write([]byte) (int, error)
			Sum([]byte) []byte
		}
		err string
	}
	reads := [2]map[uint32]*readState{{}, {}} // indexed by direction
	readersGo, writersDone := make(chan struct{}), make(chan struct{})
	if s.LateReaders {
		go func() {
			select {
			case <-writersDone:
			case <-time.After(blockedWait):
				early.Store(true) // the writers ran out of credits: the generator asked for more than the queue holds
			}
			close(readersGo)
		}()
	} else {
		close(readersGo)
	}
	var rwg sync.WaitGroup
	for d := 0; d < 2; d++ {
		for _, id := range s.IDs {
			rs := &readState{h: sha256.New()}
			reads[d][id] = rs
			rwg.Add(1)
			go func(d int, id uint32, rs *readState) {
				defer rwg.Done()
				<-readersGo
				cn := conns[1-d][id]
				buf := make([]byte, bufSize)
				end := endMarker(id)
				for {
					n, err := cn.Read(buf)
					rs.mu.Lock()
					if err != nil {
						rs.err = err.Error()
						rs.mu.Unlock()
						fail("dir %d id %d: Read: %v", d, id, err)
						killAll()
						return
					}
					rs.sizes = append(rs.sizes, n)
					rs.h.Write(buf[:n])
					if s.ByteLevel {
						rs.hexes = append(rs.hexes, hex.EncodeToString(buf[:n]))
					}
					rs.mu.Unlock()
					cr[d][id].release(1)
					if bytes.Equal(buf[:n], end) {
						return
					}
				}
			}(d, id, rs)
		}
	}

	var wwg sync.WaitGroup
	startC := make(chan struct{})
	for side := 0; side < 2; side++ {
		gated := map[int]bool{}
		for _, w := range s.Gated[side] {
			gated[w] = true
		}
		for w, prog := range s.Progs[side] {
			wwg.Add(1)
			// payloads are made before the start: the writers do nothing but write
			bufs := make([][]byte, len(prog))
			for seq, x := range prog {
				bufs[seq] = payload(w, seq, x.Size)
			}
			go func(side, w int, prog []wr, bufs [][]byte, gated bool) {
				defer wwg.Done()
				<-startC
				if gated {
					select {
					case <-recs[side].bigC:
					case <-time.After(gateWait):
					}
				}
				for seq, x := range prog {
					if c0 := cr[side][x.ID]; c0 != nil && !c0.acquire(framesOf(x.Size, maxp)) {
						return
					}
					b := bufs[seq]
					n, err := conns[side][x.ID].Write(b)
					if err != nil || n != len(b) {
						fail("side %d writer %d write %d (id %d, %d bytes): n=%d err=%v", side, w, seq, x.ID, x.Size, n, err)
						killAll()
						return
					}
				}
			}(side, w, prog, bufs, gated[w])
		}
	}
	for side := 0; side < 2; side++ {
		for _, d := range s.Deadlines[side] {
			t := time.Now().Add(-time.Second)
			var err error
			switch d.Kind {
			case 1:
				err = conns[side][d.ID].SetReadDeadline(t)
			case 2:
				err = conns[side][d.ID].SetWriteDeadline(t)
			default:
				err = conns[side][d.ID].SetDeadline(t)
			}
			if err != nil {
				fail("side %d id %d: Set*Deadline: %v", side, d.ID, err)
			}
		}
	}
	for side := 0; side < 2; side++ {
		if s.Unblocks[side] > 0 {
			muxes[side].Unblock()
			go func(side int) {
				for k := 1; k < s.Unblocks[side]; k++ {
					time.Sleep(200 * time.Microsecond)
					muxes[side].Unblock()
				}
			}(side)
		}
	}
	close(startC)
	finished := make(chan struct{})
	go func() {
		wwg.Wait()
		close(writersDone)
		// end markers, one per connection and direction
		for side := 0; side < 2; side++ {
			for _, id := range s.IDs {
				if !cr[side][id].acquire(1) {
					continue
				}
				b := endMarker(id)
				if n, err := conns[side][id].Write(b); err != nil || n != len(b) {
					fail("side %d end marker id %d: n=%d err=%v", side, id, n, err)
					killAll()
				}
			}
		}
		close(writtenC)
		rwg.Wait()
		close(finished)
	}()
	// the whole transfer takes milliseconds (a second with multi-megabyte payloads)
	xferBound, closeBound := opBound, opBound
	if bufSize > 1<<20 {
		xferBound = 2 * opBound
	}
	select {
	case <-finished:
	case <-time.After(xferBound):
		fail("transfer did not complete within %v (lost frame or hang)", xferBound)
		o.Hung = true
		closeBound = afterHangBound
		killAll()
	}
	muxes[0].Close()
	muxes[1].Close()
	select {
	case <-finished:
	case <-time.After(closeBound):
		fail("readers or writers still blocked %v after Close", closeBound)
	}

	for d := 0; d < 2; d++ {
		log := recs[d].Log()
		do := &o.Dir[d]
		do.Bytes = len(log)
		if s.ByteLevel {
			do.TrunkHex = hex.EncodeToString(log)
		}
		regroup(s, d, log, do)
		// expected content per id, in trunk order
		want := map[uint32]interface {
			Write([]byte) (int, error)
			Sum([]byte) []byte
		}{}
		for _, id := range s.IDs {
			want[id] = sha256.New()
		}
		if do.Regroup == "" {
			for _, sw := range do.Serial {
				if want[sw.ID] == nil {
					continue // an id nobody reads at the other end
				}
				if sw.Writer < 0 {
					want[sw.ID].Write(endMarker(sw.ID))
				} else {
					want[sw.ID].Write(payload(sw.Writer, sw.Seq, sw.Size))
				}
			}
		}
		for _, id := range s.IDs {
			rs := reads[d][id]
			rs.mu.Lock()
			ro := readObs{ID: id, Sizes: rs.sizes, Hex: rs.hexes, Err: rs.err,
				Hash: hex.EncodeToString(rs.h.Sum(nil)), Want: hex.EncodeToString(want[id].Sum(nil))}
			ro.Sizes = append([]int{}, ro.Sizes...)
			ro.Hex = append([]string(nil), ro.Hex...)
			rs.mu.Unlock()
			do.Reads = append(do.Reads, ro)
		}
	}
	return o
}

// regroup parses the recorded trunk of direction d into frames and the frames into whole
// Write calls (the serialisation chosen by the write lock).  It assumes nothing about chunk
// sizes: a Write is recognised by the writer-specific first byte of its first frame and
// must continue, on the same id and without any foreign frame in between, until all its
// bytes have appeared.
func regroup(s *xferScn, d int, log []byte, do *dirObs) {
	type fr struct {
		id  uint32
		pay []byte
	}
	var frames []fr
	for off := 0; off < len(log); {
		if len(log)-off < 8 {
			do.Regroup = fmt.Sprintf("trailing %d bytes are not a frame header", len(log)-off)
			return
		}
		id := binary.BigEndian.Uint32(log[off:])
		n := int(binary.BigEndian.Uint32(log[off+4:]))
		if n > len(log)-off-8 {
			do.Regroup = fmt.Sprintf("frame at offset %d announces %d bytes, %d left", off, n, len(log)-off-8)
			return
		}
		frames = append(frames, fr{id, log[off+8 : off+8+n]})
		do.Frames = append(do.Frames, frameHdr{id, n})
		off += 8 + n
	}
	progs := s.Progs[d]
	next := make([]int, len(progs)) // next write of each writer not yet matched (non-empty ones)
	empties := map[uint32]int{}
	for _, prog := range progs {
		for _, w := range prog {
			if w.Size == 0 {
				empties[w.ID]++
			}
		}
	}
	ended := map[uint32]bool{}
	for i := 0; i < len(frames); {
		f := frames[i]
		if ended[f.id] {
			do.Regroup = fmt.Sprintf("frame %d on id %d after its end marker", i, f.id)
			return
		}
		if len(f.pay) == 0 {
			if empties[f.id] == 0 {
				do.Regroup = fmt.Sprintf("frame %d: empty frame on id %d that no empty Write accounts for", i, f.id)
				return
			}
			empties[f.id]--
			do.Serial = append(do.Serial, serialWrite{ID: f.id, Size: 0, Writer: 0, Seq: -1})
			i++
			continue
		}
		if f.pay[0] == '~' {
			if !bytes.Equal(f.pay, endMarker(f.id)) {
				do.Regroup = fmt.Sprintf("frame %d: damaged end marker on id %d", i, f.id)
				return
			}
			ended[f.id] = true
			sw := serialWrite{ID: f.id, Size: len(f.pay), Writer: -1}
			if s.ByteLevel {
				sw.Hex = hex.EncodeToString(f.pay)
			}
			do.Serial = append(do.Serial, sw)
			i++
			continue
		}
		w := (int(f.pay[0]) - 48) / 6
		if f.pay[0] < 48 || w >= len(progs) {
			do.Regroup = fmt.Sprintf("frame %d: first byte %#x belongs to no writer", i, f.pay[0])
			return
		}
		for next[w] < len(progs[w]) && progs[w][next[w]].Size == 0 {
			next[w]++
		}
		if next[w] >= len(progs[w]) {
			do.Regroup = fmt.Sprintf("frame %d: writer %d has no Write left", i, w)
			return
		}
		x := progs[w][next[w]]
		want := payload(w, next[w], x.Size)
		if x.ID != f.id {
			do.Regroup = fmt.Sprintf("frame %d: writer %d's next Write goes to id %d, frame is on id %d", i, w, x.ID, f.id)
			return
		}
		got := 0
		for got < x.Size {
			if i >= len(frames) {
				do.Regroup = fmt.Sprintf("trunk ends inside Write %d of writer %d", next[w], w)
				return
			}
			g := frames[i]
			if g.id != x.ID || len(g.pay) == 0 || got+len(g.pay) > x.Size || !bytes.Equal(g.pay, want[got:got+len(g.pay)]) {
				do.Regroup = fmt.Sprintf("frame %d (id %d, %d bytes) is not the continuation of Write %d of writer %d (id %d, %d of %d bytes so far): writes are interleaved or damaged",
					i, g.id, len(g.pay), next[w], w, x.ID, got, x.Size)
				return
			}
			got += len(g.pay)
			i++
		}
		sw := serialWrite{ID: x.ID, Size: x.Size, Writer: w, Seq: next[w]}
		if s.ByteLevel {
			sw.Hex = hex.EncodeToString(want)
		}
		do.Serial = append(do.Serial, sw)
		next[w]++
	}
	for w := range progs {
		for next[w] < len(progs[w]) && progs[w][next[w]].Size == 0 {
			next[w]++
		}
		if next[w] < len(progs[w]) {
			do.Regroup = fmt.Sprintf("Write %d of writer %d never appeared on the trunk", next[w], w)
			return
		}
	}
	for id, n := range empties {
		if n != 0 {
			do.Regroup = fmt.Sprintf("%d empty Writes to id %d never appeared on the trunk", n, id)
			return
		}
	}
	for _, id := range s.IDs {
		if !ended[id] {
			do.Regroup = fmt.Sprintf("end marker of id %d never appeared on the trunk", id)
			return
		}
	}
}
