package main

import (
	"fmt"
	"sync"

	rspec "github.com/opencontainers/runtime-spec/specs-go"
	rgen "github.com/opencontainers/runtime-tools/generate"

	"github.com/containerd/nri/pkg/api"
	xgen "github.com/containerd/nri/pkg/runtime-tools/generate"

	"verif/harness/internal/coqfmt"
	"verif/harness/internal/nm"
)

// DevRule is a device cgroup rule of the spec.
type DevRule struct {
	Allow  bool   `json:"allow"`
	Type   string `json:"type"`
	Major  *int64 `json:"major"`
	Minor  *int64 `json:"minor"`
	Access string `json:"access"`
}

// SpecObs is the observable part of an OCI spec (DESIGN.md I3).
type SpecObs struct {
	C     *nm.Container `json:"c"`
	CDI   []string      `json:"cdi,omitempty"`
	Rules []DevRule     `json:"rules,omitempty"`
}

func (s *SpecObs) Coq() string {
	rules := make([]string, len(s.Rules))
	for i, r := range s.Rules {
		rules[i] = fmt.Sprintf("{| dr_type := %s; dr_major := %s; dr_minor := %s; dr_access := %s |}",
			coqfmt.Str(r.Type), coqfmt.OptZ(r.Major), coqfmt.OptZ(r.Minor), coqfmt.Str(r.Access))
	}
	return fmt.Sprintf("{| sp_c := %s; sp_cdi := %s; sp_rules := %s |}", s.C.Coq(), coqfmt.StrList(s.CDI), coqfmt.List(rules))
}

// buildSpec makes the OCI spec a runtime would hold for the container.
func buildSpec(c *nm.Container) *rspec.Spec {
	s := &rspec.Spec{
		Process: &rspec.Process{Args: append([]string(nil), c.Args...), Env: append([]string(nil), c.Env...)},
		Linux:   &rspec.Linux{CgroupsPath: c.Cgroups},
	}
	if len(c.Ann) > 0 {
		s.Annotations = map[string]string{}
		for _, e := range c.Ann {
			s.Annotations[e.K] = e.V
		}
	}
	for _, m := range c.Mounts {
		s.Mounts = append(s.Mounts, m.ToAPI().ToOCI(nil))
	}
	if !c.Hooks.Empty() {
		h := c.Hooks.ToAPI()
		conv := func(l []*api.Hook) []rspec.Hook {
			var out []rspec.Hook
			for _, x := range l {
				out = append(out, x.ToOCI())
			}
			return out
		}
		s.Hooks = &rspec.Hooks{Prestart: conv(h.Prestart), CreateRuntime: conv(h.CreateRuntime), CreateContainer: conv(h.CreateContainer),
			StartContainer: conv(h.StartContainer), Poststart: conv(h.Poststart), Poststop: conv(h.Poststop)}
	}
	for _, l := range c.Rlimits {
		s.Process.Rlimits = append(s.Process.Rlimits, rspec.POSIXRlimit{Type: l.Type, Hard: l.Hard, Soft: l.Soft})
	}
	for _, d := range c.Devices {
		s.Linux.Devices = append(s.Linux.Devices, d.ToAPI().ToOCI())
	}
	if !c.Res.Empty() {
		s.Linux.Resources = c.Res.ToAPI().ToOCI()
	}
	if c.Oom != nil {
		v := int(*c.Oom)
		s.Process.OOMScoreAdj = &v
	}
	return s
}

var (
	cdiMu   sync.Mutex
	cdiSeen = map[*rspec.Spec][]string{}
)

func classIndex(c string) uint16 {
	for i, x := range classes {
		if x == c {
			return uint16(i + 1)
		}
	}
	return 999
}

// newGenerator wraps a spec in the project's generator with recording call-backs.
func newGenerator(s *rspec.Spec) *xgen.Generator {
	rg := &rgen.Generator{Config: s}
	return xgen.SpecGenerator(rg,
		xgen.WithBlockIOResolver(func(class string) (*rspec.LinuxBlockIO, error) {
			w := classIndex(class)
			return &rspec.LinuxBlockIO{Weight: &w}, nil
		}),
		xgen.WithRdtResolver(func(class string) (*rspec.LinuxIntelRdt, error) {
			return &rspec.LinuxIntelRdt{ClosID: class}, nil
		}),
		xgen.WithCDIDeviceInjector(func(sp *rspec.Spec, names []string) error {
			cdiMu.Lock()
			cdiSeen[sp] = append(cdiSeen[sp], names...)
			cdiMu.Unlock()
			return nil
		}))
}

// observe reads the observable part of a spec (and forgets its CDI record).
func observe(s *rspec.Spec) *SpecObs {
	c := &nm.Container{Ann: nm.SortedKVs(s.Annotations)}
	if s.Process != nil {
		c.Args = append([]string(nil), s.Process.Args...)
		c.Env = append([]string(nil), s.Process.Env...)
		for _, l := range s.Process.Rlimits {
			c.Rlimits = append(c.Rlimits, nm.Rlimit{Type: l.Type, Hard: l.Hard, Soft: l.Soft})
		}
		if s.Process.OOMScoreAdj != nil {
			v := int64(*s.Process.OOMScoreAdj)
			c.Oom = &v
		}
	}
	for _, m := range api.FromOCIMounts(s.Mounts) {
		c.Mounts = append(c.Mounts, nm.MountFromAPI(m))
	}
	c.Hooks = nm.HooksFromAPI(api.FromOCIHooks(s.Hooks))
	o := &SpecObs{C: c}
	if s.Linux != nil {
		c.Cgroups = s.Linux.CgroupsPath
		for _, d := range api.FromOCILinuxDevices(s.Linux.Devices) {
			c.Devices = append(c.Devices, nm.DeviceFromAPI(d))
		}
		c.Res = nm.ResFromAPI(api.FromOCILinuxResources(s.Linux.Resources, nil))
		if r := s.Linux.Resources; r != nil {
			if r.BlockIO != nil && r.BlockIO.Weight != nil {
				cl := "?"
				if i := int(*r.BlockIO.Weight); i >= 1 && i <= len(classes) {
					cl = classes[i-1]
				}
				c.Res.Scal = append(c.Res.Scal, nm.SVal{F: "BlockioClass", S: cl})
			}
			for _, d := range r.Devices {
				o.Rules = append(o.Rules, DevRule{Allow: d.Allow, Type: d.Type, Major: d.Major, Minor: d.Minor, Access: d.Access})
			}
		}
		if s.Linux.IntelRdt != nil {
			c.Res.Scal = append(c.Res.Scal, nm.SVal{F: "RdtClass", S: s.Linux.IntelRdt.ClosID})
		}
		sortScal(c.Res)
	}
	if c.Res == nil {
		c.Res = &nm.Res{}
	}
	cdiMu.Lock()
	o.CDI = cdiSeen[s]
	delete(cdiSeen, s)
	cdiMu.Unlock()
	return o
}

// applyAll applies the adjustments one after another with the real generator.
func applyAll(c *nm.Container, adjs []*api.ContainerAdjustment) (*SpecObs, error) {
	s := buildSpec(c)
	for _, a := range adjs {
		if err := newGenerator(s).Adjust(a); err != nil {
			return nil, err
		}
	}
	return observe(s), nil
}

// xgenWithInjector wraps a spec in the project's generator with the given CDI injector (implementation-only
// stream of the gen driver).
func xgenWithInjector(s *rspec.Spec, inj func(*rspec.Spec, []string) error) *xgen.Generator {
	rg := &rgen.Generator{Config: s}
	return xgen.SpecGenerator(rg, xgen.WithCDIDeviceInjector(inj))
}
