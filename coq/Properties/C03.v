(* C03 — the combined adjustment equals applying each plugin's adjustment in turn.
   Only statements here; proofs are in Proofs/Combine*.v.  The predicates are those evaluated by
   holds_C03 (Run/RunAdapt.v) on the implementation's observations: obs_eqb, apply_adj, apply_all, adjs_of. *)
From Coq Require Import String List Bool ZArith.
From NRI Require Import Base.Strs Base.Assoc Model.Types Model.Result Model.Generate Spec.Apply Spec.GenSpec Run.RunAdapt
  Proofs.KeyedProofs Proofs.CombineWf Proofs.CombineBase Proofs.CombineProofs Proofs.CombineCorollaries Proofs.CombineLastWriter Proofs.CombineViaGen Proofs.CombineWitness.
Import ListNotations.

(* For every original container, every number of plugins and every well-formed history (wf_create:
   W7, W7=, W4, W7' of Proofs/CombineWf.v — nothing is assumed of the original container, nothing about
   repeated keys): when the creation request succeeds, the combined adjustment returned to the runtime,
   applied to the original by the reference semantics, is observably the container obtained by applying
   every plugin's adjustment one after another in plugin order; and the CDI devices of the reply are
   those of all plugins in plugin order.  These are exactly the Coq-side conjuncts of holds_C03. *)
Theorem C03_combined_equals_sequential :
  forall c0 rps s,
    wf_create c0 rps = true ->
    snd (run_request (RCreate c0) rps) = Ok s ->
    obs_eqb (apply_adj c0 (s_adjust s)) (apply_all c0 (adjs_of rps)) = true /\
    a_cdi (s_adjust s) = concat (map a_cdi (adjs_of rps)).
Proof. exact combined_equals_sequential. Qed.
Print Assumptions C03_combined_equals_sequential.

(* the same as the boolean conjunction holds_C03 computes *)
Theorem C03_holds_conjuncts :
  forall c0 rps s,
    wf_create c0 rps = true ->
    snd (run_request (RCreate c0) rps) = Ok s ->
    obs_eqb (apply_adj c0 (s_adjust s)) (apply_all c0 (adjs_of rps)) &&
    list_eqb String.eqb (a_cdi (s_adjust s)) (concat (map a_cdi (adjs_of rps))) = true.
Proof. exact combined_equals_sequential_bool. Qed.
Print Assumptions C03_holds_conjuncts.

(* non-vacuity: four plugins (sets and lone removals of originals / lone removals of plugin-added items and
   remove-then-set / no adjustment but an update of another container / re-set after the removal) over every
   family; the original has duplicate keys, a marked key and an environment entry without '=' *)
Example C03_example :
  wf_create ex_c0 ex_rps = true /\ exists s, snd (run_request (RCreate ex_c0) ex_rps) = Ok s.
Proof. split; [exact ex_wf|exact ex_succeeds]. Qed.

(* "hooks, rlimits and CDI devices of all plugins are all present in plugin order" *)
Theorem C03_appended_in_plugin_order :
  forall c0 rps s,
    wf_create c0 rps = true ->
    snd (run_request (RCreate c0) rps) = Ok s ->
    a_hooks (s_adjust s) = hooks_concat (map a_hooks (adjs_of rps)) /\
    a_rlimits (s_adjust s) = concat (map a_rlimits (adjs_of rps)) /\
    a_cdi (s_adjust s) = concat (map a_cdi (adjs_of rps)).
Proof. exact appended_in_plugin_order. Qed.
Print Assumptions C03_appended_in_plugin_order.

(* "nothing that no plugin requested is changed": in the combined result an annotation / mount / environment
   variable / device that no plugin names (neither as a set nor with the removal marker), a scalar resource
   field or unified key that no plugin sets, and the command line, cgroups path and OOM score when no plugin
   gives one, have the original's value *)
Theorem C03_unnamed_unchanged :
  forall c0 rps s,
    wf_create c0 rps = true ->
    snd (run_request (RCreate c0) rps) = Ok s ->
    let r := apply_adj c0 (s_adjust s) in
    (forall k, (forall p, In p (adjs_of rps) -> ~ names_ann k p) -> alookup k (c_ann r) = alookup k (c_ann c0)) /\
    (forall k, (forall p, In p (adjs_of rps) -> ~ names_mount k p) -> kfind m_dest k (c_mounts r) = kfind m_dest k (c_mounts c0)) /\
    (forall k, (forall p, In p (adjs_of rps) -> ~ names_env k p) -> kfind env_key k (c_env r) = kfind env_key k (c_env c0)) /\
    (forall k, (forall p, In p (adjs_of rps) -> ~ names_device k p) -> kfind d_path k (c_devices r) = kfind d_path k (c_devices c0)) /\
    (forall f, (forall p, In p (adjs_of rps) -> flookup f (r_scal (a_res p)) = None) ->
               flookup f (r_scal (c_res r)) = flookup f (r_scal (c_res c0))) /\
    (forall k, (forall p, In p (adjs_of rps) -> ~ In k (map fst (r_uni (a_res p)))) ->
               alookup k (r_uni (c_res r)) = alookup k (r_uni (c_res c0))) /\
    ((forall p, In p (adjs_of rps) -> a_args p = [] /\ a_cgroups p = ""%string /\ a_oom p = None) ->
     c_args r = c_args c0 /\ c_cgroups r = c_cgroups c0 /\ c_oom r = c_oom c0).
Proof. exact unnamed_unchanged. Qed.
Print Assumptions C03_unnamed_unchanged.

(* "every value appears as set by its final owner, every requested removal takes effect" — for annotations:
   if no plugin after rp names k, the combined result has the value rp set (the last one, should rp list the
   key twice), and no value when rp only carries the removal marker of k *)
Theorem C03_annotation_last_writer :
  forall c0 pre rp post s k,
    let rps := pre ++ rp :: post in
    wf_create c0 rps = true ->
    snd (run_request (RCreate c0) rps) = Ok s ->
    (forall q, In q (adjs_of post) -> ~ names_ann k q) ->
    (forall v, alast k (ann_sets (a_ann (adj_of rp))) = Some v ->
               alookup k (c_ann (apply_adj c0 (s_adjust s))) = Some v) /\
    (~ In k (map fst (a_ann (adj_of rp))) -> In (mark k) (map fst (a_ann (adj_of rp))) ->
     alookup k (c_ann (apply_adj c0 (s_adjust s))) = None).
Proof. exact annotation_last_writer. Qed.
Print Assumptions C03_annotation_last_writer.

(* C03_last_writer, the other item kinds.  In a successful creation request let rp be the last plugin naming an
   item (no plugin after it sets it or carries its removal marker).  Then the combined reply, read through
   apply_adj on the original (projection I3), gives the item exactly the value rp gave it — never a value of an
   earlier plugin, never a join — and no value at all when rp only carries its removal marker (markable kinds).
   (Annotations: C03_annotation_last_writer above.) *)
Theorem C03_last_writer_mounts :
  forall c0 pre post rp s,
    wf_create c0 (pre ++ rp :: post) = true ->
    snd (run_request (RCreate c0) (pre ++ rp :: post)) = Ok s ->
    forall k, (forall q, In q (adjs_of post) -> ~ names_mount k q) ->
    (forall e, In e (a_mounts (adj_of rp)) -> m_dest e = k -> marked k = false ->
               kfind m_dest k (c_mounts (apply_adj c0 (s_adjust s))) = Some e) /\
    (~ In k (map m_dest (a_mounts (adj_of rp))) -> In (mark k) (map m_dest (a_mounts (adj_of rp))) ->
     kfind m_dest k (c_mounts (apply_adj c0 (s_adjust s))) = None).
Proof. exact last_writer_mounts. Qed.
Print Assumptions C03_last_writer_mounts.

Theorem C03_last_writer_devices :
  forall c0 pre post rp s,
    wf_create c0 (pre ++ rp :: post) = true ->
    snd (run_request (RCreate c0) (pre ++ rp :: post)) = Ok s ->
    forall k, (forall q, In q (adjs_of post) -> ~ names_device k q) ->
    (forall e, In e (a_devices (adj_of rp)) -> d_path e = k -> marked k = false ->
               kfind d_path k (c_devices (apply_adj c0 (s_adjust s))) = Some e) /\
    (~ In k (map d_path (a_devices (adj_of rp))) -> In (mark k) (map d_path (a_devices (adj_of rp))) ->
     kfind d_path k (c_devices (apply_adj c0 (s_adjust s))) = None).
Proof. exact last_writer_devices. Qed.
Print Assumptions C03_last_writer_devices.

(* the environment entry of variable k is the string "k=v" *)
Theorem C03_last_writer_env :
  forall c0 pre post rp s,
    wf_create c0 (pre ++ rp :: post) = true ->
    snd (run_request (RCreate c0) (pre ++ rp :: post)) = Ok s ->
    forall k, (forall q, In q (adjs_of post) -> ~ names_env k q) ->
    (forall v, In (k, v) (a_env (adj_of rp)) -> marked k = false ->
               kfind env_key k (c_env (apply_adj c0 (s_adjust s))) = Some (k ++ "=" ++ v)%string) /\
    (~ In k (map fst (a_env (adj_of rp))) -> In (mark k) (map fst (a_env (adj_of rp))) ->
     kfind env_key k (c_env (apply_adj c0 (s_adjust s))) = None).
Proof. exact last_writer_env. Qed.
Print Assumptions C03_last_writer_env.

(* command line (args_value strips the removal marker), cgroups path, OOM score *)
Theorem C03_last_writer_singletons :
  forall c0 pre post rp s,
    wf_create c0 (pre ++ rp :: post) = true ->
    snd (run_request (RCreate c0) (pre ++ rp :: post)) = Ok s ->
    (a_args (adj_of rp) <> [] -> (forall q, In q (adjs_of post) -> a_args q = []) ->
     c_args (apply_adj c0 (s_adjust s)) = args_value (a_args (adj_of rp))) /\
    (a_cgroups (adj_of rp) <> ""%string -> (forall q, In q (adjs_of post) -> a_cgroups q = ""%string) ->
     c_cgroups (apply_adj c0 (s_adjust s)) = a_cgroups (adj_of rp)) /\
    (forall v, a_oom (adj_of rp) = Some v -> (forall q, In q (adjs_of post) -> a_oom q = None) ->
     c_oom (apply_adj c0 (s_adjust s)) = Some v).
Proof. exact last_writer_singletons. Qed.
Print Assumptions C03_last_writer_singletons.

(* every scalar resource field; hugepage limits (read as a map, the last entry of a page size counts: alast);
   unified keys *)
Theorem C03_last_writer_resources :
  forall c0 pre post rp s,
    wf_create c0 (pre ++ rp :: post) = true ->
    snd (run_request (RCreate c0) (pre ++ rp :: post)) = Ok s ->
    (forall f v, flookup f (r_scal (a_res (adj_of rp))) = Some v ->
                 (forall q, In q (adjs_of post) -> flookup f (r_scal (a_res q)) = None) ->
                 flookup f (r_scal (c_res (apply_adj c0 (s_adjust s)))) = Some v) /\
    (forall k v, alast k (r_hp (a_res (adj_of rp))) = Some v ->
                 (forall q, In q (adjs_of post) -> ~ In k (map fst (r_hp (a_res q)))) ->
                 alast k (r_hp (c_res (apply_adj c0 (s_adjust s)))) = Some v) /\
    (forall k v, alast k (r_uni (a_res (adj_of rp))) = Some v ->
                 (forall q, In q (adjs_of post) -> ~ In k (map fst (r_uni (a_res q)))) ->
                 alookup k (r_uni (c_res (apply_adj c0 (s_adjust s)))) = Some v).
Proof. exact last_writer_resources. Qed.
Print Assumptions C03_last_writer_resources.

(* non-vacuity: in C03_example, plugin 2 is the last one naming the mount "/x" (it removes and sets it again) *)
Example C03_last_writer_example :
  ex_rps = [ex_R ex_A1] ++ ex_R ex_A2 :: skipn 2 ex_rps /\
  In (ex_mt "/x" "2") (a_mounts (adj_of (ex_R ex_A2))) /\
  (forall q, In q (adjs_of (skipn 2 ex_rps)) -> ~ names_mount "/x" q).
Proof. exact ex_last_writer. Qed.

(* C03_via_generator: "using the project's own OCI spec generator".  The MODEL of Generator.Adjust
   (Model/Generate.v gen_adjust, tied to the real generator by corr_gen) applied ONCE to the combined reply
   gives, on the observable projection, the same spec as the generator applied plugin by plugin in plugin order
   (gen_seq = fold_left of gen_adjust), and the same CDI names.  Hypotheses, all boolean:
   wf_create (as above); C13's wf_gen for the combined reply on the original spec and at every step of the
   plugin-by-plugin run (seq_wf); memlimits_ok: no plugin gives a memory limit of 0 (or a non-integer one) —
   the one value the generator reads as "no request" (W6).  The last hypothesis is an artefact of the proof
   (docs/slices/combine.md): in a successful request each scalar field is set by one plugin only. *)
Theorem C03_via_generator :
  forall sp0 rps s,
    wf_create (sp_c sp0) rps = true ->
    snd (run_request (RCreate (sp_c sp0)) rps) = Ok s ->
    wf_gen sp0 (s_adjust s) = true ->
    seq_wf sp0 (adjs_of rps) = true ->
    memlimits_ok (adjs_of rps) = true ->
    obs_eqb (sp_c (gen_adjust (s_adjust s) sp0)) (sp_c (fold_left (fun sp a => gen_adjust a sp) (adjs_of rps) sp0)) = true /\
    sp_cdi (gen_adjust (s_adjust s) sp0) = sp_cdi (fold_left (fun sp a => gen_adjust a sp) (adjs_of rps) sp0).
Proof. exact via_generator. Qed.
Print Assumptions C03_via_generator.

Example C03_via_generator_example :
  wf_create (sp_c vg_sp0) vg_rps = true /\
  exists s, snd (run_request (RCreate (sp_c vg_sp0)) vg_rps) = Ok s /\ wf_gen vg_sp0 (s_adjust s) = true /\
            seq_wf vg_sp0 (adjs_of vg_rps) = true /\ memlimits_ok (adjs_of vg_rps) = true.
Proof. exact vg_example. Qed.

(* every clause of wf_create is necessary: inputs violating one clause on which the request succeeds and
   the combined adjustment does NOT give the sequential result (W7 per family, W7= and W7') *)
Theorem C03_wf_clauses_necessary :
  c03_fails wit_c0 wit_w7_ann /\ c03_fails wit_c0 wit_w7_mounts /\ c03_fails wit_c0 wit_w7_env /\
  c03_fails wit_c0 wit_w7_devices /\ c03_fails wit_c0 wit_env_eq /\ c03_fails wit_c0 wit_args_marker.
Proof.
  exact (conj wit_w7_ann_fails (conj wit_w7_mounts_fails (conj wit_w7_env_fails
        (conj wit_w7_devices_fails (conj wit_env_eq_fails wit_args_marker_fails))))).
Qed.
Print Assumptions C03_wf_clauses_necessary.
