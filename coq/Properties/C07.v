(* C07 — Failing plugins cannot stall, crash or corrupt a request; handler errors veto it.
   This file contains only statements closed by [exact]; the model is Model/Dispatch.v,
   the table of fatal errors is regenerated from isFatalError (Model/DispConsts.v). *)
From Coq Require Import String List Bool ZArith NArith Sorted.
From NRI Require Import Model.Consts Model.Event Model.DispConsts Model.Dispatch
  Spec.DispatchSpec Proofs.DispatchProofs.
Import ListNotations.
Open Scope string_scope.
Open Scope list_scope.

(* Plugins whose calls end with a fatal error (set I) leave the request exactly as if they
   were not in the list: same result, same calls to the others, in the same order. *)
Theorem C07_fatal_is_absent :
  forall (Rq Rp Acc Res : Type) (ev_of : Rq -> Z) (init : Rq -> Acc)
         (apply : Acc -> plugin -> Rp -> Acc + string) (finish : Rq -> Acc -> Res)
         (T : N) (rq : Rq) (h : plugin -> call Rp) (I : plugin -> bool) (ps : list plugin),
  (forall p, In p ps -> I p = true -> callable (ev_of rq) p = true -> oc T h p = Fatal) ->
  let o := snd (run_request ev_of init apply finish T rq h ps) in
  let o' := snd (run_request ev_of init apply finish T rq h (filter (fun p => negb (I p)) ps)) in
  o_result o = o_result o' /\ filter (fun p => negb (I p)) (o_invoked o) = o_invoked o'.
Proof. exact fatal_is_absent. Qed.
Print Assumptions C07_fatal_is_absent.

(* Such a plugin is not in the list when the request returns, and — invariant over every
   continuation of requests, registrations (of other connections) and disconnections — it
   is never called again. *)
Theorem C07_fatal_is_dropped_for_good :
  forall (Rq Rp Acc Res : Type) (ev_of : Rq -> Z) (init : Rq -> Acc)
         (apply : Acc -> plugin -> Rp -> Acc + string) (finish : Rq -> Acc -> Res)
         (T : N) (ps : list plugin) (rq : Rq) (h : plugin -> call Rp) (s : list (action Rq Rp))
         (ps' : list plugin) (os : list (observation Rq Res)),
  Run ev_of init apply finish T ps (ARequest rq h :: s) ps' os -> Inv ps ->
  forall q, In q (o_invoked (snd (run_request ev_of init apply finish T rq h ps))) ->
  oc T h q = Fatal ->
  ~ In (p_id q) (ids (fst (run_request ev_of init apply finish T rq h ps))) /\
  ((forall p, In (ARegister p) s -> p_id p <> p_id q) ->
   exists o1 os2, os = o1 :: os2 /\ o1 = snd (run_request ev_of init apply finish T rq h ps) /\
                  forall o, In o os2 -> was_invoked (p_id q) o = false).
Proof. exact fatal_never_called_again. Qed.
Print Assumptions C07_fatal_is_dropped_for_good.

(* The first plugin (at l1 ++ [p]) answering with a non-fatal error m fails the request with
   m: no response, the plugins called are the subscribed ones up to and including p, no
   later plugin is called. *)
Theorem C07_veto :
  forall (Rq Rp Acc Res : Type) (ev_of : Rq -> Z) (init : Rq -> Acc)
         (apply : Acc -> plugin -> Rp -> Acc + string) (finish : Rq -> Acc -> Res)
         (T : N) (rq : Rq) (h : plugin -> call Rp) (l1 : list plugin) (p : plugin)
         (l2 : list plugin) (acc1 : Acc) (m : string),
  ro_result (relay ev_of apply T rq h l1 (init rq)) = inl acc1 ->
  callable (ev_of rq) p = true -> oc T h p = Veto m ->
  let o := snd (run_request ev_of init apply finish T rq h (l1 ++ p :: l2)) in
  o_result o = inr m /\
  o_invoked o = filter (callable (ev_of rq)) l1 ++ [p] /\
  (forall q, In q l2 -> ~ In (p_id q) (ids (l1 ++ [p])) -> was_invoked (p_id q) o = false).
Proof. exact veto. Qed.
Print Assumptions C07_veto.

(* FULL STATEMENT (false of the faithful model and of the code, findings/C07-stalled-reader-blocks-write.md):
     every request takes at most (plugins) x T of plugin time.
   PARTIAL: it holds when every call gets its request out (c_in_write = false: the request fits the
   transport's buffers or the peer keeps reading) — every such call is cut off at T, so a request takes
   at most (plugins called) x T <= (plugins) x T. *)
Theorem C07_time_bound :
  forall (Rq Rp Acc Res : Type) (ev_of : Rq -> Z) (init : Rq -> Acc)
         (apply : Acc -> plugin -> Rp -> Acc + string) (finish : Rq -> Acc -> Res)
         (T : N) (rq : Rq) (h : plugin -> call Rp) (ps : list plugin),
  (forall p, In p ps -> c_in_write (h p) = false) ->
  let o := snd (run_request ev_of init apply finish T rq h ps) in
  (o_time o <= N.of_nat (length (o_invoked o)) * T)%N /\ (o_time o <= N.of_nat (length ps) * T)%N.
Proof. exact time_bound. Qed.
Print Assumptions C07_time_bound.

(* … and is refuted without that guard: a plugin that stops reading while the runtime writes a request
   larger than the socket buffers holds the request for as long as its connection stays up (ttrpc
   sends outside the select on the context; the multiplexer has no write deadline); once the
   connection goes down the request still ends with the others' contributions. *)
Theorem C07_time_bound_refuted_for_stalled_reader :
  exists (T : N) (h : plugin -> call string) (ps : list plugin),
    let o := snd (run_request (fun rq : N * Z => snd rq) (fun _ => @nil string)
                    (fun acc _ tok => inl (acc ++ [tok])) (fun _ acc => acc) T (1%N, 4%Z) h ps) in
    (N.of_nat (length ps) * T < o_time o)%N /\ o_result o = inl ["A"; "C"] /\
    (exists p, In p ps /\ c_in_write (h p) = true).
Proof. exact time_bound_refuted_for_stalled_reader. Qed.
Print Assumptions C07_time_bound_refuted_for_stalled_reader.

(* The four error classes the code documents as fatal are in isFatalError's table (as
   regenerated from plugin.go), and a call failing with a class of the table is Fatal. *)
Theorem C07_documented_classes_are_fatal :
  forallb is_fatal documented_fatal = true /\
  (forall (Rp : Type) c msg, is_fatal c = true -> classify (Rp:=Rp) (Failed c msg) = Fatal).
Proof. exact (conj documented_fatal_all fatal_class_is_dropped). Qed.
Print Assumptions C07_documented_classes_are_fatal.

(* Every error class a failing plugin produces at the relay functions (fault_error_classes:
   closed, server closed, protocol, the caller's deadline, a trunk that ends in the middle of
   a frame, the plugin's late DeadlineExceeded status — the last two were observed on the real
   code, findings/C07-unexpected-eof-not-fatal.md and findings/C07-deadline-status-not-fatal.md,
   and repaired) is in the table regenerated from isFatalError, i.e. drops the plugin. *)
Theorem C07_fault_classes_fatal :
  forall c, In c fault_error_classes -> is_fatal c = true.
Proof. exact fault_classes_all_fatal. Qed.
Print Assumptions C07_fault_classes_fatal.

(* the classes of that list which the table of THIS tree lacks: none *)
Theorem C07_fault_gap_of_this_tree : fault_gap = [].
Proof. exact fault_gap_empty. Qed.
Print Assumptions C07_fault_gap_of_this_tree.

(* … whereas a class outside the table fails the request with the error's message (this is
   how a handler's own error vetoes) *)
Theorem C07_other_classes_veto :
  forall (Rp : Type) c msg, is_fatal c = false -> classify (Rp:=Rp) (Failed c msg) = Veto msg.
Proof. exact nonfatal_class_vetoes. Qed.
Print Assumptions C07_other_classes_veto.

(* No status a HANDLER can produce by returning an error (every grpc code but OK and DeadlineExceeded:
   plain errors arrive as Unknown, os.ErrInvalid as InvalidArgument, status errors with their own code)
   is in the regenerated table: each of them vetoes the request with its message. *)
Theorem C07_handler_errors_veto :
  forall c, In c handler_error_classes ->
    is_fatal c = false /\ forall (Rp : Type) msg, classify (Rp:=Rp) (Failed c msg) = Veto msg.
Proof. exact (fun c H => conj (handler_class_not_fatal c H) (fun Rp msg => handler_class_vetoes Rp c msg H)). Qed.
Print Assumptions C07_handler_errors_veto.

(* … and the table names nothing but the six fault classes: with C07_fault_classes_fatal, the
   regenerated table is exactly that set. *)
Theorem C07_fatal_table_is_exactly_the_fault_classes :
  forall c, is_fatal c = true <-> In c fault_error_classes.
Proof. exact (fun c => conj (fatal_only_fault_classes c) (fault_classes_all_fatal c)). Qed.
Print Assumptions C07_fatal_table_is_exactly_the_fault_classes.

(* Plugins (set I) that got the request but do not answer within the time-out T, or whose calls
   fail with one of the fault classes, leave the request exactly as if they were not in the list. *)
Theorem C07_failing_plugins_are_absent :
  forall (Rq Rp Acc Res : Type) (ev_of : Rq -> Z) (init : Rq -> Acc)
         (apply : Acc -> plugin -> Rp -> Acc + string) (finish : Rq -> Acc -> Res)
         (T : N) (rq : Rq) (h : plugin -> call Rp) (I : plugin -> bool) (ps : list plugin),
  (forall p, In p ps -> I p = true ->
     (c_in_write (h p) = false /\ (T <= c_dur (h p))%N) \/
     (exists cls msg, c_res (h p) = Failed cls msg /\ In cls fault_error_classes)) ->
  let o := snd (run_request ev_of init apply finish T rq h ps) in
  let o' := snd (run_request ev_of init apply finish T rq h (filter (fun p => negb (I p)) ps)) in
  o_result o = o_result o' /\ filter (fun p => negb (I p)) (o_invoked o) = o_invoked o'.
Proof. exact failing_is_absent. Qed.
Print Assumptions C07_failing_plugins_are_absent.

(* the relay functions bound every call by the request time-out, close the plugin on a fatal
   error and return nil, return any other error; the loops stop at the first error and prune
   closed plugins on the way out — read off the current sources *)
Theorem C07_structure_of_the_code : structure_ok = true.
Proof. exact structure_holds. Qed.
Print Assumptions C07_structure_of_the_code.

(* ---------- non-vacuity *)
Definition fxA := {| p_id := 1; p_idx := "10"; p_name := "A"; p_events := 8191; p_closed := false |}.
Definition fxB := {| p_id := 2; p_idx := "20"; p_name := "B"; p_events := 8191; p_closed := false |}.
Definition fxC := {| p_id := 3; p_idx := "30"; p_name := "C"; p_events := 8191; p_closed := false |}.
Definition fx_handler (bad : call_result string) (p : plugin) : call string :=
  {| c_res := if N.eqb (p_id p) 2 then bad else Reply (p_name p); c_dur := 5; c_in_write := false |}.

(* B's connection is cut: the request returns A's and C's contributions, B is pruned and not asked again *)
Example C07_cut :
  let h := fx_handler (Failed "ttrpc.ErrClosed" "ttrpc: closed") in
  oc 100 h fxB = Fatal /\
  o_result (snd (tk_run_request 100 (1%N, 4%Z) h [fxA; fxB; fxC])) = inl ["A"; "C"] /\
  o_result (snd (tk_run_request 100 (1%N, 4%Z) h [fxA; fxC])) = inl ["A"; "C"] /\
  map p_name (fst (tk_run_request 100 (1%N, 4%Z) h [fxA; fxB; fxC])) = ["A"; "C"].
Proof. repeat split. Qed.

(* B hangs: DeadlineExceeded at T, fatal, total time 5 + 100 + 5 <= 3 * 100 *)
Example C07_hang :
  let h := fun p => if N.eqb (p_id p) 2 then {| c_res := Reply "B"; c_dur := 100000; c_in_write := false |} else fx_handler (Reply "") p in
  oc 100 h fxB = Fatal /\
  o_result (snd (tk_run_request 100 (1%N, 4%Z) h [fxA; fxB; fxC])) = inl ["A"; "C"] /\
  o_time (snd (tk_run_request 100 (1%N, 4%Z) h [fxA; fxB; fxC])) = 110%N.
Proof. repeat split. Qed.

(* B's handler returns an error: the request fails with it, C is not asked *)
Example C07_handler_error :
  let h := fx_handler (Failed "codes.Unknown" "rpc error: no way") in
  oc 100 h fxB = Veto "rpc error: no way" /\
  o_result (snd (tk_run_request 100 (1%N, 4%Z) h [fxA; fxB; fxC])) = inr "rpc error: no way" /\
  map p_name (o_invoked (snd (tk_run_request 100 (1%N, 4%Z) h [fxA; fxB; fxC]))) = ["A"; "B"].
Proof. repeat split. Qed.

(* the trunk ends in the middle of a frame / the plugin's server reports the expired deadline:
   B is dropped, the request is served by A and C *)
Example C07_unexpected_eof :
  let h := fx_handler (Failed "io.ErrUnexpectedEOF" "failed to read payload from trunk: unexpected EOF") in
  o_result (snd (tk_run_request 100 (1%N, 4%Z) h [fxA; fxB; fxC])) = inl ["A"; "C"].
Proof. vm_compute. reflexivity. Qed.

Example C07_deadline_status :
  let h := fx_handler (Failed "codes.DeadlineExceeded" "context deadline exceeded") in
  o_result (snd (tk_run_request 100 (1%N, 4%Z) h [fxA; fxB; fxC])) = inl ["A"; "C"] /\
  map p_name (fst (tk_run_request 100 (1%N, 4%Z) h [fxA; fxB; fxC])) = ["A"; "C"].
Proof. vm_compute. split; reflexivity. Qed.

(* B's handler rejects the request with a status of its own / with os.ErrInvalid: a veto, C is not asked *)
Example C07_handler_status_error :
  let h := fx_handler (Failed "codes.InvalidArgument" "invalid argument") in
  In "codes.InvalidArgument" handler_error_classes /\
  o_result (snd (tk_run_request 100 (1%N, 4%Z) h [fxA; fxB; fxC])) = inr "invalid argument" /\
  map p_name (o_invoked (snd (tk_run_request 100 (1%N, 4%Z) h [fxA; fxB; fxC]))) = ["A"; "B"] /\
  map p_name (fst (tk_run_request 100 (1%N, 4%Z) h [fxA; fxB; fxC])) = ["A"; "B"; "C"].
Proof. vm_compute. repeat split. right; right; left; reflexivity. Qed.

(* hypotheses of C07_failing_plugins_are_absent are satisfiable: B hangs *)
Example C07_failing_hyp :
  let h := fun p => if N.eqb (p_id p) 2 then {| c_res := Reply "B"; c_dur := 100; c_in_write := false |} else fx_handler (Reply "") p in
  forall p, In p [fxA; fxB; fxC] -> N.eqb (p_id p) 2 = true ->
    (c_in_write (h p) = false /\ (100 <= c_dur (h p))%N) \/
    (exists cls msg, c_res (h p) = Failed cls msg /\ In cls fault_error_classes).
Proof. intros h p Hp E. left. unfold h. rewrite E. cbn. split; [reflexivity|apply N.le_refl]. Qed.

(* the guard of C07_time_bound is satisfiable (every example above) and its refutation's witness is a
   run of the model: B stuck in its write for 100000 units under T = 100 *)
Example C07_time_bound_guard :
  forall p, In p [fxA; fxB; fxC] -> c_in_write (fx_handler (Reply "") p) = false.
Proof. intros p _. reflexivity. Qed.
