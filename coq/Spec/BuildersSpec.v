(* What the builder API of pkg/api (adjustment.go, update.go, helpers.go) is documented to do, as
   executable tables independent of the fold of Model/Builders.v:
   - per method, the ledger items it releases and claims (C02: "marking ... for removal ... releases",
     a set claims), for the append-only families; for the overwritable slots (command line, every scalar
     resource field, cgroups path, OOM score) what the LAST call of a method of that slot leaves;
   - per resource setter, the one scalar field it writes and the value it leaves there (C05: "exactly
     the resource fields plugins set");
   - per method, the effect on the observable container that applying the built adjustment must have
     (C13: remove -> key absent, add -> key present with the value, set wins).
   Shared by the theorems (Proofs/BuildersProofs.v, Properties/Builders.v) and by the run-time predicates of
   Run/RunBuilders.v.  NO proofs here. *)
From Coq Require Import String Ascii List Bool ZArith.
From NRI Require Import Base.Strs Base.Assoc Model.Types Model.Builders Spec.Apply.
From NRI Require Model.Convert.
Import ListNotations.
Open Scope string_scope.
Open Scope list_scope.

(* what the last element on which f is defined says *)
Definition last_some {A B} (f : A -> option B) (l : list A) : option B :=
  fold_left (fun acc x => match f x with Some y => Some y | None => acc end) l None.

Definition is_some {A} (o : option A) : bool := match o with Some _ => true | None => false end.

(* ---------- the resource setters: which field, which value ---------- *)
(* Some (f, Some v): the method leaves field f set to v; Some (f, None): it leaves f unset (a plain
   string field written with ""); None: not a scalar setter *)
Definition rop_write (op : rop) : option (sfield * option sval) :=
  match op with
  | RMemoryLimit v => Some (MemLimit, Some (VZ v))
  | RMemoryReservation v => Some (MemReservation, Some (VZ v))
  | RMemorySwap v => Some (MemSwap, Some (VZ v))
  | RMemoryKernel v => Some (MemKernel, Some (VZ v))
  | RMemoryKernelTCP v => Some (MemKernelTcp, Some (VZ v))
  | RMemorySwappiness v => Some (MemSwappiness, Some (VZ v))
  | RMemoryDisableOomKiller => Some (MemDisableOom, Some (VB true))
  | RMemoryUseHierarchy => Some (MemUseHierarchy, Some (VB true))
  | RCPUShares v => Some (CpuShares, Some (VZ v))
  | RCPUQuota v => Some (CpuQuota, Some (VZ v))
  | RCPUPeriod v => Some (CpuPeriod, Some (VZ (Convert.wrap_u64 v)))     (* int64 argument stored as uint64 *)
  | RCPURealtimeRuntime v => Some (CpuRtRuntime, Some (VZ v))
  | RCPURealtimePeriod v => Some (CpuRtPeriod, Some (VZ v))
  | RCPUSetCPUs s => Some (CpuCpus, if String.eqb s "" then None else Some (VS s))
  | RCPUSetMems s => Some (CpuMems, if String.eqb s "" then None else Some (VS s))
  | RPidLimits v => Some (Pids, Some (VZ v))
  | RBlockIOClass s => Some (BlockioClass, Some (VS s))                  (* "" is a value: it clears the class *)
  | RRDTClass s => Some (RdtClass, Some (VS s))
  | RHugepageLimit _ _ | RUnified _ _ => None
  end.

Definition rop_writes_to (f : sfield) (op : rop) : option (option sval) :=
  match rop_write op with
  | Some (g, w) => if sfield_eqb f g then Some w else None
  | None => None
  end.
(* the value of scalar field f after the setters rops, starting from "unset" *)
Definition spec_scal (f : sfield) (rops : list rop) : option sval :=
  match last_some (rop_writes_to f) rops with Some w => w | None => None end.
(* hugepage limits are appended, unified keys assigned *)
Definition rop_hp (op : rop) : list (string * Z) := match op with RHugepageLimit s v => [(s, v)] | _ => [] end.
Definition rop_uni_to (k : string) (op : rop) : option string :=
  match op with RUnified k' v => if String.eqb k k' then Some v else None | _ => None end.
Definition is_res_uop (op : uop) : bool := match op with URes _ => true | _ => false end.
Definition rops_of_u (ops : list uop) : list rop := flat_map (fun op => match op with URes r => [r] | _ => [] end) ops.
Definition rops_of (ops : list bop) : list rop := flat_map (fun op => match op with BRes r => [r] | _ => [] end) ops.

(* the ledger items a resource setter of the append-only kind claims *)
Definition rop_claims (op : rop) : list item :=
  match op with RHugepageLimit s _ => [IHp s] | RUnified k _ => [IUni k] | _ => [] end.
Definition scal_claims (rops : list rop) : list item :=
  map IScal (filter (fun f => is_some (spec_scal f rops)) all_scalars).

(* ---------- C02: releases and claims per method ---------- *)
(* the '-' convention: a key that begins with '-' names a removal of the rest, whichever method wrote it *)
Definition key_release (mk : string -> item) (k : string) : list item := if marked k then [mk (rawkey k)] else [].
Definition key_claim (mk : string -> item) (k : string) : list item := if marked k then [] else [mk k].

Definition op_releases (op : bop) : list item :=
  match op with
  | BRemoveAnnotation k => [IAnn k]
  | BRemoveMount d => [IMount d]
  | BRemoveEnv k => [IEnv k]
  | BRemoveDevice p => [IDev p]
  | BAddAnnotation k _ => key_release IAnn k
  | BAddMount m => key_release IMount (m_dest m)
  | BAddEnv k _ => key_release IEnv k
  | BAddDevice d => key_release IDev (d_path d)
  | _ => []
  end.

Definition op_claims (op : bop) : list item :=
  match op with
  | BAddAnnotation k _ => key_claim IAnn k
  | BAddMount m => key_claim IMount (m_dest m)
  | BAddEnv k _ => key_claim IEnv k
  | BAddDevice d => key_claim IDev (d_path d)
  | BAddRlimit t _ _ => [IRlimit t]
  | BAddCDIDevice n => [ICdi n]
  | BRes r => rop_claims r
  | _ => []
  end.

(* the command line: (releases?, claims?) of the method that wrote it last.  UpdateArgs always marks;
   SetArgs(nil) clears the field; an empty first argument IS the marker *)
Definition args_effect (op : bop) : option (bool * bool) :=
  match op with
  | BUpdateArgs _ => Some (true, true)
  | BSetArgs [] => Some (false, false)
  | BSetArgs (a0 :: _) => Some (String.eqb a0 "", true)
  | _ => None
  end.
Definition cgroups_effect (op : bop) : option bool :=
  match op with BSetLinuxCgroupsPath s => Some (negb (String.eqb s "")) | _ => None end.
Definition oom_effect (op : bop) : option bool :=
  match op with BSetLinuxOomScoreAdj p => Some (is_some p) | _ => None end.

Definition spec_release_items (ops : list bop) : list item :=
  flat_map op_releases ops
  ++ (match last_some args_effect ops with Some (true, _) => [IArgs] | _ => [] end).
Definition spec_claim_items (ops : list bop) : list item :=
  flat_map op_claims ops
  ++ (match last_some args_effect ops with Some (_, true) => [IArgs] | _ => [] end)
  ++ scal_claims (rops_of ops)
  ++ (match last_some cgroups_effect ops with Some true => [ICgroups] | _ => [] end)
  ++ (match last_some oom_effect ops with Some true => [IOom] | _ => [] end).
Definition spec_releases (id : string) (ops : list bop) : list lkey := map (pair id) (spec_release_items ops).
Definition spec_claims (id : string) (ops : list bop) : list lkey := map (pair id) (spec_claim_items ops).

(* ---------- C05: what an update built by the setters carries ---------- *)
Definition uop_id (op : uop) : option string := match op with USetContainerId i => Some i | _ => None end.
Definition spec_uid (id : string) (ops : list uop) : string :=
  match last_some uop_id ops with Some i => i | None => id end.
Definition spec_uignore (ops : list uop) : bool :=
  existsb (fun op => match op with USetIgnoreFailure => true | _ => false end) ops.
Definition spec_uclaims (id : string) (ops : list uop) : list lkey :=
  map (pair (spec_uid id ops)) (flat_map rop_claims (rops_of_u ops) ++ scal_claims (rops_of_u ops)).

(* ---------- C13: the documented effect of one method on the observable container ---------- *)
Definition is_none {A} (o : option A) : bool := match o with Some _ => false | None => true end.

(* a keyed entry written under key k: '-'rest removes rest, anything else is present exactly as given *)
Definition keyed_expect {W} (wkey : W -> string) (weqb : W -> W -> bool) (k : string) (w : W) (after : list W) : bool :=
  if marked k then is_none (kfind wkey (rawkey k) after)
  else opt_eqb weqb (kfind wkey k after) (Some w).

Definition scal_unchanged_except (f : sfield) (c c' : container) : bool :=
  forallb (fun g => sfield_eqb g f || opt_eqb sval_eqb (flookup g (r_scal (c_res c'))) (flookup g (r_scal (c_res c)))) all_scalars.

Definition rop_expect (r : rop) (c c' : container) : bool :=
  match rop_write r with
  | Some (f, w) =>
      opt_eqb sval_eqb (flookup f (r_scal (c_res c')))
              (match w with Some v => Some v | None => flookup f (r_scal (c_res c)) end)
      && scal_unchanged_except f c c'
  | None =>
      match r with
      | RHugepageLimit s v =>     (* read as a map, the last entry of a size counts *)
          opt_eqb (fun x y => String.eqb (fst x) (fst y) && Z.eqb (snd x) (snd y)) (kfind fst s (rev (r_hp (c_res c')))) (Some (s, v))
      | RUnified k v => opt_eqb String.eqb (alookup k (r_uni (c_res c'))) (Some v)
      | _ => true
      end
  end.

Definition expected_args (op_args before : list string) : list string :=
  match op_args with
  | [] => before
  | a0 :: rest => if String.eqb a0 "" then (match rest with [] => before | _ => rest end) else op_args
  end.

Definition op_expect (op : bop) (c c' : container) : bool :=
  match op with
  | BAddAnnotation k v =>
      if marked k then is_none (alookup (rawkey k) (c_ann c')) else opt_eqb String.eqb (alookup k (c_ann c')) (Some v)
  | BRemoveAnnotation k => is_none (alookup k (c_ann c'))
  | BAddMount m => keyed_expect m_dest mount_eqb (m_dest m) m (c_mounts c')
  | BRemoveMount d => is_none (kfind m_dest d (c_mounts c'))
  | BAddEnv k v =>
      if marked k then is_none (alookup (rawkey k) (env_pairs (c_env c')))
      else opt_eqb String.eqb (alookup k (env_pairs (c_env c'))) (Some v)
  | BRemoveEnv k => is_none (alookup k (env_pairs (c_env c')))
  | BSetArgs l => list_eqb String.eqb (c_args c') (expected_args l (c_args c))
  | BUpdateArgs l => list_eqb String.eqb (c_args c') (match l with [] => c_args c | _ => l end)
  | BAddHooks h => hooks_eqb (c_hooks c') (hooks_append (c_hooks c) h)
  | BAddRlimit t hard soft =>
      list_eqb rlimit_eqb (c_rlimits c') (c_rlimits c ++ [{| rl_type := t; rl_hard := hard; rl_soft := soft |}])
  | BAddDevice d => keyed_expect d_path device_eqb (d_path d) d (c_devices c')
  | BRemoveDevice p => is_none (kfind d_path p (c_devices c'))
  | BAddCDIDevice _ => true                                 (* CDI names are not part of the container: cdi_expect *)
  | BRes r => rop_expect r c c'
  | BSetLinuxCgroupsPath s => String.eqb (c_cgroups c') (if String.eqb s "" then c_cgroups c else s)
  | BSetLinuxOomScoreAdj p => opt_eqb Z.eqb (c_oom c') (match p with Some v => Some v | None => c_oom c end)
  end.

(* the Remove method that belongs to an Add method: the pair [Remove k; Add k v] is C02's / C13's
   "remove-then-set" *)
Definition remove_of (op : bop) : option bop :=
  match op with
  | BAddAnnotation k _ => Some (BRemoveAnnotation k)
  | BAddMount m => Some (BRemoveMount (m_dest m))
  | BAddEnv k _ => Some (BRemoveEnv k)
  | BAddDevice d => Some (BRemoveDevice (d_path d))
  | _ => None
  end.

(* the inputs on which the effect of an Add is the presence of its key: the key does not itself carry
   the marker (then it would be a removal), an environment variable name contains no '=' *)
Definition add_ok (op : bop) : bool :=
  match op with
  | BAddAnnotation k _ => negb (marked k)
  | BAddMount m => negb (marked (m_dest m))
  | BAddEnv k _ => negb (marked k) && Nat.eqb (count_char "="%char k) 0
  | BAddDevice d => negb (marked (d_path d))
  | _ => true
  end.

(* CDI device names requested, in order *)
Definition op_cdi (op : bop) : list string := match op with BAddCDIDevice n => [n] | _ => [] end.
