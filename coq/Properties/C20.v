(* C20 — Sample injector plugins apply exactly what the matching annotation says.
   Only statements closed by [exact]; the model is Model/Injectors.v, the statement's reading
   Spec/InjectorsSpec.v, the proofs Proofs/InjectorsProofs.v.  The YAML decoder is trusted: every theorem holds
   for ANY decoding functions  dd, dc, dm, du : string -> option payload  (None = the decoder reports an error). *)
From Coq Require Import String Ascii List Bool ZArith.
From NRI Require Import Base.Strs Base.Assoc Model.InjConsts Model.Injectors Spec.InjectorsSpec Proofs.InjectorsProofs.
Import ListNotations.
Open Scope string_scope.

(* --- which annotation applies --------------------------------------------------------------------- *)

(* device-injector: container-scoped key, else pod-scoped key, else the bare key, else nothing *)
Theorem C20_most_specific_key : forall ann main ctr,
  get_annotation ann main ctr =
  match alookup (main ++ "/container." ++ ctr) ann with
  | Some v => Some v
  | None => match alookup (main ++ "/pod") ann with
            | Some v => Some v
            | None => alookup main ann
            end
  end.
Proof. exact most_specific_key. Qed.
Print Assumptions C20_most_specific_key.

Example C20_most_specific_example :
  let ann := [("devices.nri.io", "bare"); ("devices.nri.io/pod", "pod"); ("devices.nri.io/container.c1", "c1")] in
  get_annotation ann device_key "c1" = Some "c1" /\ get_annotation ann device_key "c2" = Some "pod" /\
  get_annotation [("devices.nri.io", "bare")] device_key "c2" = Some "bare" /\
  get_annotation [("devices.nri.io/container.c1", "c1")] device_key "c" = None.
Proof. repeat split; reflexivity. Qed.

(* --- annotations of other containers never interfere ----------------------------------------------- *)

(* keys never coincide: the key addressed to container c' under main key m' is among the keys read for container c
   under m only if it is the same main key and the same container — string-append injectivity, so a name that is
   a prefix of another one cannot collide; needs only that no regenerated main key is a prefix of another one *)
Theorem C20_keys_never_coincide : forall m m' c c', In m main_keys -> In m' main_keys ->
  In (m' ++ "/container." ++ c') (annotation_keys m c) -> m' = m /\ c' = c.
Proof. exact container_key_injective. Qed.
Print Assumptions C20_keys_never_coincide.

Example C20_main_keys : main_keys = ["devices.nri.io"; "cdi-devices.nri.io"; "mounts.nri.io"; "ulimits.nri.containerd.io"]
  /\ main_keys_ok = true.
Proof. split; reflexivity. Qed.

(* two annotation maps that agree on this container's (at most nine) keys give the same result *)
Theorem C20_non_interference : forall dd dc dm ctr ann1 ann2,
  (forall k, In k (injector_keys ctr) -> alookup k ann1 = alookup k ann2) ->
  injector_create dd dc dm ctr ann1 = injector_create dd dc dm ctr ann2.
Proof. exact injector_non_interference. Qed.
Print Assumptions C20_non_interference.

(* adding, changing or deleting an annotation addressed to another container changes nothing, whatever its value
   and whatever the two names (prefixes of one another included) *)
Theorem C20_other_container_ignored : forall dd dc dm ctr ctr' m v ann, In m main_keys -> ctr' <> ctr ->
  injector_create dd dc dm ctr (aset (m ++ "/container." ++ ctr') v ann) = injector_create dd dc dm ctr ann /\
  injector_create dd dc dm ctr (aremove (m ++ "/container." ++ ctr') ann) = injector_create dd dc dm ctr ann.
Proof. exact injector_other_container. Qed.
Print Assumptions C20_other_container_ignored.

Example C20_prefix_names :
  let dd (s : string) := if String.eqb s "x" then Some [ {| dv_path := "/dev/x"; dv_type := "c"; dv_major := 1; dv_minor := 2;
                                                       dv_file_mode := 0; dv_uid := 0; dv_gid := 0 |} ] else None in
  let none {P} (_ : string) : option (list P) := Some [] in
  injector_create dd none none "app" [("devices.nri.io/container.app2", "x")] = Some empty_adjustment /\
  injector_create dd none none "app2" [("devices.nri.io/container.app", "garbage"); ("devices.nri.io/container.app2", "x")]
    = Some {| adj_devices := [ {| nd_path := "/dev/x"; nd_type := "c"; nd_major := 1; nd_minor := 2;
                                  nd_file_mode := None; nd_uid := None; nd_gid := None |} ];
              adj_cdi := []; adj_mounts := []; adj_rlimits := [] |}.
Proof. split; reflexivity. Qed.

(* ulimit-adjuster: container-scoped only; other containers', pod-scoped and bare keys are never used *)
Theorem C20_ulimit_non_interference : forall du ctr ann1 ann2,
  alookup (ulimit_annotation_key ctr) ann1 = alookup (ulimit_annotation_key ctr) ann2 ->
  ulimit_create du ctr ann1 = ulimit_create du ctr ann2.
Proof. exact ulimit_non_interference. Qed.
Print Assumptions C20_ulimit_non_interference.

Theorem C20_ulimit_other_keys_ignored : forall du ctr ctr' v ann, ctr' <> ctr ->
  ulimit_create du ctr (aset (ulimit_annotation_key ctr') v ann) = ulimit_create du ctr ann /\
  ulimit_create du ctr (aset (ulimit_key ++ "/pod") v ann) = ulimit_create du ctr ann /\
  ulimit_create du ctr (aset ulimit_key v ann) = ulimit_create du ctr ann.
Proof. exact ulimit_other_container. Qed.
Print Assumptions C20_ulimit_other_keys_ignored.

(* --- rlimit names ---------------------------------------------------------------------------------- *)

(* case-insensitive (ASCII): only the upper-cased name matters *)
Theorem C20_rlimit_case_insensitive : forall t1 t2, to_upper t1 = to_upper t2 -> normalise_rlimit t1 = normalise_rlimit t2.
Proof. exact normalise_case_insensitive. Qed.
Print Assumptions C20_rlimit_case_insensitive.

(* optionally prefixed: one leading RLIMIT_ (in any case) is dropped *)
Theorem C20_rlimit_prefix_optional : forall p t, to_upper p = rlimit_prefix -> normalise_rlimit (p ++ t) = to_upper t.
Proof. exact normalise_prefixed. Qed.
Print Assumptions C20_rlimit_prefix_optional.

(* on the whole regenerated table (16 names on the pinned tree, evaluated completely): every valid name is accepted
   bare, prefixed, in lower case, in lower case with a lower-case prefix, and normalises to itself; doubly prefixed
   it is rejected *)
Theorem C20_rlimit_normalised : forall n, In n valid_rlimits ->
  normalise_rlimit n = n /\ normalise_rlimit (rlimit_prefix ++ n) = n /\
  normalise_rlimit (to_lower n) = n /\ normalise_rlimit (to_lower (rlimit_prefix ++ n)) = n /\
  valid_rlimit n = true /\ valid_rlimit (rlimit_prefix ++ rlimit_prefix ++ n) = false.
Proof. exact rlimit_table_normalised. Qed.
Print Assumptions C20_rlimit_normalised.

Theorem C20_rlimit_accepted_iff : forall t, valid_rlimit t = true <-> In (normalise_rlimit t) valid_rlimits.
Proof. exact valid_rlimit_iff. Qed.
Print Assumptions C20_rlimit_accepted_iff.

Example C20_rlimit_examples :
  length valid_rlimits = 16 /\ normalise_rlimit "rlimit_NoFile" = "NOFILE" /\ valid_rlimit "Core" = true /\
  valid_rlimit "RLIMIT_" = false /\ valid_rlimit "NOFILES" = false /\ valid_rlimit "" = false.
Proof. repeat split; reflexivity. Qed.

(* --- exactness -------------------------------------------------------------------------------------- *)

(* a successful device-injector adjustment is the field-by-field conversion of the three selected payloads, in
   order, and nothing else *)
Theorem C20_adjustment_exact : forall dd dc dm ctr ann adj, injector_create dd dc dm ctr ann = Some adj ->
  exists ds cs ms,
    decoded dd (selected ann device_key ctr) = Some ds /\
    decoded dc (selected ann cdi_device_key ctr) = Some cs /\
    decoded dm (selected ann mount_key ctr) = Some ms /\
    adj = {| adj_devices := map device_to_nri ds; adj_cdi := cs; adj_mounts := map mount_to_nri ms; adj_rlimits := [] |}.
Proof. exact injector_adjustment_exact. Qed.
Print Assumptions C20_adjustment_exact.

Theorem C20_device_conversion_exact : forall d,
  let n := device_to_nri d in
  nd_path n = dv_path d /\ nd_type n = dv_type d /\ nd_major n = dv_major d /\ nd_minor n = dv_minor d /\
  nd_file_mode n = (if Z.eqb (dv_file_mode d) 0 then None else Some (dv_file_mode d)) /\
  nd_uid n = (if Z.eqb (dv_uid d) 0 then None else Some (dv_uid d)) /\
  nd_gid n = (if Z.eqb (dv_gid d) 0 then None else Some (dv_gid d)).
Proof. exact device_to_nri_exact. Qed.
Print Assumptions C20_device_conversion_exact.

Theorem C20_mount_conversion_exact : forall m,
  let n := mount_to_nri m in
  nm_source n = mt_source m /\ nm_destination n = mt_destination m /\ nm_type n = mt_type m /\ nm_options n = mt_options m.
Proof. exact mount_to_nri_exact. Qed.
Print Assumptions C20_mount_conversion_exact.

Theorem C20_no_annotation_no_adjustment : forall dd dc dm ctr ann,
  (forall k, In k (injector_keys ctr) -> alookup k ann = None) -> injector_create dd dc dm ctr ann = Some empty_adjustment.
Proof. exact injector_no_annotation. Qed.
Print Assumptions C20_no_annotation_no_adjustment.

(* a successful ulimit adjustment: one rlimit per entry of the container's annotation, in order, with the
   normalised type, every type valid and every hard >= soft *)
Theorem C20_ulimit_adjustment_exact : forall du ctr ann adj, ulimit_create du ctr ann = Some adj ->
  exists us, decoded du (alookup (ulimit_annotation_key ctr) ann) = Some us /\
    Forall (fun u => valid_rlimit (ul_type u) = true /\ (ul_soft u <= ul_hard u)%Z) us /\
    adj = {| adj_devices := []; adj_cdi := []; adj_mounts := [];
             adj_rlimits := map (fun u => {| rl_type := rlimit_prefix ++ normalise_rlimit (ul_type u);
                                             rl_hard := ul_hard u; rl_soft := ul_soft u |}) us |}.
Proof. exact ulimit_adjustment_exact. Qed.
Print Assumptions C20_ulimit_adjustment_exact.

(* --- errors: the request fails, and a failed request carries no adjustment (the result is None) ----- *)

Theorem C20_error_no_partial : forall dd dc dm ctr ann,
  injector_create dd dc dm ctr ann = None <->
  decoded dd (selected ann device_key ctr) = None \/
  decoded dc (selected ann cdi_device_key ctr) = None \/
  decoded dm (selected ann mount_key ctr) = None.
Proof. exact injector_error_iff. Qed.
Print Assumptions C20_error_no_partial.

Theorem C20_ulimit_error_no_partial : forall du ctr ann,
  ulimit_create du ctr ann = None <->
  exists v, alookup (ulimit_annotation_key ctr) ann = Some v /\
    (du v = None \/
     exists us, du v = Some us /\
       (Exists (fun u => valid_rlimit (ul_type u) = false) us \/ Exists (fun u => (ul_hard u < ul_soft u)%Z) us)).
Proof. exact ulimit_error_iff. Qed.
Print Assumptions C20_ulimit_error_no_partial.

Example C20_error_examples :
  let du (s : string) :=
    if String.eqb s "ok" then Some [ {| ul_type := "nofile"; ul_hard := 10; ul_soft := 5 |} ]
    else if String.eqb s "late" then Some [ {| ul_type := "nofile"; ul_hard := 10; ul_soft := 5 |};
                                            {| ul_type := "cpu"; ul_hard := 1; ul_soft := 2 |} ]
    else if String.eqb s "unknown" then Some [ {| ul_type := "RLIMIT_BOGUS"; ul_hard := 1; ul_soft := 1 |} ]
    else None in
  ulimit_create du "c" [("ulimits.nri.containerd.io/container.c", "ok")] =
    Some {| adj_devices := []; adj_cdi := []; adj_mounts := [];
            adj_rlimits := [ {| rl_type := "RLIMIT_NOFILE"; rl_hard := 10; rl_soft := 5 |} ] |} /\
  ulimit_create du "c" [("ulimits.nri.containerd.io/container.c", "late")] = None /\
  ulimit_create du "c" [("ulimits.nri.containerd.io/container.c", "unknown")] = None /\
  ulimit_create du "c" [("ulimits.nri.containerd.io/container.c", "{")] = None /\
  ulimit_create du "c" [("ulimits.nri.containerd.io/container.cc", "{"); ("ulimits.nri.containerd.io/pod", "{")] = Some empty_adjustment.
Proof. repeat split; reflexivity. Qed.

(* --- the plugins compute exactly the statement's reading (Spec/InjectorsSpec.v) ---------------------- *)

Theorem C20_injector_is_spec : forall dd dc dm ctr ann,
  injector_create dd dc dm ctr ann = spec_injector dd dc dm ctr ann.
Proof. exact injector_is_spec. Qed.
Print Assumptions C20_injector_is_spec.

Theorem C20_ulimit_is_spec : forall du ctr ann, ulimit_create du ctr ann = spec_ulimit du ctr ann.
Proof. exact ulimit_is_spec. Qed.
Print Assumptions C20_ulimit_is_spec.
