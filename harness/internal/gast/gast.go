// Package gast holds the go/ast helpers shared by the translators that regenerate
// Coq constants from /repo's sources.
package gast

import (
	"fmt"
	"go/ast"
	"go/constant"
	"go/parser"
	"go/token"
	"os"
	"strings"
)

type File struct {
	Fset *token.FileSet
	F    *ast.File
	Path string
}

func Parse(path string) *File {
	fset := token.NewFileSet()
	f, err := parser.ParseFile(fset, path, nil, 0)
	if err != nil {
		Fatal("cannot parse %s: %v", path, err)
	}
	return &File{Fset: fset, F: f, Path: path}
}

func Fatal(format string, args ...interface{}) {
	fmt.Fprintf(os.Stderr, "translator: "+format+"\n", args...)
	os.Exit(2)
}

// consts collects every constant declaration (top level and inside functions)
// of a file whose value is a literal or a simple expression over other
// collected constants.
func (f *File) Consts(env map[string]constant.Value) map[string]constant.Value {
	out := map[string]constant.Value{}
	for k, v := range env {
		out[k] = v
	}
	for pass := 0; pass < 4; pass++ {
		ast.Inspect(f.F, func(n ast.Node) bool {
			gd, ok := n.(*ast.GenDecl)
			if !ok || gd.Tok != token.CONST {
				return true
			}
			var last []ast.Expr
			for i, s := range gd.Specs {
				vs := s.(*ast.ValueSpec)
				vals := vs.Values
				if len(vals) == 0 {
					vals = last
				} else {
					last = vals
				}
				for j, name := range vs.Names {
					if j >= len(vals) {
						continue
					}
					if v := Eval(vals[j], out, int64(i)); v != nil {
						out[name.Name] = v
					}
				}
			}
			return true
		})
	}
	return out
}

func Eval(e ast.Expr, env map[string]constant.Value, iota int64) constant.Value {
	switch x := e.(type) {
	case *ast.BasicLit:
		return constant.MakeFromLiteral(x.Value, x.Kind, 0)
	case *ast.Ident:
		if x.Name == "iota" {
			return constant.MakeInt64(iota)
		}
		return env[x.Name]
	case *ast.SelectorExpr:
		if p, ok := x.X.(*ast.Ident); ok {
			if v, ok := env[p.Name+"."+x.Sel.Name]; ok {
				return v
			}
		}
		return env[x.Sel.Name]
	case *ast.ParenExpr:
		return Eval(x.X, env, iota)
	case *ast.CallExpr: // conversions such as EventMask(…), ConnID(…), uint32(…)
		if len(x.Args) == 1 {
			return Eval(x.Args[0], env, iota)
		}
	case *ast.UnaryExpr:
		v := Eval(x.X, env, iota)
		if v == nil {
			return nil
		}
		return constant.UnaryOp(x.Op, v, 0)
	case *ast.BinaryExpr:
		a, b := Eval(x.X, env, iota), Eval(x.Y, env, iota)
		if a == nil || b == nil {
			return nil
		}
		switch x.Op {
		case token.SHL, token.SHR:
			s, _ := constant.Uint64Val(b)
			return constant.Shift(a, x.Op, uint(s))
		case token.QUO:
			if a.Kind() == constant.Int && b.Kind() == constant.Int {
				return constant.BinaryOp(a, token.QUO_ASSIGN, b)
			}
		}
		return constant.BinaryOp(a, x.Op, b)
	}
	return nil
}

// mapLit finds, inside function fn, the composite literal assigned to variable
// name and returns its key/value expressions in source order.
func (f *File) MapLit(fn, name string) [][2]ast.Expr {
	out, found := f.TryMapLit(fn, name)
	if !found {
		Fatal("map literal %s in func %s of %s not found", name, fn, f.Path)
	}
	return out
}

// TryMapLit is MapLit that reports a missing literal instead of stopping.
func (f *File) TryMapLit(fn, name string) ([][2]ast.Expr, bool) {
	var out [][2]ast.Expr
	found := false
	for _, d := range f.F.Decls {
		fd, ok := d.(*ast.FuncDecl)
		if !ok || fd.Name.Name != fn {
			continue
		}
		ast.Inspect(fd, func(n ast.Node) bool {
			var lhs []ast.Expr
			var rhs []ast.Expr
			switch s := n.(type) {
			case *ast.AssignStmt:
				lhs, rhs = s.Lhs, s.Rhs
			case *ast.ValueSpec:
				for _, n := range s.Names {
					lhs = append(lhs, n)
				}
				rhs = s.Values
			default:
				return true
			}
			for i, l := range lhs {
				id, ok := l.(*ast.Ident)
				if !ok || id.Name != name || i >= len(rhs) {
					continue
				}
				cl, ok := rhs[i].(*ast.CompositeLit)
				if !ok {
					continue
				}
				found = true
				for _, el := range cl.Elts {
					kv, ok := el.(*ast.KeyValueExpr)
					if !ok {
						found = false
						return false
					}
					out = append(out, [2]ast.Expr{kv.Key, kv.Value})
				}
			}
			return true
		})
	}
	return out, found
}

func MustInt(env map[string]constant.Value, name string) int64 {
	v, ok := env[name]
	if !ok || v == nil {
		Fatal("constant %s not found", name)
	}
	i, ok := constant.Int64Val(constant.ToInt(v))
	if !ok {
		Fatal("constant %s is not an integer: %v", name, v)
	}
	return i
}

func MustStr(env map[string]constant.Value, name string) string {
	v, ok := env[name]
	if !ok || v == nil || v.Kind() != constant.String {
		Fatal("string constant %s not found", name)
	}
	return constant.StringVal(v)
}

// Emit writes the generated text to out (stdout when empty), keeping the file's
// time stamp when the content is unchanged so that make does not rebuild.
func Emit(out string, text string) {
	if out == "" {
		fmt.Print(text)
		return
	}
	old, err := os.ReadFile(out)
	if err == nil && string(old) == text {
		return
	}
	if err := os.WriteFile(out, []byte(text), 0o644); err != nil {
		Fatal("%v", err)
	}
}

// Builder accumulates generated Coq text.
type Builder struct{ strings.Builder }

// P appends one formatted line.
func (b *Builder) P(format string, args ...interface{}) {
	fmt.Fprintf(&b.Builder, format+"\n", args...)
}
