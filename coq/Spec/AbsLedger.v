(* The abstract ownership ledger: the reference against which C01 and C02 are
   stated (DESIGN.md I1).  A response is abstracted to groups of releases and
   claims on keys (container id × item); releases come first, a claim on a key
   that is still held is a conflict.  Independent of Model/Result.v. *)
From Coq Require Import String Ascii List Bool ZArith.
From NRI Require Import Base.Strs Base.Assoc Model.Types.
Import ListNotations.
Open Scope string_scope.
Open Scope list_scope.

Record group := { g_ignorable : bool; g_releases : list lkey; g_claims : list lkey }.

Definition marked_keys (keys : list string) : list string := map rawkey (filter marked keys).
Definition plain_keys (keys : list string) : list string := filter (fun k => negb (marked k)) keys.

Definition res_claims (id : string) (r : resources) : list lkey :=
  map (fun f => (id, IScal f)) (filter (fun f => match flookup f (r_scal r) with Some _ => true | None => false end) scalars_a)
  ++ map (fun e => (id, IHp (fst e))) (r_hp r)
  ++ map (fun e => (id, IUni (fst e))) (r_uni r)
  ++ map (fun f => (id, IScal f)) (filter (fun f => match flookup f (r_scal r) with Some _ => true | None => false end) scalars_b).

(* the group of an adjustment of container id *)
Definition adjust_group (id : string) (a : adjustment) : group :=
  let args_marked := match a_args a with a0 :: _ => String.eqb a0 "" | [] => false end in
  {| g_ignorable := false;
     g_releases :=
       map (fun k => (id, IAnn k)) (marked_keys (map fst (a_ann a)))
       ++ map (fun k => (id, IMount k)) (marked_keys (map m_dest (a_mounts a)))
       ++ map (fun k => (id, IEnv k)) (marked_keys (map fst (a_env a)))
       ++ (if args_marked then [(id, IArgs)] else [])
       ++ map (fun k => (id, IDev k)) (marked_keys (map d_path (a_devices a)));
     g_claims :=
       map (fun k => (id, IAnn k)) (plain_keys (map fst (a_ann a)))
       ++ map (fun k => (id, IMount k)) (plain_keys (map m_dest (a_mounts a)))
       ++ map (fun k => (id, IEnv k)) (plain_keys (map fst (a_env a)))
       ++ (match a_args a with [] => [] | _ => [(id, IArgs)] end)
       ++ map (fun k => (id, IDev k)) (plain_keys (map d_path (a_devices a)))
       ++ res_claims id (a_res a)
       ++ (if String.eqb (a_cgroups a) "" then [] else [(id, ICgroups)])
       ++ (match a_oom a with Some _ => [(id, IOom)] | None => [] end)
       ++ map (fun l => (id, IRlimit (rl_type l))) (a_rlimits a)
       ++ map (fun n => (id, ICdi n)) (a_cdi a) |}.

Definition update_group (u : update) : group :=
  {| g_ignorable := u_ignore u; g_releases := [];
     g_claims := match u_res u with Some r => res_claims (u_id u) r | None => [] end |}.

(* groups of one plugin's response; created = id of the container being created, if any *)
Definition groups_of (created : option string) (rp : response) : list group :=
  (match created, rp_adjust rp with
   | Some id, Some a => [adjust_group id a]
   | _, _ => []
   end) ++ map update_group (rp_updates rp).

Fixpoint abs_claims (ks : list lkey) (o : list lkey) : bool * list lkey :=
  match ks with
  | [] => (true, o)
  | k :: r => if lmem k o then (false, o) else abs_claims r (k :: o)
  end.

(* Some (ledger, dropped flags) or None on a conflict that is not ignorable *)
Fixpoint abs_run (gs : list group) (o : list lkey) (dropped : list bool) : option (list lkey * list bool) :=
  match gs with
  | [] => Some (o, dropped)
  | g :: r =>
      let o1 := fold_left (fun o k => lremove k o) (g_releases g) o in
      match abs_claims (g_claims g) o1 with
      | (true, o2) => abs_run r o2 (dropped ++ [false])
      | (false, o2) => if g_ignorable g then abs_run r o2 (dropped ++ [true]) else None
      end
  end.

Definition all_groups (created : option string) (rps : list response) : list group :=
  concat (map (groups_of created) rps).

(* two plugins set one item and the claim of the earlier one still stands *)
Definition abs_conflict (created : option string) (rps : list response) : bool :=
  match abs_run (all_groups created rps) [] [] with None => true | Some _ => false end.

(* an ignore-failure update was dropped somewhere (histories on which I2 leaves C01/C02 silent) *)
Definition some_dropped (created : option string) (rps : list response) : bool :=
  match abs_run (all_groups created rps) [] [] with
  | None => false
  | Some (_, d) => existsb (fun b => b) d
  end.

(* a plugin asks for an update of the container being created *)
Definition self_update (created : option string) (rps : list response) : bool :=
  match created with
  | None => false
  | Some id => existsb (fun rp => existsb (fun u => String.eqb (u_id u) id) (rp_updates rp)) rps
  end.
