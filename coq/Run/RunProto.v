(* C12 — case records and the correspondence / property predicates evaluated on harness cases. *)
From Coq Require Import String Ascii List Bool ZArith NArith.
From NRI Require Import Model.Proto Model.Schema Run.Common.
Import ListNotations.
Local Open Scope N_scope.

(* ---- observed bytes: the harness prints them as lists of Init.Byte constructors ([x0a; xff; ...]),
        which coqc parses far faster than string or number literals ---- *)
Definition bs (l : list Byte.byte) : bytes := map ascii_of_byte l.
(* a string given by its bytes (used for long strings and for strings that are not printable ASCII) *)
Definition sb (l : list Byte.byte) : string := string_of_bytes (bs l).

(* abbreviations the harness uses for default field values *)
Definition v0 : value := VScalar 0.
Definition s0 : value := VString EmptyString.
Definition r0 : value := VRepStr [].
Definition l0 : value := VRep [].
Definition m0 : value := VMap [].

Definition bytes_eqb (a b : bytes) : bool := list_eqb Ascii.eqb a b.

(* ---- value equality, canonical form (maps sorted by key) ---- *)
Definition kv_eqb (a b : string * string) : bool := pair_eqb String.eqb String.eqb a b.

Fixpoint value_eqb (a b : value) {struct a} : bool :=
  match a, b with
  | VScalar x, VScalar y => Z.eqb x y
  | VString x, VString y => String.eqb x y
  | VNone, VNone => true
  | VMsg xs, VMsg ys =>
      (fix go (xs ys : list value) {struct xs} : bool :=
         match xs, ys with
         | [], [] => true
         | x :: xr, y :: yr => value_eqb x y && go xr yr
         | _, _ => false
         end) xs ys
  | VRepStr x, VRepStr y => list_eqb String.eqb x y
  | VRep xs, VRep ys =>
      (fix go (xs ys : list value) {struct xs} : bool :=
         match xs, ys with
         | [], [] => true
         | x :: xr, y :: yr => value_eqb x y && go xr yr
         | _, _ => false
         end) xs ys
  | VMap x, VMap y => list_eqb kv_eqb x y
  | _, _ => false
  end.

Fixpoint kv_insert (e : string * string) (l : list (string * string)) : list (string * string) :=
  match l with
  | [] => [e]
  | x :: r => if String.leb (fst e) (fst x) then e :: l else x :: kv_insert e r
  end.
Definition kv_sort (l : list (string * string)) : list (string * string) := fold_right kv_insert [] l.

Fixpoint canon (v : value) : value :=
  match v with
  | VMsg fs => VMsg (map canon fs)
  | VRep l => VRep (map canon l)
  | VMap l => VMap (kv_sort l)
  | _ => v
  end.

(* ---- cases ---- *)

(* what a Go decoder returned, printed by the same printer as the original value (maps sorted):
   ObsSame = the printed term is identical to the original's *)
Inductive obs := ObsSame | ObsErr | ObsVal (v : value).

Record proto_case := {
  pc_msg : string;          (* message name *)
  pc_val : value;           (* the message, maps in sorted key order *)
  pc_pb : list Byte.byte;   (* proto.Marshal (Deterministic) *)
  pc_pbsize : N;            (* proto.Size *)
  pc_has_vt : bool;         (* the type has MarshalVT / UnmarshalVT / SizeVT *)
  pc_vt_same : bool;        (* MarshalVT wrote exactly the bytes of pc_pb (then pc_vt is left empty) *)
  pc_vt : list Byte.byte;   (* MarshalVT *)
  pc_sizevt : N;            (* SizeVT *)
  pc_pb_of_pb : obs;        (* proto.Unmarshal of the reflection codec's bytes *)
  pc_pb_of_vt : obs;        (* proto.Unmarshal of MarshalVT's bytes *)
  pc_vt_of_pb : obs;        (* UnmarshalVT of the reflection codec's bytes *)
  pc_vt_of_vt : obs         (* UnmarshalVT of MarshalVT's bytes *)
}.

Definition enc := encode schema.
Definition dec := decode schema.

(* MarshalVT iterates Go maps in random order: its bytes must be the model's encoding of the same
   message under SOME order of the map entries — the one the model's decoder reads back *)
Definition vt_bytes_ok (name : string) (v : value) (vt : bytes) : bool :=
  match dec name vt with
  | Some v' => value_eqb (canon v') (canon v) && bytes_eqb (enc name v') vt
  | None => false
  end.

Definition vt_of (c : proto_case) : bytes := if pc_vt_same c then bs (pc_pb c) else bs (pc_vt c).

Definition corr_proto (c : proto_case) : bool :=
  let name := pc_msg c in
  let v := pc_val c in
  let pb := bs (pc_pb c) in
  wf_value schema name v
  && bytes_eqb (enc name v) pb
  && (size schema name v =? pc_pbsize c)
  && opt_eqb value_eqb (dec name pb) (Some v)
  && (if pc_has_vt c
      then (if pc_vt_same c then true else vt_bytes_ok name v (bs (pc_vt c)))
           && (size schema name v =? pc_sizevt c)
      else true).

Definition obs_ok (v : value) (o : obs) : bool :=
  match o with
  | ObsSame => true
  | ObsErr => false
  | ObsVal w => value_eqb (canon w) (canon v)
  end.

(* the property on the implementation's own observations: every decoder returns the original
   message from every encoder's bytes, and SizeVT is the number of bytes MarshalVT wrote *)
Definition holds_proto (c : proto_case) : bool :=
  obs_ok (pc_val c) (pc_pb_of_pb c)
  && (if pc_has_vt c
      then obs_ok (pc_val c) (pc_pb_of_vt c) && obs_ok (pc_val c) (pc_vt_of_pb c)
           && obs_ok (pc_val c) (pc_vt_of_vt c)
           && (pc_sizevt c =? blen (vt_of c))
      else true)
  && (pc_pbsize c =? blen (bs (pc_pb c))).

(* ---- decoder cases: non-canonical but valid (or truncated) inputs; only model/implementation
        agreement is judged (the property speaks about encoder output) ---- *)
Record dec_case := {
  dc_msg : string;
  dc_bytes : list Byte.byte;
  dc_pb : obs;              (* proto.Unmarshal: ObsErr | ObsVal *)
  dc_has_vt : bool;
  dc_vt : obs               (* UnmarshalVT *)
}.

Definition dec_obs_ok (m : option value) (o : obs) : bool :=
  match m, o with
  | None, ObsErr => true
  | Some v, ObsVal w => value_eqb (canon v) (canon w)
  | _, _ => false
  end.

Definition corr_dec (c : dec_case) : bool :=
  let m := dec (dc_msg c) (bs (dc_bytes c)) in
  dec_obs_ok m (dc_pb c) && (if dc_has_vt c then dec_obs_ok m (dc_vt c) else true).
