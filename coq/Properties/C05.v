(* C05 — container updates are collected once per target with exactly the fields set.
   Only statements here; proofs are in Proofs/UpdatesProofs.v (and Proofs/ResultProofs.v,
   Proofs/RefineLedger.v).

   The theorems are about Model/Result.v ([update_one], [update_all], [run_request],
   [response_updates]), the executable model of pkg/adaptation/result.go that the correspondence
   check runs against the real code on every invocation.  The reference is Spec/Updates.v
   ([spec_updates]: one entry per distinct target in order of first mention; the updated container's
   entry last — absent when never mentioned, an empty placeholder when mentioned but unchanged,
   otherwise the runtime's requested resources overlaid with the plugins' changes; an update flagged
   as dropped by the abstract ledger of Spec/AbsLedger.v contributes nothing).
   [wf_rp]: the annotation map of an adjustment has distinct keys (it is a Go map) — the only
   hypothesis.  No well-formedness of the updates themselves is needed: an update naming one
   hugepage size or one unified key twice conflicts with itself in the model exactly as in the
   abstract ledger. *)
From Coq Require Import String List Bool ZArith.
From NRI Require Import Base.Strs Model.Types Model.Result Spec.Apply Spec.AbsLedger Spec.Updates
  Proofs.ResultProofs Proofs.RefineLedger Proofs.UpdatesProofs Run.RunAdapt.
Import ListNotations.

(* an update that targets the container currently being created fails the request — wherever it
   stands in the plugin's list and also when it is marked ignore-failure *)
Theorem C05_self_update_rejected :
  forall us1 u us2 s c,
    s_create s = Some c -> u_id u = c_id c -> exists e, update_all (us1 ++ u :: us2) s = Err e.
Proof. exact self_update_fails. Qed.
Print Assumptions C05_self_update_rejected.

(* THE property, for every request kind, every number of plugins, every set of targets (own
   container, repeated targets), every subset of fields, every placement of ignore-failure, every
   pre-populated update request: when the request succeeds the reference is defined and the model's
   updates satisfy the very predicate that holds_C05 (Run/RunAdapt.v) evaluates on the
   implementation's observation *)
Theorem C05_updates_exact :
  forall rq rps s,
    Forall wf_rp rps -> snd (run_request rq rps) = Ok s ->
    exists us,
      spec_updates (created_of rq) (own_of rq) rps = Some us /\
      updates_obs_eqb (match rq with RUpdate _ _ => true | _ => false end) us
        (map (fun o => match o with Some a => Some (au_id a, au_res a) | None => None end) (response_updates rq s)) = true.
Proof. exact updates_exact. Qed.
Print Assumptions C05_updates_exact.

(* sharper: the reference IS the model's output — same entries, same order, same values, not only
   up to the map readings of updates_obs_eqb *)
Theorem C05_updates_exact_eq :
  forall rq rps s,
    Forall wf_rp rps -> snd (run_request rq rps) = Ok s ->
    spec_updates (req_created rq) (own_of rq) rps = Some (map out_of (response_updates rq s)).
Proof. exact updates_exact_eq. Qed.
Print Assumptions C05_updates_exact_eq.

(* the whole run-time predicate, success and failure: an observation carrying the model's error
   class and the model's updates satisfies holds_C05 *)
Theorem C05_model_satisfies_predicate :
  forall c,
    Forall wf_rp (ac_resps c) ->
    match snd (run_request (ac_req c) (ac_resps c)) with
    | Ok s => ac_err c = 0 /\ ac_updates c = map out_of (response_updates (ac_req c) s)
    | Err e => ac_err c = err_class e
    end ->
    holds_C05 c = true.
Proof. exact model_satisfies_holds_C05. Qed.
Print Assumptions C05_model_satisfies_predicate.

(* flags alignment: [model_drops u s] is the model's own decision (updateResources refused a claim of
   an update; with ignore-failure the error is swallowed).  It is the abstract ledger's verdict on the
   update's claims ... *)
Theorem C05_drop_is_ledger_verdict :
  forall cr u s oa,
    SInv cr s oa -> model_drops u s = negb (fst (abs_claims (g_claims (update_group u)) oa)).
Proof. exact model_drops_abs. Qed.
Print Assumptions C05_drop_is_ledger_verdict.

(* ... and over a whole request the flagged updates of the reference are the updates of the history,
   in order, each paired with the model's decision [run_drops] *)
Theorem C05_flags_alignment :
  forall rq rps s,
    Forall wf_rp rps -> snd (run_request rq rps) = Ok s ->
    exists oa fl,
      abs_run (all_groups (req_created rq) rps) [] [] = Some (oa, fl) /\
      flagged_updates (req_created rq) rps fl = combine (concat (map rp_updates rps)) (run_drops rps (init_state rq)) /\
      length (run_drops rps (init_state rq)) = length (concat (map rp_updates rps)) /\
      UInv (own_of rq) (flagged_updates (req_created rq) rps fl) s.
Proof. exact flags_alignment. Qed.
Print Assumptions C05_flags_alignment.

(* exactly the fields set: a committed update leaves the resources it was staged on overlaid with its
   own (scalars overwritten, hugepage limits appended = last wins, unified keys upserted) *)
Theorem C05_merge_is_overlay :
  forall id r base o r' o',
    merge_resources id r base o = (Ok r', o') -> r' = apply_res base r /\ res_obs_eqb r' (apply_res base r) = true.
Proof. exact merge_is_overlay. Qed.
Print Assumptions C05_merge_is_overlay.

(* copy-then-commit: an ignore-failure update that conflicts does not fail the request, and leaves
   the resources of every accumulated entry, the update-request view, the container view and the
   reply as they were; a target mentioned for the first time gets an entry without values *)
Theorem C05_ignored_conflict_dropped :
  forall u s,
    u_ignore u = true -> model_drops u s = true ->
    (forall c, s_create s = Some c -> c_id c <> u_id u) ->
    exists s',
      update_one u s = Ok s' /\
      s_update s' = s_update s /\ s_create s' = s_create s /\ s_adjust s' = s_adjust s /\
      forall t, option_map au_res (find_acc t (s_updates s')) =
                if String.eqb t (u_id u)
                then Some (match find_acc t (s_updates s) with Some a => au_res a | None => res_empty end)
                else option_map au_res (find_acc t (s_updates s)).
Proof. exact ignored_conflict_dropped. Qed.
Print Assumptions C05_ignored_conflict_dropped.

(* one entry per distinct target in order of first mention (dropped and value-less updates count as
   mentions); for an update request the updated container's entry comes last, nil when never mentioned *)
Theorem C05_one_entry_per_target :
  forall rq rps s,
    Forall wf_rp rps -> snd (run_request rq rps) = Ok s ->
    let mentioned := dedup (map u_id (concat (map rp_updates rps))) [] in
    NoDup mentioned /\
    map au_id (s_updates s) = mentioned /\
    map (option_map au_id) (response_updates rq s) =
    match rq with
    | RUpdate id _ => map Some (filter (fun t => negb (String.eqb t id)) mentioned) ++ [if smem id mentioned then Some id else None]
    | _ => map Some mentioned
    end.
Proof. exact one_entry_per_target. Qed.
Print Assumptions C05_one_entry_per_target.

(* ---------- non-vacuity ---------- *)
Open Scope string_scope.
Open Scope Z_scope.
Definition ex_R sc hp un : resources := {| r_scal := sc; r_hp := hp; r_uni := un |}.
Definition ex_U id r ig : update := {| u_id := id; u_res := r; u_ignore := ig |}.
Definition ex_RP us : response := {| rp_adjust := None; rp_updates := us |}.
(* the runtime updates c0 (memory limit 100, CPU shares 5, one hugepage limit, one unified key).
   Plugin A: CPU shares of o1; memory limit of c0 itself.
   Plugin B: ignore-failure update of o1 {memory limit, CPU shares} — conflicts with A, dropped; hugepages of o2.
   Plugin C: c0 again (hugepage size already requested, unified keys); o1 again (unified); o3 and o2 without values. *)
Definition ex_req : request := RUpdate "c0" (ex_R [(MemLimit, VZ 100); (CpuShares, VZ 5)] [("2M", 1)] [("k", "v")]).
Definition ex_rps : list response :=
  [ex_RP [ex_U "o1" (Some (ex_R [(CpuShares, VZ 7)] [] [])) false; ex_U "c0" (Some (ex_R [(MemLimit, VZ 200)] [] [])) false];
   ex_RP [ex_U "o1" (Some (ex_R [(MemLimit, VZ 1); (CpuShares, VZ 9)] [] [])) true; ex_U "o2" (Some (ex_R [] [("1G", 3)] [])) false];
   ex_RP [ex_U "c0" (Some (ex_R [] [("2M", 9)] [("k", "w"); ("z", "y")])) false; ex_U "o1" (Some (ex_R [] [] [("a", "b")])) false;
          ex_U "o3" None true; ex_U "o2" None false]].

Example C05_example_wf : Forall wf_rp ex_rps.
Proof. repeat constructor. Qed.

(* the request succeeds, exactly one update (B's first) is dropped, and the runtime receives
   o1, o2, o3 in order of first mention and c0 last with the request overlaid *)
Example C05_example :
  exists s,
    snd (run_request ex_req ex_rps) = Ok s /\
    run_drops ex_rps (init_state ex_req) = [false; false; true; false; false; false; false; false] /\
    map out_of (response_updates ex_req s) =
      [Some ("o1", ex_R [(CpuShares, VZ 7)] [] [("a", "b")]);
       Some ("o2", ex_R [] [("1G", 3)] []);
       Some ("o3", ex_R [] [] []);
       Some ("c0", ex_R [(MemLimit, VZ 200); (CpuShares, VZ 5)] [("2M", 1); ("2M", 9)] [("k", "w"); ("z", "y")])] /\
    spec_updates (created_of ex_req) (own_of ex_req) ex_rps = Some (map out_of (response_updates ex_req s)).
Proof. eexists. split; [vm_compute; reflexivity|]. vm_compute. repeat split. Qed.

(* the dropped update alone: B's update of o1 is refused (A holds o1's CPU shares), swallowed, and
   changes neither o1's entry nor the view *)
Example C05_example_dropped :
  exists s1,
    snd (run_request ex_req (firstn 1 ex_rps)) = Ok s1 /\
    model_drops (ex_U "o1" (Some (ex_R [(MemLimit, VZ 1); (CpuShares, VZ 9)] [] [])) true) s1 = true.
Proof. eexists. split; vm_compute; reflexivity. Qed.
