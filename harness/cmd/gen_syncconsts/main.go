// gen_syncconsts regenerates coq/Model/SyncConsts.v from /repo's current
// pkg/adaptation/plugin.go: the minimum number of objects per Synchronize
// message and the float64 cap of the scaling factor (as the exact IEEE-754
// mantissa/exponent of the literal in the source); and from pkg/stub/stub.go:
// whether (*stub).close() discards the partially collected split
// synchronisation request (`stub.syncReq = nil`).  It is one of the
// translators of the trusted base (DESIGN.md section 8).
package main

import (
	"flag"
	"go/ast"
	"go/token"
	"math"
	"path/filepath"
	"strconv"

	"verif/harness/internal/coqfmt"
	"verif/harness/internal/gast"
)

// specFloat renders a positive normal float64 as a Coq spec_float.
func specFloat(lit string) string {
	f, err := strconv.ParseFloat(lit, 64)
	if err != nil || !(f > 0) || math.IsInf(f, 0) {
		gast.Fatal("factor literal %q is not a positive finite float", lit)
	}
	bits := math.Float64bits(f)
	exp := int64((bits >> 52) & 0x7ff)
	man := bits & (1<<52 - 1)
	if exp == 0 {
		gast.Fatal("factor literal %q is subnormal", lit)
	}
	return "(S754_finite false " + strconv.FormatUint(man|1<<52, 10) + "%positive " + coqfmt.Z(exp-1075) + ")"
}

// giveUpOp finds, in recalcObjsPerSyncMsg(pods, ctrs, err), the test that gives up splitting:
//
//	if pods+ctrs <= minObjsPerMsg { return pods, ctrs, fmt.Errorf(...) }
//
// (the sum of the function's first two parameters compared with the constant; the body returns)
// and says whether its operator is `<=` (true) or `<` (false).  Any other shape is fatal.
func giveUpOp(f *gast.File) bool {
	for _, d := range f.F.Decls {
		fd, ok := d.(*ast.FuncDecl)
		if !ok || fd.Name.Name != "recalcObjsPerSyncMsg" || fd.Body == nil {
			continue
		}
		var params []string
		for _, fl := range fd.Type.Params.List {
			for _, n := range fl.Names {
				params = append(params, n.Name)
			}
		}
		if len(params) < 2 {
			gast.Fatal("recalcObjsPerSyncMsg has fewer than two parameters in %s", f.Path)
		}
		found, le := 0, false
		for _, st := range fd.Body.List {
			is, ok := st.(*ast.IfStmt)
			if !ok || is.Init != nil || is.Else != nil {
				continue
			}
			be, ok := is.Cond.(*ast.BinaryExpr)
			if !ok {
				continue
			}
			sum, ok := be.X.(*ast.BinaryExpr)
			c, ok2 := be.Y.(*ast.Ident)
			if !ok || !ok2 || sum.Op != token.ADD || c.Name != "minObjsPerMsg" {
				continue
			}
			a, ok := sum.X.(*ast.Ident)
			b, ok2 := sum.Y.(*ast.Ident)
			if !ok || !ok2 || a.Name != params[0] || b.Name != params[1] {
				continue
			}
			if len(is.Body.List) != 1 {
				continue
			}
			if _, ok := is.Body.List[0].(*ast.ReturnStmt); !ok {
				continue
			}
			switch be.Op {
			case token.LEQ:
				found, le = found+1, true
			case token.LSS:
				found, le = found+1, false
			default:
				gast.Fatal("recalcObjsPerSyncMsg: unexpected operator %s in the give-up test of %s", be.Op, f.Path)
			}
		}
		if found != 1 {
			gast.Fatal("`if %s+%s <= minObjsPerMsg { return ... }` found %d times in recalcObjsPerSyncMsg of %s", params[0], params[1], found, f.Path)
		}
		return le
	}
	gast.Fatal("recalcObjsPerSyncMsg not found in %s", f.Path)
	return false
}

// closeResetsSync says whether the method close of the stub unconditionally
// assigns nil to the field that collectSync / deliverSync accumulate into:
// a top-level statement `<recv>.<field> = nil` of the method body (statements
// nested in an if/for/switch do not count, nor do statements after the first
// top-level return).  The field is the one collectSync assigns `req` to.
func closeResetsSync(f *gast.File) (field string, resets bool) {
	methods := map[string]*ast.FuncDecl{}
	for _, d := range f.F.Decls {
		fd, ok := d.(*ast.FuncDecl)
		if !ok || fd.Recv == nil || len(fd.Recv.List) != 1 || fd.Body == nil {
			continue
		}
		star, ok := fd.Recv.List[0].Type.(*ast.StarExpr)
		if !ok {
			continue
		}
		if id, ok := star.X.(*ast.Ident); !ok || id.Name != "stub" {
			continue
		}
		methods[fd.Name.Name] = fd
	}
	recvName := func(fd *ast.FuncDecl) string {
		if len(fd.Recv.List[0].Names) != 1 {
			return ""
		}
		return fd.Recv.List[0].Names[0].Name
	}
	// the accumulator: collectSync contains `<recv>.<field> = req`
	cs := methods["collectSync"]
	if cs == nil {
		gast.Fatal("method (*stub).collectSync not found in %s", f.Path)
	}
	ast.Inspect(cs, func(n ast.Node) bool {
		as, ok := n.(*ast.AssignStmt)
		if !ok || as.Tok != token.ASSIGN || len(as.Lhs) != 1 || len(as.Rhs) != 1 {
			return true
		}
		sel, ok := as.Lhs[0].(*ast.SelectorExpr)
		r, ok2 := as.Rhs[0].(*ast.Ident)
		if !ok || !ok2 || r.Name != "req" {
			return true
		}
		if x, ok := sel.X.(*ast.Ident); ok && x.Name == recvName(cs) {
			field = sel.Sel.Name
		}
		return true
	})
	if field == "" {
		gast.Fatal("`stub.<field> = req` not found in (*stub).collectSync of %s", f.Path)
	}
	cl := methods["close"]
	if cl == nil {
		gast.Fatal("method (*stub).close not found in %s", f.Path)
	}
	for _, st := range cl.Body.List {
		if _, ok := st.(*ast.ReturnStmt); ok {
			break
		}
		as, ok := st.(*ast.AssignStmt)
		if !ok || as.Tok != token.ASSIGN || len(as.Lhs) != 1 || len(as.Rhs) != 1 {
			continue
		}
		sel, ok := as.Lhs[0].(*ast.SelectorExpr)
		r, ok2 := as.Rhs[0].(*ast.Ident)
		if !ok || !ok2 || r.Name != "nil" || sel.Sel.Name != field {
			continue
		}
		if x, ok := sel.X.(*ast.Ident); ok && x.Name == recvName(cl) {
			resets = true
		}
	}
	return field, resets
}

func main() {
	repo := flag.String("repo", "/repo", "repository root")
	out := flag.String("out", "", "output file (default: stdout)")
	flag.Parse()

	f := gast.Parse(filepath.Join(*repo, "pkg/adaptation/plugin.go"))
	consts := f.Consts(nil)

	// if factor > LIT { factor = LIT } inside recalcObjsPerSyncMsg
	var cmp, set string
	for _, d := range f.F.Decls {
		fd, ok := d.(*ast.FuncDecl)
		if !ok || fd.Name.Name != "recalcObjsPerSyncMsg" {
			continue
		}
		ast.Inspect(fd, func(n ast.Node) bool {
			is, ok := n.(*ast.IfStmt)
			if !ok {
				return true
			}
			be, ok := is.Cond.(*ast.BinaryExpr)
			if !ok || be.Op != token.GTR {
				return true
			}
			id, ok := be.X.(*ast.Ident)
			lit, ok2 := be.Y.(*ast.BasicLit)
			if !ok || !ok2 || id.Name != "factor" || (lit.Kind != token.FLOAT && lit.Kind != token.INT) {
				return true
			}
			if len(is.Body.List) != 1 {
				return true
			}
			as, ok := is.Body.List[0].(*ast.AssignStmt)
			if !ok || len(as.Lhs) != 1 || len(as.Rhs) != 1 {
				return true
			}
			l, ok := as.Lhs[0].(*ast.Ident)
			r, ok2 := as.Rhs[0].(*ast.BasicLit)
			if !ok || !ok2 || l.Name != "factor" {
				return true
			}
			cmp, set = lit.Value, r.Value
			return false
		})
	}
	if cmp == "" || set == "" {
		gast.Fatal("`if factor > C { factor = C }` not found in recalcObjsPerSyncMsg of %s", f.Path)
	}

	var b gast.Builder
	b.P("(* GENERATED by harness/cmd/gen_syncconsts from %s/pkg/adaptation/plugin.go and pkg/stub/stub.go — do not edit. *)", *repo)
	b.P("From Coq Require Import ZArith Floats.SpecFloat.")
	b.P("")
	b.P("(* recalcObjsPerSyncMsg: const minObjsPerMsg *)")
	b.P("Definition min_objs_per_msg : Z := %s.", coqfmt.Z(gast.MustInt(consts, "minObjsPerMsg")))
	b.P("(* recalcObjsPerSyncMsg: `if factor > %s { factor = %s }` as float64 values (mantissa, exponent) *)", cmp, set)
	b.P("Definition sync_cap_cmp : spec_float := %s.", specFloat(cmp))
	b.P("Definition sync_cap_set : spec_float := %s.", specFloat(set))
	b.P("(* recalcObjsPerSyncMsg: the give-up test `if pods+ctrs OP minObjsPerMsg { return error }`: OP is `<=` (true) or `<` (false) *)")
	b.P("Definition sync_giveup_le : bool := %v.", giveUpOp(f))

	sf := gast.Parse(filepath.Join(*repo, "pkg/stub/stub.go"))
	field, resets := closeResetsSync(sf)
	b.P("(* pkg/stub/stub.go: the method close of the stub contains the top-level statement `stub.%s = nil` *)", field)
	b.P("Definition close_resets_sync : bool := %v.", resets)
	gast.Emit(*out, b.String())
}
