"""Configuration of ./check: global settings here, one JSON file per property in props/<ID>.json.

Keys of props/<ID>.json:
  binary          harness binary (harness/cmd/<binary>) that implements the drivers
  drivers         list of driver names run for this property (each: <binary> -out DIR <driver>)
  streams         optional list of shard/impl-failure stream names that belong to this property
                  (a driver shared by several properties tags each stream; default: all)
  generated       list of [translator binary, Coq file relative to coq/] regenerated on every run
  run_modules     Coq modules (e.g. "Run.RunC14") that the case files import; built with the cone
  corr_name       human name of the correspondence (printed in replay files)
  race            true: thorough tier builds the driver with the Go race detector
  driver_timeout  seconds
  level_text, level_note, technique, design_ref   -> MANIFEST.json
  assumptions, trusted                            -> evidence
  claimed         false: listed under not_applicable with na_reason
"""
import glob, json, os

VERIF = os.path.dirname(os.path.dirname(os.path.abspath(__file__)))

# Standard-library axioms that a theorem may depend on; each is named in DESIGN.md section 8.
ALLOWED_AXIOMS = []

TRUSTED_BASE = [
    "Coq 8.16.1 kernel and its vm_compute virtual machine (proofs over finite domains and model evaluation); no native_compute, no extraction",
    "translators harness/cmd/gen_* (go/ast, protoreflect -> generated Coq constants) and the harness's Coq term printer",
    "the correspondence harness: drivers, generators and canonicalisation; agreement on generated cases is testing, the weaker half of the claim",
]

BASELINE_OFF_CMD = "cd /repo && for m in . plugins/device-injector plugins/ulimit-adjuster; do (cd $m && GOFLAGS=-mod=mod go test -vet=off -count=1 ./...) || exit 1; done"
HOOK_COMMITS = []
ENGINES = [
    {"name": "coq", "path": "coq/", "serves_properties": [], "kind_free_text": "Coq 8.16.1 development: executable Gallina models, reference semantics, proofs; Properties/Cxx.v holds only theorem statements"},
    {"name": "harness", "path": "harness/", "serves_properties": [], "kind_free_text": "Go module (replace nri => /repo) driving the real implementation; writes Coq case files evaluated by vm_compute (correspondence check) and regenerates the Coq constants derived from the sources"},
]
NOTES = "All checks: ./check <ID> --tier quick|thorough. See DESIGN.md. Known findings: known_findings.json."

PROPS = {}
for f in sorted(glob.glob(os.path.join(VERIF, "props", "C*.json"))):
    PROPS[os.path.basename(f)[:-5]] = json.load(open(f))
for e in ENGINES:
    e["serves_properties"] = sorted(PROPS)
