(* Data types shared by the models of pkg/adaptation/result.go and
   pkg/runtime-tools/generate/generate.go.  Go values become immutable Gallina
   values (DESIGN.md 2.2); nil and empty sub-messages are identified. *)
From Coq Require Import String Ascii List Bool ZArith.
From NRI Require Import Base.Strs Base.Assoc.
Import ListNotations.
Open Scope string_scope.
Open Scope list_scope.

(* ---------- removal markers: pkg/api/helpers.go ---------- *)
Definition is_marked (k : string) : string * bool :=
  match k with
  | EmptyString => (EmptyString, false)
  | String c r => if Ascii.eqb c "-"%char then (r, true) else (k, false)
  end.
Definition marked (k : string) : bool := snd (is_marked k).
Definition rawkey (k : string) : string := fst (is_marked k).
Definition mark (k : string) : string := String "-"%char k.

Lemma marked_mark k : marked (mark k) = true.
Proof. reflexivity. Qed.
Lemma rawkey_mark k : rawkey (mark k) = k.
Proof. reflexivity. Qed.
Lemma rawkey_unmarked k : marked k = false -> rawkey k = k.
Proof.
  unfold marked, rawkey, is_marked. destruct k as [|c r]; [reflexivity|].
  destruct (Ascii.eqb c "-"%char); simpl; [discriminate|reflexivity].
Qed.

(* ---------- scalar resource fields ---------- *)
Inductive sfield :=
| MemLimit | MemReservation | MemSwap | MemKernel | MemKernelTcp | MemSwappiness
| MemDisableOom | MemUseHierarchy
| CpuShares | CpuQuota | CpuPeriod | CpuRtRuntime | CpuRtPeriod | CpuCpus | CpuMems
| BlockioClass | RdtClass | Pids.

Definition sfield_idx (f : sfield) : nat :=
  match f with
  | MemLimit => 0 | MemReservation => 1 | MemSwap => 2 | MemKernel => 3 | MemKernelTcp => 4
  | MemSwappiness => 5 | MemDisableOom => 6 | MemUseHierarchy => 7
  | CpuShares => 8 | CpuQuota => 9 | CpuPeriod => 10 | CpuRtRuntime => 11 | CpuRtPeriod => 12
  | CpuCpus => 13 | CpuMems => 14 | BlockioClass => 15 | RdtClass => 16 | Pids => 17
  end.
Definition sfield_eqb (a b : sfield) : bool := Nat.eqb (sfield_idx a) (sfield_idx b).

Lemma sfield_eqb_spec a b : reflect (a = b) (sfield_eqb a b).
Proof.
  unfold sfield_eqb. destruct (Nat.eqb_spec (sfield_idx a) (sfield_idx b)) as [E|N]; constructor.
  - destruct a, b; simpl in E; try discriminate; reflexivity.
  - intros ->. apply N. reflexivity.
Qed.

(* the order in which adjustResources / updateResources visit the scalar fields:
   memory, cpu — then hugepages and unified — then the classes and pids *)
Definition scalars_a : list sfield :=
  [MemLimit; MemReservation; MemSwap; MemKernel; MemKernelTcp; MemSwappiness; MemDisableOom; MemUseHierarchy;
   CpuShares; CpuQuota; CpuPeriod; CpuRtRuntime; CpuRtPeriod; CpuCpus; CpuMems].
Definition scalars_b : list sfield := [BlockioClass; RdtClass; Pids].
Definition all_scalars : list sfield := scalars_a ++ scalars_b.

Inductive sval := VZ (z : Z) | VB (b : bool) | VS (s : string).
Definition sval_eqb (a b : sval) : bool :=
  match a, b with
  | VZ x, VZ y => Z.eqb x y
  | VB x, VB y => Bool.eqb x y
  | VS x, VS y => String.eqb x y
  | _, _ => false
  end.

Fixpoint flookup (f : sfield) (l : list (sfield * sval)) : option sval :=
  match l with
  | [] => None
  | (g, v) :: r => if sfield_eqb f g then Some v else flookup f r
  end.
Fixpoint fset (f : sfield) (v : sval) (l : list (sfield * sval)) : list (sfield * sval) :=
  match l with
  | [] => [(f, v)]
  | (g, w) :: r => if sfield_eqb f g then (f, v) :: r else (g, w) :: fset f v r
  end.

(* LinuxResources: a record of optional scalars, the hugepage list, the unified map *)
Record resources := {
  r_scal : list (sfield * sval);
  r_hp : list (string * Z);
  r_uni : list (string * string)
}.
Definition res_empty : resources := {| r_scal := []; r_hp := []; r_uni := [] |}.

Record mount := { m_dest : string; m_type : string; m_source : string; m_opts : list string }.
Record device := { d_path : string; d_type : string; d_major : Z; d_minor : Z;
                   d_mode : option Z; d_uid : option Z; d_gid : option Z }.
Record hook := { h_path : string; h_args : list string; h_env : list string; h_timeout : option Z }.
Record hooks := { hk_prestart : list hook; hk_createruntime : list hook; hk_createcontainer : list hook;
                  hk_startcontainer : list hook; hk_poststart : list hook; hk_poststop : list hook }.
Definition hooks_empty : hooks := {| hk_prestart := []; hk_createruntime := []; hk_createcontainer := [];
                                     hk_startcontainer := []; hk_poststart := []; hk_poststop := [] |}.
Definition hooks_append (a b : hooks) : hooks :=
  {| hk_prestart := hk_prestart a ++ hk_prestart b;
     hk_createruntime := hk_createruntime a ++ hk_createruntime b;
     hk_createcontainer := hk_createcontainer a ++ hk_createcontainer b;
     hk_startcontainer := hk_startcontainer a ++ hk_startcontainer b;
     hk_poststart := hk_poststart a ++ hk_poststart b;
     hk_poststop := hk_poststop a ++ hk_poststop b |}.
Record rlimit := { rl_type : string; rl_hard : Z; rl_soft : Z }.

(* the container as the runtime submits it / as a plugin is shown it *)
Record container := {
  c_id : string;
  c_ann : list (string * string);
  c_mounts : list mount;
  c_env : list string;
  c_args : list string;
  c_hooks : hooks;
  c_rlimits : list rlimit;
  c_devices : list device;
  c_res : resources;
  c_cgroups : string;
  c_oom : option Z
}.

(* ContainerAdjustment; map-typed fields are association lists in iteration order;
   keys may carry the removal marker *)
Record adjustment := {
  a_ann : list (string * string);
  a_mounts : list mount;
  a_env : list (string * string);
  a_args : list string;
  a_hooks : hooks;
  a_rlimits : list rlimit;
  a_cdi : list string;
  a_devices : list device;
  a_res : resources;
  a_cgroups : string;
  a_oom : option Z
}.
Definition adj_empty : adjustment :=
  {| a_ann := []; a_mounts := []; a_env := []; a_args := []; a_hooks := hooks_empty; a_rlimits := [];
     a_cdi := []; a_devices := []; a_res := res_empty; a_cgroups := ""; a_oom := None |}.

(* ContainerUpdate: target, resources (nil Linux / nil Resources = None), ignore-failure *)
Record update := { u_id : string; u_res : option resources; u_ignore : bool }.

(* a plugin's response to a create / update / stop request *)
Record response := { rp_adjust : option adjustment; rp_updates : list update }.

(* items of the ownership ledger: one constructor per item kind of C01 *)
Inductive item :=
| IAnn (k : string) | IMount (d : string) | IDev (p : string) | ICdi (n : string) | IEnv (k : string)
| IArgs | IScal (f : sfield) | IHp (size : string) | IUni (k : string) | ICgroups | IOom | IRlimit (t : string).

Definition item_eqb (a b : item) : bool :=
  match a, b with
  | IAnn x, IAnn y | IMount x, IMount y | IDev x, IDev y | ICdi x, ICdi y | IEnv x, IEnv y
  | IHp x, IHp y | IUni x, IUni y | IRlimit x, IRlimit y => String.eqb x y
  | IArgs, IArgs | ICgroups, ICgroups | IOom, IOom => true
  | IScal f, IScal g => sfield_eqb f g
  | _, _ => false
  end.

Lemma item_eqb_spec a b : reflect (a = b) (item_eqb a b).
Proof.
  destruct a, b; simpl; try (constructor; congruence);
    try (match goal with |- reflect _ (String.eqb ?x ?y) =>
           destruct (String.eqb_spec x y); constructor; congruence end).
  destruct (sfield_eqb_spec f f0); constructor; congruence.
Qed.

(* ledger key: container id × item *)
Definition lkey := (string * item)%type.
Definition lkey_eqb (a b : lkey) : bool := String.eqb (fst a) (fst b) && item_eqb (snd a) (snd b).
Lemma lkey_eqb_spec a b : reflect (a = b) (lkey_eqb a b).
Proof.
  destruct a as [i x], b as [j y]. unfold lkey_eqb. simpl.
  destruct (String.eqb_spec i j); destruct (item_eqb_spec x y); simpl; constructor; congruence.
Qed.
Definition lmem (k : lkey) (l : list lkey) : bool := existsb (lkey_eqb k) l.
Definition lremove (k : lkey) (l : list lkey) : list lkey := filter (fun x => negb (lkey_eqb k x)) l.

Lemma lmem_In k l : lmem k l = true <-> In k l.
Proof.
  unfold lmem. rewrite existsb_exists. split.
  - intros [x [Hx He]]. destruct (lkey_eqb_spec k x); [subst; exact Hx|discriminate].
  - intros H. exists k. split; [exact H|]. destruct (lkey_eqb_spec k k); [reflexivity|contradiction].
Qed.
