package main

import (
	"context"
	"fmt"
	"time"

	"verif/harness/internal/hx"
)

func driveProbe(c *hx.Ctx) error {
	// healthy
	{
		r, err := newRig()
		if err != nil {
			return err
		}
		r.setBehaviour(bHealthy)
		t0 := time.Now()
		st := launch(func() error { return r.st.Start(context.Background()) })
		ok := st.wait(3 * time.Second)
		fmt.Println("healthy: returned", ok, "err", st.err, "in", time.Since(t0), "started", r.startedNow(time.Second))
		s := r.rt.last()
		fmt.Println(" synchronized:", waitC(s.synchronized, time.Second), "cfg", s.cfgResp, s.cfgErr)
		w, rd := s.cc.bounds()
		fmt.Println(" bounds to-plugin", w, "from-plugin", rd)
		// Stop, immediate Start
		r.st.Stop()
		st2 := launch(func() error { return r.st.Start(context.Background()) })
		ok = st2.wait(3 * time.Second)
		fmt.Println("(b) restart: returned", ok, "err", st2.err, "started now", r.startedNow(time.Second))
		time.Sleep(300 * time.Millisecond)
		fmt.Println("(b) 300ms later started", r.startedNow(time.Second), "closes", r.closes.Load(), "sessions", r.rt.nSessions())
		r.close()
	}
	// (a)
	{
		r, _ := newRig()
		r.setBehaviour(bDropAfterReg)
		t0 := time.Now()
		st := launch(func() error { return r.st.Start(context.Background()) })
		ok := st.wait(3 * time.Second)
		fmt.Println("(a) drop-after-register: returned", ok, "err", st.err, "in", time.Since(t0), "started", r.startedNow(time.Second), "closes", r.closes.Load())
		r.close()
	}
	// (c)
	{
		r, _ := newRig()
		r.setBehaviour(bRefuse)
		st := launch(func() error { return r.st.Start(context.Background()) })
		ok := st.wait(3 * time.Second)
		fmt.Println("(c) refuse: returned", ok, "err", st.err)
		time.Sleep(100 * time.Millisecond)
		fmt.Println("    closes", r.closes.Load())
		r.setBehaviour(bHealthy)
		st = launch(func() error { return r.st.Start(context.Background()) })
		ok = st.wait(3 * time.Second)
		fmt.Println("(c) retry healthy: returned", ok, "err", st.err, "sessions", r.rt.nSessions(), "dials", r.dials.Load())
		r.close()
	}
	for _, b := range []string{bUnreachable, bDropInCfg, bCfgError} {
		r, _ := newRig()
		r.setBehaviour(b)
		t0 := time.Now()
		st := launch(func() error { return r.st.Start(context.Background()) })
		ok := st.wait(3 * time.Second)
		fmt.Println(b, ": returned", ok, "err", st.err, "in", time.Since(t0))
		time.Sleep(100 * time.Millisecond)
		fmt.Println("    started", r.startedNow(time.Second), "closes", r.closes.Load())
		r.setBehaviour(bHealthy)
		st = launch(func() error { return r.st.Start(context.Background()) })
		ok = st.wait(3 * time.Second)
		fmt.Println("   retry healthy: returned", ok, "err", st.err, "sessions", r.rt.nSessions(), "dials", r.dials.Load())
		r.close()
	}
	return nil
}
