package main

// The multi stream: two or three plugin ends register one after the other on ONE
// adaptation.Adaptation (worker.go: runSeq), every one staying connected, each against the state
// the runtime holds at that moment (the same as before, or a changed one).  Every registration is
// judged exactly like a single one: the sender's first message is the whole state whatever an
// earlier synchronisation on the same runtime did (Model/SyncSplit.v: synchronize has no other input).

import (
	"encoding/json"
	"fmt"
	"os"
	"path/filepath"
	"sort"
	"strings"

	"verif/harness/internal/hx"
)

func compactAll(l []*Spec) []*Spec {
	out := make([]*Spec, len(l))
	for i, sp := range l {
		out[i] = compact(sp)
	}
	return out
}

type multiTotals struct {
	cases, regs, afterSplitTailWithoutKind int
}

func loadMultiCorpus(c *hx.Ctx) []tagged {
	var out []tagged
	files, _ := filepath.Glob(filepath.Join(corpusDir(), "multi", "*.json"))
	sort.Strings(files)
	for _, f := range files {
		raw, err := os.ReadFile(f)
		if err != nil {
			c.HarnessError("corpus %s: %v", f, err)
			continue
		}
		var list []struct {
			Name  string  `json:"name"`
			Multi []*Spec `json:"multi"`
		}
		if err := json.Unmarshal(raw, &list); err != nil {
			c.HarnessError("corpus %s: %v", f, err)
			continue
		}
		for i, e := range list {
			for _, sp := range e.Multi {
				sp.expand()
			}
			name := e.Name
			if name == "" {
				name = fmt.Sprintf("multi/%s#%d", filepath.Base(f), i)
			}
			out = append(out, tagged{"multi", &Spec{Name: name, Multi: e.Multi}})
		}
	}
	return out
}

func cloneState(sp *Spec) *Spec {
	return &Spec{Pods: append([]int{}, sp.Pods...), Ctrs: append([]int{}, sp.Ctrs...)}
}

func generateMulti(c *hx.Ctx) []tagged {
	var out []tagged
	r := c.Rand("sync.multi")
	n := c.Pick(12, 150)
	for i := 0; i < n; i++ {
		// first registration: a split synchronisation that ends with a message of one kind only -
		// few small objects of one kind, many large ones of the other
		few := padList(r, 1+r.Intn(5), func() int { return r.Intn(400) })
		sz := 300000 + r.Intn(400000)
		many := padList(r, 16+r.Intn(30), func() int { return sz - r.Intn(sz/8) })
		first := &Spec{Pods: few, Ctrs: many}
		if i%3 == 2 {
			first = &Spec{Pods: many, Ctrs: few}
		}
		regs := []*Spec{first}
		for k := 0; k < 1+r.Intn(2); k++ {
			var next *Spec
			switch r.Intn(4) {
			case 0, 1: // the same state
				next = cloneState(first)
			case 2: // a changed state: some objects gone, some new, still split
				next = cloneState(first)
				next.Pods = append(next.Pods, padList(r, r.Intn(3), func() int { return r.Intn(400) })...)
				if len(next.Ctrs) > 6 {
					next.Ctrs = next.Ctrs[r.Intn(5):]
				}
				next.Ctrs = append(next.Ctrs, padList(r, r.Intn(4), func() int { return r.Intn(sz) })...)
			default: // a small state that fits into one message
				next = &Spec{Pods: padList(r, 1+r.Intn(4), func() int { return r.Intn(400) }), Ctrs: padList(r, 1+r.Intn(12), func() int { return r.Intn(3000) })}
			}
			regs = append(regs, next)
		}
		for _, sp := range regs {
			decorate(r, sp, false)
		}
		out = append(out, tagged{"multi", &Spec{Name: fmt.Sprintf("multi/%d", i), Multi: regs}})
	}
	return out
}

// tailWithoutKind: the synchronisation was split and its last message carried no pods or no containers
// although the state has both kinds.
func tailWithoutKind(sp *Spec, o *Obs) bool {
	if o.Outcome != "delivered" || len(o.Msgs) < 2 || len(sp.Pods) == 0 || len(sp.Ctrs) == 0 {
		return false
	}
	last := o.Msgs[len(o.Msgs)-1]
	return last.NP == 0 || last.NC == 0
}

// handleMulti judges and records one case of the multi stream: every registration like a single case.
func handleMulti(c *hx.Ctx, t tagged, rs result, min int, sh **hx.Shard, tot *multiTotals) {
	regs := t.sp.Multi
	if len(rs.mobs) == 0 {
		what := "multi: the worker produced no observation"
		if rs.obs != nil && rs.obs.Outcome == "crashed" {
			what = "the runtime process crashed while several plugins registered one after the other: " + firstLine(rs.obs.Crash)
		} else if rs.obs != nil && rs.obs.Outcome == "stalled" {
			what = fmt.Sprintf("a registration neither completed nor failed and the worker no longer answered (%d s)", rs.obs.StallS)
		}
		c.ImplFail(t.stream, what, map[string]interface{}{"stream": t.stream, "name": t.sp.Name, "registrations": compactAll(regs)})
		c.Eval(t.sp.Name, true)
		return
	}
	var raws []interface{}
	var terms []string
	nontrivial, prevTail := false, false
	for j, o := range rs.mobs {
		sp := regs[j]
		raw := map[string]interface{}{"registration": j + 1, "spec": compact(sp), "outcome": o.Outcome, "msgs": o.Msgs, "sync_err": o.SyncErr,
			"handler_calls": o.HandlerCalls, "handler_invocations": o.Invocations, "got_upd": o.GotUpd, "active": o.Active, "usable": o.Usable,
			"wp_rle": toRLE(o.WP), "wc_rle": toRLE(o.WC)}
		raws = append(raws, raw)
		for _, what := range oracle(sp, o, min) {
			c.ImplFail(t.stream, fmt.Sprintf("registration %d of %d on one Adaptation: %s", j+1, len(regs), what),
				map[string]interface{}{"stream": t.stream, "name": t.sp.Name, "registrations_planned": len(regs), "registrations": append([]interface{}{}, raws...)})
		}
		c.Count("multi.registration."+o.Outcome, 1)
		c.Count("multi.messages."+msgBucket(len(o.Msgs)), 1)
		tot.regs++
		if prevTail {
			tot.afterSplitTailWithoutKind++
			nontrivial = true
		}
		prevTail = prevTail || tailWithoutKind(sp, o)
		if o.Outcome == "crashed" || (o.Outcome == "stalled" && len(o.WP)+len(o.WC) != len(sp.Pods)+len(sp.Ctrs)) {
			continue
		}
		terms = append(terms, coqCase(sp, o))
	}
	tot.cases++
	c.Eval(t.sp.Name, nontrivial)
	c.Count("stream."+t.stream, 1)
	c.Count(fmt.Sprintf("multi.registrations_per_case.%d", len(rs.mobs)), 1)
	if len(terms) == 0 {
		return
	}
	if *sh == nil {
		*sh = c.NewShard(t.stream, imports, "(list sync_case)", "corr_multi", "holds_multi", 12)
	}
	(*sh).Add("["+strings.Join(terms, ";\n    ")+"]", map[string]interface{}{"stream": t.stream, "name": t.sp.Name, "registrations_planned": len(regs), "registrations": raws})
	if nontrivial && tot.cases <= 2 {
		var shape []interface{}
		for j, o := range rs.mobs {
			shape = append(shape, map[string]interface{}{"plugin": regs[j].Plugin, "objects": len(o.WP) + len(o.WC), "outcome": o.Outcome, "messages": chunkCounts(o)})
		}
		c.Sample(map[string]interface{}{"stream": "multi", "registrations": shape}, 10)
	}
}

// maxRetries predicts (a replica of the sender, for the shape statistics only) the largest number of
// consecutive oversize rejections of one message a state needs.
func maxRetries(sp *Spec, min int) int {
	if len(sp.Pods)+len(sp.Ctrs) < 1000 {
		return 0 // the count shrinks by at least a tenth per retry: short lists cannot need many
	}
	wp, wc := weights(sp)
	_, _, worst := simSyncR(wp, wc, hdrLen(), 2, limitBytes, min)
	return worst
}
