package main

// C20 driver: the two real sample plugins (built from <repo>/plugins/device-injector and
// <repo>/plugins/ulimit-adjuster into a scratch directory) are launched as pre-installed
// plugins of real Adaptations; CreateContainer requests carry generated pod annotations.
// Annotation values are structured values rendered to one-line JSON (valid YAML), so what
// each value decodes to is known without calling the decoder.

import (
	"context"
	"encoding/json"
	"fmt"
	"math/rand"
	"os"
	"path"
	"path/filepath"
	"sort"
	"strings"
	"time"

	"github.com/containerd/nri/pkg/adaptation"
	"github.com/containerd/nri/pkg/api"
	"google.golang.org/protobuf/proto"
	"google.golang.org/protobuf/reflect/protoreflect"

	"verif/harness/internal/coqfmt"
	"verif/harness/internal/hx"
)

// ---------------------------------------------------------------- payload values

type devV struct {
	Path     string `json:"path"`
	Type     string `json:"type"`
	Major    int64  `json:"major"`
	Minor    int64  `json:"minor"`
	FileMode uint32 `json:"file_mode"`
	UID      uint32 `json:"uid"`
	GID      uint32 `json:"gid"`
}
type mntV struct {
	Source      string   `json:"source"`
	Destination string   `json:"destination"`
	Type        string   `json:"type"`
	Options     []string `json:"options"`
}
type ulV struct {
	Type string `json:"type"`
	Hard uint64 `json:"hard"`
	Soft uint64 `json:"soft"`
}

// value is one annotation value with what it is expected to decode to (OK=false: malformed).
type value struct {
	Text string   `json:"text"`
	Kind string   `json:"kind"` // dev | cdi | mnt | ul
	OK   bool     `json:"ok"`
	Devs []devV   `json:"devs,omitempty"`
	CDI  []string `json:"cdi,omitempty"`
	Mnts []mntV   `json:"mnts,omitempty"`
	ULs  []ulV    `json:"uls,omitempty"`
}

// renderObj renders fields (name, JSON value) as a one-line JSON object: random order, zero
// values sometimes left out, sometimes an unknown field added (the decoder is not strict).
func renderObj(r *rand.Rand, fields [][2]string, zero map[string]bool) string {
	var parts []string
	for _, f := range fields {
		if zero[f[0]] && r.Intn(2) == 0 {
			continue
		}
		parts = append(parts, fmt.Sprintf("%q: %s", f[0], f[1]))
	}
	if r.Intn(8) == 0 {
		parts = append(parts, `"comment": "ignored"`)
	}
	r.Shuffle(len(parts), func(i, j int) { parts[i], parts[j] = parts[j], parts[i] })
	sep := []string{", ", ","}[r.Intn(2)]
	return "{" + strings.Join(parts, sep) + "}"
}

func js(v interface{}) string { b, _ := json.Marshal(v); return string(b) }

func renderList(r *rand.Rand, elems []string) string {
	if len(elems) == 0 {
		return []string{"[]", "", "null", "[ ]", "~"}[r.Intn(5)]
	}
	return "[" + strings.Join(elems, []string{", ", ","}[r.Intn(2)]) + "]"
}

var (
	int64Pool  = []int64{0, 1, 2, 7, 10, 195, 254, 255, 256, 4095, 65535, 1 << 20, 1<<31 - 1, 1 << 31, 1<<53 + 1, 1<<63 - 1, -1, -7}
	uint32Pool = []uint32{0, 0, 1, 420, 438, 511, 1000, 65534, 1<<31 - 1, 1 << 31, 1<<32 - 1}
	uint64Pool = []uint64{0, 1, 2, 1023, 1024, 4096, 65536, 1 << 20, 1<<32 - 1, 1 << 32, 1<<53 + 1, 1<<63 - 1, 1 << 63, 1<<64 - 1}
	devTypes   = []string{"c", "b", "p", "u", ""}
	mntTypes   = []string{"bind", "tmpfs", "", "overlay"}
	mntOpts    = []string{"ro", "rw", "bind", "rbind", "nosuid", "noexec", "mode=755", "size=64k"}
)

// unclean spells a path so that it is NOT in path.Clean form (one time in four): a trailing slash, a doubled
// slash, dot and dot-dot elements.  The plugins hand paths on verbatim; the statement says "exactly what the
// annotation says".
func unclean(r *rand.Rand, p string) string {
	if r.Intn(4) != 0 {
		return p
	}
	i := strings.LastIndex(p, "/")
	switch r.Intn(6) {
	case 0:
		return p + "/"
	case 1:
		return p[:i] + "//" + p[i+1:]
	case 2:
		return p[:i] + "/./" + p[i+1:]
	case 3:
		return p[:i] + "/tmp/../" + p[i+1:]
	case 4:
		return p + "/."
	}
	return "/" + p + "//"
}

func genDevs(r *rand.Rand, tag string) value {
	n := []int{0, 1, 1, 1, 2, 2, 3}[r.Intn(7)]
	v := value{Kind: "dev", OK: true, Devs: []devV{}}
	var elems []string
	for i := 0; i < n; i++ {
		d := devV{Path: unclean(r, fmt.Sprintf("/dev/%s-%d", tag, i)), Type: devTypes[r.Intn(len(devTypes))],
			Major: int64Pool[r.Intn(len(int64Pool))], Minor: int64Pool[r.Intn(len(int64Pool))],
			FileMode: uint32Pool[r.Intn(len(uint32Pool))], UID: uint32Pool[r.Intn(len(uint32Pool))], GID: uint32Pool[r.Intn(len(uint32Pool))]}
		v.Devs = append(v.Devs, d)
		elems = append(elems, renderObj(r, [][2]string{{"path", js(d.Path)}, {"type", js(d.Type)}, {"major", js(d.Major)}, {"minor", js(d.Minor)},
			{"file_mode", js(d.FileMode)}, {"uid", js(d.UID)}, {"gid", js(d.GID)}},
			map[string]bool{"type": d.Type == "", "major": d.Major == 0, "minor": d.Minor == 0, "file_mode": d.FileMode == 0, "uid": d.UID == 0, "gid": d.GID == 0}))
	}
	v.Text = renderList(r, elems)
	return v
}

func genCDI(r *rand.Rand, tag string) value {
	n := []int{0, 1, 1, 1, 2, 2, 3}[r.Intn(7)]
	v := value{Kind: "cdi", OK: true, CDI: []string{}}
	var elems []string
	for i := 0; i < n; i++ {
		s := fmt.Sprintf("vendor%d.com/%s=dev%d", r.Intn(3), tag, i)
		v.CDI = append(v.CDI, s)
		elems = append(elems, js(s))
	}
	v.Text = renderList(r, elems)
	return v
}

func genMnts(r *rand.Rand, tag string) value {
	n := []int{0, 1, 1, 1, 2, 2, 3}[r.Intn(7)]
	v := value{Kind: "mnt", OK: true, Mnts: []mntV{}}
	var elems []string
	for i := 0; i < n; i++ {
		m := mntV{Source: fmt.Sprintf("/host/%s/%d", tag, r.Intn(9)), Destination: unclean(r, fmt.Sprintf("/mnt/%s/%d", tag, i)), Type: mntTypes[r.Intn(len(mntTypes))], Options: []string{}}
		for k := r.Intn(4); k > 0; k-- {
			m.Options = append(m.Options, mntOpts[r.Intn(len(mntOpts))])
		}
		v.Mnts = append(v.Mnts, m)
		elems = append(elems, renderObj(r, [][2]string{{"source", js(m.Source)}, {"destination", js(m.Destination)}, {"type", js(m.Type)}, {"options", js(m.Options)}},
			map[string]bool{"type": m.Type == "", "options": len(m.Options) == 0}))
	}
	v.Text = renderList(r, elems)
	return v
}

var malformedByKind = map[string][]string{
	"dev": {"{", "[", "[}", `{"path": "/dev/x"}`, `"/dev/x"`, "/dev/x", "[1, 2]", `[{"major": "x"}]`, `[{"file_mode": -1}]`, `[{"path": ["/dev/x"]}]`, `[{"uid": 4294967296}]`, `[{"path": "/dev/a"}, 5]`, `[{"path": "/dev/a"}`, "- [", `{"devices": []}`},
	"cdi": {"{", "[", "[}", `{"name": "x"}`, `"vendor.com/class=dev"`, "vendor.com/class=dev", `[["a"]]`, `[{"name": "a"}]`, `["a", {"b": 1}]`, `["a"`},
	"mnt": {"{", "[", "[}", `{"source": "/a"}`, `"/a"`, "[1]", `[{"options": "ro"}]`, `[{"options": [["ro"]]}]`, `[{"destination": ["/a"]}]`, `[{"source": "/a", "destination": "/b"}, "x"]`, `[{"source": "/a"`},
	"ul":  {"{", "[", "[}", `{"type": "nofile"}`, `"nofile"`, "nofile", "[1]", `[{"type": ["nofile"]}]`, `[{"type": "nofile", "hard": -1}]`, `[{"type": "nofile", "hard": "many"}]`, `[{"type": "nofile", "soft": 18446744073709551616}]`, `[{"type": "nofile", "hard": 1.5}]`, `[{"type": "nofile"}`},
}

func genMalformed(r *rand.Rand, kind string) value {
	l := malformedByKind[kind]
	return value{Kind: kind, OK: false, Text: l[r.Intn(len(l))]}
}

var (
	validRlimits = []string{"AS", "CORE", "CPU", "DATA", "FSIZE", "LOCKS", "MEMLOCK", "MSGQUEUE", "NICE", "NOFILE", "NPROC", "RSS", "RTPRIO", "RTTIME", "SIGPENDING", "STACK"}
	bogusRlimits = []string{"bogus", "RLIMIT_", "", "NOFILES", "RLIMIT_RLIMIT_CPU", " cpu", "cpu ", "RLIMIT-CPU", "R_CPU", "LIMIT_CPU", "rlimitcpu", "A", "RLIMIT_A S"}
)

func mixCase(r *rand.Rand, s string) string {
	b := []byte(s)
	for i := range b {
		if r.Intn(2) == 0 && b[i] >= 'A' && b[i] <= 'Z' {
			b[i] += 32
		}
	}
	return string(b)
}

func spellRlimit(r *rand.Rand, name string) string {
	switch r.Intn(6) {
	case 0:
		return name
	case 1:
		return strings.ToLower(name)
	case 2:
		return "RLIMIT_" + name
	case 3:
		return "rlimit_" + strings.ToLower(name)
	default:
		return mixCase(r, []string{"", "RLIMIT_"}[r.Intn(2)]+name)
	}
}

// genULs: mode 0 = all entries fine; 1 = one unknown type; 2 = one hard < soft
func genULs(r *rand.Rand, mode int) value {
	n := r.Intn(4)
	if mode != 0 {
		n = 1 + r.Intn(4)
	}
	bad := r.Intn(n + 1)
	v := value{Kind: "ul", OK: true, ULs: []ulV{}}
	perm := r.Perm(len(validRlimits))
	var elems []string
	for i := 0; i < n; i++ {
		a, b := uint64Pool[r.Intn(len(uint64Pool))], uint64Pool[r.Intn(len(uint64Pool))]
		if a < b {
			a, b = b, a
		}
		u := ulV{Type: spellRlimit(r, validRlimits[perm[i]]), Hard: a, Soft: b}
		if i == bad%n && mode == 1 {
			u.Type = bogusRlimits[r.Intn(len(bogusRlimits))]
		}
		if i == bad%n && mode == 2 {
			for u.Hard >= u.Soft {
				u.Hard, u.Soft = uint64Pool[r.Intn(len(uint64Pool)-1)], uint64Pool[1+r.Intn(len(uint64Pool)-1)]
			}
		}
		v.ULs = append(v.ULs, u)
		elems = append(elems, renderObj(r, [][2]string{{"type", js(u.Type)}, {"hard", js(u.Hard)}, {"soft", js(u.Soft)}},
			map[string]bool{"type": u.Type == "", "hard": u.Hard == 0, "soft": u.Soft == 0}))
	}
	v.Text = renderList(r, elems)
	return v
}

// ---------------------------------------------------------------- cases

type adjObs struct {
	Devices []devObs `json:"devices"`
	CDI     []string `json:"cdi"`
	Mounts  []mntV   `json:"mounts"`
	Rlimits []ulV    `json:"rlimits"`
	Rest    bool     `json:"rest_empty"`
	Raw     string   `json:"raw,omitempty"`
}
type devObs struct {
	Path     string  `json:"path"`
	Type     string  `json:"type"`
	Major    int64   `json:"major"`
	Minor    int64   `json:"minor"`
	FileMode *uint32 `json:"file_mode"`
	UID      *uint32 `json:"uid"`
	GID      *uint32 `json:"gid"`
}

type injCase struct {
	Plugin string            `json:"plugin"`
	Stream string            `json:"stream"`
	Ctr    string            `json:"ctr"`
	Ann    map[string]string `json:"annotations"`
	Values map[string]value  `json:"values"` // by annotation key
	OK     bool              `json:"ok"`
	Err    string            `json:"err"`
	Adj    adjObs            `json:"adjust"`
	Levels map[string]string `json:"selected"` // main key -> container | pod | bare | none
}

var (
	ctrNames = []string{"c0", "c", "c00", "c0.x", "app", "app2", "ap", "a", "", "pod", "container.c0", "c0/pod", "web-1", "web-10", "Web-1", "x y"}
	diMains  = map[string]string{"dev": "devices.nri.io", "cdi": "cdi-devices.nri.io", "mnt": "mounts.nri.io"}
	ulMain   = "ulimits.nri.containerd.io"
)

func others(r *rand.Rand, ctr string, prefixRelated bool) []string {
	var out []string
	if prefixRelated {
		// names that extend or shorten this one
		out = append(out, ctr+"0", ctr+".x", ctr+ctr)
		if len(ctr) > 1 {
			out = append(out, ctr[:len(ctr)-1], ctr[1:])
		}
	}
	for k := r.Intn(3); k > 0; k-- {
		out = append(out, ctrNames[r.Intn(len(ctrNames))])
	}
	var res []string
	seen := map[string]bool{ctr: true}
	for _, o := range out {
		if !seen[o] {
			seen[o] = true
			res = append(res, o)
		}
	}
	return res
}

func decoys(main, ctr string) []string {
	return []string{main + "/container", main + "/containers." + ctr, main + "/pod/", "x" + main, main + "/Container." + ctr,
		main + "/container." + ctr + " ", main + ".", strings.ToUpper(main), main + "/pods", main + "/container/" + ctr}
}

// bareOnly reports whether the pod names the injector only through bare main keys: some bare key is present and
// no annotation key at all starts with "<main key>/" (no container- or pod-scoped key, for anybody).
func bareOnly(ann map[string]string) bool {
	some := false
	for k := range ann {
		for _, main := range diMains {
			if k == main {
				some = true
			}
			if strings.HasPrefix(k, main+"/") {
				return false
			}
		}
	}
	return some
}

// longName returns a container name of 50 to 70 characters and its siblings: names in prefix relation with it at
// the length where "container."+name reaches 63 characters (the limit Kubernetes puts on the name part of an
// annotation key), one below and one above, and a few shorter prefixes.
func longName(r *rand.Rand, i int) (string, []string) {
	const alphabet = "abcdefghijklmnopqrstuvwxyz0123456789-"
	l := 50 + i%21
	b := make([]byte, l)
	for k := range b {
		b[k] = alphabet[r.Intn(len(alphabet))]
	}
	name := string(b)
	var sibs []string
	for _, cut := range []int{53, 52, 54, 63, 62, 43, 10} {
		if cut < l {
			sibs = append(sibs, name[:cut])
		}
	}
	sibs = append(sibs, name+"x")
	return name, sibs
}

// genInjCase: stream = main | malformed | prefix | bareonly | longname
func genInjCase(r *rand.Rand, stream string, i int) *injCase {
	cs := &injCase{Plugin: "device-injector", Stream: stream, Ctr: ctrNames[r.Intn(len(ctrNames))], Ann: map[string]string{}, Values: map[string]value{}, Levels: map[string]string{}}
	pBad := 3
	if stream == "malformed" {
		pBad = 30
	}
	if stream == "bareonly" {
		// every third case carries (mostly) malformed payloads: a malformed bare-key annotation must fail the request
		pBad = []int{0, 0, 60}[i%3]
	}
	gen := func(kind, tag string) value {
		if r.Intn(100) < pBad {
			return genMalformed(r, kind)
		}
		switch kind {
		case "dev":
			return genDevs(r, tag)
		case "cdi":
			return genCDI(r, tag)
		}
		return genMnts(r, tag)
	}
	n := 0
	if stream == "longname" {
		// a long-named container WITHOUT a container-scoped annotation of its own, siblings whose names are its
		// prefixes (at and around the cut length) with annotations, sometimes pod-scoped / bare keys
		var sibs []string
		cs.Ctr, sibs = longName(r, i)
		pBad = []int{0, 0, 40}[i%3]
		for _, kind := range []string{"dev", "cdi", "mnt"} {
			main := diMains[kind]
			put := func(key, tag string) {
				n++
				v := gen(kind, fmt.Sprintf("%s%d", tag, n))
				cs.Ann[key], cs.Values[key] = v.Text, v
			}
			for k, sib := range sibs {
				if k == 0 || r.Intn(100) < 40 { // the sibling at the cut length always
					put(main+"/container."+sib, "sib")
				}
			}
			if r.Intn(100) < 30 {
				put(main+"/pod", "pod")
			}
			if r.Intn(100) < 30 {
				put(main, "bare")
			}
		}
		return cs
	}
	if stream == "bareonly" {
		// the pod's injector annotations are exclusively bare keys: a non-empty subset of the three kinds (i%7+1 as a
		// bit set, so every subset recurs), decoys that are not scoped keys, unrelated annotations; no key anywhere
		// starts with "<main key>/"
		kinds := []string{"dev", "cdi", "mnt"}
		for b, kind := range kinds {
			if (i%7+1)&(1<<b) == 0 {
				continue
			}
			main := diMains[kind]
			n++
			v := gen(kind, fmt.Sprintf("bare%d", n))
			cs.Ann[main], cs.Values[main] = v.Text, v
			for _, d := range []string{"x" + main, main + ".", strings.ToUpper(main)} {
				if r.Intn(100) < 10 {
					n++
					dv := gen(kind, fmt.Sprintf("decoy%d", n))
					cs.Ann[d], cs.Values[d] = dv.Text, dv
				}
			}
		}
		if r.Intn(3) == 0 {
			cs.Ann["io.kubernetes.cri.sandbox-name"] = "pod0"
		}
		if r.Intn(3) == 0 {
			cs.Ann[ulMain+"/container."+cs.Ctr] = `[{"type": "nofile", "hard": 2, "soft": 1}]` // somebody else's scoped key
		}
		return cs
	}
	for _, kind := range []string{"dev", "cdi", "mnt"} {
		main := diMains[kind]
		put := func(key, tag string) {
			n++
			v := gen(kind, fmt.Sprintf("%s%d", tag, n))
			cs.Ann[key], cs.Values[key] = v.Text, v
		}
		if r.Intn(100) < 55 {
			put(main+"/container."+cs.Ctr, "own")
		}
		for _, o := range others(r, cs.Ctr, stream == "prefix") {
			if r.Intn(100) < 60 {
				put(main+"/container."+o, "other")
			}
		}
		if r.Intn(100) < 40 {
			put(main+"/pod", "pod")
		}
		if r.Intn(100) < 40 {
			put(main, "bare")
		}
		for _, d := range decoys(main, cs.Ctr) {
			if r.Intn(100) < 8 {
				put(d, "decoy")
			}
		}
	}
	if r.Intn(4) == 0 {
		cs.Ann["io.kubernetes.cri.sandbox-name"] = "pod0"
	}
	return cs
}

// genUlCase: stream = main | errors | prefix
func genUlCase(r *rand.Rand, stream string, i int) *injCase {
	cs := &injCase{Plugin: "ulimit-adjuster", Stream: stream, Ctr: ctrNames[r.Intn(len(ctrNames))], Ann: map[string]string{}, Values: map[string]value{}, Levels: map[string]string{}}
	gen := func(own bool) value {
		mode := 0
		if stream == "errors" && own {
			mode = []int{1, 2, 3, 1, 2, 0}[i%6]
		} else if r.Intn(100) < 12 {
			mode = 1 + r.Intn(3)
		}
		if mode == 3 {
			return genMalformed(r, "ul")
		}
		return genULs(r, mode)
	}
	put := func(key string, own bool) {
		v := gen(own)
		cs.Ann[key], cs.Values[key] = v.Text, v
	}
	if stream == "longname" {
		var sibs []string
		cs.Ctr, sibs = longName(r, i)
		for k, sib := range sibs {
			if k == 0 || r.Intn(100) < 40 {
				put(ulMain+"/container."+sib, false)
			}
		}
		if r.Intn(100) < 30 {
			put(ulMain+"/pod", false)
		}
		return cs
	}
	if stream == "errors" || r.Intn(100) < 65 {
		put(ulMain+"/container."+cs.Ctr, true)
	}
	for _, o := range others(r, cs.Ctr, stream == "prefix") {
		if r.Intn(100) < 60 {
			put(ulMain+"/container."+o, false)
		}
	}
	if r.Intn(100) < 35 {
		put(ulMain+"/pod", false)
	}
	if r.Intn(100) < 35 {
		put(ulMain, false)
	}
	for _, d := range decoys(ulMain, cs.Ctr) {
		if r.Intn(100) < 8 {
			put(d, false)
		}
	}
	return cs
}

// ---------------------------------------------------------------- the statement's oracle, in Go

type expectation struct {
	ok   bool
	devs []devV
	cdi  []string
	mnts []mntV
	uls  []ulV
}

func (cs *injCase) pick(main string) (string, string, bool) {
	for _, lk := range [][2]string{{"container", main + "/container." + cs.Ctr}, {"pod", main + "/pod"}, {"bare", main}} {
		if _, ok := cs.Ann[lk[1]]; ok {
			return lk[0], lk[1], true
		}
	}
	return "none", "", false
}

func (cs *injCase) expect() expectation {
	e := expectation{ok: true}
	if cs.Plugin == "device-injector" {
		for _, kind := range []string{"dev", "cdi", "mnt"} {
			lvl, key, found := cs.pick(diMains[kind])
			cs.Levels[kind] = lvl
			if !found {
				continue
			}
			v := cs.Values[key]
			if !v.OK {
				e.ok = false
				continue
			}
			e.devs, e.cdi, e.mnts = append(e.devs, v.Devs...), append(e.cdi, v.CDI...), append(e.mnts, v.Mnts...)
		}
		return e
	}
	key := ulMain + "/container." + cs.Ctr
	cs.Levels["ul"] = "none"
	if _, found := cs.Ann[key]; !found {
		return e
	}
	cs.Levels["ul"] = "container"
	v := cs.Values[key]
	if !v.OK {
		e.ok = false
		return e
	}
	for _, u := range v.ULs {
		t := strings.TrimPrefix(strings.ToUpper(u.Type), "RLIMIT_")
		known := false
		for _, n := range validRlimits {
			known = known || n == t
		}
		if !known || u.Hard < u.Soft {
			e.ok = false
			return e
		}
		e.uls = append(e.uls, ulV{Type: "RLIMIT_" + t, Hard: u.Hard, Soft: u.Soft})
	}
	return e
}

func (cs *injCase) judge(e expectation) []string {
	var bad []string
	if e.ok != cs.OK {
		return []string{fmt.Sprintf("expected success=%v, observed success=%v (%s)", e.ok, cs.OK, cs.Err)}
	}
	if !cs.OK {
		return nil
	}
	if !cs.Adj.Rest {
		bad = append(bad, "the adjustment carries something else: "+cs.Adj.Raw)
	}
	var ed []devObs
	for _, d := range e.devs {
		o := devObs{Path: d.Path, Type: d.Type, Major: d.Major, Minor: d.Minor}
		if d.FileMode != 0 {
			v := d.FileMode
			o.FileMode = &v
		}
		if d.UID != 0 {
			v := d.UID
			o.UID = &v
		}
		if d.GID != 0 {
			v := d.GID
			o.GID = &v
		}
		ed = append(ed, o)
	}
	if js(ed) != js(cs.Adj.Devices) && !(len(ed) == 0 && len(cs.Adj.Devices) == 0) {
		bad = append(bad, fmt.Sprintf("devices %s, expected %s", js(cs.Adj.Devices), js(ed)))
	}
	if strings.Join(e.cdi, "\x00") != strings.Join(cs.Adj.CDI, "\x00") {
		bad = append(bad, fmt.Sprintf("CDI devices %q, expected %q", cs.Adj.CDI, e.cdi))
	}
	if js(e.mnts) != js(cs.Adj.Mounts) && !(len(e.mnts) == 0 && len(cs.Adj.Mounts) == 0) {
		bad = append(bad, fmt.Sprintf("mounts %s, expected %s", js(cs.Adj.Mounts), js(e.mnts)))
	}
	if js(e.uls) != js(cs.Adj.Rlimits) && !(len(e.uls) == 0 && len(cs.Adj.Rlimits) == 0) {
		bad = append(bad, fmt.Sprintf("rlimits %s, expected %s", js(cs.Adj.Rlimits), js(e.uls)))
	}
	return bad
}

// ---------------------------------------------------------------- Coq rendering

func zOpt32(p *uint32) string {
	if p == nil {
		return "None"
	}
	return "(Some " + coqfmt.ZU(uint64(*p)) + ")"
}

func (a adjObs) coq() string {
	var ds, ms, rs []string
	for _, d := range a.Devices {
		ds = append(ds, fmt.Sprintf("{| nd_path := %s; nd_type := %s; nd_major := %s; nd_minor := %s; nd_file_mode := %s; nd_uid := %s; nd_gid := %s |}",
			coqfmt.Str(d.Path), coqfmt.Str(d.Type), coqfmt.Z(d.Major), coqfmt.Z(d.Minor), zOpt32(d.FileMode), zOpt32(d.UID), zOpt32(d.GID)))
	}
	for _, m := range a.Mounts {
		ms = append(ms, fmt.Sprintf("{| nm_destination := %s; nm_type := %s; nm_source := %s; nm_options := %s |}",
			coqfmt.Str(m.Destination), coqfmt.Str(m.Type), coqfmt.Str(m.Source), coqfmt.StrList(m.Options)))
	}
	for _, l := range a.Rlimits {
		rs = append(rs, fmt.Sprintf("{| rl_type := %s; rl_hard := %s; rl_soft := %s |}", coqfmt.Str(l.Type), coqfmt.ZU(l.Hard), coqfmt.ZU(l.Soft)))
	}
	return fmt.Sprintf("{| adj_devices := %s; adj_cdi := %s; adj_mounts := %s; adj_rlimits := %s |}",
		coqfmt.List(ds), coqfmt.StrList(a.CDI), coqfmt.List(ms), coqfmt.List(rs))
}

func (v value) coqPayload() string {
	if !v.OK {
		return "None"
	}
	var l []string
	switch v.Kind {
	case "dev":
		for _, d := range v.Devs {
			l = append(l, fmt.Sprintf("{| dv_path := %s; dv_type := %s; dv_major := %s; dv_minor := %s; dv_file_mode := %s; dv_uid := %s; dv_gid := %s |}",
				coqfmt.Str(d.Path), coqfmt.Str(d.Type), coqfmt.Z(d.Major), coqfmt.Z(d.Minor), coqfmt.ZU(uint64(d.FileMode)), coqfmt.ZU(uint64(d.UID)), coqfmt.ZU(uint64(d.GID))))
		}
	case "cdi":
		return "(Some " + coqfmt.StrList(v.CDI) + ")"
	case "mnt":
		for _, m := range v.Mnts {
			l = append(l, fmt.Sprintf("{| mt_source := %s; mt_destination := %s; mt_type := %s; mt_options := %s |}",
				coqfmt.Str(m.Source), coqfmt.Str(m.Destination), coqfmt.Str(m.Type), coqfmt.StrList(m.Options)))
		}
	case "ul":
		for _, u := range v.ULs {
			l = append(l, fmt.Sprintf("{| ul_type := %s; ul_hard := %s; ul_soft := %s |}", coqfmt.Str(u.Type), coqfmt.ZU(u.Hard), coqfmt.ZU(u.Soft)))
		}
	}
	return "(Some " + coqfmt.List(l) + ")"
}

// Each distinct annotation text is bound once (let vN := "…" in …) and used both in the annotation map and
// in the decoding tables: the case files are dominated by the cost of parsing string literals.
type binder struct {
	names map[string]string
	lets  []string
}

func (b *binder) ref(text string) string {
	if n, ok := b.names[text]; ok {
		return n
	}
	n := fmt.Sprintf("v%d", len(b.names))
	b.names[text] = n
	b.lets = append(b.lets, fmt.Sprintf("let %s := %s in", n, coqfmt.Str(text)))
	return n
}

// table: value text -> payload, one table per kind.  The text determines the payload (a text is generated
// either as the rendering of one payload or as a malformed value, never both: malformed texts never parse
// as lists, empty renderings all mean the empty list).
func (cs *injCase) table(b *binder, kind string) string {
	keys := []string{}
	for k := range cs.Values {
		keys = append(keys, k)
	}
	sort.Strings(keys)
	seen := map[string]bool{}
	var out []string
	for _, k := range keys {
		v := cs.Values[k]
		if v.Kind != kind || seen[v.Text] {
			continue
		}
		seen[v.Text] = true
		out = append(out, coqfmt.Pair(b.ref(v.Text), v.coqPayload()))
	}
	return coqfmt.List(out)
}

func (cs *injCase) coq() string {
	res := "None"
	if cs.OK {
		res = "(Some " + cs.Adj.coq() + ")"
	}
	b := &binder{names: map[string]string{}}
	keys := []string{}
	for k := range cs.Ann {
		keys = append(keys, k)
	}
	sort.Strings(keys)
	var ann []string
	for _, k := range keys {
		ann = append(ann, coqfmt.Pair(coqfmt.Str(k), b.ref(cs.Ann[k])))
	}
	var body string
	if cs.Plugin == "device-injector" {
		body = fmt.Sprintf("{| ic_ctr := %s; ic_ann := %s; ic_dev := %s; ic_cdi := %s; ic_mnt := %s; ic_result := %s; ic_rest_empty := %s |}",
			coqfmt.Str(cs.Ctr), coqfmt.List(ann), cs.table(b, "dev"), cs.table(b, "cdi"), cs.table(b, "mnt"), res, coqfmt.Bool(!cs.OK || cs.Adj.Rest))
	} else {
		body = fmt.Sprintf("{| uc_ctr := %s; uc_ann := %s; uc_ul := %s; uc_result := %s; uc_rest_empty := %s |}",
			coqfmt.Str(cs.Ctr), coqfmt.List(ann), cs.table(b, "ul"), res, coqfmt.Bool(!cs.OK || cs.Adj.Rest))
	}
	return "(" + strings.Join(b.lets, " ") + " " + body + ")"
}

// ---------------------------------------------------------------- running

type pluginHost struct {
	a    *adaptation.Adaptation
	name string
	n    int
}

func startHost(scratch, binary, name string) (*pluginHost, error) {
	dir := filepath.Join(scratch, "host-"+name)
	plug, drop := filepath.Join(dir, "plugins"), filepath.Join(dir, "conf.d")
	for _, d := range []string{plug, drop} {
		if err := os.MkdirAll(d, 0o755); err != nil {
			return nil, err
		}
	}
	if err := os.Link(binary, filepath.Join(plug, filepath.Base(binary))); err != nil {
		return nil, err
	}
	syncFn := func(ctx context.Context, cb adaptation.SyncCB) error {
		_, err := cb(ctx, nil, nil)
		return err
	}
	updateFn := func(context.Context, []*api.ContainerUpdate) ([]*api.ContainerUpdate, error) { return nil, nil }
	a, err := adaptation.New("verif-runtime", "v0", syncFn, updateFn,
		adaptation.WithPluginPath(plug), adaptation.WithPluginConfigPath(drop), adaptation.WithDisabledExternalConnections())
	if err != nil {
		return nil, err
	}
	if err := a.Start(); err != nil {
		return nil, err
	}
	return &pluginHost{a: a, name: name}, nil
}

func u32p(v uint32) *uint32 { return &v }

// emptyDeep: no scalar, no list element, no map entry anywhere below m.
func emptyDeep(m protoreflect.Message) bool {
	empty := true
	m.Range(func(fd protoreflect.FieldDescriptor, v protoreflect.Value) bool {
		switch {
		case fd.IsList():
			empty = v.List().Len() == 0
		case fd.IsMap():
			empty = v.Map().Len() == 0
		case fd.Message() != nil:
			empty = emptyDeep(v.Message())
		default:
			empty = false
		}
		return empty
	})
	return empty
}

func (h *pluginHost) create(cs *injCase) {
	h.n++
	req := &api.CreateContainerRequest{
		Pod:       &api.PodSandbox{Id: "pod0", Name: "pod0", Namespace: "default", Annotations: cs.Ann},
		Container: &api.Container{Id: fmt.Sprintf("ctr%d", h.n), PodSandboxId: "pod0", Name: cs.Ctr},
	}
	rsp, err := h.a.CreateContainer(context.Background(), req)
	if err != nil {
		cs.OK, cs.Err = false, err.Error()
		return
	}
	cs.OK = true
	o := adjObs{Devices: []devObs{}, CDI: []string{}, Mounts: []mntV{}, Rlimits: []ulV{}}
	adj := rsp.GetAdjust()
	for _, d := range adj.GetLinux().GetDevices() {
		do := devObs{Path: d.Path, Type: d.Type, Major: d.Major, Minor: d.Minor}
		if d.FileMode != nil {
			do.FileMode = u32p(d.FileMode.Value)
		}
		if d.Uid != nil {
			do.UID = u32p(d.Uid.Value)
		}
		if d.Gid != nil {
			do.GID = u32p(d.Gid.Value)
		}
		o.Devices = append(o.Devices, do)
	}
	for _, c := range adj.GetCDIDevices() {
		o.CDI = append(o.CDI, c.Name)
	}
	for _, m := range adj.GetMounts() {
		mo := mntV{Source: m.Source, Destination: m.Destination, Type: m.Type, Options: append([]string{}, m.Options...)}
		o.Mounts = append(o.Mounts, mo)
	}
	for _, l := range adj.GetRlimits() {
		o.Rlimits = append(o.Rlimits, ulV{Type: l.Type, Hard: l.Hard, Soft: l.Soft})
	}
	// anything else in the response?  (sub-messages that are present but empty count as absent)
	rest := proto.Clone(rsp).(*api.CreateContainerResponse)
	if rest.Adjust != nil {
		rest.Adjust.Mounts, rest.Adjust.CDIDevices, rest.Adjust.Rlimits = nil, nil, nil
		if rest.Adjust.Linux != nil {
			rest.Adjust.Linux.Devices = nil
		}
	}
	o.Rest = emptyDeep(rest.ProtoReflect())
	if !o.Rest {
		o.Raw = rest.String()
	}
	cs.Adj = o
}

func driveInjectors(c *hx.Ctx) error {
	scratch, err := os.MkdirTemp("", "h_launch_c20_")
	if err != nil {
		return err
	}
	defer os.RemoveAll(scratch)
	t0 := time.Now()
	bins := map[string]string{}
	for name, sub := range map[string]string{"10-device-injector": "plugins/device-injector", "20-ulimit-adjuster": "plugins/ulimit-adjuster"} {
		out := filepath.Join(scratch, "bin", name)
		if err := os.MkdirAll(filepath.Dir(out), 0o755); err != nil {
			return err
		}
		// the plugins are modules of their own (replace => ../..); -mod=readonly: nothing is ever written into the repository
		if err := goBuildIn(filepath.Join(c.Repo, sub), out); err != nil {
			return err
		}
		bins[name] = out
	}
	buildMs := time.Since(t0).Milliseconds()
	adaptation.SetPluginRegistrationTimeout(30 * time.Second)
	adaptation.SetPluginRequestTimeout(30 * time.Second)
	di, err := startHost(scratch, bins["10-device-injector"], "device-injector")
	if err != nil {
		return fmt.Errorf("start device-injector host: %w", err)
	}
	defer di.a.Stop()
	ul, err := startHost(scratch, bins["20-ulimit-adjuster"], "ulimit-adjuster")
	if err != nil {
		return fmt.Errorf("start ulimit-adjuster host: %w", err)
	}
	defer ul.a.Stop()

	// the plugins must really be there: a request they are known to answer
	probeDI := &injCase{Plugin: "device-injector", Ctr: "probe", Ann: map[string]string{"cdi-devices.nri.io/container.probe": `["vendor.com/class=probe"]`}}
	di.create(probeDI)
	probeUL := &injCase{Plugin: "ulimit-adjuster", Ctr: "probe", Ann: map[string]string{"ulimits.nri.containerd.io/container.probe": `[{"type": "nofile", "hard": 2, "soft": 1}]`}}
	ul.create(probeUL)
	if !probeDI.OK || len(probeDI.Adj.CDI) != 1 || !probeUL.OK || len(probeUL.Adj.Rlimits) != 1 {
		return fmt.Errorf("the launched plugins do not answer: device-injector %+v, ulimit-adjuster %+v", probeDI, probeUL)
	}

	imports := "From NRI Require Import Model.Injectors Run.Common Run.RunInjectors."
	type stream struct {
		plugin, name string
		n            int
	}
	streams := []stream{
		{"device-injector", "main", c.Pick(120, 5000)},
		{"device-injector", "malformed", c.Pick(80, 3000)},
		{"device-injector", "prefix", c.Pick(80, 3000)},
		{"device-injector", "bareonly", c.Pick(63, 2100)},
		{"device-injector", "longname", c.Pick(42, 1260)},
		{"ulimit-adjuster", "main", c.Pick(120, 4000)},
		{"ulimit-adjuster", "errors", c.Pick(90, 3000)},
		{"ulimit-adjuster", "prefix", c.Pick(60, 2000)},
		{"ulimit-adjuster", "longname", c.Pick(42, 1260)},
	}
	failing := 0
	for _, s := range streams {
		short := map[string]string{"device-injector": "inj", "ulimit-adjuster": "ul"}[s.plugin]
		r := c.Rand("injectors/" + short + "/" + s.name)
		typ, corr, holds := "inj_case", "corr_inj", "holds_inj"
		if short == "ul" {
			typ, corr, holds = "ul_case", "corr_ul", "holds_ul"
		}
		sh := c.NewShard(short+"_"+s.name, imports, typ, corr, holds, 25)
		for i := 0; i < s.n; i++ {
			var cs *injCase
			if short == "inj" {
				cs = genInjCase(r, s.name, i)
				di.create(cs)
			} else {
				cs = genUlCase(r, s.name, i)
				ul.create(cs)
			}
			e := cs.expect()
			bad := cs.judge(e)
			sh.Add(cs.coq(), cs)
			nontrivial := false
			for k, lvl := range cs.Levels {
				c.Count("c20."+short+".selected."+k+"."+lvl, 1)
				nontrivial = nontrivial || lvl != "none"
			}
			foreign := 0
			for k := range cs.Ann {
				if strings.Contains(k, "/container.") && !strings.HasSuffix(k, "/container."+cs.Ctr) {
					foreign++
				}
			}
			c.Count("c20."+short+".foreign_container_keys", foreign)
			c.Count("c20."+short+".annotations", len(cs.Ann))
			for _, v := range cs.Values {
				if !v.OK {
					c.Count("c20."+short+".malformed_values", 1)
				}
			}
			if e.ok {
				c.Count("c20."+short+".expected.ok", 1)
			} else {
				c.Count("c20."+short+".expected.error", 1)
			}
			if short == "inj" && bareOnly(cs.Ann) {
				if e.ok {
					c.Count("c20.inj.bare_only.expected.ok", 1)
				} else {
					c.Count("c20.inj.bare_only.expected.error", 1)
				}
			}
			if len("container."+cs.Ctr) > 63 {
				if _, ok := cs.Ann[map[string]string{"inj": diMains["dev"], "ul": ulMain}[short]+"/container."+cs.Ctr[:53]]; ok {
					c.Count("c20."+short+".long_name_with_sibling_at_cut", 1)
				}
			}
			for _, v := range cs.Values {
				for _, d := range v.Devs {
					if path.Clean(d.Path) != d.Path {
						c.Count("c20.inj.unclean_paths", 1)
					}
				}
				for _, m := range v.Mnts {
					if path.Clean(m.Destination) != m.Destination {
						c.Count("c20.inj.unclean_paths", 1)
					}
				}
			}
			c.Count("c20.cases."+short+"."+s.name, 1)
			c.Eval(fmt.Sprintf("%s/%s/%s/%v", short, s.name, cs.Ctr, cs.Ann), nontrivial || foreign > 0)
			if len(bad) > 0 {
				failing++
				c.ImplFail(short+"_"+s.name, strings.Join(bad, "; "), cs)
			}
			if i < 2 {
				c.Sample(map[string]interface{}{"plugin": s.plugin, "stream": s.name, "container": cs.Ctr, "annotations": cs.Ann, "ok": cs.OK, "adjust": cs.Adj, "selected": cs.Levels}, 10)
			}
		}
	}
	d := c.Stats.Distribution
	for _, k := range []string{"c20.inj.selected.dev.container", "c20.inj.selected.dev.pod", "c20.inj.selected.dev.bare", "c20.inj.selected.mnt.container",
		"c20.inj.selected.cdi.pod", "c20.inj.expected.error", "c20.ul.expected.error", "c20.ul.selected.ul.container", "c20.inj.foreign_container_keys", "c20.ul.foreign_container_keys",
		"c20.inj.bare_only.expected.ok", "c20.inj.bare_only.expected.error",
		"c20.inj.long_name_with_sibling_at_cut", "c20.ul.long_name_with_sibling_at_cut", "c20.inj.unclean_paths"} {
		if d[k] == 0 {
			c.HarnessError("injector streams missed their target shape: %s = 0", k)
		}
	}
	c.Stats.Extra = map[string]interface{}{"plugin_build_ms": buildMs, "cases_failing_go_oracle": failing,
		"trusted": "sigs.k8s.io/yaml is assumed to decode the rendered one-line JSON to the value it was rendered from, and to reject the malformed texts"}
	c.Stats.Rule = "stream longname: container names of 50-70 characters without an annotation of their own, siblings whose names are their prefixes at, one below and one above the length where container.<name> reaches 63 characters, annotated (valid and malformed); one device path / mount destination in four is not in path.Clean form (trailing slash, doubled slash, dot, dot-dot) and is expected verbatim; stream bareonly: pods whose injector annotations are exclusively bare main keys (every non-empty subset of devices / CDI devices / mounts, valid and malformed payloads, no key starting with a main key and a slash); otherwise pod annotation maps mixing keys for this container, other containers (random and prefix-related names), pod scope, the bare key and near-miss decoy keys, under each main key; values = structured payloads (boundary integers, optional fields left out, unknown fields) rendered to one-line JSON, or malformed texts; sent as CreateContainer through a real Adaptation to the real plugin binaries; a case is non-trivial when some annotation applies to the container or some key addresses another container"
	return nil
}

// goBuildIn builds the main package of dir into out without ever writing into dir.
func goBuildIn(dir, out string) error {
	env := []string{}
	for _, kv := range os.Environ() {
		if !strings.HasPrefix(kv, "GOFLAGS=") {
			env = append(env, kv)
		}
	}
	env = append(env, "GOFLAGS=-mod=readonly", "GOPROXY=off", "GOSUMDB=off", "GOTOOLCHAIN=local", "CGO_ENABLED=0")
	return runGo(dir, env, "build", "-o", out, ".")
}
