package main

import (
	"fmt"

	"verif/harness/internal/nm"
)

// Case is one request with the scripted answers of the participating plugins,
// and (after execution) what the implementation did.
type Case struct {
	Kind      string        `json:"kind"` // create | update | stop
	Stream    string        `json:"stream"`
	Container *nm.Container `json:"container"`
	ReqRes    *nm.Res       `json:"req_res,omitempty"`
	Plugins   []int         `json:"plugins"` // pool positions, ascending = index order
	Resps     []nm.Response `json:"resps"`
	Note      string        `json:"note,omitempty"`
	Pool      int           `json:"-"` // > 0: the pool this case must run on (index into pools)

	Err       int            `json:"err"` // 0 none, 1 conflict, 2 self-update, 3 other error, 4 panic
	ErrText   string         `json:"err_text,omitempty"`
	Views     []View         `json:"views"`
	Reply     *nm.Adjust     `json:"reply,omitempty"`
	Updates   []nm.OutUpdate `json:"updates,omitempty"`
	Combined  *SpecObs       `json:"spec_combined,omitempty"`
	Sequent   *SpecObs       `json:"spec_sequential,omitempty"`
	Signature map[string]any `json:"signature,omitempty"`
	Crashed   bool           `json:"crashed,omitempty"`
}

// View is what one plugin was shown.
type View struct {
	Container *nm.Container `json:"container,omitempty"`
	Res       *nm.Res       `json:"res,omitempty"`
}

type planner struct {
	g      *G
	n      int
	adj    []*nm.Adjust
	ups    [][]nm.Update
	setter map[string]int // target/item -> plugin position
}

func newPlanner(g *G, n int) *planner {
	return &planner{g: g, n: n, adj: make([]*nm.Adjust, n), ups: make([][]nm.Update, n), setter: map[string]int{}}
}

func (p *planner) free(target string, it Item) bool {
	_, taken := p.setter[target+"/"+it.String()]
	return !taken
}

func (p *planner) take(target string, it Item, who int) { p.setter[target+"/"+it.String()] = who }

func (p *planner) adjust(who int) *nm.Adjust {
	if p.adj[who] == nil {
		p.adj[who] = &nm.Adjust{}
	}
	return p.adj[who]
}

// act makes plugin who perform op on item in its adjustment.
func (p *planner) act(who int, it Item, op Op) {
	if !markable[it.Kind] {
		op = OpSet
	}
	p.g.applyAction(p.adjust(who), Action{it, op}, who+1)
}

// update makes plugin who add the items to an update of target (appended to an existing update for that target with prob. 1/2).
func (p *planner) update(who int, target string, items []Item, ignore bool, merge bool) {
	if merge {
		for i := range p.ups[who] {
			if p.ups[who][i].ID == target && p.ups[who][i].Res != nil && p.ups[who][i].Ignore == ignore {
				for _, it := range items {
					p.g.addToRes(p.ups[who][i].Res, it, who+1)
				}
				return
			}
		}
	}
	u := nm.Update{ID: target, Ignore: ignore}
	if len(items) > 0 || p.g.r.Intn(4) != 0 {
		u.Res = &nm.Res{}
		for _, it := range items {
			p.g.addToRes(u.Res, it, who+1)
		}
	}
	p.ups[who] = append(p.ups[who], u)
}

// alreadyInUpdate reports whether plugin who already sets it for target in some update (W2).
func (p *planner) inOwnUpdates(who int, target string, it Item) bool {
	for _, u := range p.ups[who] {
		if u.ID != target || u.Res == nil {
			continue
		}
		switch it.Kind {
		case "scal":
			for _, v := range u.Res.Scal {
				if v.F == it.Key {
					return true
				}
			}
		case "hp":
			for _, h := range u.Res.HP {
				if h.Size == it.Key {
					return true
				}
			}
		case "uni":
			for _, e := range u.Res.Uni {
				if e.K == it.Key {
					return true
				}
			}
		}
	}
	return false
}

func (p *planner) responses() []nm.Response {
	out := make([]nm.Response, p.n)
	for i := 0; i < p.n; i++ {
		out[i] = nm.Response{Adjust: p.adj[i], Updates: p.ups[i]}
	}
	return out
}

var updatableItems = func() []Item {
	var out []Item
	for _, it := range allItems() {
		if updatable(it) {
			out = append(out, it)
		}
	}
	return out
}()

// dealDisjoint gives every plugin a few items nobody else sets (adjustment of target "" = the created container).
func (p *planner) dealDisjoint(withAdjust bool, targets []string, maxItems int) {
	g := p.g
	if withAdjust {
		uni := allItems()
		g.r.Shuffle(len(uni), func(i, j int) { uni[i], uni[j] = uni[j], uni[i] })
		k := 0
		for who := 0; who < p.n; who++ {
			cnt := g.r.Intn(maxItems + 1)
			for c := 0; c < cnt && k < len(uni); c++ {
				it := uni[k]
				k++
				if !p.free("", it) {
					continue
				}
				p.take("", it, who)
				op := OpSet
				if markable[it.Kind] {
					op = []Op{OpSet, OpSet, OpRemoveSet}[g.r.Intn(3)]
				}
				p.act(who, it, op)
			}
			if cnt == 0 && g.r.Intn(3) == 0 {
				p.adjust(who) // an empty, non-nil adjustment
			}
		}
		// lone removals: of original items or of an earlier plugin's item; they are not sets
		for who := 0; who < p.n; who++ {
			for c := g.r.Intn(3); c > 0; c-- {
				kind := []string{"ann", "env", "mount", "dev"}[g.r.Intn(4)]
				it := Item{kind, g.keyFor(kind)}
				if s, taken := p.setter["/"+it.String()]; taken && s == who {
					continue
				}
				if p.hasMarkerOrSet(who, it) {
					continue
				}
				p.act(who, it, OpRemove)
			}
		}
	}
	for who := 0; who < p.n; who++ {
		if len(targets) == 0 || g.r.Intn(2) == 0 {
			continue
		}
		for c := 1 + g.r.Intn(2); c > 0; c-- {
			t := targets[g.r.Intn(len(targets))]
			var items []Item
			for _, it := range g.randomItems(updatableItems, g.r.Intn(4)) {
				if p.free(t, it) && !p.inOwnUpdates(who, t, it) {
					p.take(t, it, who)
					items = append(items, it)
				}
			}
			p.update(who, t, items, g.r.Intn(6) == 0, g.r.Intn(2) == 0)
		}
	}
}

// hasMarkerOrSet: does plugin who's adjustment already mention the item (W2: name each item once)?
func (p *planner) hasMarkerOrSet(who int, it Item) bool {
	a := p.adj[who]
	if a == nil {
		return false
	}
	raw := func(k string) string {
		if len(k) > 0 && k[0] == '-' {
			return k[1:]
		}
		return k
	}
	switch it.Kind {
	case "ann":
		for _, e := range a.Ann {
			if raw(e.K) == it.Key {
				return true
			}
		}
	case "env":
		for _, e := range a.Env {
			if raw(e.K) == it.Key {
				return true
			}
		}
	case "mount":
		for _, e := range a.Mounts {
			if raw(e.Dest) == it.Key {
				return true
			}
		}
	case "dev":
		for _, e := range a.Devices {
			if raw(e.Path) == it.Key {
				return true
			}
		}
	case "args":
		return len(a.Args) > 0
	}
	return false
}

// collide makes plugins i<j both set one item of the given kind; variant decides markers.
// variant: 0 plain (conflict), 1 j removes-then-sets (no conflict), 2 a plugin strictly between lone-removes
// (no conflict), 3 j lists the set before the marker (still a removal in the same response: no conflict).
// via: "" adjustment of the created container, otherwise updates of that target.
func (p *planner) collide(kind Item, i, j int, variant int, via string) (Item, string) {
	g := p.g
	it := Item{kind.Kind, kind.Key}
	if kind.Kind != "scal" {
		for tries := 0; ; tries++ {
			it.Key = g.keyFor(kind.Kind)
			if p.free(via, it) || tries > 50 {
				break
			}
		}
	}
	if !p.free(via, it) { // someone was dealt this item: take it away by choosing them as the first setter
		if s := p.setter[via+"/"+it.String()]; s < j {
			i = s
		} else {
			return it, "skip"
		}
	} else {
		p.take(via, it, i)
		if via == "" {
			p.act(i, it, []Op{OpSet, OpRemoveSet}[g.r.Intn(2)])
		} else {
			p.update(i, via, []Item{it}, false, g.r.Intn(2) == 0)
		}
	}
	if !markable[it.Kind] || via != "" {
		variant = 0
	}
	if variant == 2 && j-i < 2 {
		variant = 1
	}
	if variant == 4 && j-i < 2 {
		variant = 0
	}
	if variant == 5 && (it.Kind == "args") {
		variant = 0
	}
	note := fmt.Sprintf("collide %s via %q i=%d j=%d variant=%d", it, via, i, j, variant)
	if via != "" {
		if p.inOwnUpdates(j, via, it) {
			return it, "skip"
		}
		p.update(j, via, []Item{it}, false, g.r.Intn(2) == 0)
		return it, note
	}
	if p.hasMarkerOrSet(j, it) {
		return it, "skip"
	}
	switch variant {
	case 0:
		p.act(j, it, OpSet)
	case 1:
		p.act(j, it, OpRemoveSet)
	case 2:
		k := i + 1 + g.r.Intn(j-i-1)
		if p.hasMarkerOrSet(k, it) {
			return it, "skip"
		}
		p.act(k, it, OpRemove)
		p.act(j, it, OpSet)
	case 5:
		// the later plugin marks ANOTHER item for removal (the one called "-"+key) and sets key: no release
		p.act(j, it, OpOtherMarkSet)
	case 4:
		// a plugin in between takes the item over (remove-then-set); the later plain set collides with IT
		k := i + 1 + g.r.Intn(j-i-1)
		if p.hasMarkerOrSet(k, it) {
			return it, "skip"
		}
		p.act(k, it, OpRemoveSet)
		p.act(j, it, OpSet)
	case 3:
		if it.Kind == "ann" || it.Kind == "args" {
			p.act(j, it, OpRemoveSet)
		} else {
			p.act(j, it, OpSetRemove)
		}
	}
	return it, note
}
