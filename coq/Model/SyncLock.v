(* C08 — model of the plugin-sync locking of pkg/adaptation/adaptation.go as an
   interleaving labelled transition system.

     acceptPluginConnections (per accepted, successfully started plugin p):
         r.requestPluginSync()            syncLock.Lock()        APAcquire p
         err = r.syncFn(ctx, p.synchronize)                      APSnapshot p   (the runtime reads its store)
         if err != nil { ... }                                   APFail p       (+ finishedPluginSync)
         else { r.Lock(); r.plugins = append(r.plugins, p); r.sortPlugins(); r.Unlock() }
                                                                 APActivate p   (atomic under the adaptation mutex)
         r.finishedPluginSync()           syncLock.Unlock()      APRelease p
       a failing synchronisation (handler error, time-out, connection lost during it) is APFail: the
       plugin is not appended, the exclusive section is given up all the same.
       a plugin that goes away while its registration waits for the exclusive section: the code keeps
       waiting, takes the section, fails the synchronisation at once and gives the section up (APAcquire;
       APFail).  APAbandon is the other correct behaviour (drop the waiter without ever taking the section):
       it changes nothing but the waiter's own program counter.
     a registered plugin instance whose connection is lost (plugin.close: p.closed = true):
         it stays on r.plugins until the next removeClosedPlugins   APClose p   (moved from [active] to [zombies])
         removeClosedPlugins (deferred by every request; first thing of sortPlugins at an activation)
         drops exactly the closed INSTANCES                          [zombies := []] in AGEnd and APActivate
       A plugin id of this model is an INSTANCE (one connection): a plugin that disconnects and registers
       again under the same index and name is a fresh id; Spec/SyncLockSpec.v: name_of maps instances
       to names.  Assumed: the loss of a connection is noticed between two requests (what happens to a
       request in flight to a plugin whose connection breaks is C07's subject).
     a runtime goroutine g creating container c inside a sync block:
         b := r.BlockPluginSync()         syncLock.RLock()       AGAcquire g
         r.CreateContainer(ctx, req)      r.Lock()               AGBegin g c    (to := r.plugins)
                                          plugin.createContainer AGDeliver g p  (once per plugin of [to])
                                          r.Unlock()             AGEnd g
         (the runtime's own bookkeeping)  store += c             AGStore g
         b.Unblock()                      syncLock.RUnlock(); b.r = nil      AGRelease g
         b.Unblock()  (again: b.r == nil) nothing                AGReleaseAgain g
           "Safe to call multiple times but only from a single goroutine": a runtime may release a
           block on its success path AND by a deferred Unblock.  A goroutine that is not inside a block
           (absent from [gors]) references only blocks it has released (b.r == nil) or a nil block;
           Unblock on those is guarded and does nothing — in particular it does not touch the reader
           count, so the blocks of OTHER goroutines stay held.

   The semantics of sync.RWMutex and sync.Mutex is *assumed* and expressed as the
   enabling conditions of APAcquire / AGAcquire / AGBegin / APActivate.
   Any number of plugins and goroutines (association lists keyed by name; an
   absent goroutine is idle, an absent plugin has not connected yet).
   [recv] and [used] are history (ghost) variables: who was handed which
   CreateContainer request, and which container ids were ever used. *)
From Coq Require Import String List Bool Arith.
From NRI Require Import Base.Strs Base.Assoc.
Import ListNotations.
Open Scope string_scope.
Open Scope list_scope.

Notation pid := string (only parsing).   (* plugin *)
Notation cid := string (only parsing).   (* container *)
Notation gid := string (only parsing).   (* runtime goroutine *)

(* program counter of a registering plugin (absent = not connected yet) *)
Inductive ppc :=
| PWaitW                          (* handshake done, about to call requestPluginSync *)
| PHoldW                          (* holds syncLock exclusively *)
| PSnapshot (ids : list cid)      (* syncFn has read the store and handed it to the plugin *)
| PActivated (ids : list cid)     (* appended to r.plugins, still inside the exclusive section *)
| PDone (ids : list cid)          (* finishedPluginSync done *)
| PClosed (ids : list cid)        (* was registered; connection lost (p.closed): never served again *)
| PFailed.                        (* syncFn failed: never activated, lock released *)

(* program counter of a runtime goroutine (absent = idle) *)
Inductive gpc :=
| GHoldR                                              (* inside a sync block *)
| GDispatching (c : cid) (to rem : list pid)          (* inside r.CreateContainer, holding the adaptation mutex *)
| GDispatched (c : cid) (to : list pid)               (* request relayed to exactly [to] *)
| GStored (c : cid).                                  (* own bookkeeping done *)

Record state := {
  readers : nat;                   (* syncLock: number of read holders *)
  writer : bool;                   (* syncLock: held exclusively *)
  mutex : option gid;              (* adaptation mutex: held by a dispatching goroutine *)
  store : list cid;                (* the runtime's containers *)
  active : list pid;               (* r.plugins *)
  plugs : list (pid * ppc);
  gors : list (gid * gpc);
  recv : list (pid * cid);         (* ghost: p's CreateContainer handler ran for c *)
  used : list cid;                 (* ghost: ids ever passed to CreateContainer *)
  zombies : list pid               (* closed instances still on r.plugins (r.plugins = active ++ zombies up to order) *)
}.

Definition init : state :=
  {| readers := 0; writer := false; mutex := None; store := []; active := [];
     plugs := []; gors := []; recv := []; used := []; zombies := [] |}.

Inductive action :=
| APArrive (p : pid)
| APAcquire (p : pid)
| APSnapshot (p : pid)
| APFail (p : pid)
| APActivate (p : pid)
| APRelease (p : pid)
| APClose (p : pid)              (* the connection of a registered instance is lost *)
| APAbandon (p : pid)            (* a registration still waiting for the exclusive section is given up (its plugin went away) *)
| AGAcquire (g : gid)
| AGBegin (g : gid) (c : cid)
| AGDeliver (g : gid) (p : pid)
| AGEnd (g : gid)
| AGStore (g : gid)
| AGRelease (g : gid)
| AGReleaseAgain (g : gid).      (* a repeated Unblock of a block g has already released *)

Definition remove_s (x : string) (l : list string) : list string :=
  filter (fun y => negb (String.eqb x y)) l.

Definition set_plug (s : state) (p : pid) (pc : ppc) : state :=
  {| readers := readers s; writer := writer s; mutex := mutex s; store := store s; active := active s;
     plugs := aset p pc (plugs s); gors := gors s; recv := recv s; used := used s; zombies := zombies s |}.

Definition set_gor (s : state) (g : gid) (gc : gpc) : state :=
  {| readers := readers s; writer := writer s; mutex := mutex s; store := store s; active := active s;
     plugs := plugs s; gors := aset g gc (gors s); recv := recv s; used := used s; zombies := zombies s |}.

Definition set_writer (s : state) (w : bool) : state :=
  {| readers := readers s; writer := w; mutex := mutex s; store := store s; active := active s;
     plugs := plugs s; gors := gors s; recv := recv s; used := used s; zombies := zombies s |}.

Definition set_zombies (s : state) (z : list pid) : state :=
  {| readers := readers s; writer := writer s; mutex := mutex s; store := store s; active := active s;
     plugs := plugs s; gors := gors s; recv := recv s; used := used s; zombies := z |}.

Definition set_mutex (s : state) (m : option gid) : state :=
  {| readers := readers s; writer := writer s; mutex := m; store := store s; active := active s;
     plugs := plugs s; gors := gors s; recv := recv s; used := used s; zombies := zombies s |}.

Definition step (s : state) (a : action) : option state :=
  match a with
  | APArrive p =>
      match alookup p (plugs s) with
      | None => Some (set_plug s p PWaitW)
      | Some _ => None
      end
  | APAcquire p =>                                   (* sync.RWMutex.Lock: no reader, no writer *)
      match alookup p (plugs s) with
      | Some PWaitW =>
          if Nat.eqb (readers s) 0 && negb (writer s)
          then Some (set_writer (set_plug s p PHoldW) true) else None
      | _ => None
      end
  | APSnapshot p =>
      match alookup p (plugs s) with
      | Some PHoldW => Some (set_plug s p (PSnapshot (store s)))
      | _ => None
      end
  | APFail p =>
      match alookup p (plugs s) with
      | Some PHoldW | Some (PSnapshot _) => Some (set_writer (set_plug s p PFailed) false)
      | _ => None
      end
  | APActivate p =>                                  (* sync.Mutex.Lock: free; append; Unlock *)
      match alookup p (plugs s), mutex s with
      | Some (PSnapshot ids), None =>
          Some {| readers := readers s; writer := writer s; mutex := None; store := store s;
                  active := active s ++ [p];              (* append; sortPlugins: removeClosedPlugins drops the closed instances *)
                  plugs := aset p (PActivated ids) (plugs s); gors := gors s; recv := recv s; used := used s; zombies := [] |}
      | _, _ => None
      end
  | APRelease p =>
      match alookup p (plugs s) with
      | Some (PActivated ids) => Some (set_writer (set_plug s p (PDone ids)) false)
      | _ => None
      end
  | APAbandon p =>                                   (* the waiter leaves the queue: nothing but its own program counter changes *)
      match alookup p (plugs s) with
      | Some PWaitW => Some (set_plug s p PFailed)
      | _ => None
      end
  | APClose p =>                                     (* noticed between two requests *)
      match alookup p (plugs s), mutex s with
      | Some (PDone ids), None =>
          Some {| readers := readers s; writer := writer s; mutex := None; store := store s;
                  active := remove_s p (active s);
                  plugs := aset p (PClosed ids) (plugs s); gors := gors s; recv := recv s; used := used s;
                  zombies := p :: zombies s |}
      | _, _ => None
      end
  | AGAcquire g =>                                   (* sync.RWMutex.RLock: no writer *)
      match alookup g (gors s) with
      | None =>
          if writer s then None
          else Some {| readers := S (readers s); writer := writer s; mutex := mutex s; store := store s;
                       active := active s; plugs := plugs s; gors := (g, GHoldR) :: gors s;
                       recv := recv s; used := used s; zombies := zombies s |}
      | Some _ => None
      end
  | AGBegin g c =>                                   (* sync.Mutex.Lock: free; ids are fresh *)
      match alookup g (gors s), mutex s with
      | Some GHoldR, None =>
          if smem c (used s) then None
          else Some {| readers := readers s; writer := writer s; mutex := Some g; store := store s;
                       active := active s; plugs := plugs s;
                       gors := aset g (GDispatching c (active s) (active s)) (gors s);
                       recv := recv s; used := c :: used s; zombies := zombies s |}
      | _, _ => None
      end
  | AGDeliver g p =>
      match alookup g (gors s) with
      | Some (GDispatching c to rem) =>
          if smem p rem
          then Some {| readers := readers s; writer := writer s; mutex := mutex s; store := store s;
                       active := active s; plugs := plugs s;
                       gors := aset g (GDispatching c to (remove_s p rem)) (gors s);
                       recv := (p, c) :: recv s; used := used s; zombies := zombies s |}
          else None
      | _ => None
      end
  | AGEnd g =>
      match alookup g (gors s) with
      | Some (GDispatching c to []) =>                (* deferred removeClosedPlugins, then r.Unlock() *)
          Some (set_zombies (set_mutex (set_gor s g (GDispatched c to)) None) [])
      | _ => None
      end
  | AGStore g =>
      match alookup g (gors s) with
      | Some (GDispatched c to) =>
          Some {| readers := readers s; writer := writer s; mutex := mutex s; store := c :: store s;
                  active := active s; plugs := plugs s; gors := aset g (GStored c) (gors s);
                  recv := recv s; used := used s; zombies := zombies s |}
      | _ => None
      end
  | AGRelease g =>
      match alookup g (gors s) with
      | Some (GStored _) =>
          Some {| readers := pred (readers s); writer := writer s; mutex := mutex s; store := store s;
                  active := active s; plugs := plugs s; gors := aremove g (gors s);
                  recv := recv s; used := used s; zombies := zombies s |}
      | _ => None
      end
  | AGReleaseAgain g =>                              (* b.r == nil: the guard of Unblock makes it a no-op *)
      match alookup g (gors s) with
      | None => Some s
      | Some _ => None
      end
  end.

Fixpoint steps (s : state) (l : list action) : option state :=
  match l with
  | [] => Some s
  | a :: r => match step s a with Some s' => steps s' r | None => None end
  end.

(* ------------------------------------------------------------------ *)
(* Replaying an API-level log written by the harness.  The events are what a
   user of the public API can observe; the lock operations of the acceptor
   goroutine are hidden and inserted greedily: writer acquire immediately
   before the SyncFn entry, activation + release immediately after it returns;
   the adaptation mutex is taken at the first delivery of a request and given
   up after the last one. *)
Inductive lev :=
| LBlockAcq (g : gid)                        (* logged after BlockPluginSync returned *)
| LRecv (g : gid) (p : pid) (c : cid)        (* p's CreateContainer handler ran for c (created by g) *)
| LCreateRet (g : gid) (c : cid)             (* r.CreateContainer returned to g *)
| LStore (g : gid) (c : cid)                 (* the runtime added c to its store *)
| LBlockRel (g : gid)                        (* logged before the FIRST Unblock of the block *)
| LBlockRelAgain (g : gid)                   (* logged before a repeated Unblock of the block g released last *)
| LSyncEnter (p : pid) (ids : list cid)      (* SyncFn entered; ids = the store it read *)
| LSyncRecv (p : pid) (ids : list cid)       (* p's Synchronize handler received ids *)
| LSyncRet (p : pid) (ok : bool)             (* SyncFn returned (ok = nil error) *)
| LClose (p : pid).                          (* the plugin instance p stopped and its connection is closed *)

Definition incl_b (a b : list string) : bool := forallb (fun x => smem x b) a.
Definition same_set (a b : list string) : bool := incl_b a b && incl_b b a.

Definition is_nil {A} (l : list A) : bool := match l with [] => true | _ => false end.

(* the hidden and visible LTS steps an event stands for in state s (None: the event cannot happen) *)
Definition expand (s : state) (e : lev) : option (list action) :=
  match e with
  | LBlockAcq g => Some [AGAcquire g]
  | LRecv g p c =>
      match alookup g (gors s) with
      | Some GHoldR =>
          Some ([AGBegin g c; AGDeliver g p] ++ (if is_nil (remove_s p (active s)) then [AGEnd g] else []))
      | Some (GDispatching c' to rem) =>
          if String.eqb c c'
          then Some ([AGDeliver g p] ++ (if is_nil (remove_s p rem) then [AGEnd g] else []))
          else None
      | _ => None
      end
  | LCreateRet g c =>
      match alookup g (gors s) with
      | Some GHoldR => Some [AGBegin g c; AGEnd g]          (* possible only when nobody is active *)
      | Some (GDispatched c' _) => if String.eqb c c' then Some [] else None
      | _ => None
      end
  | LStore g c =>
      match alookup g (gors s) with
      | Some (GDispatched c' _) => if String.eqb c c' then Some [AGStore g] else None
      | _ => None
      end
  | LBlockRel g => Some [AGRelease g]
  | LBlockRelAgain g => Some [AGReleaseAgain g]
  | LSyncEnter p _ =>
      Some ((match alookup p (plugs s) with None => [APArrive p] | Some _ => [] end)
              ++ [APAcquire p; APSnapshot p])
  | LSyncRecv p _ => Some []
  | LSyncRet p ok => Some (if ok then [APActivate p; APRelease p] else [APFail p])
  | LClose p => Some [APClose p]
  end.

(* what the event claims about data, checked after its steps *)
Definition observe (s : state) (e : lev) : bool :=
  match e with
  | LSyncEnter p ids => same_set ids (store s)
  | LSyncRecv p ids =>
      match alookup p (plugs s) with
      | Some (PSnapshot ids') => same_set ids ids'
      | _ => false
      end
  | _ => true
  end.

Definition replay_event (s : state) (e : lev) : option state :=
  match expand s e with
  | None => None
  | Some acts =>
      match steps s acts with
      | Some s' => if observe s' e then Some s' else None
      | None => None
      end
  end.

(* returns the state reached, or the index of the first event that is not possible *)
Fixpoint replay_from (i : nat) (s : state) (tr : list lev) : state + nat :=
  match tr with
  | [] => inl s
  | e :: r => match replay_event s e with Some s' => replay_from (S i) s' r | None => inr i end
  end.
Definition replay (tr : list lev) : state + nat := replay_from 0 init tr.

Definition settled (pc : ppc) : bool :=
  match pc with PDone _ | PClosed _ | PFailed => true | _ => false end.

(* every block released, every registration finished *)
Definition quiescent (s : state) : bool :=
  is_nil (gors s) && negb (writer s) && Nat.eqb (readers s) 0
  && match mutex s with None => true | Some _ => false end
  && forallb (fun e => settled (snd e)) (plugs s).

Definition accepts (tr : list lev) : bool :=
  match replay tr with inl s => quiescent s | inr _ => false end.
