(* Proofs about Model/Convert.v: round trips of the NRI <-> OCI conversions, Copy, the
   optional constructors; soundness of the executable predicates of Spec/ConvertSpec.v. *)
From Coq Require Import String Ascii List Bool ZArith Lia Permutation Setoid.
From NRI Require Import Base.Strs Base.Assoc Model.Convert Run.Common Spec.ConvertSpec.
Import ListNotations.
Open Scope string_scope.
Open Scope list_scope.
Open Scope Z_scope.

(* ------------------------------------------------------------------ integers *)

Lemma in_s64_spec z : in_s64 z = true <-> - two63 <= z < two63.
Proof. unfold in_s64. rewrite andb_true_iff, Z.leb_le, Z.ltb_lt. tauto. Qed.
Lemma in_u64_spec z : in_u64 z = true <-> 0 <= z < two64.
Proof. unfold in_u64. rewrite andb_true_iff, Z.leb_le, Z.ltb_lt. tauto. Qed.

Lemma wrap_s64_small v : 0 <= v < two63 -> wrap_s64 v = v.
Proof. intros H. unfold wrap_s64. rewrite Z.mod_small; unfold two63, two64 in *; lia. Qed.

Lemma wrap_s64_big v : two63 <= v < two64 -> wrap_s64 v = v - two64.
Proof.
  intros H. unfold wrap_s64.
  replace (v + two63) with ((v - two63) + 1 * two64) by (unfold two63, two64; lia).
  rewrite Z.mod_add by (unfold two64; lia).
  rewrite Z.mod_small; unfold two63, two64 in *; lia.
Qed.

Lemma wrap_u64_nonneg v : 0 <= v < two64 -> wrap_u64 v = v.
Proof. intros H. unfold wrap_u64. apply Z.mod_small. exact H. Qed.

Lemma wrap_u64_neg v : - two63 <= v < 0 -> wrap_u64 v = v + two64.
Proof.
  intros H. unfold wrap_u64.
  replace v with ((v + two64) + (-1) * two64) at 1 by lia.
  rewrite Z.mod_add by (unfold two64; lia).
  apply Z.mod_small. unfold two63, two64 in *. lia.
Qed.

Lemma wrap_s64_range v : - two63 <= wrap_s64 v < two63.
Proof.
  unfold wrap_s64. pose proof (Z.mod_pos_bound (v + two63) two64). unfold two63, two64 in *. lia.
Qed.
Lemma wrap_u64_range v : 0 <= wrap_u64 v < two64.
Proof. unfold wrap_u64. apply Z.mod_pos_bound. unfold two64. lia. Qed.

(* the wraps only reinterpret the 64 bits: converting back returns the original *)
Lemma wrap_u64_s64 v : 0 <= v < two64 -> wrap_u64 (wrap_s64 v) = v.
Proof.
  intros H. destruct (Z_lt_ge_dec v two63) as [L|G].
  - rewrite wrap_s64_small by lia. apply wrap_u64_nonneg. exact H.
  - rewrite wrap_s64_big by lia. rewrite wrap_u64_neg; unfold two63, two64 in *; lia.
Qed.
Lemma wrap_s64_u64 v : - two63 <= v < two63 -> wrap_s64 (wrap_u64 v) = v.
Proof.
  intros H. destruct (Z_lt_ge_dec v 0) as [L|G].
  - rewrite wrap_u64_neg by lia. rewrite wrap_s64_big; unfold two63, two64 in *; lia.
  - rewrite wrap_u64_nonneg by (unfold two63, two64 in *; lia). apply wrap_s64_small. lia.
Qed.

(* ------------------------------------------------------------------ optional.go *)

Lemma optid {A} (o : option A) : match o with None => None | Some v => Some v end = o.
Proof. destruct o; reflexivity. Qed.

Lemma get_String_id o : get_String o = o. Proof. apply optid. Qed.
Lemma get_Int_id o : get_Int o = o. Proof. apply optid. Qed.
Lemma get_Int32_id o : get_Int32 o = o. Proof. apply optid. Qed.
Lemma get_UInt32_id o : get_UInt32 o = o. Proof. apply optid. Qed.
Lemma get_Int64_id o : get_Int64 o = o. Proof. apply optid. Qed.
Lemma get_UInt64_id o : get_UInt64 o = o. Proof. apply optid. Qed.
Lemma get_Bool_id o : get_Bool o = o. Proof. apply optid. Qed.
Lemma get_FileMode_id o : get_FileMode o = o. Proof. apply optid. Qed.

Lemma getter_ctor k a : getter k (ctor k a) = ctor k a.
Proof. destruct k; cbn [ctor getter]; f_equal; apply optid. Qed.

Lemma ctor_nil_unset k a : is_nil_arg a = true -> ctor k a = unset_of k.
Proof.
  intros H. destruct a as [| |p|p| |p|p| | |p|p| |p|p| |p|p| |p|p| |p|p| |p|p| ];
    try discriminate H; try (destruct p; try discriminate H); destruct k; reflexivity.
Qed.

Lemma ctor_unsupported_unset k a : ctor_accepts k a = false -> ctor k a = unset_of k.
Proof. intros H. destruct k, a; try discriminate H; reflexivity. Qed.

Lemma fits_s64 (p : option Z) e :
  fits in_s64 p = Some e -> oin in_u64 p = true ->
  OZ (match p with None => None | Some v => Some (wrap_s64 v) end) = e.
Proof.
  destruct p as [v|]; cbn [fits oin]; [|intros E _; congruence].
  destruct (in_s64 v) eqn:S; [|discriminate]. intros E U. inversion E; subst; clear E.
  apply in_s64_spec in S. apply in_u64_spec in U. rewrite wrap_s64_small by lia. reflexivity.
Qed.

Lemma fits_u64 (p : option Z) e :
  fits in_u64 p = Some e -> oin in_s64 p = true ->
  OZ (match p with None => None | Some v => Some (wrap_u64 v) end) = e.
Proof.
  destruct p as [v|]; cbn [fits oin]; [|intros E _; congruence].
  destruct (in_u64 v) eqn:U; [|discriminate]. intros E S. inversion E; subst; clear E.
  apply in_u64_spec in U. rewrite wrap_u64_nonneg by lia. reflexivity.
Qed.

(* nil -> unset, a value -> exactly that value (for every accepted type, in the target's range) *)
Lemma optional_ctor_spec k a e : arg_wf a = true -> ctor_expect k a = Some e -> ctor k a = e.
Proof.
  intros W E. destruct k, a; cbn [ctor_expect same] in E; try discriminate E;
    cbn [ctor opt_String opt_Int opt_Int32 opt_UInt32 opt_Int64 opt_UInt64 opt_Bool opt_FileMode];
    try (inversion E; reflexivity).
  - apply (fits_s64 (Some v)); assumption.
  - apply (fits_s64 (Some v)); assumption.
  - apply fits_s64; assumption.
  - apply (fits_u64 (Some v)); assumption.
  - apply (fits_u64 (Some v)); assumption.
  - apply fits_u64; assumption.
Qed.

Lemma optional_wrap_Int64 v :
  0 <= v < two64 ->
  ctor KInt64 (GUint64 v) = OZ (Some (if v <? two63 then v else v - two64)) /\
  ctor KInt64 (GUint v) = OZ (Some (if v <? two63 then v else v - two64)) /\
  ctor KInt64 (GPUint64 (Some v)) = OZ (Some (if v <? two63 then v else v - two64)).
Proof.
  intros H. cbn [ctor opt_Int64]. destruct (Z.ltb_spec v two63) as [L|G].
  - rewrite wrap_s64_small by lia. auto.
  - rewrite wrap_s64_big by lia. auto.
Qed.

Lemma optional_wrap_UInt64 v :
  - two63 <= v < two63 ->
  ctor KUInt64 (GInt64 v) = OZ (Some (if 0 <=? v then v else v + two64)) /\
  ctor KUInt64 (GInt v) = OZ (Some (if 0 <=? v then v else v + two64)) /\
  ctor KUInt64 (GPInt64 (Some v)) = OZ (Some (if 0 <=? v then v else v + two64)).
Proof.
  intros H. cbn [ctor opt_UInt64]. destruct (Z.leb_spec 0 v) as [L|G].
  - rewrite wrap_u64_nonneg by (unfold two63, two64 in *; lia). auto.
  - rewrite wrap_u64_neg by lia. auto.
Qed.

(* ------------------------------------------------------------------ maps *)

Lemma aset_notin {V} k (v : V) l : ~ In k (akeys l) -> aset k v l = l ++ [(k, v)].
Proof.
  induction l as [|[k' v'] r IH]; cbn [aset akeys map fst app]; intros H; [reflexivity|].
  destruct (String.eqb_spec k k') as [->|Hne].
  - exfalso. apply H. left. reflexivity.
  - f_equal. apply IH. intros Hi. apply H. right. exact Hi.
Qed.

Lemma akeys_app {V} (a b : list (string * V)) : akeys (a ++ b) = akeys a ++ akeys b.
Proof. unfold akeys. apply map_app. Qed.

Lemma fold_aset_nodup (m acc : list (string * string)) :
  NoDup (akeys acc ++ akeys m) ->
  fold_left (fun out kv => aset (fst kv) (snd kv) out) m acc = acc ++ m.
Proof.
  revert acc. induction m as [|[k v] r IH]; intros acc H; cbn [fold_left fst snd].
  - rewrite app_nil_r. reflexivity.
  - cbn [akeys map fst] in H. rewrite aset_notin.
    + rewrite IH.
      * rewrite <- app_assoc. reflexivity.
      * rewrite akeys_app. cbn [akeys map fst]. rewrite <- app_assoc. exact H.
    + apply NoDup_remove_2 in H. intros Hi. apply H. apply in_or_app. left. exact Hi.
Qed.

Lemma nodup_keys_NoDup l : nodup_keys l = true <-> NoDup l.
Proof.
  induction l as [|k r IH]; cbn [nodup_keys].
  - split; [constructor|reflexivity].
  - rewrite andb_true_iff, negb_true_iff, smem_false_notin, IH. split.
    + intros [A B]. constructor; assumption.
    + intros H. inversion H; subst. split; assumption.
Qed.

Lemma map_copy_id m : map_wf m = true -> map_copy m = m.
Proof.
  intros H. apply nodup_keys_NoDup in H. unfold map_copy. rewrite fold_aset_nodup; [reflexivity|exact H].
Qed.

Lemma map_copy_match_id m : map_wf m = true -> match m with [] => [] | p :: l => map_copy (p :: l) end = m.
Proof. intros H. destruct m; [reflexivity|]. apply map_copy_id. exact H. Qed.

Lemma alookup_In {V} (m : list (string * V)) k v : NoDup (akeys m) -> (alookup k m = Some v <-> In (k, v) m).
Proof.
  induction m as [|[k' v'] r IH]; cbn [alookup akeys map fst In]; intros H.
  - split; [discriminate|tauto].
  - inversion H as [|x l Hn Hd]; subst. destruct (String.eqb_spec k k') as [->|Hne].
    + split.
      * intros E. left. congruence.
      * intros [E|Hi]; [congruence|]. exfalso. apply Hn. apply in_map_iff. exists (k', v). split; [reflexivity|exact Hi].
    + rewrite (IH Hd). split; [tauto|]. intros [E|Hi]; [congruence|exact Hi].
Qed.

Lemma alookup_perm {V} (m m' : list (string * V)) k :
  NoDup (akeys m) -> Permutation m m' -> alookup k m' = alookup k m.
Proof.
  intros Hd Hp.
  assert (Hd' : NoDup (akeys m')) by (eapply Permutation_NoDup; [apply Permutation_map; exact Hp|exact Hd]).
  destruct (alookup k m) as [v|] eqn:E.
  - apply (alookup_In m k v Hd) in E. apply (alookup_In m' k v Hd').
    eapply Permutation_in; [exact Hp|exact E].
  - apply alookup_None_notin in E. apply alookup_None_notin. intros Hi. apply E.
    eapply Permutation_in; [apply Permutation_sym; apply Permutation_map; exact Hp|exact Hi].
Qed.

(* whatever order the range statement visits the entries in, the copy is the same map *)
Lemma map_copy_any_order m m' k :
  map_wf m = true -> Permutation m m' -> alookup k (map_copy m') = alookup k m.
Proof.
  intros H Hp. pose proof H as Hd. apply nodup_keys_NoDup in Hd.
  assert (Hd' : NoDup (akeys m')) by (eapply Permutation_NoDup; [apply Permutation_map; exact Hp|exact Hd]).
  rewrite map_copy_id by (apply nodup_keys_NoDup; exact Hd').
  apply alookup_perm; assumption.
Qed.

(* ------------------------------------------------------------------ resources *)

Lemma map_map_id {A B} (f : A -> B) (g : B -> A) l : (forall x, g (f x) = x) -> map g (map f l) = l.
Proof. intros H. rewrite map_map. rewrite <- (map_id l) at 2. apply map_ext. exact H. Qed.

Lemma memory_from_to m : memory_from_oci (memory_to_oci m) = m.
Proof.
  destruct m as [x1 x2 x3 x4 x5 x6 x7 x8]. unfold memory_from_oci, memory_to_oci.
  cbn [om_limit om_reservation om_swap om_kernel om_kernel_tcp om_swappiness om_disable_oom_killer
       om_use_hierarchy m_limit m_reservation m_swap m_kernel m_kernel_tcp m_swappiness
       m_disable_oom_killer m_use_hierarchy opt_Int64 opt_UInt64 opt_Bool].
  rewrite ?get_Int64_id, ?get_UInt64_id, ?get_Bool_id. reflexivity.
Qed.

Lemma memory_to_from m : memory_to_oci (memory_from_oci m) = norm_omemory m.
Proof.
  destruct m as [y1 y2 y3 y4 y5 y6 y7 y8 y9]. unfold memory_from_oci, memory_to_oci, norm_omemory.
  cbn [om_limit om_reservation om_swap om_kernel om_kernel_tcp om_swappiness om_disable_oom_killer
       om_use_hierarchy m_limit m_reservation m_swap m_kernel m_kernel_tcp m_swappiness
       m_disable_oom_killer m_use_hierarchy opt_Int64 opt_UInt64 opt_Bool].
  rewrite ?get_Int64_id, ?get_UInt64_id, ?get_Bool_id. reflexivity.
Qed.

Lemma cpu_from_to c : cpu_from_oci (cpu_to_oci c) = c.
Proof.
  destruct c as [x1 x2 x3 x4 x5 x6 x7]. unfold cpu_from_oci, cpu_to_oci.
  cbn [oc_shares oc_quota oc_period oc_realtime_runtime oc_realtime_period oc_cpus oc_mems
       c_shares c_quota c_period c_realtime_runtime c_realtime_period c_cpus c_mems opt_Int64 opt_UInt64].
  rewrite ?get_Int64_id, ?get_UInt64_id. reflexivity.
Qed.

Lemma cpu_to_from c : cpu_to_oci (cpu_from_oci c) = norm_ocpu c.
Proof.
  destruct c as [y1 y2 y3 y4 y5 y6 y7 y8 y9]. unfold cpu_from_oci, cpu_to_oci, norm_ocpu.
  cbn [oc_shares oc_quota oc_period oc_realtime_runtime oc_realtime_period oc_cpus oc_mems
       c_shares c_quota c_period c_realtime_runtime c_realtime_period c_cpus c_mems opt_Int64 opt_UInt64].
  rewrite ?get_Int64_id, ?get_UInt64_id. reflexivity.
Qed.

Lemma hugepage_from_to h : hugepage_from_oci (hugepage_to_oci h) = h.
Proof. destruct h. reflexivity. Qed.
Lemma hugepage_to_from h : hugepage_to_oci (hugepage_from_oci h) = h.
Proof. destruct h. reflexivity. Qed.

Lemma devcg_from_to d : devcg_from_oci (devcg_to_oci d) = d.
Proof.
  destruct d as [x1 x2 x3 x4 x5]. unfold devcg_from_oci, devcg_to_oci.
  cbn [odc_allow odc_type odc_major odc_minor odc_access dc_allow dc_type dc_major dc_minor dc_access opt_Int64].
  rewrite ?get_Int64_id. reflexivity.
Qed.
Lemma devcg_to_from d : devcg_to_oci (devcg_from_oci d) = d.
Proof.
  destruct d as [y1 y2 y3 y4 y5]. unfold devcg_from_oci, devcg_to_oci.
  cbn [odc_allow odc_type odc_major odc_minor odc_access dc_allow dc_type dc_major dc_minor dc_access opt_Int64].
  rewrite ?get_Int64_id. reflexivity.
Qed.

Lemma empty_memory_from : memory_from_oci empty_omemory = empty_memory. Proof. reflexivity. Qed.
Lemma empty_cpu_from : cpu_from_oci empty_ocpu = empty_cpu. Proof. reflexivity. Qed.
Lemma empty_memory_to : memory_to_oci empty_memory = empty_omemory. Proof. reflexivity. Qed.
Lemma empty_cpu_to : cpu_to_oci empty_cpu = empty_ocpu. Proof. reflexivity. Qed.

Lemma res_from_to r : map_wf (r_unified r) = true -> res_from_oci (res_to_oci r) = norm_res r.
Proof.
  intros W. destruct r as [mem cp hp bc rc un dv pd]. cbn [r_unified] in W.
  unfold res_from_oci, res_to_oci, norm_res.
  cbn [or_devices or_memory or_cpu or_pids or_hugepages or_unified
       r_memory r_cpu r_hugepages r_blockio_class r_rdt_class r_unified r_devices r_pids].
  rewrite (map_map_id _ _ hp hugepage_from_to), (map_map_id _ _ dv devcg_from_to).
  rewrite (map_copy_match_id un W), (map_copy_match_id un W), !optid.
  f_equal.
  - destruct mem; [rewrite memory_from_to|]; reflexivity.
  - destruct cp; [rewrite cpu_from_to|]; reflexivity.
Qed.

Lemma res_to_from o : map_wf (or_unified o) = true -> res_to_oci (res_from_oci o) = norm_ores o.
Proof.
  intros W. destruct o as [dv mem cp pd bio hp nw rd un]. cbn [or_unified] in W.
  unfold res_from_oci, res_to_oci, norm_ores.
  cbn [or_devices or_memory or_cpu or_pids or_hugepages or_unified
       r_memory r_cpu r_hugepages r_blockio_class r_rdt_class r_unified r_devices r_pids].
  rewrite (map_map_id _ _ hp hugepage_to_from), (map_map_id _ _ dv devcg_to_from).
  rewrite (map_copy_match_id un W), (map_copy_match_id un W), !optid.
  f_equal.
  - destruct mem; [rewrite memory_to_from|]; reflexivity.
  - destruct cp; [rewrite cpu_to_from|]; reflexivity.
Qed.

Lemma from_to_resources r :
  res_wf r = true -> from_oci_resources (to_oci_resources r) = option_map norm_res r.
Proof. destruct r as [r|]; cbn; intros W; [rewrite res_from_to by exact W|]; reflexivity. Qed.

Lemma to_from_resources o :
  ores_wf o = true -> to_oci_resources (from_oci_resources o) = option_map norm_ores o.
Proof. destruct o as [o|]; cbn; intros W; [rewrite res_to_from by exact W|]; reflexivity. Qed.

(* the same, field by field as the nil-safe getters see it: every optional scalar is unset
   before iff it is unset after, and carries the same value *)
Lemma from_to_resources_fields r r' :
  map_wf (r_unified r) = true ->
  from_oci_resources (to_oci_resources (Some r)) = Some r' ->
  mem_view r' = mem_view r /\ cpu_view r' = cpu_view r /\ r_hugepages r' = r_hugepages r /\
  r_unified r' = r_unified r /\ r_devices r' = r_devices r /\ r_pids r' = r_pids r.
Proof.
  intros W E. rewrite from_to_resources in E by exact W. inversion E; subst; clear E.
  unfold mem_view, cpu_view, norm_res; cbn. repeat split.
Qed.

(* ------------------------------------------------------------------ Copy *)

Lemma memory_copy_id m : memory_copy m = m.
Proof. destruct m. reflexivity. Qed.
Lemma cpu_copy_id c : cpu_copy c = c.
Proof. destruct c. reflexivity. Qed.
Lemma hugepage_copy_id h : hugepage_copy h = h.
Proof. destruct h. reflexivity. Qed.

Lemma res_copy_view r : map_wf (r_unified r) = true -> res_copy r = copy_view r.
Proof.
  intros W. destruct r as [mem cp hp bc rc un dv pd]. cbn [r_unified] in W.
  unfold res_copy, copy_view.
  cbn [r_memory r_cpu r_hugepages r_blockio_class r_rdt_class r_unified r_devices r_pids opt_String].
  rewrite (map_copy_match_id un W), !optid.
  rewrite <- (map_id hp) at 2. rewrite (map_ext _ _ hugepage_copy_id).
  f_equal.
  - destruct mem; [rewrite memory_copy_id|]; reflexivity.
  - destruct cp; [rewrite cpu_copy_id|]; reflexivity.
Qed.

Lemma copy_equal r : res_wf r = true -> copy r = option_map copy_view r.
Proof. destruct r as [r|]; cbn; intros W; [rewrite res_copy_view by exact W|]; reflexivity. Qed.

Lemma copy_fields r c :
  map_wf (r_unified r) = true -> copy (Some r) = Some c ->
  r_memory c = r_memory r /\ r_cpu c = r_cpu r /\ r_hugepages c = r_hugepages r /\
  r_unified c = r_unified r /\ r_pids c = r_pids r /\
  r_blockio_class c = r_blockio_class r /\ r_rdt_class c = r_rdt_class r.
Proof.
  intros W E. rewrite copy_equal in E by exact W. inversion E; subst; clear E.
  unfold copy_view; cbn. repeat split.
Qed.

(* ------------------------------------------------------------------ mounts *)

Lemma dup_string_slice_id l : dup_string_slice l = l.
Proof. destruct l; reflexivity. Qed.

Lemma fold_append {A} (l acc : list A) : fold_left (fun a x => a ++ [x]) l acc = acc ++ l.
Proof.
  revert acc. induction l as [|x r IH]; intros acc; cbn [fold_left]; [rewrite app_nil_r; reflexivity|].
  rewrite IH, <- app_assoc. reflexivity.
Qed.

Lemma mount_from_to m q : mount_from_oci (fst (mount_to_oci m q)) = m.
Proof.
  destruct m as [x1 x2 x3 x4]. unfold mount_from_oci, mount_to_oci.
  cbn [fst omt_destination omt_type omt_source omt_options mt_destination mt_type mt_source mt_options].
  rewrite fold_append, dup_string_slice_id. reflexivity.
Qed.

Lemma mount_to_from m : fst (mount_to_oci (mount_from_oci m) None) = norm_omount m.
Proof.
  destruct m as [y1 y2 y3 y4 y5 y6]. unfold mount_from_oci, mount_to_oci, norm_omount.
  cbn [fst omt_destination omt_type omt_source omt_options mt_destination mt_type mt_source mt_options].
  rewrite fold_append, dup_string_slice_id. reflexivity.
Qed.

Lemma from_to_mount m q : from_oci_mounts [fst (mount_to_oci m q)] = [m].
Proof. cbn [from_oci_mounts map]. rewrite mount_from_to. reflexivity. Qed.

Lemma to_from_mounts l :
  map (fun m => fst (mount_to_oci m None)) (from_oci_mounts l) = map norm_omount l.
Proof. unfold from_oci_mounts. rewrite map_map. apply map_ext. exact mount_to_from. Qed.

Lemma last_cons_default {A} (x d : A) l : last (x :: l) d = last l x.
Proof. revert x. induction l as [|y r IH]; intros x; [reflexivity|]. cbn [last] in *. destruct r; [reflexivity|]. apply IH. Qed.

Lemma fold_propagation opts s :
  fold_left (fun cur opt => if is_propagation opt then opt else cur) opts s = last (filter is_propagation opts) s.
Proof.
  revert s. induction opts as [|x r IH]; intros s; cbn [fold_left filter]; [reflexivity|].
  rewrite IH. destruct (is_propagation x); [|reflexivity]. rewrite last_cons_default. reflexivity.
Qed.

(* the propagation query: untouched when nil, otherwise the last propagation option, if any *)
Lemma mount_query m :
  snd (mount_to_oci m None) = None /\
  forall s, snd (mount_to_oci m (Some s)) = Some (last (filter is_propagation (mt_options m)) s).
Proof. split; [reflexivity|]. intros s. unfold mount_to_oci. cbn [snd]. rewrite fold_propagation. reflexivity. Qed.

(* ------------------------------------------------------------------ devices *)

Lemma device_from_to d :
  device_from_oci (device_to_oci d) = match d with None => zero_device | Some d => d end.
Proof.
  destruct d as [d|]; [|reflexivity]. destruct d as [x1 x2 x3 x4 x5 x6 x7]. unfold device_from_oci, device_to_oci.
  cbn [od_path od_type od_major od_minor od_file_mode od_uid od_gid
       d_path d_type d_major d_minor d_file_mode d_uid d_gid opt_FileMode opt_UInt32].
  rewrite ?get_FileMode_id, ?get_UInt32_id. reflexivity.
Qed.

Lemma device_to_from d : device_to_oci (Some (device_from_oci d)) = d.
Proof.
  destruct d as [y1 y2 y3 y4 y5 y6 y7]. unfold device_from_oci, device_to_oci.
  cbn [od_path od_type od_major od_minor od_file_mode od_uid od_gid
       d_path d_type d_major d_minor d_file_mode d_uid d_gid opt_FileMode opt_UInt32].
  rewrite ?get_FileMode_id, ?get_UInt32_id. reflexivity.
Qed.

Lemma from_to_device d :
  from_oci_devices [device_to_oci d] = [match d with None => zero_device | Some d => d end].
Proof. cbn [from_oci_devices map]. rewrite device_from_to. reflexivity. Qed.

Lemma to_from_devices l : map (fun d => device_to_oci (Some d)) (from_oci_devices l) = l.
Proof. unfold from_oci_devices. apply map_map_id. exact device_to_from. Qed.

(* ------------------------------------------------------------------ hooks *)

Lemma hook_from_to h : hook_from_oci (hook_to_oci h) = h.
Proof.
  destruct h as [x1 x2 x3 x4]. unfold hook_from_oci, hook_to_oci.
  cbn [ohk_path ohk_args ohk_env ohk_timeout hk_path hk_args hk_env hk_timeout opt_Int].
  rewrite !dup_string_slice_id, ?get_Int_id. reflexivity.
Qed.

Lemma hook_to_from h : hook_to_oci (hook_from_oci h) = h.
Proof.
  destruct h as [y1 y2 y3 y4]. unfold hook_from_oci, hook_to_oci.
  cbn [ohk_path ohk_args ohk_env ohk_timeout hk_path hk_args hk_env hk_timeout opt_Int].
  rewrite !dup_string_slice_id, ?get_Int_id. reflexivity.
Qed.

Lemma from_to_hooks h : from_oci_hooks (Some (hooks_to_oci h)) = Some h.
Proof.
  destruct h as [x1 x2 x3 x4 x5 x6]. unfold from_oci_hooks, hooks_to_oci, from_oci_hook_slice.
  cbn [ohs_prestart ohs_create_runtime ohs_create_container ohs_start_container ohs_poststart ohs_poststop
       hs_prestart hs_create_runtime hs_create_container hs_start_container hs_poststart hs_poststop].
  rewrite !(map_map_id _ _ _ hook_from_to). reflexivity.
Qed.

Lemma to_from_hooks o : option_map hooks_to_oci (from_oci_hooks o) = o.
Proof.
  destruct o as [o|]; [|reflexivity]. destruct o as [y1 y2 y3 y4 y5 y6].
  unfold from_oci_hooks, hooks_to_oci, from_oci_hook_slice, option_map.
  cbn [ohs_prestart ohs_create_runtime ohs_create_container ohs_start_container ohs_poststart ohs_poststop
       hs_prestart hs_create_runtime hs_create_container hs_start_container hs_poststart hs_poststop].
  rewrite !(map_map_id _ _ _ hook_to_from). reflexivity.
Qed.

(* ------------------------------------------------------------------ env *)

Lemma cut_key_value k v : no_eq k = true -> cut eq_char (k ++ String eq_char v)%string = (k, Some v).
Proof.
  induction k as [|c r IH]; cbn [no_eq String.append cut]; intros H.
  - rewrite Ascii.eqb_refl. reflexivity.
  - apply andb_true_iff in H. destruct H as [Hc Hr]. apply negb_true_iff in Hc. rewrite Hc, (IH Hr). reflexivity.
Qed.

Lemma cut_some c s k v : cut c s = (k, Some v) -> s = (k ++ String c v)%string.
Proof.
  revert k. induction s as [|d r IH]; cbn [cut]; intros k E; [discriminate|].
  destruct (Ascii.eqb_spec d c) as [->|Hne].
  - inversion E; subst. reflexivity.
  - destruct (cut c r) as [a b] eqn:Er. inversion E; subst. cbn [String.append]. f_equal. apply IH. reflexivity.
Qed.

Lemma cut_none c s k : cut c s = (k, None) -> k = s.
Proof.
  revert k. induction s as [|d r IH]; cbn [cut]; intros k E; [inversion E; reflexivity|].
  destruct (Ascii.eqb d c); [discriminate|].
  destruct (cut c r) as [a b] eqn:Er. inversion E; subst. f_equal. apply IH. reflexivity.
Qed.

Lemma kv_from_to e : kv_wf e = true -> kv_from_oci (kv_to_oci e) = e.
Proof.
  destruct e as [k v]. unfold kv_wf, kv_from_oci, kv_to_oci. cbn [kv_key kv_value]. intros H.
  change ("=" ++ v)%string with (String eq_char v). rewrite (cut_key_value k v H). reflexivity.
Qed.

Lemma append_empty_r s : (s ++ "")%string = s.
Proof. induction s as [|c r IH]; cbn [String.append]; [reflexivity|]. rewrite IH. reflexivity. Qed.

Lemma kv_to_from s : kv_to_oci (kv_from_oci s) = norm_env_entry s.
Proof.
  unfold kv_from_oci, kv_to_oci, norm_env_entry. destruct (cut eq_char s) as [k [v|]] eqn:E; cbn [kv_key kv_value].
  - apply cut_some in E. subst. reflexivity.
  - apply cut_none in E. subst. reflexivity.
Qed.

Lemma from_to_env l : forallb kv_wf l = true -> from_oci_env (to_oci_env l) = l.
Proof.
  unfold from_oci_env, to_oci_env. induction l as [|e r IH]; cbn [forallb map]; intros H; [reflexivity|].
  apply andb_true_iff in H. destruct H as [He Hr]. rewrite (kv_from_to e He), (IH Hr). reflexivity.
Qed.

Lemma to_from_env l : to_oci_env (from_oci_env l) = map norm_env_entry l.
Proof. unfold from_oci_env, to_oci_env. rewrite map_map. apply map_ext. exact kv_to_from. Qed.

Lemma cut_has_eq s : no_eq s = false -> exists k v, cut eq_char s = (k, Some v).
Proof.
  induction s as [|c r IH]; cbn [no_eq cut]; intros H; [discriminate|].
  destruct (Ascii.eqb c eq_char) eqn:Ec; cbn [negb andb] in H.
  - eauto.
  - destruct (IH H) as [k [v E]]. rewrite E. eauto.
Qed.

(* an entry that contains '=' is returned unchanged *)
Lemma norm_env_entry_id s : no_eq s = false -> norm_env_entry s = s.
Proof. intros H. destruct (cut_has_eq s H) as [k [v E]]. unfold norm_env_entry. rewrite E. reflexivity. Qed.

(* ------------------------------------------------------------------ the boolean predicates
   decide the equations above *)

Lemma opt_eqb_eq {A} (e : A -> A -> bool) :
  (forall x y, e x y = true <-> x = y) -> forall a b, opt_eqb e a b = true <-> a = b.
Proof.
  intros H [x|] [y|]; cbn [opt_eqb]; try (split; [discriminate|congruence]); [|tauto].
  rewrite H. split; congruence.
Qed.

Lemma list_eqb_eq {A} (e : A -> A -> bool) :
  (forall x y, e x y = true <-> x = y) -> forall a b, list_eqb e a b = true <-> a = b.
Proof.
  intros H. induction a as [|x r IH]; intros [|y s]; cbn [list_eqb]; try (split; [discriminate|congruence]); [tauto|].
  rewrite andb_true_iff, H, IH. split; [intros [-> ->]; reflexivity|intros E; inversion E; tauto].
Qed.

Lemma pair_eqb_eq {A B} (ea : A -> A -> bool) (eb : B -> B -> bool) :
  (forall x y, ea x y = true <-> x = y) -> (forall x y, eb x y = true <-> x = y) ->
  forall a b, pair_eqb ea eb a b = true <-> a = b.
Proof.
  intros Ha Hb [a1 a2] [b1 b2]. unfold pair_eqb. cbn [fst snd]. rewrite andb_true_iff, Ha, Hb.
  split; [intros [-> ->]; reflexivity|intros E; inversion E; tauto].
Qed.

Lemma bool_eqb_eq x y : Bool.eqb x y = true <-> x = y.
Proof. destruct x, y; cbn; split; congruence. Qed.

Lemma oz_eqb_eq a b : oz_eqb a b = true <-> a = b. Proof. apply opt_eqb_eq. exact Z.eqb_eq. Qed.
Lemma ob_eqb_eq a b : ob_eqb a b = true <-> a = b. Proof. apply opt_eqb_eq. exact bool_eqb_eq. Qed.
Lemma os_eqb_eq a b : os_eqb a b = true <-> a = b. Proof. apply opt_eqb_eq. exact String.eqb_eq. Qed.
Lemma sl_eqb_eq a b : sl_eqb a b = true <-> a = b. Proof. apply list_eqb_eq. exact String.eqb_eq. Qed.
Lemma ss_eqb_eq a b : ss_eqb a b = true <-> a = b.
Proof. apply list_eqb_eq. apply pair_eqb_eq; exact String.eqb_eq. Qed.

Ltac rec_eqb :=
  split;
  [ intros H; repeat match goal with H : _ /\ _ |- _ => destruct H end; subst; reflexivity
  | intros H; inversion H; subst; repeat split; reflexivity ].

Lemma memory_eqb_eq a b : memory_eqb a b = true <-> a = b.
Proof.
  destruct a as [x1 x2 x3 x4 x5 x6 x7 x8], b as [y1 y2 y3 y4 y5 y6 y7 y8]. unfold memory_eqb.
  cbn [m_limit m_reservation m_swap m_kernel m_kernel_tcp m_swappiness m_disable_oom_killer m_use_hierarchy].
  rewrite !andb_true_iff, !oz_eqb_eq, !ob_eqb_eq. rec_eqb.
Qed.

Lemma cpu_eqb_eq a b : cpu_eqb a b = true <-> a = b.
Proof.
  destruct a as [x1 x2 x3 x4 x5 x6 x7], b as [y1 y2 y3 y4 y5 y6 y7]. unfold cpu_eqb.
  cbn [c_shares c_quota c_period c_realtime_runtime c_realtime_period c_cpus c_mems].
  rewrite !andb_true_iff, !oz_eqb_eq, !String.eqb_eq. rec_eqb.
Qed.

Lemma hugepage_eqb_eq a b : hugepage_eqb a b = true <-> a = b.
Proof.
  destruct a as [x1 x2], b as [y1 y2]. unfold hugepage_eqb. cbn [h_page_size h_limit].
  rewrite !andb_true_iff, String.eqb_eq, Z.eqb_eq. rec_eqb.
Qed.

Lemma devcg_eqb_eq a b : devcg_eqb a b = true <-> a = b.
Proof.
  destruct a as [x1 x2 x3 x4 x5], b as [y1 y2 y3 y4 y5]. unfold devcg_eqb. cbn [dc_allow dc_type dc_major dc_minor dc_access].
  rewrite !andb_true_iff, !oz_eqb_eq, !String.eqb_eq, bool_eqb_eq. rec_eqb.
Qed.

Lemma resources_eqb_eq a b : resources_eqb a b = true <-> a = b.
Proof.
  destruct a as [x1 x2 x3 x4 x5 x6 x7 x8], b as [y1 y2 y3 y4 y5 y6 y7 y8]. unfold resources_eqb.
  cbn [r_memory r_cpu r_hugepages r_blockio_class r_rdt_class r_unified r_devices r_pids].
  rewrite !andb_true_iff, (opt_eqb_eq _ memory_eqb_eq), (opt_eqb_eq _ cpu_eqb_eq),
    (list_eqb_eq _ hugepage_eqb_eq), (list_eqb_eq _ devcg_eqb_eq), !os_eqb_eq, ss_eqb_eq, oz_eqb_eq.
  rec_eqb.
Qed.

Lemma omemory_eqb_eq a b : omemory_eqb a b = true <-> a = b.
Proof.
  destruct a as [x1 x2 x3 x4 x5 x6 x7 x8 x9], b as [y1 y2 y3 y4 y5 y6 y7 y8 y9]. unfold omemory_eqb.
  cbn [om_limit om_reservation om_swap om_kernel om_kernel_tcp om_swappiness om_disable_oom_killer
       om_use_hierarchy om_check_before_update].
  rewrite !andb_true_iff, !oz_eqb_eq, !ob_eqb_eq. rec_eqb.
Qed.

Lemma ocpu_eqb_eq a b : ocpu_eqb a b = true <-> a = b.
Proof.
  destruct a as [x1 x2 x3 x4 x5 x6 x7 x8 x9], b as [y1 y2 y3 y4 y5 y6 y7 y8 y9]. unfold ocpu_eqb.
  cbn [oc_shares oc_quota oc_burst oc_period oc_realtime_runtime oc_realtime_period oc_cpus oc_mems oc_idle].
  rewrite !andb_true_iff, !oz_eqb_eq, !String.eqb_eq. rec_eqb.
Qed.

Lemma ohugepage_eqb_eq a b : ohugepage_eqb a b = true <-> a = b.
Proof.
  destruct a as [x1 x2], b as [y1 y2]. unfold ohugepage_eqb. cbn [oh_page_size oh_limit].
  rewrite !andb_true_iff, String.eqb_eq, Z.eqb_eq. rec_eqb.
Qed.

Lemma odevcg_eqb_eq a b : odevcg_eqb a b = true <-> a = b.
Proof.
  destruct a as [x1 x2 x3 x4 x5], b as [y1 y2 y3 y4 y5]. unfold odevcg_eqb. cbn [odc_allow odc_type odc_major odc_minor odc_access].
  rewrite !andb_true_iff, !oz_eqb_eq, !String.eqb_eq, bool_eqb_eq. rec_eqb.
Qed.

Lemma oresources_eqb_eq a b : oresources_eqb a b = true <-> a = b.
Proof.
  destruct a as [x1 x2 x3 x4 x5 x6 x7 x8 x9], b as [y1 y2 y3 y4 y5 y6 y7 y8 y9]. unfold oresources_eqb.
  cbn [or_devices or_memory or_cpu or_pids or_blockio or_hugepages or_network or_rdma or_unified].
  rewrite !andb_true_iff, (opt_eqb_eq _ omemory_eqb_eq), (opt_eqb_eq _ ocpu_eqb_eq),
    (list_eqb_eq _ ohugepage_eqb_eq), (list_eqb_eq _ odevcg_eqb_eq), !bool_eqb_eq, ss_eqb_eq, oz_eqb_eq.
  rec_eqb.
Qed.

Lemma mount_eqb_eq a b : mount_eqb a b = true <-> a = b.
Proof.
  destruct a as [x1 x2 x3 x4], b as [y1 y2 y3 y4]. unfold mount_eqb. cbn [mt_destination mt_type mt_source mt_options].
  rewrite !andb_true_iff, !String.eqb_eq, sl_eqb_eq. rec_eqb.
Qed.

Lemma idmap_eqb_eq a b : idmap_eqb a b = true <-> a = b.
Proof.
  destruct a as [[a1 a2] a3], b as [[b1 b2] b3]. unfold idmap_eqb. cbn [fst snd].
  rewrite !andb_true_iff, !Z.eqb_eq. rec_eqb.
Qed.

Lemma omount_eqb_eq a b : omount_eqb a b = true <-> a = b.
Proof.
  destruct a as [x1 x2 x3 x4 x5 x6], b as [y1 y2 y3 y4 y5 y6]. unfold omount_eqb.
  cbn [omt_destination omt_type omt_source omt_options omt_uid_mappings omt_gid_mappings].
  rewrite !andb_true_iff, !String.eqb_eq, sl_eqb_eq, !(list_eqb_eq _ idmap_eqb_eq). rec_eqb.
Qed.

Lemma device_eqb_eq a b : device_eqb a b = true <-> a = b.
Proof.
  destruct a as [x1 x2 x3 x4 x5 x6 x7], b as [y1 y2 y3 y4 y5 y6 y7]. unfold device_eqb. cbn [d_path d_type d_major d_minor d_file_mode d_uid d_gid].
  rewrite !andb_true_iff, !String.eqb_eq, !Z.eqb_eq, !oz_eqb_eq. rec_eqb.
Qed.

Lemma odevice_eqb_eq a b : odevice_eqb a b = true <-> a = b.
Proof.
  destruct a as [x1 x2 x3 x4 x5 x6 x7], b as [y1 y2 y3 y4 y5 y6 y7]. unfold odevice_eqb. cbn [od_path od_type od_major od_minor od_file_mode od_uid od_gid].
  rewrite !andb_true_iff, !String.eqb_eq, !Z.eqb_eq, !oz_eqb_eq. rec_eqb.
Qed.

Lemma hook_eqb_eq a b : hook_eqb a b = true <-> a = b.
Proof.
  destruct a as [x1 x2 x3 x4], b as [y1 y2 y3 y4]. unfold hook_eqb. cbn [hk_path hk_args hk_env hk_timeout].
  rewrite !andb_true_iff, String.eqb_eq, !sl_eqb_eq, oz_eqb_eq. rec_eqb.
Qed.

Lemma ohook_eqb_eq a b : ohook_eqb a b = true <-> a = b.
Proof.
  destruct a as [x1 x2 x3 x4], b as [y1 y2 y3 y4]. unfold ohook_eqb. cbn [ohk_path ohk_args ohk_env ohk_timeout].
  rewrite !andb_true_iff, String.eqb_eq, !sl_eqb_eq, oz_eqb_eq. rec_eqb.
Qed.

Lemma hooks_eqb_eq a b : hooks_eqb a b = true <-> a = b.
Proof.
  destruct a as [x1 x2 x3 x4 x5 x6], b as [y1 y2 y3 y4 y5 y6]. unfold hooks_eqb.
  cbn [hs_prestart hs_create_runtime hs_create_container hs_start_container hs_poststart hs_poststop].
  rewrite !andb_true_iff, !(list_eqb_eq _ hook_eqb_eq). rec_eqb.
Qed.

Lemma ohooks_eqb_eq a b : ohooks_eqb a b = true <-> a = b.
Proof.
  destruct a as [x1 x2 x3 x4 x5 x6], b as [y1 y2 y3 y4 y5 y6]. unfold ohooks_eqb.
  cbn [ohs_prestart ohs_create_runtime ohs_create_container ohs_start_container ohs_poststart ohs_poststop].
  rewrite !andb_true_iff, !(list_eqb_eq _ ohook_eqb_eq). rec_eqb.
Qed.

Lemma kv_eqb_eq a b : kv_eqb a b = true <-> a = b.
Proof.
  destruct a as [x1 x2], b as [y1 y2]. unfold kv_eqb. cbn [kv_key kv_value]. rewrite !andb_true_iff, !String.eqb_eq. rec_eqb.
Qed.

Lemma oval_eqb_eq a b : oval_eqb a b = true <-> a = b.
Proof.
  destruct a, b; cbn [oval_eqb]; try (split; [discriminate|congruence]);
    rewrite ?os_eqb_eq, ?oz_eqb_eq, ?ob_eqb_eq; split; congruence.
Qed.

(* each predicate evaluated on the implementation's observation is exactly the equation of the
   corresponding theorem *)
Lemma predicates_reflect :
  (forall r back, rt_res_nri r back = true <-> back = option_map norm_res r) /\
  (forall o back, rt_res_oci o back = true <-> back = option_map norm_ores o) /\
  (forall r c, copy_ok r c = true <-> c = option_map copy_view r) /\
  (forall m back, rt_mount_nri m back = true <-> back = [m]) /\
  (forall o back, rt_mounts_oci o back = true <-> back = map norm_omount o) /\
  (forall d back, rt_device_nri d back = true <-> back = [match d with None => zero_device | Some d => d end]) /\
  (forall o back, rt_devices_oci o back = true <-> back = o) /\
  (forall h back, rt_hooks_nri h back = true <-> back = Some h) /\
  (forall o back, rt_hooks_oci o back = true <-> back = o) /\
  (forall l back, forallb kv_wf l = true -> (rt_env_nri l back = true <-> back = l)) /\
  (forall l back, rt_env_oci l back = true <-> back = map norm_env_entry l) /\
  (forall k a res got e, ctor_expect k a = Some e -> (ctor_ok k a res got = true <-> got = res /\ res = e)).
Proof.
  split; [intros r back; unfold rt_res_nri; apply (opt_eqb_eq _ resources_eqb_eq)|].
  split; [intros o back; unfold rt_res_oci; apply (opt_eqb_eq _ oresources_eqb_eq)|].
  split; [intros r c; unfold copy_ok; apply (opt_eqb_eq _ resources_eqb_eq)|].
  split; [intros m back; unfold rt_mount_nri; apply (list_eqb_eq _ mount_eqb_eq)|].
  split; [intros o back; unfold rt_mounts_oci; apply (list_eqb_eq _ omount_eqb_eq)|].
  split; [intros d back; unfold rt_device_nri; apply (list_eqb_eq _ device_eqb_eq)|].
  split; [intros o back; unfold rt_devices_oci; apply (list_eqb_eq _ odevice_eqb_eq)|].
  split; [intros h back; unfold rt_hooks_nri; apply (opt_eqb_eq _ hooks_eqb_eq)|].
  split; [intros o back; unfold rt_hooks_oci; apply (opt_eqb_eq _ ohooks_eqb_eq)|].
  split; [intros l back W; unfold rt_env_nri; rewrite W; apply (list_eqb_eq _ kv_eqb_eq)|].
  split; [intros l back; unfold rt_env_oci; apply sl_eqb_eq|].
  intros k a res got e E. unfold ctor_ok. rewrite E, andb_true_iff, !oval_eqb_eq. tauto.
Qed.
