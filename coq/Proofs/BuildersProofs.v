(* Proofs about the builder API model (Model/Builders.v) against the tables of Spec/BuildersSpec.v:
   marker round trip; the abstract ledger group of a built adjustment (C02); what a built update
   carries (C05); the reference effect of single methods and remove/add pairs (C13). *)
From Coq Require Import String Ascii List Bool ZArith Arith Lia.
From NRI Require Import Base.Strs Base.Assoc Model.Types Model.Builders Spec.Apply Spec.AbsLedger Spec.BuildersSpec
  Proofs.KeyedProofs Proofs.CombineBase.
From NRI Require Model.Convert Model.Result.
Import ListNotations.
Open Scope string_scope.
Open Scope list_scope.

(* ====================================================================== markers (helpers.go) *)
Lemma marker_roundtrip k : is_marked (mark k) = (k, true).
Proof. reflexivity. Qed.

Lemma unmarked_unchanged k : (forall r, k <> mark r) -> is_marked k = (k, false).
Proof.
  intros H. unfold is_marked. destruct k as [|c r]; [reflexivity|].
  destruct (Ascii.eqb c "-"%char) eqn:E; [|reflexivity].
  apply Ascii.eqb_eq in E. subst c. exfalso. apply (H r). reflexivity.
Qed.

Lemma marked_iff_mark k : marked k = true <-> exists r, k = mark r.
Proof.
  unfold marked, is_marked, mark. split.
  - destruct k as [|c r]; [discriminate|]. destruct (Ascii.eqb c "-"%char) eqn:E; [|discriminate].
    apply Ascii.eqb_eq in E. subst c. intros _. exists r. reflexivity.
  - intros [r ->]. reflexivity.
Qed.

Lemma is_marked_total k : is_marked k = (rawkey k, marked k).
Proof. unfold rawkey, marked. destruct (is_marked k). reflexivity. Qed.

Lemma typed_markers d p k :
  mount_is_marked (removal_mount d) = (d, true) /\
  device_is_marked (removal_device p) = (p, true) /\
  env_is_marked (mark k, "") = (k, true).
Proof. repeat split. Qed.

(* ====================================================================== generic: last writer, snoc *)
Lemma last_some_snoc {A B} (f : A -> option B) l x :
  last_some f (l ++ [x]) = match f x with Some y => Some y | None => last_some f l end.
Proof. unfold last_some. rewrite fold_left_app. reflexivity. Qed.

Lemma last_some_nil {A B} (f : A -> option B) : last_some f [] = None.
Proof. reflexivity. Qed.

Lemma last_some_none {A B} (f : A -> option B) l : (forall x, In x l -> f x = None) -> last_some f l = None.
Proof.
  induction l as [|x r IH] using rev_ind; intros H; [reflexivity|].
  rewrite last_some_snoc, (H x) by (apply in_or_app; right; left; reflexivity).
  apply IH. intros y Hy. apply H. apply in_or_app. left. exact Hy.
Qed.

Lemma flat_map_snoc {A B} (f : A -> list B) l x : flat_map f (l ++ [x]) = flat_map f l ++ f x.
Proof. rewrite flat_map_app. cbn [flat_map]. rewrite app_nil_r. reflexivity. Qed.

Lemma build_adj_snoc ops op : build_adj (ops ++ [op]) = apply_bop (build_adj ops) op.
Proof. unfold build_adj. rewrite fold_left_app. reflexivity. Qed.

Lemma build_upd_snoc id ops op : build_upd id (ops ++ [op]) = apply_uop (build_upd id ops) op.
Proof. unfold build_upd. rewrite fold_left_app. reflexivity. Qed.

(* ====================================================================== scalars *)
Lemma flookup_sremove f g l : flookup f (sremove g l) = if sfield_eqb f g then None else flookup f l.
Proof.
  induction l as [|[h w] r IH]; cbn [sremove filter flookup fst].
  - destruct (sfield_eqb f g); reflexivity.
  - fold (sremove g r). destruct (sfield_eqb_spec g h) as [->|Hgh]; cbn [negb].
    + rewrite IH. destruct (sfield_eqb f h); reflexivity.
    + cbn [flookup]. rewrite IH. destruct (sfield_eqb_spec f h) as [->|Hfh]; [|reflexivity].
      destruct (sfield_eqb_spec h g); [congruence|reflexivity].
Qed.

Lemma flookup_fset' f g v l : flookup f (fset g v l) = if sfield_eqb f g then Some v else flookup f l.
Proof.
  destruct (sfield_eqb_spec f g) as [->|Hne]; [apply flookup_fset_same|apply flookup_fset_other; exact Hne].
Qed.

Lemma flookup_sassign f g o l : flookup f (sassign g o l) = if sfield_eqb f g then o else flookup f l.
Proof. destruct o as [v|]; cbn [sassign]; [apply flookup_fset'|apply flookup_sremove]. Qed.

(* each resource setter writes exactly the field of the table, with the table's value, and no other *)
Lemma apply_rop_scal r op f :
  flookup f (r_scal (apply_rop r op)) =
  match rop_writes_to f op with Some w => w | None => flookup f (r_scal r) end.
Proof.
  unfold rop_writes_to.
  destruct op; cbn [apply_rop rop_write res_with_scal res_with_hp res_with_uni r_scal]; try reflexivity;
    rewrite flookup_sassign;
    match goal with |- context [sfield_eqb f ?g] => destruct (sfield_eqb f g) end; try reflexivity.
Qed.

Lemma apply_rop_hp r op : r_hp (apply_rop r op) = r_hp r ++ rop_hp op.
Proof. destruct op; cbn [apply_rop rop_hp res_with_scal res_with_hp res_with_uni r_hp]; rewrite ?app_nil_r; reflexivity. Qed.

Lemma apply_rop_uni r op k :
  alookup k (r_uni (apply_rop r op)) = match rop_uni_to k op with Some v => Some v | None => alookup k (r_uni r) end.
Proof.
  destruct op; cbn [apply_rop rop_uni_to res_with_scal res_with_hp res_with_uni r_uni]; try reflexivity.
  destruct (String.eqb_spec k k0) as [->|Hne]; [apply alookup_aset_same|apply alookup_aset_other; exact Hne].
Qed.

Lemma apply_rop_uni_keys r op x :
  In x (akeys (r_uni (apply_rop r op))) <-> In x (akeys (r_uni r)) \/ In (IUni x) (rop_claims op).
Proof.
  destruct op; cbn [apply_rop rop_claims res_with_scal res_with_hp res_with_uni r_uni In]; try tauto.
  - split; [tauto|]. intros [H|[H|[]]]; [exact H|discriminate].
  - rewrite akeys_aset_in. split.
    + intros [->|H]; [right; left; reflexivity|left; exact H].
    + intros [H|[H|[]]]; [right; exact H|left; congruence].
Qed.

Definition res_fold (rops : list rop) (r0 : resources) : resources := fold_left apply_rop rops r0.

Lemma res_fold_snoc rops op r0 : res_fold (rops ++ [op]) r0 = apply_rop (res_fold rops r0) op.
Proof. unfold res_fold. rewrite fold_left_app. reflexivity. Qed.

Lemma res_fold_scal rops r0 f :
  flookup f (r_scal (res_fold rops r0)) =
  match last_some (rop_writes_to f) rops with Some w => w | None => flookup f (r_scal r0) end.
Proof.
  induction rops as [|op rops IH] using rev_ind; [reflexivity|].
  rewrite res_fold_snoc, apply_rop_scal, last_some_snoc, IH.
  destruct (rop_writes_to f op); reflexivity.
Qed.

Lemma res_fold_scal_empty rops f : flookup f (r_scal (res_fold rops res_empty)) = spec_scal f rops.
Proof. rewrite res_fold_scal. unfold spec_scal. destruct (last_some _ rops); reflexivity. Qed.

Lemma res_fold_hp rops r0 : r_hp (res_fold rops r0) = r_hp r0 ++ flat_map rop_hp rops.
Proof.
  induction rops as [|op rops IH] using rev_ind; [cbn; rewrite app_nil_r; reflexivity|].
  rewrite res_fold_snoc, apply_rop_hp, IH, flat_map_snoc, app_assoc. reflexivity.
Qed.

Lemma res_fold_uni rops r0 k :
  alookup k (r_uni (res_fold rops r0)) =
  match last_some (rop_uni_to k) rops with Some v => Some v | None => alookup k (r_uni r0) end.
Proof.
  induction rops as [|op rops IH] using rev_ind; [reflexivity|].
  rewrite res_fold_snoc, apply_rop_uni, last_some_snoc, IH.
  destruct (rop_uni_to k op); reflexivity.
Qed.

Lemma hpuni_step r op it :
  In it (map (fun e => IHp (fst e)) (r_hp (apply_rop r op)) ++ map (fun e => IUni (fst e)) (r_uni (apply_rop r op)))
  <-> In it (map (fun e => IHp (fst e)) (r_hp r) ++ map (fun e => IUni (fst e)) (r_uni r)) \/ In it (rop_claims op).
Proof.
  rewrite !in_app_iff, apply_rop_hp, map_app, in_app_iff.
  assert (Hu : In it (map (fun e => IUni (fst e)) (r_uni (apply_rop r op))) <->
               In it (map (fun e => IUni (fst e)) (r_uni r)) \/ (exists k, it = IUni k /\ In it (rop_claims op))).
  { rewrite !in_map_iff. split.
    - intros [e [<- He]]. assert (Hk : In (fst e) (akeys (r_uni (apply_rop r op)))) by (apply in_map; exact He).
      apply apply_rop_uni_keys in Hk. destruct Hk as [Hk|Hk].
      + left. unfold akeys in Hk. apply in_map_iff in Hk. destruct Hk as [e' [E' He']]. exists e'. rewrite E'. tauto.
      + right. exists (fst e). tauto.
    - intros [[e [<- He]]|[k [-> Hk]]].
      + assert (Hi : In (fst e) (akeys (r_uni (apply_rop r op)))) by (apply apply_rop_uni_keys; left; apply in_map; exact He).
        unfold akeys in Hi. apply in_map_iff in Hi. destruct Hi as [e' [E' He']]. exists e'. rewrite E'. tauto.
      + assert (Hi : In k (akeys (r_uni (apply_rop r op)))) by (apply apply_rop_uni_keys; right; exact Hk).
        unfold akeys in Hi. apply in_map_iff in Hi. destruct Hi as [e' [E' He']]. exists e'. rewrite E'. tauto. }
  rewrite Hu. clear Hu.
  assert (Hh : In it (map (fun e => IHp (fst e)) (rop_hp op)) <-> (exists s, it = IHp s /\ In it (rop_claims op))).
  { destruct op; cbn [rop_hp rop_claims map In fst]; (split; [intros H|intros [s0 [E H]]]); try contradiction; try tauto;
      destruct H as [<-|[]]; first [discriminate | (eexists; split; [reflexivity|left; reflexivity])]. }
  assert (Hc : In it (rop_claims op) -> (exists s, it = IHp s) \/ (exists k, it = IUni k)).
  { destruct op; cbn [rop_claims In]; intros H; try contradiction; destruct H as [<-|[]]; [left|right]; eexists; reflexivity. }
  split.
  - intros [[H|H]|[H|[k [_ H]]]]; [tauto| |tauto|tauto]. apply Hh in H. destruct H as [s [_ H]]. tauto.
  - intros [[H|H]|H]; [tauto|tauto|]. destruct (Hc H) as [[s E]|[k E]].
    + left. right. apply Hh. exists s. tauto.
    + right. right. exists k. tauto.
Qed.

(* the hugepage sizes and unified keys of the result are exactly those named by the setters *)
Lemma res_fold_hpuni_claims rops it :
  In it (map (fun e => IHp (fst e)) (r_hp (res_fold rops res_empty)) ++
         map (fun e => IUni (fst e)) (r_uni (res_fold rops res_empty)))
  <-> In it (flat_map rop_claims rops).
Proof.
  induction rops as [|op rops IH] using rev_ind; [cbn; tauto|].
  rewrite res_fold_snoc, hpuni_step, IH, flat_map_snoc, in_app_iff. tauto.
Qed.

(* ---------- res_claims of the abstract ledger, as items ---------- *)
Definition res_claim_items (r : resources) : list item :=
  map (fun e => IHp (fst e)) (r_hp r) ++ map (fun e => IUni (fst e)) (r_uni r)
  ++ map IScal (filter (fun f => is_some (flookup f (r_scal r))) all_scalars).

Lemma in_map_pair (id : string) (l : list item) x : In x (map (pair id) l) <-> fst x = id /\ In (snd x) l.
Proof.
  rewrite in_map_iff. destruct x as [i it]. cbn [fst snd]. split.
  - intros [y [E Hy]]. inversion E. subst. tauto.
  - intros [-> H]. exists it. tauto.
Qed.

Lemma res_claims_items id r x : In x (res_claims id r) <-> In x (map (pair id) (res_claim_items r)).
Proof.
  unfold res_claims, res_claim_items, all_scalars.
  rewrite filter_app, !map_app, !map_map, !in_app_iff. cbn [fst snd]. unfold is_some.
  tauto.
Qed.

Lemma res_fold_claim_items rops it :
  In it (res_claim_items (res_fold rops res_empty)) <-> In it (flat_map rop_claims rops ++ scal_claims rops).
Proof.
  unfold res_claim_items, scal_claims.
  rewrite app_assoc, in_app_iff, res_fold_hpuni_claims, in_app_iff.
  rewrite (filter_ext (fun f => is_some (flookup f (r_scal (res_fold rops res_empty)))) (fun f => is_some (spec_scal f rops)))
    by (intros f; rewrite res_fold_scal_empty; reflexivity).
  tauto.
Qed.

(* ====================================================================== C05: updates *)
Lemma no_res_rops ops : existsb is_res_uop ops = false -> rops_of_u ops = [].
Proof.
  induction ops as [|o rest IHr]; intros E; [reflexivity|]. cbn [existsb] in E. apply orb_false_iff in E. destruct E as [E1 E2].
  destruct o; cbn [is_res_uop] in E1; try discriminate; cbn [rops_of_u flat_map app]; apply IHr; exact E2.
Qed.

Lemma build_upd_char id ops :
  build_upd id ops =
  {| u_id := spec_uid id ops;
     u_res := if existsb is_res_uop ops then Some (res_fold (rops_of_u ops) res_empty) else None;
     u_ignore := spec_uignore ops |}.
Proof.
  induction ops as [|op ops IH] using rev_ind; [reflexivity|].
  rewrite build_upd_snoc, IH. unfold spec_uid, spec_uignore, rops_of_u.
  rewrite last_some_snoc, !existsb_app, flat_map_snoc. fold (rops_of_u ops).
  destruct op; cbn [apply_uop uop_id u_id u_res u_ignore existsb is_res_uop orb].
  - rewrite !orb_false_r, app_nil_r. reflexivity.
  - rewrite !orb_false_r, orb_true_r, res_fold_snoc.
    destruct (existsb is_res_uop ops) eqn:E; [reflexivity|].
    rewrite (no_res_rops ops E). reflexivity.
  - rewrite !orb_false_r, orb_true_r, app_nil_r. reflexivity.
Qed.

Theorem upd_id id ops : u_id (build_upd id ops) = spec_uid id ops.
Proof. rewrite build_upd_char. reflexivity. Qed.

Theorem upd_id_plain id ops : (forall i, ~ In (USetContainerId i) ops) -> u_id (build_upd id ops) = id.
Proof.
  intros H. rewrite upd_id. unfold spec_uid. rewrite last_some_none; [reflexivity|].
  intros x Hx. destruct x; try reflexivity. exfalso. apply (H id0). exact Hx.
Qed.

Theorem upd_ignore id ops : u_ignore (build_upd id ops) = true <-> In USetIgnoreFailure ops.
Proof.
  rewrite build_upd_char. cbn [u_ignore]. unfold spec_uignore. rewrite existsb_exists. split.
  - intros [x [Hx E]]. destruct x; try discriminate. exact Hx.
  - intros H. exists USetIgnoreFailure. tauto.
Qed.

Theorem upd_res_presence id ops : u_res (build_upd id ops) = None <-> rops_of_u ops = [].
Proof.
  rewrite build_upd_char. cbn [u_res]. split.
  - destruct (existsb is_res_uop ops) eqn:E; [discriminate|]. intros _. apply no_res_rops. exact E.
  - intros H. destruct (existsb is_res_uop ops) eqn:E; [|reflexivity]. exfalso.
    apply existsb_exists in E. destruct E as [x [Hx Ex]]. destruct x; try discriminate.
    assert (Hi : In r (rops_of_u ops)) by (unfold rops_of_u; apply in_flat_map; exists (URes r); split; [exact Hx|left; reflexivity]).
    rewrite H in Hi. exact Hi.
Qed.

(* exactly the fields set: every scalar field holds what its LAST setter left (unset if none), the hugepage
   limits are the ones added, in order, every unified key holds the value assigned last *)
Theorem upd_fields id ops r :
  u_res (build_upd id ops) = Some r ->
  (forall f, flookup f (r_scal r) = spec_scal f (rops_of_u ops)) /\
  r_hp r = flat_map rop_hp (rops_of_u ops) /\
  (forall k, alookup k (r_uni r) = last_some (rop_uni_to k) (rops_of_u ops)).
Proof.
  rewrite build_upd_char. cbn [u_res]. destruct (existsb is_res_uop ops); [|discriminate].
  intros E. inversion E. subst r. clear E. split; [|split].
  - intros f. apply res_fold_scal_empty.
  - rewrite res_fold_hp. reflexivity.
  - intros k. rewrite res_fold_uni. destruct (last_some _ _); reflexivity.
Qed.

Theorem upd_group_claims id ops x :
  In x (g_claims (update_group (build_upd id ops))) <-> In x (spec_uclaims id ops).
Proof.
  unfold update_group, spec_uclaims. cbn [g_claims]. rewrite build_upd_char. cbn [u_res u_id].
  destruct (existsb is_res_uop ops) eqn:E.
  - rewrite res_claims_items, !in_map_pair, res_fold_claim_items. tauto.
  - rewrite (no_res_rops ops E). cbn. tauto.
Qed.

Theorem upd_group_flags id ops :
  g_ignorable (update_group (build_upd id ops)) = spec_uignore ops /\ g_releases (update_group (build_upd id ops)) = [].
Proof. rewrite build_upd_char. split; reflexivity. Qed.

(* one setter: its own field and no other *)
Theorem upd_single_setter id r f w :
  rop_write r = Some (f, w) ->
  exists res, u_res (build_upd id [URes r]) = Some res /\
    flookup f (r_scal res) = w /\ (forall g, g <> f -> flookup g (r_scal res) = None) /\ r_hp res = [] /\ r_uni res = [].
Proof.
  intros Hw. eexists. split; [reflexivity|]. cbn [res_empty].
  split; [|split; [|split]].
  - rewrite apply_rop_scal. unfold rop_writes_to. rewrite Hw, sfield_eqb_refl. reflexivity.
  - intros g Hg. rewrite apply_rop_scal. unfold rop_writes_to. rewrite Hw.
    destruct (sfield_eqb_spec g f); [contradiction|reflexivity].
  - rewrite apply_rop_hp. destruct r; try reflexivity; discriminate.
  - destruct r; try reflexivity; discriminate.
Qed.

(* setting twice keeps the last: whatever came before, the value of a field is the one left by the last setter of it *)
Lemma last_some_after {A B} (f : A -> option B) l1 x l2 y :
  f x = Some y -> (forall z, In z l2 -> f z = None) -> last_some f (l1 ++ x :: l2) = Some y.
Proof.
  intros Hx. induction l2 as [|z l2 IH] using rev_ind; intros Hn.
  - rewrite last_some_snoc, Hx. reflexivity.
  - replace (l1 ++ x :: l2 ++ [z]) with ((l1 ++ x :: l2) ++ [z]) by (rewrite <- app_assoc; reflexivity).
    rewrite last_some_snoc, (Hn z) by (apply in_or_app; right; left; reflexivity).
    apply IH. intros u Hu. apply Hn. apply in_or_app. left. exact Hu.
Qed.

Theorem upd_last_setter_wins id pre post r f w res :
  rop_write r = Some (f, w) ->
  (forall r', In (URes r') post -> rop_writes_to f r' = None) ->
  u_res (build_upd id (pre ++ [URes r] ++ post)) = Some res ->
  flookup f (r_scal res) = w.
Proof.
  intros Hw Hpost Hres. destruct (upd_fields _ _ _ Hres) as [Hf _]. rewrite Hf. unfold spec_scal, rops_of_u.
  rewrite !flat_map_app. cbn [flat_map app].
  rewrite (last_some_after (rop_writes_to f) _ r _ w); [reflexivity| |].
  - unfold rop_writes_to. rewrite Hw, sfield_eqb_refl. reflexivity.
  - intros z Hz. apply in_flat_map in Hz. destruct Hz as [o [Ho Hz]]. destruct o; cbn [In] in Hz; try contradiction.
    destruct Hz as [<-|[]]. apply Hpost. exact Ho.
Qed.

(* ====================================================================== C02: the ledger group of a built adjustment *)
Lemma in_marked_keys x l : In x (marked_keys l) <-> exists k, In k l /\ marked k = true /\ rawkey k = x.
Proof.
  unfold marked_keys. rewrite in_map_iff. split.
  - intros [k [E Hk]]. apply filter_In in Hk. exists k. tauto.
  - intros [k [Hk [Hm E]]]. exists k. split; [exact E|]. apply filter_In. tauto.
Qed.

Lemma in_plain_keys x l : In x (plain_keys l) <-> In x l /\ marked x = false.
Proof. unfold plain_keys. rewrite filter_In. destruct (marked x); cbn [negb]; intuition congruence. Qed.

Lemma marked_keys_snoc l k : marked_keys (l ++ [k]) = marked_keys l ++ (if marked k then [rawkey k] else []).
Proof. unfold marked_keys. rewrite filter_app, map_app. cbn [filter]. destruct (marked k); reflexivity. Qed.

Lemma plain_keys_snoc l k : plain_keys (l ++ [k]) = plain_keys l ++ (if marked k then [] else [k]).
Proof. unfold plain_keys. rewrite filter_app. cbn [filter]. destruct (marked k); reflexivity. Qed.

Lemma in_release_snoc (mk : string -> item) l k it :
  In it (map mk (marked_keys (l ++ [k]))) <-> In it (map mk (marked_keys l)) \/ In it (key_release mk k).
Proof. rewrite marked_keys_snoc, map_app, in_app_iff. unfold key_release. destruct (marked k); reflexivity. Qed.

Lemma in_claim_snoc (mk : string -> item) l k it :
  In it (map mk (plain_keys (l ++ [k]))) <-> In it (map mk (plain_keys l)) \/ In it (key_claim mk k).
Proof. rewrite plain_keys_snoc, map_app, in_app_iff. unfold key_claim. destruct (marked k); reflexivity. Qed.

Lemma in_release_aset (mk : string -> item) (l : list (string * string)) k v it :
  In it (map mk (marked_keys (map fst (aset k v l)))) <-> In it (map mk (marked_keys (map fst l))) \/ In it (key_release mk k).
Proof.
  rewrite !in_map_iff. unfold key_release. split.
  - intros [x [<- Hx]]. apply in_marked_keys in Hx. destruct Hx as [key [Hin [Hm <-]]].
    apply (akeys_aset_in k v l key) in Hin. destruct Hin as [->|Hin].
    + right. rewrite Hm. left. reflexivity.
    + left. exists (rawkey key). split; [reflexivity|]. apply in_marked_keys. exists key. tauto.
  - intros [[x [<- Hx]]|H].
    + exists x. split; [reflexivity|]. apply in_marked_keys in Hx. destruct Hx as [key [Hin [Hm E]]].
      apply in_marked_keys. exists key. split; [apply (akeys_aset_in k v l key); right; exact Hin|tauto].
    + destruct (marked k) eqn:Hm; [|contradiction]. destruct H as [<-|[]]. exists (rawkey k). split; [reflexivity|].
      apply in_marked_keys. exists k. split; [apply (akeys_aset_in k v l k); left; reflexivity|tauto].
Qed.

Lemma in_claim_aset (mk : string -> item) (l : list (string * string)) k v it :
  In it (map mk (plain_keys (map fst (aset k v l)))) <-> In it (map mk (plain_keys (map fst l))) \/ In it (key_claim mk k).
Proof.
  rewrite !in_map_iff. unfold key_claim. split.
  - intros [x [<- Hx]]. apply in_plain_keys in Hx. destruct Hx as [Hin Hm].
    apply (akeys_aset_in k v l x) in Hin. destruct Hin as [->|Hin].
    + right. rewrite Hm. left. reflexivity.
    + left. exists x. split; [reflexivity|]. apply in_plain_keys. tauto.
  - intros [[x [<- Hx]]|H].
    + exists x. split; [reflexivity|]. apply in_plain_keys in Hx. apply in_plain_keys.
      split; [apply (akeys_aset_in k v l x); right; tauto|tauto].
    + destruct (marked k) eqn:Hm; [contradiction|]. destruct H as [<-|[]]. exists k. split; [reflexivity|].
      apply in_plain_keys. split; [apply (akeys_aset_in k v l k); left; reflexivity|exact Hm].
Qed.

(* the append-only part of the group, as items *)
Definition keyed_rel (a : adjustment) : list item :=
  map IAnn (marked_keys (map fst (a_ann a))) ++ map IMount (marked_keys (map m_dest (a_mounts a)))
  ++ map IEnv (marked_keys (map fst (a_env a))) ++ map IDev (marked_keys (map d_path (a_devices a))).

Definition keyed_clm (a : adjustment) : list item :=
  map IAnn (plain_keys (map fst (a_ann a))) ++ map IMount (plain_keys (map m_dest (a_mounts a)))
  ++ map IEnv (plain_keys (map fst (a_env a))) ++ map IDev (plain_keys (map d_path (a_devices a)))
  ++ (map (fun e => IHp (fst e)) (r_hp (a_res a)) ++ map (fun e => IUni (fst e)) (r_uni (a_res a)))
  ++ map (fun l => IRlimit (rl_type l)) (a_rlimits a) ++ map ICdi (a_cdi a).

Ltac adj_fields :=
  cbn [apply_bop adj_with_ann adj_with_mounts adj_with_env adj_with_args adj_with_hooks adj_with_rlimits adj_with_cdi
       adj_with_devices adj_with_res adj_with_cgroups adj_with_oom
       a_ann a_mounts a_env a_args a_hooks a_rlimits a_cdi a_devices a_res a_cgroups a_oom].

Lemma keyed_rel_step a op it : In it (keyed_rel (apply_bop a op)) <-> In it (keyed_rel a) \/ In it (op_releases op).
Proof.
  unfold keyed_rel. destruct op; adj_fields; cbn [op_releases]; rewrite ?map_app, !in_app_iff; cbn [map m_dest d_path fst removal_mount removal_device];
    try (cbn [In]; tauto).
  - rewrite in_release_aset. tauto.
  - rewrite in_release_aset. unfold key_release. rewrite marked_mark, rawkey_mark. tauto.
  - rewrite in_release_snoc. tauto.
  - rewrite in_release_snoc. unfold key_release. rewrite marked_mark, rawkey_mark. tauto.
  - rewrite in_release_snoc. tauto.
  - rewrite in_release_snoc. unfold key_release. rewrite marked_mark, rawkey_mark. tauto.
  - rewrite in_release_snoc. tauto.
  - rewrite in_release_snoc. unfold key_release. rewrite marked_mark, rawkey_mark. tauto.
Qed.

Lemma keyed_clm_step a op it : In it (keyed_clm (apply_bop a op)) <-> In it (keyed_clm a) \/ In it (op_claims op).
Proof.
  unfold keyed_clm. destruct op; adj_fields; cbn [op_claims];
    try (rewrite !in_app_iff; cbn [In]; tauto).
  - rewrite !in_app_iff, in_claim_aset. tauto.
  - rewrite !in_app_iff, in_claim_aset. unfold key_claim. rewrite marked_mark. cbn [In]. tauto.
  - rewrite map_app. cbn [map]. rewrite !in_app_iff, in_claim_snoc. tauto.
  - rewrite map_app. cbn [map removal_mount m_dest]. rewrite !in_app_iff, in_claim_snoc. unfold key_claim. rewrite marked_mark. cbn [In]. tauto.
  - rewrite map_app. cbn [map fst]. rewrite !in_app_iff, in_claim_snoc. tauto.
  - rewrite map_app. cbn [map fst]. rewrite !in_app_iff, in_claim_snoc. unfold key_claim. rewrite marked_mark. cbn [In]. tauto.
  - rewrite !map_app. cbn [map rl_type]. rewrite !in_app_iff. cbn [In]. tauto.
  - rewrite map_app. cbn [map]. rewrite !in_app_iff, in_claim_snoc. tauto.
  - rewrite map_app. cbn [map removal_device d_path]. rewrite !in_app_iff, in_claim_snoc. unfold key_claim. rewrite marked_mark. cbn [In]. tauto.
  - rewrite !map_app. cbn [map]. rewrite !in_app_iff. cbn [In]. tauto.
  - rewrite in_app_iff, in_app_iff, in_app_iff, in_app_iff, (in_app_iff _ _ it), hpuni_step.
    rewrite (in_app_iff (map IAnn _)), (in_app_iff (map IMount _)), (in_app_iff (map IEnv _)), (in_app_iff (map IDev _)), (in_app_iff (_ ++ _) (_ ++ _)).
    tauto.
Qed.

Lemma keyed_rel_build ops it : In it (keyed_rel (build_adj ops)) <-> In it (flat_map op_releases ops).
Proof.
  induction ops as [|op ops IH] using rev_ind; [cbn; tauto|].
  rewrite build_adj_snoc, keyed_rel_step, flat_map_snoc, in_app_iff, IH. tauto.
Qed.

Lemma keyed_clm_build ops it : In it (keyed_clm (build_adj ops)) <-> In it (flat_map op_claims ops).
Proof.
  induction ops as [|op ops IH] using rev_ind; [cbn; tauto|].
  rewrite build_adj_snoc, keyed_clm_step, flat_map_snoc, in_app_iff, IH. tauto.
Qed.

(* ---------- the overwritable slots ---------- *)
Definition args_flags (l : list string) : bool * bool :=
  (match l with a0 :: _ => String.eqb a0 "" | [] => false end, match l with [] => false | _ => true end).

Lemma args_build ops :
  args_flags (a_args (build_adj ops)) = match last_some args_effect ops with Some p => p | None => (false, false) end.
Proof.
  induction ops as [|op ops IH] using rev_ind; [reflexivity|].
  rewrite build_adj_snoc, last_some_snoc.
  destruct op; adj_fields; cbn [args_effect]; try exact IH.
  - destruct l; reflexivity.
  - reflexivity.
Qed.

Lemma cgroups_build ops :
  negb (String.eqb (a_cgroups (build_adj ops)) "") = match last_some cgroups_effect ops with Some b => b | None => false end.
Proof.
  induction ops as [|op ops IH] using rev_ind; [reflexivity|].
  rewrite build_adj_snoc, last_some_snoc. destruct op; adj_fields; cbn [cgroups_effect]; try exact IH. reflexivity.
Qed.

Lemma oom_build ops :
  is_some (a_oom (build_adj ops)) = match last_some oom_effect ops with Some b => b | None => false end.
Proof.
  induction ops as [|op ops IH] using rev_ind; [reflexivity|].
  rewrite build_adj_snoc, last_some_snoc. destruct op; adj_fields; cbn [oom_effect]; try exact IH. reflexivity.
Qed.

Lemma res_build ops : a_res (build_adj ops) = res_fold (rops_of ops) res_empty.
Proof.
  induction ops as [|op ops IH] using rev_ind; [reflexivity|].
  rewrite build_adj_snoc. unfold rops_of. rewrite flat_map_snoc. fold (rops_of ops).
  destruct op; adj_fields; rewrite ?app_nil_r; try exact IH.
  rewrite res_fold_snoc, IH. reflexivity.
Qed.

Lemma cdi_build ops : a_cdi (build_adj ops) = flat_map op_cdi ops.
Proof.
  induction ops as [|op ops IH] using rev_ind; [reflexivity|].
  rewrite build_adj_snoc, flat_map_snoc. destruct op; adj_fields; cbn [op_cdi]; rewrite ?app_nil_r; try exact IH.
  rewrite IH. reflexivity.
Qed.

(* ---------- the group of any adjustment, as items ---------- *)
Definition adj_release_items (a : adjustment) : list item :=
  keyed_rel a ++ (if fst (args_flags (a_args a)) then [IArgs] else []).
Definition adj_claim_items (a : adjustment) : list item :=
  keyed_clm a ++ (if snd (args_flags (a_args a)) then [IArgs] else [])
  ++ map IScal (filter (fun f => is_some (flookup f (r_scal (a_res a)))) all_scalars)
  ++ (if negb (String.eqb (a_cgroups a) "") then [ICgroups] else [])
  ++ (if is_some (a_oom a) then [IOom] else []).

Lemma group_releases_items id a x :
  In x (g_releases (adjust_group id a)) <-> In x (map (pair id) (adj_release_items a)).
Proof.
  unfold adjust_group, adj_release_items, keyed_rel, args_flags. cbn [g_releases fst].
  rewrite !map_app, !map_map, !in_app_iff.
  destruct (match a_args a with a0 :: _ => String.eqb a0 "" | [] => false end); cbn [map In]; tauto.
Qed.

Lemma group_claims_items id a x :
  In x (g_claims (adjust_group id a)) <-> In x (map (pair id) (adj_claim_items a)).
Proof.
  unfold adjust_group, adj_claim_items, keyed_clm, args_flags. cbn [g_claims snd].
  rewrite !map_app, !map_map, !in_app_iff, res_claims_items. unfold res_claim_items.
  rewrite !map_app, !map_map, !in_app_iff. cbn [fst snd].
  destruct (a_args a) as [|a0 ar]; destruct (String.eqb (a_cgroups a) ""); destruct (a_oom a); cbn [map In negb is_some]; tauto.
Qed.

Theorem build_groups id ops x :
  (In x (g_releases (adjust_group id (build_adj ops))) <-> In x (spec_releases id ops)) /\
  (In x (g_claims (adjust_group id (build_adj ops))) <-> In x (spec_claims id ops)).
Proof.
  split.
  - rewrite group_releases_items. unfold spec_releases, spec_release_items, adj_release_items.
    rewrite !in_map_pair, !in_app_iff, keyed_rel_build, args_build.
    destruct (last_some args_effect ops) as [[[|] b]|]; cbn [fst]; tauto.
  - rewrite group_claims_items. unfold spec_claims, spec_claim_items, adj_claim_items, scal_claims.
    rewrite !in_map_pair, !in_app_iff, keyed_clm_build, args_build, cgroups_build, oom_build, res_build.
    rewrite (filter_ext (fun f => is_some (flookup f (r_scal (res_fold (rops_of ops) res_empty)))) (fun f => is_some (spec_scal f (rops_of ops))))
      by (intros f; rewrite res_fold_scal_empty; reflexivity).
    destruct (last_some args_effect ops) as [[a [|]]|]; destruct (last_some cgroups_effect ops) as [[|]|];
      destruct (last_some oom_effect ops) as [[|]|]; cbn [snd]; tauto.
Qed.

Theorem build_group_not_ignorable id ops : g_ignorable (adjust_group id (build_adj ops)) = false.
Proof. reflexivity. Qed.

(* ---------- corollaries in the words of C02 ---------- *)
Lemma in_pair_items (id : string) (it : item) l : In it l -> In (id, it) (map (pair id) l).
Proof. intros H. apply in_map_pair. tauto. Qed.

(* a Remove method anywhere in the sequence releases its key *)
Theorem remove_releases id ops op it :
  In op ops -> In it (op_releases op) -> In (id, it) (g_releases (adjust_group id (build_adj ops))).
Proof.
  intros Hop Hit. apply (proj1 (build_groups id ops (id, it))). apply in_pair_items.
  unfold spec_release_items. apply in_or_app. left. apply in_flat_map. exists op. tauto.
Qed.

(* ... and contributes no claim: a key is claimed only by an Add of that very key *)
Theorem claims_only_from_adds id ops it :
  In (id, it) (g_claims (adjust_group id (build_adj ops))) ->
  match it with
  | IAnn k => exists v, In (BAddAnnotation k v) ops /\ marked k = false
  | IMount d => exists m, In (BAddMount m) ops /\ m_dest m = d /\ marked d = false
  | IEnv k => exists v, In (BAddEnv k v) ops /\ marked k = false
  | IDev p => exists d, In (BAddDevice d) ops /\ d_path d = p /\ marked p = false
  | _ => True
  end.
Proof.
  intros H. apply (proj2 (build_groups id ops (id, it))) in H. apply in_map_pair in H. destruct H as [_ H]. cbn [snd] in H.
  unfold spec_claim_items, scal_claims in H. rewrite !in_app_iff in H.
  destruct it; try exact I.
  - destruct H as [H|[H|[H|[H|H]]]].
    + apply in_flat_map in H. destruct H as [op [Hop Hi]].
      destruct op; cbn [op_claims] in Hi; unfold key_claim in Hi; try contradiction;
        try (match type of Hi with In _ (if marked ?x then _ else _) => destruct (marked x) eqn:Hm end); cbn [In] in Hi;
        try (destruct Hi as [Hi|[]]; try discriminate); try contradiction.
      * inversion Hi. subst. exists v. tauto.
      * destruct r; cbn [rop_claims In] in Hi; try contradiction; destruct Hi as [Hi|[]]; discriminate.
    + destruct (last_some args_effect ops) as [[? [|]]|]; cbn [In] in H; try contradiction; destruct H as [H|[]]; discriminate.
    + apply in_map_iff in H. destruct H as [f [E _]]. discriminate.
    + destruct (last_some cgroups_effect ops) as [[|]|]; cbn [In] in H; try contradiction; destruct H as [H|[]]; discriminate.
    + destruct (last_some oom_effect ops) as [[|]|]; cbn [In] in H; try contradiction; destruct H as [H|[]]; discriminate.
  - destruct H as [H|[H|[H|[H|H]]]].
    + apply in_flat_map in H. destruct H as [op [Hop Hi]].
      destruct op; cbn [op_claims] in Hi; unfold key_claim in Hi; try contradiction;
        try (match type of Hi with In _ (if marked ?x then _ else _) => destruct (marked x) eqn:Hm end); cbn [In] in Hi;
        try (destruct Hi as [Hi|[]]; try discriminate); try contradiction.
      * inversion Hi. subst. exists m. tauto.
      * destruct r; cbn [rop_claims In] in Hi; try contradiction; destruct Hi as [Hi|[]]; discriminate.
    + destruct (last_some args_effect ops) as [[? [|]]|]; cbn [In] in H; try contradiction; destruct H as [H|[]]; discriminate.
    + apply in_map_iff in H. destruct H as [f [E _]]. discriminate.
    + destruct (last_some cgroups_effect ops) as [[|]|]; cbn [In] in H; try contradiction; destruct H as [H|[]]; discriminate.
    + destruct (last_some oom_effect ops) as [[|]|]; cbn [In] in H; try contradiction; destruct H as [H|[]]; discriminate.
  - destruct H as [H|[H|[H|[H|H]]]].
    + apply in_flat_map in H. destruct H as [op [Hop Hi]].
      destruct op; cbn [op_claims] in Hi; unfold key_claim in Hi; try contradiction;
        try (match type of Hi with In _ (if marked ?x then _ else _) => destruct (marked x) eqn:Hm end); cbn [In] in Hi;
        try (destruct Hi as [Hi|[]]; try discriminate); try contradiction.
      * inversion Hi. subst. exists d. tauto.
      * destruct r; cbn [rop_claims In] in Hi; try contradiction; destruct Hi as [Hi|[]]; discriminate.
    + destruct (last_some args_effect ops) as [[? [|]]|]; cbn [In] in H; try contradiction; destruct H as [H|[]]; discriminate.
    + apply in_map_iff in H. destruct H as [f [E _]]. discriminate.
    + destruct (last_some cgroups_effect ops) as [[|]|]; cbn [In] in H; try contradiction; destruct H as [H|[]]; discriminate.
    + destruct (last_some oom_effect ops) as [[|]|]; cbn [In] in H; try contradiction; destruct H as [H|[]]; discriminate.
  - destruct H as [H|[H|[H|[H|H]]]].
    + apply in_flat_map in H. destruct H as [op [Hop Hi]].
      destruct op; cbn [op_claims] in Hi; unfold key_claim in Hi; try contradiction;
        try (match type of Hi with In _ (if marked ?x then _ else _) => destruct (marked x) eqn:Hm end); cbn [In] in Hi;
        try (destruct Hi as [Hi|[]]; try discriminate); try contradiction.
      * inversion Hi. subst. exists v. tauto.
      * destruct r; cbn [rop_claims In] in Hi; try contradiction; destruct Hi as [Hi|[]]; discriminate.
    + destruct (last_some args_effect ops) as [[? [|]]|]; cbn [In] in H; try contradiction; destruct H as [H|[]]; discriminate.
    + apply in_map_iff in H. destruct H as [f [E _]]. discriminate.
    + destruct (last_some cgroups_effect ops) as [[|]|]; cbn [In] in H; try contradiction; destruct H as [H|[]]; discriminate.
    + destruct (last_some oom_effect ops) as [[|]|]; cbn [In] in H; try contradiction; destruct H as [H|[]]; discriminate.
Qed.

(* a sequence that consists of one Remove method: exactly that release, no claim *)
Definition is_remove (op : bop) : bool :=
  match op with BRemoveAnnotation _ | BRemoveMount _ | BRemoveEnv _ | BRemoveDevice _ => true | _ => false end.

Theorem single_remove id op :
  is_remove op = true ->
  g_releases (adjust_group id (build_adj [op])) = map (pair id) (op_releases op) /\
  g_claims (adjust_group id (build_adj [op])) = [].
Proof. destruct op; try discriminate; intros _; split; reflexivity. Qed.

Lemma eqb_self_mark k : marked k = false -> String.eqb k (mark k) = false.
Proof. intros H. rewrite eqb_mark, H. reflexivity. Qed.

(* [Remove k; Add k ...] releases and claims exactly the one item of k *)
Theorem remove_then_add id add rem :
  remove_of add = Some rem -> add_ok add = true ->
  exists it, op_releases rem = [it] /\ op_claims add = [it] /\
    g_releases (adjust_group id (build_adj [rem; add])) = [(id, it)] /\
    g_claims (adjust_group id (build_adj [rem; add])) = [(id, it)].
Proof.
  destruct add; try discriminate; cbn [remove_of add_ok]; intros E Hok; inversion E; subst rem; clear E.
  - apply negb_true_iff in Hok. exists (IAnn k). unfold adjust_group, build_adj.
    cbn [fold_left apply_bop adj_with_ann adj_empty a_ann a_mounts a_env a_args a_devices a_res a_cgroups a_oom a_rlimits a_cdi aset].
    rewrite (eqb_self_mark k Hok). cbn [op_releases op_claims]. unfold key_claim, marked_keys, plain_keys. rewrite Hok.
    cbn [map fst filter]. rewrite marked_mark, Hok. cbn [negb map filter app res_claims res_empty r_scal r_hp r_uni]. rewrite rawkey_mark.
    repeat split.
  - apply negb_true_iff in Hok. exists (IMount (m_dest m)). unfold adjust_group, build_adj.
    cbn [fold_left apply_bop adj_with_mounts adj_empty a_ann a_mounts a_env a_args a_devices a_res a_cgroups a_oom a_rlimits a_cdi app].
    cbn [op_releases op_claims]. unfold key_claim, marked_keys, plain_keys. rewrite Hok.
    cbn [map removal_mount m_dest filter]. rewrite marked_mark, Hok. cbn [negb map filter app res_claims res_empty r_scal r_hp r_uni]. rewrite rawkey_mark.
    repeat split.
  - apply andb_true_iff in Hok. destruct Hok as [Hok _]. apply negb_true_iff in Hok. exists (IEnv k). unfold adjust_group, build_adj.
    cbn [fold_left apply_bop adj_with_env adj_empty a_ann a_mounts a_env a_args a_devices a_res a_cgroups a_oom a_rlimits a_cdi app].
    cbn [op_releases op_claims]. unfold key_claim, marked_keys, plain_keys. rewrite Hok.
    cbn [map fst filter]. rewrite marked_mark, Hok. cbn [negb map filter app res_claims res_empty r_scal r_hp r_uni]. rewrite rawkey_mark.
    repeat split.
  - apply negb_true_iff in Hok. exists (IDev (d_path d)). unfold adjust_group, build_adj.
    cbn [fold_left apply_bop adj_with_devices adj_empty a_ann a_mounts a_env a_args a_devices a_res a_cgroups a_oom a_rlimits a_cdi app].
    cbn [op_releases op_claims]. unfold key_claim, marked_keys, plain_keys. rewrite Hok.
    cbn [map removal_device d_path filter]. rewrite marked_mark, Hok. cbn [negb map filter app res_claims res_empty r_scal r_hp r_uni]. rewrite rawkey_mark.
    repeat split.
Qed.

(* the command line: UpdateArgs releases and claims; SetArgs of a real command line only claims; SetArgs(nil) does nothing *)
Theorem args_groups id l a0 :
  (g_releases (adjust_group id (build_adj [BUpdateArgs l])) = [(id, IArgs)] /\
   g_claims (adjust_group id (build_adj [BUpdateArgs l])) = [(id, IArgs)]) /\
  (a0 <> "" ->
   g_releases (adjust_group id (build_adj [BSetArgs (a0 :: l)])) = [] /\
   g_claims (adjust_group id (build_adj [BSetArgs (a0 :: l)])) = [(id, IArgs)]) /\
  (g_releases (adjust_group id (build_adj [BSetArgs []])) = [] /\ g_claims (adjust_group id (build_adj [BSetArgs []])) = []).
Proof.
  split; [split; reflexivity|]. split; [|split; reflexivity].
  intros Hne. unfold adjust_group, build_adj. cbn. destruct (String.eqb_spec a0 ""); [contradiction|]. split; reflexivity.
Qed.

(* the table: every setter of a scalar field claims exactly that field's item and releases nothing *)
Theorem scalar_setter_claims id r f v :
  rop_write r = Some (f, Some v) ->
  g_claims (adjust_group id (build_adj [BRes r])) = [(id, IScal f)] /\ g_releases (adjust_group id (build_adj [BRes r])) = [].
Proof.
  destruct r; cbn [rop_write]; intros E; inversion E; subst; clear E; try (split; reflexivity).
  - destruct (String.eqb s "") eqn:Es; [discriminate|].
    change (build_adj [BRes (RCPUSetCPUs s)]) with (adj_with_res adj_empty (res_with_scal res_empty (sassign CpuCpus (str_plain s) []))).
    unfold str_plain. rewrite Es. split; reflexivity.
  - destruct (String.eqb s "") eqn:Es; [discriminate|].
    change (build_adj [BRes (RCPUSetMems s)]) with (adj_with_res adj_empty (res_with_scal res_empty (sassign CpuMems (str_plain s) []))).
    unfold str_plain. rewrite Es. split; reflexivity.
Qed.

(* a plain string field written with "" stays unset: no claim at all *)
Theorem scalar_setter_unset id r f :
  rop_write r = Some (f, None) ->
  g_claims (adjust_group id (build_adj [BRes r])) = [] /\ g_releases (adjust_group id (build_adj [BRes r])) = [].
Proof.
  destruct r; cbn [rop_write]; intros E; inversion E; subst; clear E;
    destruct (String.eqb s "") eqn:Es; try discriminate; apply String.eqb_eq in Es; subst s; split; reflexivity.
Qed.

(* the table is complete: every scalar field of Types.sfield has a setter *)
Definition setter_of (f : sfield) : rop :=
  match f with
  | MemLimit => RMemoryLimit 1 | MemReservation => RMemoryReservation 1 | MemSwap => RMemorySwap 1
  | MemKernel => RMemoryKernel 1 | MemKernelTcp => RMemoryKernelTCP 1 | MemSwappiness => RMemorySwappiness 1
  | MemDisableOom => RMemoryDisableOomKiller | MemUseHierarchy => RMemoryUseHierarchy
  | CpuShares => RCPUShares 1 | CpuQuota => RCPUQuota 1 | CpuPeriod => RCPUPeriod 1
  | CpuRtRuntime => RCPURealtimeRuntime 1 | CpuRtPeriod => RCPURealtimePeriod 1
  | CpuCpus => RCPUSetCPUs "0" | CpuMems => RCPUSetMems "0"
  | BlockioClass => RBlockIOClass "c" | RdtClass => RRDTClass "c" | Pids => RPidLimits 1
  end.
Theorem every_scalar_has_setter f : exists v, rop_write (setter_of f) = Some (f, Some v).
Proof. destruct f; eexists; reflexivity. Qed.

(* hugepage limits and unified keys *)
Theorem hp_uni_claims id s v k w :
  g_claims (adjust_group id (build_adj [BRes (RHugepageLimit s v)])) = [(id, IHp s)] /\
  g_claims (adjust_group id (build_adj [BRes (RUnified k w)])) = [(id, IUni k)].
Proof. split; reflexivity. Qed.

(* cgroups path, OOM score, rlimits, CDI devices *)
Theorem other_claims id s v t hard soft n :
  (s <> "" -> g_claims (adjust_group id (build_adj [BSetLinuxCgroupsPath s])) = [(id, ICgroups)]) /\
  g_claims (adjust_group id (build_adj [BSetLinuxCgroupsPath ""])) = [] /\
  g_claims (adjust_group id (build_adj [BSetLinuxOomScoreAdj (Some v)])) = [(id, IOom)] /\
  g_claims (adjust_group id (build_adj [BSetLinuxOomScoreAdj None])) = [] /\
  g_claims (adjust_group id (build_adj [BAddRlimit t hard soft])) = [(id, IRlimit t)] /\
  g_claims (adjust_group id (build_adj [BAddCDIDevice n])) = [(id, ICdi n)].
Proof.
  split; [|repeat split].
  intros Hne. unfold adjust_group, build_adj. cbn. destruct (String.eqb_spec s ""); [contradiction|reflexivity].
Qed.

(* ====================================================================== C13: the reference effect *)
Section KeyedOne.
Variables (E W : Type) (ekey : E -> string) (wkey : W -> string) (inj : E -> W).

Lemma keyed_one_set c e :
  marked (ekey e) = false -> wkey (inj e) = ekey e ->
  kfind wkey (ekey e) (apply_keyed ekey wkey inj c [e]) = Some (inj e).
Proof.
  intros Hm Hk. rewrite kfind_apply_keyed. unfold r_dels, r_mods, r_adds. cbn [filter]. rewrite Hm. cbn [negb map smem existsb].
  rewrite String.eqb_refl. cbn [orb negb andb kfind]. rewrite Hk, String.eqb_refl. reflexivity.
Qed.

Lemma keyed_one_removed c e :
  marked (ekey e) = true ->
  kfind wkey (rawkey (ekey e)) (apply_keyed ekey wkey inj c [e]) = None.
Proof.
  intros Hm. rewrite kfind_apply_keyed. unfold r_dels, r_mods, r_adds. cbn [filter]. rewrite Hm. cbn [negb map smem existsb].
  rewrite String.eqb_refl. reflexivity.
Qed.

(* remove-then-set and set-then-remove: the set wins *)
Lemma keyed_pair_set c r e :
  ekey r = mark (ekey e) -> marked (ekey e) = false -> wkey (inj e) = ekey e ->
  kfind wkey (ekey e) (apply_keyed ekey wkey inj c [r; e]) = Some (inj e) /\
  kfind wkey (ekey e) (apply_keyed ekey wkey inj c [e; r]) = Some (inj e).
Proof.
  intros Hr Hm Hk. split; rewrite kfind_apply_keyed; unfold r_dels, r_mods, r_adds; cbn [filter]; rewrite Hr, marked_mark, Hm;
    cbn [negb map smem existsb filter app]; rewrite ?rawkey_mark, ?String.eqb_refl; cbn [orb negb andb kfind map];
    rewrite andb_false_r, Hk, String.eqb_refl; reflexivity.
Qed.
End KeyedOne.

Lemma env_oci_key k v : count_char "="%char k = 0 -> ref_env_key (ref_env_oci (k, v)) = k.
Proof. intros H. unfold ref_env_key, ref_env_oci. cbn [fst snd]. rewrite (cut_key_eq k v H). reflexivity. Qed.

Lemma env_oci_val k v : count_char "="%char k = 0 -> env_val (ref_env_oci (k, v)) = v.
Proof. intros H. unfold env_val, ref_env_oci. cbn [fst snd]. rewrite (cut_key_eq k v H). reflexivity. Qed.

Lemma is_none_map {A B} (f : A -> B) o : is_none (option_map f o) = is_none o.
Proof. destruct o; reflexivity. Qed.

(* the inputs of the single-method theorem: an environment variable name that is set contains no '=' *)
Definition single_ok (op : bop) : bool :=
  match op with BAddEnv k _ => marked k || Nat.eqb (count_char "="%char k) 0 | _ => true end.

Lemma apply_res_scal c r f :
  flookup f (r_scal (apply_res c r)) = match flookup f (r_scal r) with Some v => Some v | None => flookup f (r_scal c) end.
Proof. unfold apply_res. cbn [r_scal]. apply flookup_apply_scal. Qed.

Lemma rop_expect_holds c r : rop_expect r c (apply_adj c (build_adj [BRes r])) = true.
Proof.
  unfold rop_expect. destruct (rop_write r) as [[f w]|] eqn:Hw.
  - assert (Hl : forall g, flookup g (r_scal (c_res (apply_adj c (build_adj [BRes r])))) =
                           match rop_writes_to g r with Some (Some v) => Some v | _ => flookup g (r_scal (c_res c)) end).
    { intros g. unfold apply_adj, build_adj. cbn [c_res fold_left apply_bop adj_with_res a_res adj_empty].
      rewrite apply_res_scal, apply_rop_scal. cbn [res_empty r_scal flookup].
      destruct (rop_writes_to g r) as [[v|]|]; reflexivity. }
    apply andb_true_iff. split.
    + rewrite Hl. unfold rop_writes_to. rewrite Hw, sfield_eqb_refl. apply opt_eqb_refl. exact sval_eqb_refl.
    + unfold scal_unchanged_except. apply forallb_forall. intros g _.
      destruct (sfield_eqb_spec g f) as [->|Hne]; [reflexivity|]. cbn [orb].
      rewrite Hl. unfold rop_writes_to. rewrite Hw. destruct (sfield_eqb_spec g f); [contradiction|].
      apply opt_eqb_refl. exact sval_eqb_refl.
  - destruct r; try discriminate; unfold apply_adj, build_adj;
      cbn [c_res fold_left apply_bop adj_with_res a_res adj_empty apply_rop res_with_hp res_with_uni res_empty apply_res r_hp r_uni app fold_left fst snd aset].
    + rewrite rev_app_distr. cbn [rev app kfind fst]. rewrite String.eqb_refl. cbn [opt_eqb fst snd]. rewrite String.eqb_refl, Z.eqb_refl. reflexivity.
    + rewrite alookup_aset_same. cbn [opt_eqb]. apply String.eqb_refl.
Qed.

Theorem single_reference c op :
  single_ok op = true -> op_expect op c (apply_adj c (build_adj [op])) = true.
Proof.
  destruct op; cbn [single_ok op_expect]; intros Hok.
  - (* AddAnnotation *)
    unfold apply_adj, build_adj. cbn [c_ann fold_left apply_bop adj_with_ann a_ann adj_empty aset]. unfold apply_ann. cbn [fold_left fst snd].
    destruct (marked k) eqn:Hm.
    + rewrite alookup_aremove_same. reflexivity.
    + rewrite alookup_aset_same. cbn [opt_eqb]. apply String.eqb_refl.
  - (* RemoveAnnotation *)
    unfold apply_adj, build_adj. cbn [c_ann fold_left apply_bop adj_with_ann a_ann adj_empty aset]. unfold apply_ann. cbn [fold_left fst snd].
    rewrite marked_mark, rawkey_mark, alookup_aremove_same. reflexivity.
  - (* AddMount *)
    unfold apply_adj, build_adj, keyed_expect. cbn [c_mounts fold_left apply_bop adj_with_mounts a_mounts adj_empty app].
    destruct (marked (m_dest m)) eqn:Hm.
    + rewrite (keyed_one_removed _ _ m_dest m_dest (fun x => x) _ m Hm). reflexivity.
    + rewrite (keyed_one_set _ _ m_dest m_dest (fun x => x) _ m Hm eq_refl). cbn [opt_eqb]. apply mount_eqb_refl.
  - (* RemoveMount *)
    unfold apply_adj, build_adj. cbn [c_mounts fold_left apply_bop adj_with_mounts a_mounts adj_empty app].
    pose proof (keyed_one_removed _ _ m_dest m_dest (fun x => x) (c_mounts c) (removal_mount d) (marked_mark d)) as H.
    cbn [removal_mount m_dest] in H. rewrite rawkey_mark in H. cbn [removal_mount]. rewrite H. reflexivity.
  - (* AddEnv *)
    unfold apply_adj, build_adj. cbn [c_env fold_left apply_bop adj_with_env a_env adj_empty app].
    rewrite !alookup_env_pairs. change Result.env_key with ref_env_key.
    destruct (marked k) eqn:Hm.
    + pose proof (keyed_one_removed _ _ fst ref_env_key ref_env_oci (c_env c) (k, v) Hm) as H. cbn [fst] in H. rewrite H. reflexivity.
    + cbn [orb] in Hok. apply Nat.eqb_eq in Hok.
      pose proof (keyed_one_set _ _ fst ref_env_key ref_env_oci (c_env c) (k, v) Hm (env_oci_key k v Hok)) as H. cbn [fst] in H.
      rewrite H. cbn [option_map opt_eqb]. rewrite (env_oci_val k v Hok). apply String.eqb_refl.
  - (* RemoveEnv *)
    unfold apply_adj, build_adj. cbn [c_env fold_left apply_bop adj_with_env a_env adj_empty app].
    rewrite alookup_env_pairs. change Result.env_key with ref_env_key.
    pose proof (keyed_one_removed _ _ fst ref_env_key ref_env_oci (c_env c) (mark k, "") (marked_mark k)) as H.
    cbn [fst] in H. rewrite rawkey_mark in H. rewrite H. reflexivity.
  - (* SetArgs *)
    unfold apply_adj, build_adj. cbn [c_args fold_left apply_bop adj_with_args a_args adj_empty]. unfold apply_args, expected_args.
    apply list_eqb_refl. exact String.eqb_refl.
  - (* UpdateArgs *)
    unfold apply_adj, build_adj. cbn [c_args fold_left apply_bop adj_with_args a_args adj_empty]. unfold apply_args. cbn [String.eqb].
    apply list_eqb_refl. exact String.eqb_refl.
  - (* AddHooks *)
    unfold apply_adj, build_adj. cbn [c_hooks fold_left apply_bop adj_with_hooks a_hooks adj_empty].
    assert (He : hooks_append hooks_empty h = h) by (destruct h; reflexivity). rewrite He. apply hooks_eqb_refl.
  - (* AddRlimit *)
    unfold apply_adj, build_adj. cbn [c_rlimits fold_left apply_bop adj_with_rlimits a_rlimits adj_empty app].
    apply list_eqb_refl. exact rlimit_eqb_refl.
  - (* AddDevice *)
    unfold apply_adj, build_adj, keyed_expect. cbn [c_devices fold_left apply_bop adj_with_devices a_devices adj_empty app].
    destruct (marked (d_path d)) eqn:Hm.
    + rewrite (keyed_one_removed _ _ d_path d_path (fun x => x) _ d Hm). reflexivity.
    + rewrite (keyed_one_set _ _ d_path d_path (fun x => x) _ d Hm eq_refl). cbn [opt_eqb]. apply device_eqb_refl.
  - (* RemoveDevice *)
    unfold apply_adj, build_adj. cbn [c_devices fold_left apply_bop adj_with_devices a_devices adj_empty app].
    pose proof (keyed_one_removed _ _ d_path d_path (fun x => x) (c_devices c) (removal_device p) (marked_mark p)) as H.
    cbn [removal_device d_path] in H. rewrite rawkey_mark in H. cbn [removal_device]. rewrite H. reflexivity.
  - reflexivity.
  - apply rop_expect_holds.
  - (* cgroups path *)
    unfold apply_adj, build_adj. cbn [c_cgroups fold_left apply_bop adj_with_cgroups a_cgroups adj_empty]. apply String.eqb_refl.
  - (* OOM score *)
    unfold apply_adj, build_adj. cbn [c_oom fold_left apply_bop adj_with_oom a_oom adj_empty Convert.opt_Int].
    destruct p; apply opt_eqb_refl; exact Z.eqb_refl.
Qed.

(* CDI device names are handed on as given, in order *)
Theorem cdi_reference ops : a_cdi (build_adj ops) = flat_map op_cdi ops.
Proof. exact (cdi_build ops). Qed.

(* remove-then-add and add-then-remove of one key, in one adjustment: the key is present with the value given *)
Theorem pair_reference c add rem :
  remove_of add = Some rem -> add_ok add = true ->
  op_expect add c (apply_adj c (build_adj [rem; add])) = true /\
  op_expect add c (apply_adj c (build_adj [add; rem])) = true.
Proof.
  destruct add; try discriminate; cbn [remove_of add_ok]; intros E Hok; inversion E; subst rem; clear E; cbn [op_expect].
  - apply negb_true_iff in Hok. rewrite Hok.
    unfold apply_adj, build_adj. cbn [c_ann fold_left apply_bop adj_with_ann a_ann adj_empty aset].
    rewrite (eqb_self_mark k Hok), String.eqb_sym, (eqb_self_mark k Hok). unfold apply_ann. cbn [fold_left fst snd].
    rewrite marked_mark, Hok, rawkey_mark, !alookup_aset_same. cbn [opt_eqb]. rewrite String.eqb_refl. split; reflexivity.
  - apply negb_true_iff in Hok. unfold keyed_expect. rewrite Hok.
    unfold apply_adj, build_adj. cbn [c_mounts fold_left apply_bop adj_with_mounts a_mounts adj_empty app].
    destruct (keyed_pair_set _ _ m_dest m_dest (fun x => x) (c_mounts c) (removal_mount (m_dest m)) m eq_refl Hok eq_refl) as [H1 H2].
    rewrite H1, H2. cbn [opt_eqb]. rewrite mount_eqb_refl. split; reflexivity.
  - apply andb_true_iff in Hok. destruct Hok as [Hm Hq]. apply negb_true_iff in Hm. apply Nat.eqb_eq in Hq. rewrite Hm.
    unfold apply_adj, build_adj. cbn [c_env fold_left apply_bop adj_with_env a_env adj_empty app].
    rewrite !alookup_env_pairs. change Result.env_key with ref_env_key.
    destruct (keyed_pair_set _ _ fst ref_env_key ref_env_oci (c_env c) (mark k, "") (k, v) eq_refl Hm (env_oci_key k v Hq)) as [H1 H2].
    cbn [fst] in H1, H2. rewrite H1, H2. cbn [option_map opt_eqb]. rewrite (env_oci_val k v Hq), String.eqb_refl. split; reflexivity.
  - apply negb_true_iff in Hok. unfold keyed_expect. rewrite Hok.
    unfold apply_adj, build_adj. cbn [c_devices fold_left apply_bop adj_with_devices a_devices adj_empty app].
    destruct (keyed_pair_set _ _ d_path d_path (fun x => x) (c_devices c) (removal_device (d_path d)) d eq_refl Hok eq_refl) as [H1 H2].
    rewrite H1, H2. cbn [opt_eqb]. rewrite device_eqb_refl. split; reflexivity.
Qed.

(* nothing else changes: a single method leaves every other component of the container as it was *)
Lemma apply_keyed_nil {E W} (ekey : E -> string) (wkey : W -> string) (inj : E -> W) c : apply_keyed ekey wkey inj c [] = c.
Proof.
  unfold apply_keyed. cbn [r_dels r_adds r_mods filter map smem existsb negb andb]. rewrite app_nil_r.
  induction c as [|x r IH]; [reflexivity|]. cbn [filter]. rewrite IH. reflexivity.
Qed.

Lemma apply_adj_empty c : apply_adj c adj_empty = c.
Proof.
  unfold apply_adj. cbn [adj_empty a_ann a_mounts a_env a_args a_hooks a_rlimits a_cdi a_devices a_res a_cgroups a_oom].
  rewrite !apply_keyed_nil, app_nil_r. cbn [apply_ann apply_args fold_left String.eqb].
  assert (Hh : hooks_append (c_hooks c) hooks_empty = c_hooks c).
  { destruct (c_hooks c) as [h1 h2 h3 h4 h5 h6]. unfold hooks_append, hooks_empty.
    cbn [hk_prestart hk_createruntime hk_createcontainer hk_startcontainer hk_poststart hk_poststop]. rewrite !app_nil_r. reflexivity. }
  assert (Hr : apply_res (c_res c) res_empty = c_res c).
  { destruct (c_res c) as [sc hp uni]. unfold apply_res, res_empty. cbn [r_scal r_hp r_uni fold_left]. rewrite app_nil_r.
    assert (Hs : apply_scal sc [] = sc) by reflexivity. rewrite Hs. reflexivity. }
  rewrite Hh, Hr. destruct c; reflexivity.
Qed.

(* the family of container components a method may touch *)
Inductive family := FAnn | FMounts | FEnv | FArgs | FHooks | FRlimits | FDevices | FRes | FCgroups | FOom | FNone.
Definition op_family (op : bop) : family :=
  match op with
  | BAddAnnotation _ _ | BRemoveAnnotation _ => FAnn
  | BAddMount _ | BRemoveMount _ => FMounts
  | BAddEnv _ _ | BRemoveEnv _ => FEnv
  | BSetArgs _ | BUpdateArgs _ => FArgs
  | BAddHooks _ => FHooks
  | BAddRlimit _ _ _ => FRlimits
  | BAddDevice _ | BRemoveDevice _ => FDevices
  | BAddCDIDevice _ => FNone
  | BRes _ => FRes
  | BSetLinuxCgroupsPath _ => FCgroups
  | BSetLinuxOomScoreAdj _ => FOom
  end.
Definition same_outside (fam : family) (c c' : container) : Prop :=
  c_id c' = c_id c /\
  (fam <> FAnn -> c_ann c' = c_ann c) /\ (fam <> FMounts -> c_mounts c' = c_mounts c) /\
  (fam <> FEnv -> c_env c' = c_env c) /\ (fam <> FArgs -> c_args c' = c_args c) /\
  (fam <> FHooks -> c_hooks c' = c_hooks c) /\ (fam <> FRlimits -> c_rlimits c' = c_rlimits c) /\
  (fam <> FDevices -> c_devices c' = c_devices c) /\ (fam <> FRes -> c_res c' = c_res c) /\
  (fam <> FCgroups -> c_cgroups c' = c_cgroups c) /\ (fam <> FOom -> c_oom c' = c_oom c).

Theorem single_frame c op : same_outside (op_family op) c (apply_adj c (build_adj [op])).
Proof.
  pose proof (apply_adj_empty c) as H0.
  unfold same_outside.
  destruct op; cbn [op_family]; unfold build_adj; cbn [fold_left apply_bop];
    repeat split; try (intros Hn; try (exfalso; apply Hn; reflexivity));
    match goal with |- ?f (apply_adj c ?a) = ?f c =>
      transitivity (f (apply_adj c adj_empty)); [reflexivity|rewrite H0; reflexivity] end.
Qed.
