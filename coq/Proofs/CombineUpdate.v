(* Combination theorems for C04, part 4: update requests.  The resources shown to plugin i are the
   runtime's requested resources overlaid with the own-container updates of the plugins before i,
   provided no ignore-failure update was dropped among those plugins (DESIGN.md I2).  "Dropped" is
   tied to the abstract ledger of Spec/AbsLedger.v (the hypothesis evaluated by holds_C04): in an
   update request the model's ledger IS the abstract ledger, claim by claim. *)
From Coq Require Import String Ascii List Bool ZArith Arith Lia.
From NRI Require Import Base.Lists Base.Strs Base.Assoc Model.Types Model.Result Spec.Apply Spec.AbsLedger
  Proofs.LedgerProofs Proofs.ResultProofs Proofs.CombineBase Proofs.CombineFamilies Proofs.CombineProofs.
Import ListNotations.
Open Scope string_scope.
Open Scope list_scope.

(* convertible with own_overlay of Run/RunAdapt.v *)
Definition overlay1 (id : string) (r : resources) (u : update) : resources :=
  if String.eqb (u_id u) id then match u_res u with Some x => apply_res r x | None => r end else r.
Definition overlay (id : string) (req : resources) (rps : list response) : resources :=
  fold_left (fun r rp => fold_left (overlay1 id) (rp_updates rp) r) rps req.

Definition is_ok {A} (r : res A) : bool := match r with Ok _ => true | Err _ => false end.

(* ---------- the model's claims are the abstract ledger's claims ---------- *)
Lemma abs_claims_app a b o :
  abs_claims (a ++ b) o = match abs_claims a o with (true, o1) => abs_claims b o1 | (false, o1) => (false, o1) end.
Proof.
  revert o. induction a as [|k r IH]; intros o; cbn [app abs_claims]; [reflexivity|].
  destruct (lmem k o); [reflexivity|apply IH].
Qed.

Definition has_scal (src : list (sfield * sval)) (f : sfield) : bool :=
  match flookup f src with Some _ => true | None => false end.

Lemma claim_scalars_abs id fs src : forall dst o r o',
  claim_scalars id fs src dst o = (r, o') ->
  abs_claims (map (fun f => (id, IScal f)) (filter (has_scal src) fs)) o = (is_ok r, o').
Proof.
  induction fs as [|f rest IH]; intros dst o r o' H; cbn [claim_scalars] in H.
  - inversion H; subst. reflexivity.
  - cbn [filter]. unfold has_scal at 1. destruct (flookup f src) as [v|]; [|apply (IH _ _ _ _ H)].
    cbn [map abs_claims]. unfold claim in H. destruct (lmem (id, IScal f) o).
    + inversion H; subst. reflexivity.
    + apply (IH _ _ _ _ H).
Qed.

Lemma claim_hp_abs id hp : forall dst o r o',
  claim_hp id hp dst o = (r, o') -> abs_claims (map (fun e => (id, IHp (fst e))) hp) o = (is_ok r, o').
Proof.
  induction hp as [|[size lim] rest IH]; intros dst o r o' H; cbn [claim_hp] in H.
  - inversion H; subst. reflexivity.
  - cbn [map abs_claims fst]. unfold claim in H. destruct (lmem (id, IHp size) o).
    + inversion H; subst. reflexivity.
    + apply (IH _ _ _ _ H).
Qed.

Lemma claim_unified_abs id uni : forall dst o r o',
  claim_unified id uni dst o = (r, o') -> abs_claims (map (fun e => (id, IUni (fst e))) uni) o = (is_ok r, o').
Proof.
  induction uni as [|[k v] rest IH]; intros dst o r o' H; cbn [claim_unified] in H.
  - inversion H; subst. reflexivity.
  - cbn [map abs_claims fst]. unfold claim in H. destruct (lmem (id, IUni k) o).
    + inversion H; subst. reflexivity.
    + apply (IH _ _ _ _ H).
Qed.

Lemma merge_resources_abs id src dst o r o' :
  merge_resources id src dst o = (r, o') -> abs_claims (res_claims id src) o = (is_ok r, o').
Proof.
  unfold merge_resources, res_claims. intros H. fold (has_scal (r_scal src)).
  rewrite abs_claims_app.
  destruct (claim_scalars id scalars_a (r_scal src) (r_scal dst) o) as [[sc1|e1] o1] eqn:H1;
    rewrite (claim_scalars_abs _ _ _ _ _ _ _ H1); cbn [is_ok]; [|inversion H; subst; reflexivity].
  rewrite abs_claims_app.
  destruct (claim_hp id (r_hp src) (r_hp dst) o1) as [[hp1|e2] o2] eqn:H2;
    rewrite (claim_hp_abs _ _ _ _ _ _ H2); cbn [is_ok]; [|inversion H; subst; reflexivity].
  rewrite abs_claims_app.
  destruct (claim_unified id (r_uni src) (r_uni dst) o2) as [[un1|e3] o3] eqn:H3;
    rewrite (claim_unified_abs _ _ _ _ _ _ H3); cbn [is_ok]; [|inversion H; subst; reflexivity].
  destruct (claim_scalars id scalars_b (r_scal src) sc1 o3) as [[sc2|e4] o4] eqn:H4;
    rewrite (claim_scalars_abs _ _ _ _ _ _ _ H4); inversion H; subst; reflexivity.
Qed.

(* ---------- one update of an update request ---------- *)
Lemma update_one_upd id u s s' r :
  s_create s = None -> s_update s = Some (id, r) -> update_one u s = Ok s' ->
  s_create s' = None /\
  exists b r', abs_claims (g_claims (update_group u)) (s_own s) = (b, s_own s') /\
               (b = false -> u_ignore u = true) /\
               s_update s' = Some (id, r') /\ (b = true -> r' = overlay1 id r u).
Proof.
  intros Hc Hu H. unfold update_one in H. rewrite Hc, Hu in H. unfold update_group, overlay1. cbn [g_claims].
  destruct (u_res u) as [x|].
  - destruct (merge_resources (u_id u) x _ (s_own s)) as [[r2|e] o2] eqn:Hm.
    + destruct (merge_resources_spec _ _ _ _ _ _ Hm) as [_ G]. specialize (G _ eq_refl).
      pose proof (merge_resources_abs _ _ _ _ _ _ Hm) as Ha. cbn [is_ok] in Ha.
      inversion H; subst s'; clear H. cbn [s_create s_update s_own]. split; [first [reflexivity|exact Hc]|].
      rewrite (String.eqb_sym (u_id u) id).
      destruct (String.eqb id (u_id u)).
      * exists true, r2. repeat split; try assumption; try discriminate. intros _. exact G.
      * exists true, r. repeat split; try assumption; try discriminate.
    + pose proof (merge_resources_abs _ _ _ _ _ _ Hm) as Ha. cbn [is_ok] in Ha.
      destruct (u_ignore u) eqn:Hi; [|discriminate].
      inversion H; subst s'; clear H. cbn [s_create s_update s_own]. split; [first [reflexivity|exact Hc]|].
      exists false, r. repeat split; try assumption; try discriminate.
  - inversion H; subst s'; clear H. cbn [s_create s_update s_own abs_claims]. split; [first [reflexivity|exact Hc]|].
    exists true, r. repeat split; try assumption; try discriminate.
    intros _. destruct (String.eqb (u_id u) id); reflexivity.
Qed.

Definition any (d : list bool) : bool := existsb (fun b => b) d.

Lemma any_app a b : any (a ++ b) = any a || any b.
Proof. unfold any. apply existsb_app. Qed.

Lemma abs_run_update u rest o d b o2 :
  abs_claims (g_claims (update_group u)) o = (b, o2) -> (b = false -> u_ignore u = true) ->
  abs_run (update_group u :: rest) o d = abs_run rest o2 (d ++ [negb b]).
Proof.
  intros Ha Hi. cbn [abs_run]. change (g_releases (update_group u)) with (@nil lkey). cbn [fold_left]. rewrite Ha.
  destruct b; [reflexivity|]. change (g_ignorable (update_group u)) with (u_ignore u). rewrite (Hi eq_refl). reflexivity.
Qed.

Lemma update_all_upd id us : forall s s' r,
  s_create s = None -> s_update s = Some (id, r) -> update_all us s = Ok s' ->
  s_create s' = None /\
  exists r' d', s_update s' = Some (id, r') /\
                (forall G d, abs_run (map update_group us ++ G) (s_own s) d = abs_run G (s_own s') (d ++ d')) /\
                (any d' = false -> r' = fold_left (overlay1 id) us r).
Proof.
  induction us as [|u rest IH]; intros s s' r Hc Hu H; cbn [update_all] in H.
  - inversion H; subst. split; [exact Hc|]. exists r, []. split; [exact Hu|]. split; [|reflexivity].
    intros G d. rewrite app_nil_r. reflexivity.
  - destruct (update_one u s) as [s1|e] eqn:E; cbn [bind] in H; [|discriminate].
    destruct (update_one_upd id u s s1 r Hc Hu E) as [Hc1 [b [r1 [Ha [Hi [Hu1 Hr1]]]]]].
    destruct (IH s1 s' r1 Hc1 Hu1 H) as [Hc' [r' [d' [Hu' [Hrun Hr']]]]].
    split; [exact Hc'|]. exists r', (negb b :: d'). split; [exact Hu'|]. split.
    + intros G d. cbn [map app]. rewrite (abs_run_update u _ _ d b _ Ha Hi), Hrun, <- app_assoc. reflexivity.
    + intros Hd. unfold any in Hd. cbn [existsb] in Hd. apply orb_false_iff in Hd. destruct Hd as [Hb Hd].
      apply negb_false_iff in Hb. cbn [fold_left]. rewrite <- (Hr1 Hb). apply Hr'. exact Hd.
Qed.

Lemma all_groups_cons cr rp rps : all_groups cr (rp :: rps) = groups_of cr rp ++ all_groups cr rps.
Proof. reflexivity. Qed.

Lemma all_groups_app cr a b : all_groups cr (a ++ b) = all_groups cr a ++ all_groups cr b.
Proof. unfold all_groups. rewrite map_app, concat_app. reflexivity. Qed.

Lemma steps_upd id rps : forall s s' r,
  s_create s = None -> s_update s = Some (id, r) -> steps rps s = Ok s' ->
  s_create s' = None /\
  exists r' d', s_update s' = Some (id, r') /\
                (forall G d, abs_run (all_groups None rps ++ G) (s_own s) d = abs_run G (s_own s') (d ++ d')) /\
                (any d' = false -> r' = overlay id r rps).
Proof.
  induction rps as [|rp rest IH]; intros s s' r Hc Hu H; cbn [steps] in H.
  - inversion H; subst. split; [exact Hc|]. exists r, []. split; [exact Hu|]. split; [|reflexivity].
    intros G d. rewrite app_nil_r. reflexivity.
  - unfold apply_response in H. rewrite Hc in H. cbn [bind] in H.
    destruct (update_all (rp_updates rp) s) as [s1|e] eqn:E; cbn [bind] in H; [|discriminate].
    destruct (update_all_upd id _ s s1 r Hc Hu E) as [Hc1 [r1 [d1 [Hu1 [Hrun1 Hr1]]]]].
    destruct (IH s1 s' r1 Hc1 Hu1 H) as [Hc' [r' [d' [Hu' [Hrun Hr']]]]].
    split; [exact Hc'|]. exists r', (d1 ++ d'). split; [exact Hu'|]. split.
    + intros G d. rewrite all_groups_cons. unfold groups_of. cbn [app]. rewrite <- app_assoc, Hrun1, Hrun, <- app_assoc. reflexivity.
    + intros Hd. rewrite any_app in Hd. apply orb_false_iff in Hd. destruct Hd as [Hd1 Hd2].
      unfold overlay. cbn [fold_left]. rewrite <- (Hr1 Hd1). apply Hr'. exact Hd2.
Qed.

Lemma res_obs_eqb_refl r : res_obs_eqb r r = true.
Proof.
  unfold res_obs_eqb. rewrite (scal_eqb_ext _ _ (fun f => eq_refl)), hp_eqb_refl, (smap_eqb_ext _ _ (fun k => eq_refl)).
  reflexivity.
Qed.

(* the state reached by the first i plugins of an update request *)
Lemma update_prefix_state id req rps i v :
  nth_error (fst (run_request (RUpdate id req) rps)) i = Some v ->
  exists si r' d', steps (firstn i rps) (init_state (RUpdate id req)) = Ok si /\ v = ShownResources r' /\
                   abs_run (all_groups None (firstn i rps)) [] [] = Some (s_own si, d') /\
                   (any d' = false -> r' = overlay id req (firstn i rps)).
Proof.
  intros H. unfold run_request in H.
  destruct (run_plugins_nth rps (init_state (RUpdate id req)) [] i v H) as [si [Hs Hv]].
  destruct (steps_upd id (firstn i rps) (init_state (RUpdate id req)) si req eq_refl eq_refl Hs) as [Hc [r' [d' [Hu [Hrun Hr]]]]].
  exists si, r', d'. split; [exact Hs|]. split; [|split; [|exact Hr]].
  - rewrite Hv. unfold view_of. rewrite Hc, Hu. reflexivity.
  - specialize (Hrun [] []). rewrite app_nil_r in Hrun. exact Hrun.
Qed.

(* C04 (b): the hypothesis is exactly the guard of holds_C04 for position i *)
Theorem update_view id req rps i v :
  some_dropped None (firstn i rps) = false ->
  nth_error (fst (run_request (RUpdate id req) rps)) i = Some v ->
  exists x, v = ShownResources x /\ res_obs_eqb x (overlay id req (firstn i rps)) = true.
Proof.
  intros Hd H. destruct (update_prefix_state id req rps i v H) as [si [r' [d' [_ [Hv [Hrun Hr]]]]]].
  unfold some_dropped in Hd. rewrite Hrun in Hd. exists r'. split; [exact Hv|].
  rewrite (Hr Hd). apply res_obs_eqb_refl.
Qed.

(* when the request succeeds and nothing was dropped in the whole history, this holds at every position *)
Theorem update_view_ok id req rps s :
  snd (run_request (RUpdate id req) rps) = Ok s -> some_dropped None rps = false ->
  forall i v, nth_error (fst (run_request (RUpdate id req) rps)) i = Some v ->
    exists x, v = ShownResources x /\ res_obs_eqb x (overlay id req (firstn i rps)) = true.
Proof.
  intros Hok Hd i v H. apply (update_view id req rps i v); [|exact H].
  destruct (update_prefix_state id req rps i v H) as [si [r' [d' [Hs [_ [Hrun _]]]]]].
  unfold run_request in Hok. rewrite run_plugins_snd, <- (firstn_skipn i rps), steps_app, Hs in Hok. cbn [bind] in Hok.
  assert (Hc : s_create si = None /\ exists r1, s_update si = Some (id, r1)).
  { destruct (steps_upd id (firstn i rps) (init_state (RUpdate id req)) si req eq_refl eq_refl Hs) as [Hc [r1 [d1 [Hu _]]]]. split; [exact Hc|]. exists r1. exact Hu. }
  destruct Hc as [Hc [r1 Hu]].
  destruct (steps_upd id (skipn i rps) si s r1 Hc Hu Hok) as [_ [r2 [d2 [_ [Hrun2 _]]]]].
  unfold some_dropped in Hd |- *. rewrite Hrun.
  rewrite <- (firstn_skipn i rps), all_groups_app, abs_run_app, Hrun in Hd.
  specialize (Hrun2 [] d'). rewrite app_nil_r in Hrun2. rewrite Hrun2 in Hd. cbn [abs_run] in Hd.
  fold (any (d' ++ d2)) in Hd. rewrite any_app in Hd. apply orb_false_iff in Hd. apply Hd.
Qed.
