(* C11 — the multiplexer fails stop: no gaps after errors, and nothing hangs after close.
   This file contains only statements closed by [exact], their assumptions, and examples.
   Model: Model/Mux.v; proofs: Proofs/MuxProofs.v.

   One end of a mux is the state machine [step]: its events are one iteration of the reader
   goroutine, a Read (with Go's choice when both the close signal and a queued frame are ready),
   a Write (optionally on a trunk that fails after k more bytes), mux.Close, conn.Close and the
   peer shutting the trunk.  The bytes that reach this end before the trunk ends are an arbitrary
   prefix [firstn n (trunk ws)] of what the peer's writers produced: a cut at every byte offset.
   A schedule is any list of events; theorems quantify over all of them.

   Proved here: the safety half of C11 (prefix, latch, idempotence, nothing blocks in the model after
   close).  Promptness in real time, absence of panics and of hangs of the Go implementation are
   observed by the muxfault driver only (partial). *)
From Coq Require Import List Bool NArith.
From NRI Require Import Model.MuxConsts Model.Mux Spec.MuxSpec Proofs.MuxProofs.
Import ListNotations.
Open Scope N_scope.

(* cut at any byte offset n: what the framing layer hands to id is a frame-wise prefix of what was
   written to id — no gap, no duplicate, no damaged frame *)
Theorem C11_prefix_under_truncation : forall opened ws n id,
  wf_writes ws = true ->
  prefix (dec opened (firstn n (trunk ws)) id) (written_frames id ws).
Proof. exact (fun opened ws n id => prefix_under_truncation max_payload_size opened ws n id max_payload_ok). Qed.
Print Assumptions C11_prefix_under_truncation.

(* a cut stream parses into an initial segment of the frames sent *)
Theorem C11_cut_parses_to_prefix : forall fs n, Forall wf_frame fs ->
  exists k, dec_frames (firstn n (frames_bytes fs)) = firstn k fs.
Proof. exact (fun fs n H => dec_frames_prefix fs n H). Qed.
Print Assumptions C11_cut_parses_to_prefix.

(* the general statement: trunk cut at any offset n, any queue length (so an overflow at any position),
   any schedule of reader iterations, Reads with any select choices and any buffers, local Writes (on a
   healthy or failing trunk), mux.Close, conn.Close and mux.Open at any moment: the frames the Reads of a
   connection's holder took, followed by what is still queued for it, are a frame-wise prefix of what the
   peer wrote to that id.  (late_opened: a connection created by an Open after the start has missed the
   frames that arrived for its id before — dropped by design, DESIGN.md I5 — and is excepted; every
   connection of the initial set is covered whatever is opened beside it.) *)
Theorem C11_prefix_all_schedules : forall ws n qlen opened evs id s tr,
  wf_writes ws = true -> nodupN opened = true ->
  run (init_mux (firstn n (trunk ws)) qlen opened) evs = (s, tr) ->
  late_opened id s = false ->
  prefix (received id tr ++ queue_in id s) (written_frames id ws).
Proof. exact (fun ws n qlen opened evs id s tr =>
  prefix_all_schedules max_payload_size ws n qlen opened evs id s tr max_payload_ok). Qed.
Print Assumptions C11_prefix_all_schedules.

(* the overflow clause spelled out: intact trunk, any queue length, any schedule *)
Theorem C11_overflow_prefix : forall ws qlen opened evs id s tr,
  wf_writes ws = true -> nodupN opened = true ->
  run (init_mux (trunk ws) qlen opened) evs = (s, tr) ->
  late_opened id s = false ->
  prefix (received id tr) (written_frames id ws).
Proof. exact overflow_prefix. Qed.
Print Assumptions C11_overflow_prefix.

(* the first error wins: once an error is latched no event changes it, and every Read that
   returns an error returns that one *)
Theorem C11_error_latched : forall evs s e s' tr,
  m_err s = Some e -> run s evs = (s', tr) ->
  m_err s' = Some e /\ (forall ev e', In (ev, RErr e') tr -> is_read ev = true -> e' = e).
Proof. exact (error_latched_run max_payload_size). Qed.
Print Assumptions C11_error_latched.

(* a reader that stops — cut trunk, trunk error, end of stream, queue overflow — has closed the mux *)
Theorem C11_reader_failure_closes : forall s,
  m_reader_done s = false -> m_reader_done (reader_step s) = true -> m_closed (reader_step s) = true.
Proof. exact reader_failure_closes. Qed.
Print Assumptions C11_reader_failure_closes.

(* once the mux is closed (by Close, by a failure of the reader or of a Write) no Read and no Write
   blocks in any reachable state, and no Write succeeds — on every connection, including those a
   schedule opens (EvOpen) before or AFTER the close *)
Theorem C11_no_block_after_close : forall ws n qlen opened evs s tr ev,
  wf_writes ws = true -> nodupN opened = true ->
  run (init_mux (firstn n (trunk ws)) qlen opened) evs = (s, tr) ->
  m_closed s = true ->
  match ev, snd (step s ev) with
  | EvRead _ _, RBlock => False
  | EvReadB _ _ _ _, RBlock => False
  | EvWrite _ _ _, ROk => False
  | EvWrite _ _ _, RBlock => False
  | _, _ => True
  end.
Proof. exact (fun ws n qlen opened evs s tr ev =>
  no_block_after_close max_payload_size ws n qlen opened evs s tr ev max_payload_ok). Qed.
Print Assumptions C11_no_block_after_close.

(* (not_in_map id s: the id was never opened or its connection was closed by conn.Close — a re-Open makes
   a fresh object)
   the clause spelled out for a connection opened on a Mux that is closed already (mux.Open closes it at
   once; whether the source does so is read from mux.go on every run: MuxConsts.open_closes_on_closed):
   Open succeeds, every Read returns the latched error (end-of-file when none was latched), every Write
   returns end-of-file; nothing blocks *)
Theorem C11_open_after_close_fails : forall s id,
  m_closed s = true -> not_in_map id s -> id <> reserved_conn_id ->
  let s1 := fst (step s (EvOpen id)) in
  snd (step s (EvOpen id)) = ROk /\ m_closed s1 = true /\
  (forall pick, exists e, snd (step s1 (EvRead id pick)) = RErr e /\ (forall e0, m_err s = Some e0 -> e = e0)) /\
  (forall pick bl bc, exists e, snd (step s1 (EvReadB id pick bl bc)) = RErr e /\ (forall e0, m_err s = Some e0 -> e = e0)) /\
  (forall buf cut, snd (step s1 (EvWrite id buf cut)) = RErr EEOF).
Proof. exact (open_after_close_fails max_payload_size). Qed.
Print Assumptions C11_open_after_close_fails.

(* the variant without that clause in Open (the code before 5cc5327) does not have the property:
   Close, Open 6, Read 6 — the Read blocks for ever *)
Theorem C11_open_after_close_refuted :
  let '(s, tr) := run_var false true true max_payload_size (init_mux [] 4 [1]) [EvClose; EvOpen 6; EvRead 6 true] in
  m_closed s = true /\ map snd tr = [ROk; ROk; RBlock].
Proof. exact open_after_close_refuted. Qed.
Print Assumptions C11_open_after_close_refuted.

(* a failing trunk READ, of any kind (a time-out that an expired read deadline produces included) and at any offset of
   the stream — EvTrunkFail in the schedules of C11_prefix_all_schedules, which therefore already says that what was
   delivered is a frame-wise prefix —: the reader latches an error, closes the Mux and never reads again.  That the code
   does not re-issue a trunk read after an error is read from mux.go on every run (MuxConsts.read_error_is_final; by a
   run-time probe when the reads sit in helpers) *)
Theorem C11_read_failure_ends_reader :
  read_error_is_final = true /\
  forall s, m_reader_done s = false ->
    let s' := reader_fail_step s in
    m_closed s' = true /\ m_reader_done s' = true /\ m_err s' <> None /\
    reader_step s' = s' /\ reader_fail_step s' = s'.
Proof. exact (conj read_error_final_ok read_failure_ends_reader). Qed.
Print Assumptions C11_read_failure_ends_reader.

(* a length field above any bound.  The code has no upper bound on the announced length: the reader allocates what the
   header says and waits for it.  A header that announces more than the trunk will ever carry is no frame: when the trunk
   ends the reader sees an end-of-file (no byte of the payload came) or a cut payload, closes the Mux and queues nothing *)
Theorem C11_oversized_length_is_no_frame : forall a b c d e f g h rest,
  lenN rest < u32 e f g h ->
  parse_one (a :: b :: c :: d :: e :: f :: g :: h :: rest) = if lenN rest =? 0 then PNoPayload else PShortPayload.
Proof. exact oversized_length_is_no_frame. Qed.
Print Assumptions C11_oversized_length_is_no_frame.

Theorem C11_oversized_length_fails_stop : forall s a b c d e f g h rest,
  m_blocked s = false -> m_reader_done s = false -> m_closed s = false ->
  m_rx s = a :: b :: c :: d :: e :: f :: g :: h :: rest -> lenN rest < u32 e f g h ->
  let s' := reader_step s in
  m_closed s' = true /\ m_reader_done s' = true /\ m_err s' <> None /\
  forall id, queue_in id s' = queue_in id s.
Proof. exact oversized_length_fails_stop. Qed.
Print Assumptions C11_oversized_length_fails_stop.

(* the length reaches make([]byte, …) as the unsigned number it is (MuxConsts.length_unsigned, read from mux.go on every run);
   held in a signed 32-bit variable a length of 2^31 or more would be negative and make would panic *)
Theorem C11_length_never_negative : forall raw, alloc_len length_unsigned raw = Some raw.
Proof. exact length_never_negative. Qed.
Print Assumptions C11_length_never_negative.

Theorem C11_length_signed_refuted : alloc_len false 2147483648 = None /\ alloc_len false 4294967295 = None.
Proof. exact length_signed_refuted. Qed.
Print Assumptions C11_length_signed_refuted.

(* the reader's send into a connection's queue.  The reader looks the connection up, releases the lock and then sends;
   a conn.Close may come in between.  The queue's channel is never closed (MuxConsts.readq_never_closed, read from mux.go on
   every run), so whatever happened to the connection meanwhile the send queues the frame or finds the queue full: it cannot
   panic — which is what lets the model treat lookup and send as one step *)
Theorem C11_send_cannot_panic : forall c qlen, send_to (negb readq_never_closed) c qlen <> SendPanic.
Proof. exact send_cannot_panic. Qed.
Print Assumptions C11_send_cannot_panic.

(* the variant in which conn.Close closes the queue's channel: a send to a connection closed in that gap panics *)
Theorem C11_send_after_close_refuted : exists c qlen, send_to true (c_unmap c) qlen = SendPanic.
Proof. exact send_after_close_refuted. Qed.
Print Assumptions C11_send_after_close_refuted.

(* stale handles.  An id whose connection was closed by conn.Close can be opened again: Open makes a fresh
   connection object, the old object is a stale handle.  conn.Close removes the id from the map only if the
   map still holds that very connection (MuxConsts.close_checks_identity, read from mux.go on every run), so
   closing a stale handle once more changes nothing, in any state — and because EvOpen (incl. re-Open) and
   EvStaleClose are events of the machine, C11_no_block_after_close, C11_error_latched and the idempotence
   theorems cover re-opened ids for all schedules *)
Theorem C11_stale_close_is_noop : forall id s, fst (step s (EvStaleClose id)) = s.
Proof. exact (stale_close_is_noop max_payload_size). Qed.
Print Assumptions C11_stale_close_is_noop.

(* the variant that deletes unconditionally does not have the property: open 1, close it, open 1 again, close
   the old handle once more, Mux.Close — the replacement is not in the map, nobody closes it, its Read blocks
   (the sibling connection 2 gets its end-of-file) *)
Theorem C11_stale_close_unguarded_refuted :
  let '(s, tr) := run_var true false true max_payload_size (init_mux [] 4 [1; 2])
                    [EvConnClose 1; EvOpen 1; EvStaleClose 1; EvClose; EvRead 1 true; EvRead 2 true] in
  m_closed s = true /\ map snd tr = [ROk; ROk; ROk; ROk; RBlock; RErr EEOF].
Proof. exact stale_close_unguarded_refuted. Qed.
Print Assumptions C11_stale_close_unguarded_refuted.

(* … and nothing new is queued: Reads after close drain an initial part of what was queued (for an id that
   the schedule does not open again: a re-Open starts with an empty queue) *)
Theorem C11_drain_after_close : forall id evs s s' tr,
  m_closed s = true -> no_open_of id evs = true -> run s evs = (s', tr) ->
  queue_in id s = received id tr ++ queue_in id s'.
Proof. exact (drain_after_close max_payload_size). Qed.
Print Assumptions C11_drain_after_close.

(* the peer's stream ending on a frame boundary (orderly close) is reported as end-of-file *)
Theorem C11_eof_after_orderly_end : forall s,
  m_blocked s = false ->
  m_reader_done s = false -> m_closed s = false -> m_rx s = [] -> m_err s = None ->
  m_err (reader_step s) = Some EEOF /\ m_closed (reader_step s) = true.
Proof. exact eof_after_orderly_end. Qed.
Print Assumptions C11_eof_after_orderly_end.

(* closing is idempotent; any number of closers leave the state one Close leaves; Close and
   conn.Close commute *)
Theorem C11_close_idempotent : forall s, do_close (do_close s) = do_close s.
Proof. exact close_idempotent. Qed.
Print Assumptions C11_close_idempotent.

Theorem C11_conn_close_idempotent : forall id s, conn_close_step id (conn_close_step id s) = conn_close_step id s.
Proof. exact conn_close_idempotent. Qed.
Print Assumptions C11_conn_close_idempotent.

Theorem C11_many_closers : forall evs s, only_closes evs = true ->
  fst (run (do_close s) evs) = do_close s /\ Forall (fun eo => snd eo = ROk) (snd (run (do_close s) evs)).
Proof. exact (closers_equal_one_close max_payload_size). Qed.
Print Assumptions C11_many_closers.

Theorem C11_close_commutes : forall id s, do_close (conn_close_step id s) = conn_close_step id (do_close s).
Proof. exact close_commutes. Qed.
Print Assumptions C11_close_commutes.

(* (no_recovery: a trunk that has failed stays down; the transient case is C11_frame_sync below)
   what an end has put on the trunk is, at every moment and for every schedule and every failure point of
   the trunk, the stream of its successful Writes followed by an initial part of at most one more Write:
   the peer's input is always of the form  firstn n (trunk ws)  assumed above *)
Theorem C11_tx_prefix : forall rx qlen opened evs s tr,
  no_recovery evs = true ->
  run (init_mux rx qlen opened) evs = (s, tr) ->
  prefix (trunk (ok_writes tr)) (m_tx s) /\
  (exists w, prefix (m_tx s) (trunk (ok_writes tr ++ [w]))) /\
  (m_tx_broken s = false -> m_tx s = trunk (ok_writes tr)).
Proof. exact (tx_prefix max_payload_size). Qed.
Print Assumptions C11_tx_prefix.

(* the same with transient trunk failures (EvTrunkUp: an expired write deadline, the peer drains again) at any
   byte offset: what an end has put on the trunk is a whole number of frames, each one a frame of a Write that
   was attempted (its id, its chunk: never anything foreign), and a partial frame only at the very end of the
   stream of a Mux that is closed and whose trunk is down for good.  mux.write closes the Mux when the header or
   the payload write was partial AND when a payload write wrote nothing after its header went out
   (MuxConsts.payload_failure_fatal_after_header, read from mux.go on every run) *)
Theorem C11_frame_sync : forall rx qlen opened evs s tr,
  run (init_mux rx qlen opened) evs = (s, tr) ->
  exists fs tl, m_tx s = frames_bytes fs ++ tl /\
    (forall f, In f fs -> In f (attempted_frames max_payload_size tr)) /\
    (tl <> [] -> m_closed s = true /\ m_tx_broken s = true).
Proof. exact (frame_sync max_payload_size). Qed.
Print Assumptions C11_frame_sync.

(* the code before 214cbc8 (payload error path guarded by n != 0 alone) does not have the property: the trunk takes
   the 8 header bytes of a Write to id 1, the payload write fails with n = 0, the trunk carries on, a Write to id 2
   follows — the Mux is open, nothing is latched, the receiver is handed bytes of id 2's header on connection 1
   and nothing on connection 2; the machine of the theorems fails stop at that point *)
Theorem C11_frame_sync_refuted :
  let evs := [EvWrite 1 [5; 6; 7] (Some 8); EvTrunkUp; EvWrite 2 [9] None] in
  let '(s, tr) := run_var true true false max_payload_size (init_mux [] 4 [1; 2]) evs in
  m_closed s = false /\ m_tx_broken s = false /\ m_err s = None /\ map snd tr = [RErr EErr; ROk; ROk] /\
  m_tx s = [0;0;0;1; 0;0;0;3; 0;0;0;2; 0;0;0;1; 9] /\
  dec [1; 2] (m_tx s) 1 = [[0; 0; 0]] /\ dec [1; 2] (m_tx s) 2 = [] /\
  let '(s', tr') := run_mp max_payload_size (init_mux [] 4 [1; 2]) evs in
  m_closed s' = true /\ m_err s' = Some EErr /\ map snd tr' = [RErr EErr; ROk; RErr EEOF] /\ m_tx s' = [0;0;0;1; 0;0;0;3].
Proof. exact frame_sync_refuted. Qed.
Print Assumptions C11_frame_sync_refuted.

(* listener wrapper (pkg/net/conn.go): after any history, Accept returns the connection iff it is the
   first Accept; a later one returns end-of-file if the listener has been closed and blocks otherwise *)
Theorem C11_listener_accept : forall pre,
  snd (lstep (fst (lrun init_lst pre)) LAccept) =
  if negb (existsb is_accept pre) then LConn
  else if existsb is_close pre then LEof else LBlock.
Proof. exact listener_accept. Qed.
Print Assumptions C11_listener_accept.

Theorem C11_listener_close_idempotent : forall l, fst (lstep (fst (lstep l LClose)) LClose) = fst (lstep l LClose).
Proof. exact listener_close_idempotent. Qed.
Print Assumptions C11_listener_close_idempotent.

Theorem C11_listener_close_closes_conn : forall pre,
  existsb is_close pre = true -> l_conn_closed (fst (lrun init_lst pre)) = true.
Proof. exact listener_close_closes_conn. Qed.
Print Assumptions C11_listener_close_closes_conn.

(* ---- non-vacuity ---- *)
Definition ex_ws : list write := [(1, [1;2;3]); (2, [9]); (1, []); (1, [4;5])].
Example C11_example_hyps : wf_writes ex_ws = true /\ nodupN [1;2] = true /\ length (trunk ex_ws) = 38%nat.
Proof. repeat split. Qed.
(* cut inside the payload of the second frame, after its header, inside the next header, at a boundary *)
Example C11_example_cuts :
  dec [1;2] (firstn 19 (trunk ex_ws)) 1 = [[1;2;3]] /\ dec [1;2] (firstn 19 (trunk ex_ws)) 2 = [] /\
  dec_tail (firstn 19 (trunk ex_ws)) = TNoPayload /\
  dec_tail (firstn 23 (trunk ex_ws)) = TShortHeader /\
  dec_tail (firstn 37 (trunk ex_ws)) = TShortPayload /\
  dec [1;2] (firstn 28 (trunk ex_ws)) 1 = [[1;2;3]; []] /\ dec_tail (firstn 28 (trunk ex_ws)) = TEof.
Proof. vm_compute. repeat split. Qed.
(* queue length 1, nobody reads: the second frame for id 1 overflows; the error is latched, everything
   is closed, the one queued frame can still be drained, then the latched error is returned *)
Example C11_example_overflow :
  let evs := [EvReader; EvReader; EvReader; EvReader; EvRead 1 false; EvRead 1 true; EvRead 1 true;
              EvRead 2 true; EvRead 2 true; EvWrite 1 [7] None; EvClose; EvClose] in
  let '(s, tr) := run (init_mux (trunk ex_ws) 1 [1;2]) evs in
  m_err s = Some EErr /\ m_closed s = true /\
  map snd tr = [ROk; ROk; ROk; ROk; RErr EErr; RData [1;2;3]; RErr EErr; RData [9]; RErr EErr;
                RErr EEOF; ROk; ROk].
Proof. vm_compute. repeat split. Qed.
(* cuts of one Write of 3 bytes: inside the header, exactly after it (fatal since 214cbc8), on the frame boundary,
   and a header that fails with n = 0 followed by a trunk that carries on: the Mux lives, the stream is in step *)
Example C11_example_cut_points :
  payload_failure_fatal_after_header = true /\
  map (fun k => cut_fatal true k [(1, [5;6;7])]) [0; 1; 7; 8; 9; 10] = [false; true; true; true; true; true] /\
  map (fun k => cut_fatal false k [(1, [5;6;7])]) [0; 8; 9] = [false; false; true] /\
  let '(s, tr) := run (init_mux [] 4 [1;2]) [EvWrite 1 [5;6;7] (Some 0); EvTrunkUp; EvWrite 2 [9] None] in
  m_closed s = false /\ map snd tr = [RErr EErr; ROk; ROk] /\ m_tx s = [0;0;0;2; 0;0;0;1; 9].
Proof. vm_compute. repeat split. Qed.
(* a Write on a trunk that fails after 10 more bytes: 8 header bytes and 2 payload bytes went out *)
Example C11_example_write_cut :
  let '(s, tr) := run (init_mux [] 4 [1]) [EvWrite 1 [5;6;7] (Some 10); EvWrite 1 [8] None; EvRead 1 true] in
  m_tx s = [0;0;0;1;0;0;0;3;5;6] /\ m_closed s = true /\ map snd tr = [RErr EErr; RErr EEOF; RErr EErr].
Proof. vm_compute. repeat split. Qed.
(* Open after an overflow closed the Mux, after a plain Close, of the reserved id, of an id that is open *)
Example C11_example_open_after_close :
  open_closes_on_closed = true /\
  let evs := [EvReader; EvReader; EvReader; EvReader; EvOpen 6; EvRead 6 true; EvReadB 6 false 4 4; EvWrite 6 [1] None;
              EvOpen 0; EvOpen 1; EvRead 1 true] in
  let '(s, tr) := run (init_mux (trunk ex_ws) 1 [1;2]) evs in
  m_closed s = true /\ late_opened 6 s = true /\ late_opened 1 s = false /\
  map snd tr = [ROk; ROk; ROk; ROk; ROk; RErr EErr; RErr EErr; RErr EEOF; RErr EErr; ROk; RData [1;2;3]].
Proof. vm_compute. repeat split. Qed.
(* the four-step sequence on the machine of the theorems (guard as generated), then Mux.Close: both wake *)
Example C11_example_reopen :
  close_checks_identity = true /\
  let evs := [EvConnClose 1; EvOpen 1; EvStaleClose 1; EvStaleClose 1; EvStaleClose 2; EvReader; EvRead 1 true;
              EvClose; EvRead 1 true; EvRead 2 true; EvWrite 1 [9] None] in
  let '(s, tr) := run (init_mux (trunk [(1, [5;6])]) 4 [1; 2]) evs in
  late_opened 1 s = true /\
  map snd tr = [ROk; ROk; ROk; ROk; RNoConn; ROk; RData [5;6]; ROk; RErr EEOF; RErr EEOF; RErr EEOF].
Proof. vm_compute. repeat split. Qed.
Example C11_example_listener :
  snd (lrun init_lst [LAccept; LAccept; LClose; LAccept; LClose; LAccept]) = [LConn; LBlock; LOk; LEof; LOk; LEof].
Proof. reflexivity. Qed.
