// Package coqfmt prints Go values as Coq (Gallina) terms.
package coqfmt

import (
	"fmt"
	"sort"
	"strings"
)

// Str renders a Go string as a Coq string literal.  Only printable ASCII is
// emitted literally; the harness generators never produce anything else, and a
// byte outside that range aborts the run (harness error, not a violation).
func Str(s string) string {
	var b strings.Builder
	b.WriteByte('"')
	for i := 0; i < len(s); i++ {
		c := s[i]
		if c == '"' {
			b.WriteString(`""`)
			continue
		}
		if c < 32 || c > 126 {
			panic(fmt.Sprintf("coqfmt: non-printable byte %#x in %q", c, s))
		}
		b.WriteByte(c)
	}
	b.WriteByte('"')
	return b.String()
}

// Printable reports whether Str accepts s.
func Printable(s string) bool {
	for i := 0; i < len(s); i++ {
		if s[i] < 32 || s[i] > 126 {
			return false
		}
	}
	return true
}

// Z renders an integer in Z scope (negative numbers parenthesised).
func Z(v int64) string {
	if v < 0 {
		return fmt.Sprintf("(%d)%%Z", v)
	}
	return fmt.Sprintf("%d%%Z", v)
}

// ZU renders an unsigned integer in Z scope.
func ZU(v uint64) string { return fmt.Sprintf("%d%%Z", v) }

// N renders an unsigned integer in N scope.
func N(v uint64) string { return fmt.Sprintf("%d%%N", v) }

// Nat renders a small natural number.
func Nat(v int) string {
	if v < 0 || v > 5000 {
		panic(fmt.Sprintf("coqfmt: nat literal out of range: %d", v))
	}
	return fmt.Sprintf("%d%%nat", v)
}

// Bool renders a boolean.
func Bool(b bool) string {
	if b {
		return "true"
	}
	return "false"
}

// List renders a list of already rendered elements.
func List(elems []string) string {
	if len(elems) == 0 {
		return "[]"
	}
	return "[" + strings.Join(elems, "; ") + "]"
}

// StrList renders a list of strings.
func StrList(l []string) string {
	out := make([]string, len(l))
	for i, s := range l {
		out[i] = Str(s)
	}
	return List(out)
}

// Pair renders a pair.
func Pair(a, b string) string { return "(" + a + ", " + b + ")" }

// StrMap renders a string map as an association list in the given key order
// (sorted when order is nil).
func StrMap(m map[string]string, order []string) string {
	if order == nil {
		for k := range m {
			order = append(order, k)
		}
		sort.Strings(order)
	}
	out := make([]string, 0, len(order))
	for _, k := range order {
		out = append(out, Pair(Str(k), Str(m[k])))
	}
	return List(out)
}

// OptZ renders an optional integer.
func OptZ(p *int64) string {
	if p == nil {
		return "None"
	}
	return "(Some " + Z(*p) + ")"
}

// OptStr renders an optional string.
func OptStr(p *string) string {
	if p == nil {
		return "None"
	}
	return "(Some " + Str(*p) + ")"
}

// OptBool renders an optional boolean.
func OptBool(p *bool) string {
	if p == nil {
		return "None"
	}
	return "(Some " + Bool(*p) + ")"
}
