package main

import (
	"encoding/json"
	"errors"
	"fmt"
	"os"
	"path/filepath"
	"sort"
	"strconv"
	"strings"
	"sync"
	"time"

	"github.com/containerd/nri/pkg/adaptation"
	"github.com/containerd/nri/pkg/api"
	"google.golang.org/grpc/codes"
	"google.golang.org/grpc/status"

	"verif/harness/internal/coqfmt"
	"verif/harness/internal/hx"
)

// ---------------------------------------------------------------- C07: faults
//
// One case = one fault on a fresh Adaptation with three plugins 10-A, 20-B,
// 30-C (all subscribed to everything), one of which is faulty:
//
//	cut     its connection runs through the cutting proxy, which closes the
//	        trunk once n bytes of the exchange went through in one direction
//	inject  like cut, but just before cutting the proxy hands the runtime the
//	        beginning of a multiplexer frame (the plugin dies in the middle of a
//	        write of its own): the trunk ends in the middle of a frame
//	close   the plugin (a hand-made session) closes its end before the request
//	        (noticed or not yet noticed by the runtime), inside its handler, or
//	        right after the request; or the real stub is stopped before it
//	hang    the handler sleeps past the request time-out, or waits for its own
//	        context to expire and returns that error
//	veto    the handler returns an error
//
// Each case runs a probe request (everything healthy, measures the exchange of
// the faulty plugin), the faulted request and a follow-up request.

const (
	faultT     = 200 * time.Millisecond // request time-out configured for the adaptation
	faultSlack = 1500 * time.Millisecond
	faultWedge = 8 * time.Second // a request of the fault driver still blocked after this (40 time-outs, ~4 x the bound) is a deadlock
	stallKiB   = 512             // annotation size of the request sent to a peer that stopped reading
)

type fPlugin struct {
	ID   int    `json:"id"`
	Idx  string `json:"idx"`
	Name string `json:"name"`
}

type fObs struct {
	Err     string   `json:"err,omitempty"`
	Nil     bool     `json:"nil"`
	Tokens  []string `json:"tokens"`
	Handled []int    `json:"handled"`
}

type faultCase struct {
	Stream        string            `json:"stream"`
	N             int               `json:"n"`
	Plugins       []fPlugin         `json:"plugins"`
	Faulty        int               `json:"faulty"`
	Ev            int               `json:"event"`
	Kind          string            `json:"kind"`  // cut | inject | close | hang | veto
	What          string            `json:"what"`  // human description of the fault point
	Fault         string            `json:"fault"` // veto | transport | hang (the model's fault_kind)
	ReplyComplete bool              `json:"reply_complete"`
	Msg           string            `json:"msg,omitempty"`
	Call          *callErr          `json:"call,omitempty"`
	AfterCall     *callErr          `json:"after_call,omitempty"`
	ExtraCalls    int               `json:"extra_call_errors,omitempty"`
	TMs           int64             `json:"T_ms"`
	LatMs         int64             `json:"latency_ms"`
	SlackMs       int64             `json:"slack_ms"`
	Obs           fObs              `json:"obs"`
	Obs2          fObs              `json:"obs2"`
	FaultyAfter   bool              `json:"faulty_handled_after"`
	ClockSuspect  bool              `json:"clock_suspect,omitempty"`   // a healthy plugin's call ran into the 200 ms time-out: load, re-run alone
	Wedged        bool              `json:"wedged,omitempty"`          // a request never returned: the adaptation is blocked for good
	ReleasedByCut bool              `json:"released_by_cut,omitempty"` // stall: the request returned only after the harness cut the connection
	BoundMs       int64             `json:"bound_ms,omitempty"`
	Reruns        int               `json:"latency_reruns,omitempty"`
	Signature     map[string]string `json:"signature,omitempty"`
}

type faultSpec struct {
	ev      api.Event
	pos     int    // position of the faulty plugin: 0, 1, 2
	kind    string // cut | inject | close | hang | veto
	dir     int    // cut / inject: direction counted
	off     int    // cut / inject: n = off, or total + off when fromEnd
	fromEnd bool
	variant string // close: before | before-noticed | during | after | stop-before; hang: sleep | ctx; inject: partial-header | partial-payload | idle
}

func (s faultSpec) String() string {
	switch s.kind {
	case "cut", "inject":
		o := strconv.Itoa(s.off)
		if s.fromEnd {
			o = "end" + strconv.Itoa(s.off)
		}
		return fmt.Sprintf("%s/%v/pos%d/%s/%s/%s", s.kind, s.ev, s.pos, dirName(s.dir), o, s.variant)
	}
	return fmt.Sprintf("%s/%v/pos%d/%s", s.kind, s.ev, s.pos, s.variant)
}

var (
	fIdx   = []string{"10", "20", "30"}
	fNames = []string{"A", "B", "C"}
)

func methodOf(ev api.Event) string {
	switch ev {
	case api.Event_CREATE_CONTAINER:
		return "CreateContainer"
	case api.Event_UPDATE_CONTAINER:
		return "UpdateContainer"
	case api.Event_STOP_CONTAINER:
		return "StopContainer"
	case api.Event_UPDATE_POD_SANDBOX:
		return "UpdatePodSandbox"
	}
	return "StateChange"
}

func returnsValue(ev api.Event) bool {
	return hasResponse(int(ev)) || ev == api.Event_UPDATE_POD_SANDBOX
}

// handledIn lists the ids (1-based positions) of the plugins whose handler ran for request rid, in global order.
func handledIn(plugs []*plug, rid int) []int {
	type ent struct {
		seq int64
		id  int
	}
	var l []ent
	for i, p := range plugs {
		for _, inv := range p.invocations() {
			if ridOf(inv.Pod, inv.Ctr) == rid {
				l = append(l, ent{inv.Seq, i + 1})
			}
		}
	}
	sort.Slice(l, func(i, j int) bool { return l[i].seq < l[j].seq })
	out := []int{}
	for _, e := range l {
		out = append(out, e.id)
	}
	return out
}

func pickCall(calls []callErr, method string) (*callErr, int) {
	var first *callErr
	n := 0
	for i := range calls {
		if calls[i].Method != method {
			continue
		}
		if first == nil {
			first = &calls[i]
		}
		n++
	}
	if n > 0 {
		n--
	}
	return first, n
}

func mkObs(res reqResult, handled []int) fObs {
	return fObs{Err: res.Err, Nil: res.Nil, Tokens: append([]string{}, res.Tokens...), Handled: handled}
}

// a partial multiplexer frame as the plugin would have begun to write it
func partialFrame(variant string) []byte {
	// header: connection id 1 (plugin's runtime-service connection), length 64
	hdr := []byte{0, 0, 0, 1, 0, 0, 0, 64}
	switch variant {
	case "partial-header":
		return hdr[:5]
	default:
		return append(hdr, 0, 0, 0, 40, 0, 0, 0, 9, 1, 0, 10, 3)
	}
}

func runFault(c *hx.Ctx, n int, sp faultSpec) (*faultCase, error) {
	e, err := newEnv(c.Out)
	if err != nil {
		return nil, err
	}
	defer e.closeWithin(5 * time.Second)
	cs := &faultCase{Stream: "faults", N: n, Faulty: sp.pos + 1, Ev: int(sp.ev), Kind: sp.kind,
		TMs: faultT.Milliseconds(), SlackMs: faultSlack.Milliseconds()}
	var (
		plugs []*plug
		px    *proxy
	)
	defer func() {
		for _, p := range plugs {
			go p.stop()
		}
		if px != nil {
			px.cut()
		}
	}()
	for i := 0; i < 3; i++ {
		p := newPlug(e, fIdx[i], fNames[i], api.ValidEvents)
		cs.Plugins = append(cs.Plugins, fPlugin{ID: i + 1, Idx: fIdx[i], Name: fNames[i]})
		sock, raw := e.sock, false
		if i == sp.pos {
			switch sp.kind {
			case "cut", "inject", "stall":
				px, err = newProxy(filepath.Join(e.dir, "px.sock"), e.sock)
				if err != nil {
					return nil, err
				}
				sock = px.path
			case "close":
				raw = sp.variant != "stop-before"
			}
		}
		if raw {
			err = p.startRaw(sock)
		} else {
			err = p.startStub(sock)
		}
		if err != nil {
			return nil, fmt.Errorf("%v: start of %s: %w", sp, p.name, err)
		}
		plugs = append(plugs, p)
	}
	if err := e.waitSynced(10*time.Second, plugs...); err != nil {
		return nil, err
	}
	faulty := plugs[sp.pos]
	method := methodOf(sp.ev)

	// ---- probe: everything healthy; measures the faulty plugin's exchange
	if px != nil {
		if err := px.mark(); err != nil {
			return nil, err
		}
	}
	res0, _ := e.fireWithin(mkRequest(1, sp.ev), faultWedge)
	want := ""
	if hasResponse(int(sp.ev)) {
		want = "A,B,C"
	}
	if res0.Err != "" || strings.Join(res0.Tokens, ",") != want || len(handledIn(plugs, 1)) != 3 {
		return nil, fmt.Errorf("%v: probe request did not reach the three healthy plugins: %+v", sp, res0)
	}
	e.takeCallErrs()

	// ---- arm the fault
	switch sp.kind {
	case "cut", "inject":
		x := px.measured()
		total := x.Bytes[sp.dir]
		nb := sp.off
		if sp.fromEnd {
			nb = total + sp.off
		}
		if nb < 0 {
			nb = 0
		}
		if nb > total {
			nb = total
		}
		cs.What = fmt.Sprintf("trunk cut after %d of %d bytes %s (%s)", nb, total, dirName(sp.dir), phase(x.Frames[sp.dir], total, nb))
		if sp.kind == "inject" {
			cs.What += "; the runtime is first handed the beginning of a frame from the plugin (" + sp.variant + ")"
			if sp.variant == "timed" {
				// the plugin dies in the middle of a write sp.off microseconds after the previous plugin's
				// handler returned, i.e. around the moment the runtime sends it the request
				if err := px.mark(); err != nil {
					return nil, err
				}
				prev, d := plugs[sp.pos-1], time.Duration(sp.off)*time.Microsecond
				prev.setDecide(func(rq request) action {
					if ridOf(rq.Pod, rq.Ctr) != 2 {
						return action{}
					}
					return action{Before: func() {
						go func() {
							for t0 := time.Now(); time.Since(t0) < d; {
							}
							px.injectNow(p2r, partialFrame("partial-payload"))
						}()
					}}
				})
				cs.What = fmt.Sprintf("plugin's trunk ends in the middle of a frame %d us after the previous plugin's handler ran", sp.off)
			} else if sp.variant == "idle" {
				// the plugin dies in the middle of a write while no request is in progress; the request follows at once
				if err := px.mark(); err != nil {
					return nil, err
				}
				px.injectNow(p2r, partialFrame("partial-payload"))
				cs.What = "plugin's trunk ends in the middle of a frame just before the request"
			} else if err := px.armInject(sp.dir, nb, partialFrame(sp.variant)); err != nil {
				return nil, err
			}
		} else if err := px.arm(sp.dir, nb); err != nil {
			return nil, err
		}
		cs.Fault = "transport"
	case "close":
		cs.Fault = "transport"
		switch sp.variant {
		case "before":
			faulty.raw.kill()
			cs.What = "plugin closes its end just before the request"
		case "before-noticed":
			faulty.raw.kill()
			time.Sleep(30 * time.Millisecond)
			cs.What = "plugin closes its end 30 ms before the request"
		case "stop-before":
			faulty.st.Stop()
			cs.What = "the plugin's stub is stopped before the request"
		case "during":
			faulty.setDecide(func(rq request) action {
				if ridOf(rq.Pod, rq.Ctr) == 2 {
					return action{Before: faulty.raw.kill}
				}
				return action{}
			})
			cs.What = "plugin closes its end inside its handler"
		case "after":
			cs.What = "plugin closes its end right after the request"
		}
	case "stall":
		cs.Fault = "stall"
		px.stall()
		cs.What = fmt.Sprintf("the plugin's peer stops reading its socket; the request carries %d KiB of annotations (more than the socket buffers hold)", stallKiB)
	case "hang":
		cs.Fault = "hang"
		if sp.variant == "reentrant" {
			// the handler issues an unsolicited update and waits for its result before answering: the update
			// needs the adaptation lock its own request holds, so the handler hangs until the time-out drops it
			upd := []*api.ContainerUpdate{{ContainerId: "reentrant", Linux: &api.LinuxContainerUpdate{Resources: &api.LinuxResources{Cpu: &api.LinuxCPU{Shares: api.UInt64(uint64(7))}}}}}
			faulty.setDecide(func(rq request) action {
				if ridOf(rq.Pod, rq.Ctr) == 2 {
					return action{Before: func() { faulty.st.UpdateContainers(upd) }}
				}
				return action{}
			})
			cs.What = "handler issues an unsolicited update and waits for it before answering (re-entrant)"
		} else if sp.variant == "ctx" {
			faulty.setDecide(func(rq request) action {
				if ridOf(rq.Pod, rq.Ctr) == 2 {
					return action{WaitCtx: true}
				}
				return action{}
			})
			cs.What = "handler waits for its context to expire and returns that error"
		} else {
			faulty.setDecide(func(rq request) action {
				if ridOf(rq.Pod, rq.Ctr) == 2 {
					return action{Sleep: faultT * 5 / 2}
				}
				return action{}
			})
			cs.What = "handler sleeps 2.5 x the request time-out"
		}
	case "veto":
		cs.Fault = "veto"
		cs.Msg = fmt.Sprintf("no way %d", n)
		herr := handlerError(sp.variant, cs.Msg)
		if sp.variant == "os.ErrInvalid" {
			cs.Msg = os.ErrInvalid.Error()
		}
		faulty.setDecide(func(rq request) action {
			if ridOf(rq.Pod, rq.Ctr) == 2 {
				return action{Err: herr}
			}
			return action{}
		})
		cs.What = "handler returns an error (" + vetoName(sp.variant) + ")"
	}

	// ---- the faulted request
	var res1 reqResult
	if sp.kind == "stall" {
		// the request may never return on its own: give it the bound, then recover by cutting the connection
		bound := time.Duration(len(cs.Plugins))*faultT + faultSlack
		cs.BoundMs = bound.Milliseconds()
		rq := mkRequest(2, sp.ev)
		rq.Big = stallKiB
		done := make(chan reqResult, 1)
		t0 := time.Now()
		go func() { done <- e.fire(rq) }()
		select {
		case res1 = <-done:
		case <-time.After(bound + 300*time.Millisecond):
			cs.ReleasedByCut = true
			px.cut()
			select {
			case res1 = <-done:
			case <-time.After(20 * time.Second):
				// the adaptation is wedged for good: nothing more can be asked of it
				cs.LatMs = time.Since(t0).Milliseconds()
				cs.Obs = fObs{Err: "the request was still blocked 20 s after the connection had been cut", Tokens: []string{}, Handled: handledIn(plugs, 2)}
				cs.Obs2 = fObs{Err: "not issued: the adaptation is blocked", Tokens: []string{}, Handled: []int{}}
				return cs, nil
			}
		}
		res1.Dur = time.Since(t0)
	} else {
		var returned bool
		if res1, returned = e.fireWithin(mkRequest(2, sp.ev), faultWedge); !returned {
			// the request is blocked for good (a deadlock): nothing more can be asked of this adaptation
			cs.Wedged = true
			cs.LatMs = res1.Dur.Milliseconds()
			cs.Obs = mkObs(res1, handledIn(plugs, 2))
			cs.Call, cs.ExtraCalls = pickCall(e.takeCallErrs(), method)
			cs.Obs2 = fObs{Err: "not issued: the adaptation is blocked", Nil: true, Tokens: []string{}, Handled: []int{}}
			return cs, nil
		}
	}
	cs.LatMs = res1.Dur.Milliseconds()
	cs.Obs = mkObs(res1, handledIn(plugs, 2))
	calls1 := e.takeCallErrs()
	cs.Call, cs.ExtraCalls = pickCall(calls1, method)
	deadlines := 0
	for _, cl := range calls1 {
		if cl.Method == method && cl.Class == "context.DeadlineExceeded" {
			deadlines++
		}
	}
	if res1.Foreign {
		cs.Obs.Err = "response carries ids of another request; " + cs.Obs.Err
	}
	switch sp.kind {
	case "stall":
		if !px.isCut() {
			px.cut() // the request came back in time (a tree with a write deadline): the stopped peer goes away now
		}
	case "cut", "inject":
		if !px.isCut() {
			// sizes differed from the probe's: the armed offset was not reached; cut now (= close after the request)
			px.cut()
			cs.What += " [not reached during the request: cut right after it]"
		}
		cs.ReplyComplete = px.firstFrameForwarded(p2r) && cs.Call == nil
	case "close":
		if sp.variant == "after" {
			faulty.raw.kill()
			cs.ReplyComplete = true
		}
	}

	// ---- the follow-up request
	faulty.setDecide(nil)
	res2, returned2 := e.fireWithin(mkRequest(3, sp.ev), faultWedge)
	if !returned2 {
		cs.Wedged = true
	}
	h2 := handledIn(plugs, 3)
	cs.Obs2 = mkObs(res2, h2)
	calls2 := e.takeCallErrs()
	ac, extra := pickCall(calls2, method)
	cs.AfterCall = ac
	cs.ExtraCalls += extra
	for _, cl := range calls2 {
		if cl.Method == method && cl.Class == "context.DeadlineExceeded" {
			deadlines++
		}
	}
	// only a hanging handler legitimately runs into the time-out, once; any other call that did was
	// slowed down by the machine (the time-out is 1000 x the normal latency), not by the fault
	if expected := map[bool]int{true: 1, false: 0}[sp.kind == "hang"]; deadlines > expected {
		cs.ClockSuspect = true
	}
	for _, id := range h2 {
		if id == cs.Faulty {
			cs.FaultyAfter = true
		}
	}
	return cs, nil
}

// the kinds of error a handler can return: a plain error, a wrapped one, os.ErrInvalid (which the plugin's
// ttrpc server maps to InvalidArgument), status errors of several codes, a wrapped status error
var vetoVariants = []string{"", "wrapped", "os.ErrInvalid", "status/InvalidArgument", "status/Unimplemented",
	"status/NotFound", "status/Internal", "status/PermissionDenied", "status/Canceled", "wrapped-status/FailedPrecondition"}

var codeByName = map[string]codes.Code{"InvalidArgument": codes.InvalidArgument, "Unimplemented": codes.Unimplemented,
	"NotFound": codes.NotFound, "Internal": codes.Internal, "PermissionDenied": codes.PermissionDenied,
	"Canceled": codes.Canceled, "FailedPrecondition": codes.FailedPrecondition}

func vetoName(v string) string {
	if v == "" {
		return "errors.New"
	}
	return v
}

func handlerError(variant, msg string) error {
	switch {
	case variant == "wrapped":
		return fmt.Errorf("handler: %w", errors.New(msg))
	case variant == "os.ErrInvalid":
		return os.ErrInvalid
	case strings.HasPrefix(variant, "status/"):
		return status.Error(codeByName[strings.TrimPrefix(variant, "status/")], msg)
	case strings.HasPrefix(variant, "wrapped-status/"):
		return fmt.Errorf("handler: %w", status.Error(codeByName[strings.TrimPrefix(variant, "wrapped-status/")], msg))
	}
	return errors.New(msg)
}

// ---- Go-side oracle (the same predicate as Spec.DispatchSpec.fault_ok)

func faultOracle(cs *faultCase) (string, bool) {
	var healthy, all, before []int
	var hNames, allNames []string
	seenFaulty := false
	for _, p := range cs.Plugins {
		all = append(all, p.ID)
		allNames = append(allNames, p.Name)
		if p.ID == cs.Faulty {
			seenFaulty = true
			continue
		}
		healthy = append(healthy, p.ID)
		hNames = append(hNames, p.Name)
		if !seenFaulty {
			before = append(before, p.ID)
		}
	}
	if !hasResponse(cs.Ev) {
		hNames, allNames = nil, nil
	}
	sort.Strings(hNames)
	sort.Strings(allNames)
	notFaulty := func(l []int) []int {
		var o []int
		for _, x := range l {
			if x != cs.Faulty {
				o = append(o, x)
			}
		}
		return o
	}
	eqI := func(a, b []int) bool { return fmt.Sprint(a) == fmt.Sprint(b) || (len(a) == 0 && len(b) == 0) }
	eqS := func(a, b []string) bool { return strings.Join(a, ",") == strings.Join(b, ",") }
	o, o2 := cs.Obs, cs.Obs2
	if cs.Wedged {
		which := "the faulted request"
		if !strings.Contains(o.Err, "is blocked") {
			which = "the request after the faulted one"
		}
		return fmt.Sprintf("%s had not returned after %v (the bound is %d x %d ms + %d ms): the runtime is deadlocked", which, faultWedge, len(cs.Plugins), cs.TMs, cs.SlackMs), false
	}
	if cs.Fault == "veto" {
		switch {
		case o.Err == "":
			return "the handler's error did not fail the request", false
		case !strings.Contains(o.Err, cs.Msg):
			return fmt.Sprintf("the request failed with %q, which does not carry the handler's message %q", o.Err, cs.Msg), false
		case !o.Nil && returnsValue(api.Event(cs.Ev)):
			return "a vetoed request returned a response", false
		case len(o.Tokens) != 0:
			return "a vetoed request returned a partial result", false
		case !eqI(notFaulty(o.Handled), before):
			return fmt.Sprintf("after a veto the plugins %v were invoked, expected exactly those before the vetoing one %v", notFaulty(o.Handled), before), false
		case o2.Err != "":
			return "the request after a vetoed one failed: " + o2.Err, false
		case !eqS(o2.Tokens, allNames) || !eqI(o2.Handled, all):
			return fmt.Sprintf("a vetoing plugin must stay registered: the follow-up request invoked %v with contributions %v, expected all of %v", o2.Handled, o2.Tokens, all), false
		}
		return "", false
	}
	switch {
	case o.Err != "":
		return fmt.Sprintf("the request failed although only plugin %d failed: %s", cs.Faulty, o.Err), false
	case o.Nil:
		return "the request returned no response", false
	case !(eqS(o.Tokens, hNames) || (cs.Fault == "transport" && cs.ReplyComplete && eqS(o.Tokens, allNames))):
		return fmt.Sprintf("the response carries contributions %v, the remaining plugins contribute %v", o.Tokens, hNames), false
	case !eqI(notFaulty(o.Handled), healthy):
		return fmt.Sprintf("healthy plugins invoked: %v, expected %v", notFaulty(o.Handled), healthy), false
	case o2.Err != "":
		return "the follow-up request failed: " + o2.Err, false
	case !eqS(o2.Tokens, hNames):
		return fmt.Sprintf("the follow-up response carries %v, expected %v", o2.Tokens, hNames), false
	case !eqI(o2.Handled, healthy):
		return fmt.Sprintf("the follow-up request invoked %v, expected %v", o2.Handled, healthy), false
	case cs.FaultyAfter:
		return "the failed plugin received a further request", false
	case cs.ReleasedByCut:
		return fmt.Sprintf("the request was still blocked after %d x %d ms + %d ms and returned (after %d ms) only when the harness cut the plugin's connection", len(cs.Plugins), cs.TMs, cs.SlackMs, cs.LatMs), false
	case cs.LatMs > int64(len(cs.Plugins))*cs.TMs+cs.SlackMs:
		return fmt.Sprintf("the request took %d ms, more than %d x %d ms + %d ms", cs.LatMs, len(cs.Plugins), cs.TMs, cs.SlackMs), true
	}
	return "", false
}

// ---- Coq term

func nList(l []int) string {
	var o []string
	for _, x := range l {
		o = append(o, coqfmt.N(uint64(x)))
	}
	return coqfmt.List(o)
}

func obsTerm(o fObs) string {
	e := "None"
	if o.Err != "" {
		e = "(Some " + coqfmt.Str(asciiOnly(o.Err)) + ")"
	}
	return fmt.Sprintf("{| fo_err := %s; fo_nil := %s; fo_tokens := %s; fo_handled := %s |}",
		e, coqfmt.Bool(o.Nil), coqfmt.StrList(o.Tokens), nList(o.Handled))
}

func callTerm(cl *callErr) string {
	if cl == nil {
		return "None"
	}
	return "(Some " + coqfmt.Pair(coqfmt.Str(cl.Class), coqfmt.Str(asciiOnly(cl.Err))) + ")"
}

func faultCaseTerm(cs *faultCase) string {
	var ps []string
	for _, p := range cs.Plugins {
		ps = append(ps, "("+coqfmt.N(uint64(p.ID))+", "+coqfmt.Str(p.Idx)+", "+coqfmt.Str(p.Name)+")")
	}
	k := "FHang"
	switch cs.Fault {
	case "veto":
		k = "(FVeto " + coqfmt.Str(cs.Msg) + ")"
	case "transport":
		k = "(FTransport " + coqfmt.Bool(cs.ReplyComplete) + ")"
	case "stall":
		k = "FStall"
	}
	return fmt.Sprintf("{| fc_plugins := %s; fc_faulty := %s; fc_ev := %s; fc_fault := %s; fc_call := %s; fc_after_call := %s; fc_T := %s; fc_lat := %s; fc_slack := %s; fc_obs := %s; fc_obs2 := %s; fc_faulty_after := %s |}",
		coqfmt.List(ps), coqfmt.N(uint64(cs.Faulty)), coqfmt.Z(int64(cs.Ev)), k, callTerm(cs.Call), callTerm(cs.AfterCall),
		coqfmt.N(uint64(cs.TMs)), coqfmt.N(uint64(cs.LatMs)), coqfmt.N(uint64(cs.SlackMs)),
		obsTerm(cs.Obs), obsTerm(cs.Obs2), coqfmt.Bool(cs.FaultyAfter))
}

// ---- generator

// measureTotals runs one healthy exchange per event and position through the proxy and returns the byte counts.
func measureTotals(c *hx.Ctx, ev api.Event, pos int) ([2]int, error) {
	e, err := newEnv(c.Out)
	if err != nil {
		return [2]int{}, err
	}
	defer e.closeWithin(5 * time.Second)
	var plugs []*plug
	var px *proxy
	defer func() {
		for _, p := range plugs {
			go p.stop()
		}
	}()
	for i := 0; i < 3; i++ {
		p := newPlug(e, fIdx[i], fNames[i], api.ValidEvents)
		sock := e.sock
		if i == pos {
			px, err = newProxy(filepath.Join(e.dir, "px.sock"), e.sock)
			if err != nil {
				return [2]int{}, err
			}
			sock = px.path
		}
		if err := p.startStub(sock); err != nil {
			return [2]int{}, err
		}
		plugs = append(plugs, p)
	}
	if err := e.waitSynced(10*time.Second, plugs...); err != nil {
		return [2]int{}, err
	}
	if err := px.mark(); err != nil {
		return [2]int{}, err
	}
	if res := e.fire(mkRequest(1, ev)); res.Err != "" {
		return [2]int{}, fmt.Errorf("measuring %v: %s", ev, res.Err)
	}
	x := px.measured()
	px.cut()
	return x.Bytes, nil
}

func driveFaults(c *hx.Ctx) error {
	quiet()
	adaptation.SetPluginRequestTimeout(faultT)
	adaptation.SetPluginRegistrationTimeout(3 * time.Second)
	imports := "From NRI Require Import Model.Dispatch Spec.DispatchSpec Run.Common Run.RunDispatch."
	sh := c.NewShard("faults", imports, "fault_case", "corr_fault", "holds_fault", 250)
	r := c.Rand("faults")

	nv := 0
	var specs []faultSpec
	// committed schedules first: the ones that exposed the two isFatalError defects, and boundary shapes
	for _, f := range corpusFiles("C07") {
		var l []struct {
			Ev      int    `json:"event"`
			Pos     int    `json:"pos"`
			Kind    string `json:"kind"`
			Dir     string `json:"dir"`
			Off     int    `json:"off"`
			FromEnd bool   `json:"from_end"`
			Variant string `json:"variant"`
			Repeat  int    `json:"repeat"`
		}
		raw, err := os.ReadFile(f)
		if err == nil {
			err = json.Unmarshal(raw, &l)
		}
		if err != nil {
			c.HarnessError("corpus %s: %v", f, err)
			continue
		}
		for _, k := range l {
			if k.Ev < 1 || k.Ev > 13 || k.Pos < 0 || k.Pos > 2 {
				c.HarnessError("corpus %s: event %d / position %d out of range", f, k.Ev, k.Pos)
				continue
			}
			d := p2r
			if k.Dir == "r2p" {
				d = r2p
			}
			for i := 0; i <= k.Repeat; i++ {
				specs = append(specs, faultSpec{ev: api.Event(k.Ev), pos: k.Pos, kind: k.Kind, dir: d, off: k.Off, fromEnd: k.FromEnd, variant: k.Variant})
			}
			c.Count("faults.corpus", 1+k.Repeat)
		}
	}
	if c.Quick() {
		// every byte offset of the exchange for three (event, position) pairs drawn from the seed
		for k := 0; k < 3; k++ {
			ev, pos := allEvents[r.Intn(len(allEvents))], r.Intn(3)
			tot, err := measureTotals(c, ev, pos)
			if err != nil {
				return err
			}
			for d := 0; d < 2; d++ {
				for nb := 0; nb <= tot[d]; nb++ {
					specs = append(specs, faultSpec{ev: ev, pos: pos, kind: "cut", dir: d, off: nb})
				}
			}
			c.Count("faults.full_offset_sweeps", 1)
		}
	}
	for _, ev := range allEvents {
		for pos := 0; pos < 3; pos++ {
			// cuts
			if c.Quick() {
				for d := 0; d < 2; d++ {
					for _, off := range []int{0, 1, 7, 8, 9, 17, 18, 19} {
						specs = append(specs, faultSpec{ev: ev, pos: pos, kind: "cut", dir: d, off: off})
					}
					for _, off := range []int{-1, 0} {
						specs = append(specs, faultSpec{ev: ev, pos: pos, kind: "cut", dir: d, off: off, fromEnd: true})
					}
				}
			} else {
				tot, err := measureTotals(c, ev, pos)
				if err != nil {
					return err
				}
				for d := 0; d < 2; d++ {
					for nb := 0; nb <= tot[d]; nb++ {
						specs = append(specs, faultSpec{ev: ev, pos: pos, kind: "cut", dir: d, off: nb})
					}
				}
				c.Count("faults.exchange_bytes."+dirName(0), tot[0])
				c.Count("faults.exchange_bytes."+dirName(1), tot[1])
			}
			// trunk ending in the middle of a frame
			for _, v := range []string{"partial-header", "partial-payload"} {
				specs = append(specs, faultSpec{ev: ev, pos: pos, kind: "inject", dir: r2p, off: 0, variant: v})
				specs = append(specs, faultSpec{ev: ev, pos: pos, kind: "inject", dir: r2p, off: 0, fromEnd: true, variant: v})
			}
			specs = append(specs, faultSpec{ev: ev, pos: pos, kind: "inject", dir: r2p, variant: "idle"})
			for _, v := range []string{"before", "before-noticed", "stop-before", "during", "after"} {
				specs = append(specs, faultSpec{ev: ev, pos: pos, kind: "close", variant: v})
			}
			specs = append(specs, faultSpec{ev: ev, pos: pos, kind: "hang", variant: "sleep"})
			specs = append(specs, faultSpec{ev: ev, pos: pos, kind: "hang", variant: "ctx"})
			specs = append(specs, faultSpec{ev: ev, pos: pos, kind: "hang", variant: "reentrant"})
			specs = append(specs, faultSpec{ev: ev, pos: pos, kind: "veto"})
			if c.Quick() {
				// one further kind of handler error per (entry point, position), each kind several times over the run
				nv++
				specs = append(specs, faultSpec{ev: ev, pos: pos, kind: "veto", variant: vetoVariants[1+nv%(len(vetoVariants)-1)]})
			} else {
				for _, v := range vetoVariants[1:] {
					specs = append(specs, faultSpec{ev: ev, pos: pos, kind: "veto", variant: v})
				}
			}
		}
	}
	// a peer that stops reading while a request larger than the socket buffers is written
	// (findings/C07-stalled-reader-blocks-write.md): each case costs the whole bound
	stalls := []faultSpec{
		{ev: api.Event_CREATE_CONTAINER, pos: 1, kind: "stall"},
		{ev: api.Event_UPDATE_CONTAINER, pos: 0, kind: "stall"},
		{ev: api.Event_RUN_POD_SANDBOX, pos: 2, kind: "stall"},
	}
	if !c.Quick() {
		stalls = append(stalls,
			faultSpec{ev: api.Event_STOP_CONTAINER, pos: 2, kind: "stall"},
			faultSpec{ev: api.Event_UPDATE_POD_SANDBOX, pos: 1, kind: "stall"},
			faultSpec{ev: api.Event_REMOVE_CONTAINER, pos: 0, kind: "stall"},
			faultSpec{ev: api.Event_POST_CREATE_CONTAINER, pos: 1, kind: "stall"},
			faultSpec{ev: api.Event_CREATE_CONTAINER, pos: 0, kind: "stall"})
	}
	nStall := len(stalls)
	if tn, _ := strconv.Atoi(os.Getenv("VERIF_FAULT_TIMED")); tn > 0 { // experiments: only the timed mid-frame cuts
		specs = nil
		for i := 0; i < tn; i++ {
			specs = append(specs, faultSpec{ev: allEvents[r.Intn(len(allEvents))], pos: 1 + r.Intn(2), kind: "inject", dir: r2p, off: r.Intn(150), variant: "timed"})
		}
	}
	if rep, _ := strconv.Atoi(os.Getenv("VERIF_FAULT_REPEAT")); rep > 1 { // experiments: repeat the racy schedules
		var more []faultSpec
		for _, s := range specs {
			if s.kind == "inject" || (s.kind == "hang" && s.variant == "ctx") || (s.kind == "close" && s.variant != "after") {
				for i := 1; i < rep; i++ {
					more = append(more, s)
				}
			}
		}
		specs = append(specs, more...)
	}
	r.Shuffle(len(specs), func(i, j int) { specs[i], specs[j] = specs[j], specs[i] })

	// the cases are independent (one Adaptation each); a small pool keeps the hang cases from dominating
	results := make([]*faultCase, len(specs))
	errs := make([]error, len(specs))
	var wg sync.WaitGroup
	ch := make(chan int, len(specs))
	for i := range specs {
		ch <- i
	}
	close(ch)
	workers := 6
	for w := 0; w < workers; w++ {
		wg.Add(1)
		go func() {
			defer wg.Done()
			for i := range ch {
				results[i], errs[i] = runFault(c, i, specs[i])
			}
		}()
	}
	wg.Wait()
	for i, err := range errs {
		if err != nil {
			// one retry alone: set-up problems under load are the harness's, not the implementation's
			results[i], err = runFault(c, i, specs[i])
			if err != nil {
				return err
			}
		}
	}

	// the stalled-reader cases run after the pool, only among themselves: their half-MiB requests to the
	// healthy plugins must not compete with a thousand other cases for the 200 ms time-out
	if os.Getenv("VERIF_FAULT_TIMED") == "" {
		sres := make([]*faultCase, nStall)
		serr := make([]error, nStall)
		par := c.Pick(3, 2) // the thorough tier runs under the race detector
		for lo := 0; lo < nStall; lo += par {
			var sg sync.WaitGroup
			for k := lo; k < lo+par && k < nStall; k++ {
				sg.Add(1)
				go func(k int) {
					defer sg.Done()
					sres[k], serr[k] = runFault(c, len(specs)+k, stalls[k])
				}(k)
			}
			sg.Wait()
		}
		for k := range stalls {
			if serr[k] != nil {
				return serr[k]
			}
			results = append(results, sres[k])
			specs = append(specs, stalls[k])
		}
	}

	// the late-status race of a handler that honours its context (findings/C07-deadline-status-not-fatal.md)
	// is hit in 5-15 % of the trials: keep trying (bounded) so that a tree that has the defect shows it on every run
	hit := func() bool {
		for _, cs := range results {
			if cs.Call != nil && cs.Call.Class == "codes.DeadlineExceeded" {
				return true
			}
		}
		return false
	}
	for round := 0; round < c.Pick(10, 30) && !hit(); round++ {
		const par = 12
		extra := make([]*faultCase, par)
		xspecs := make([]faultSpec, par)
		xerrs := make([]error, par)
		var xg sync.WaitGroup
		for k := 0; k < par; k++ {
			xspecs[k] = faultSpec{ev: allEvents[r.Intn(len(allEvents))], pos: r.Intn(3), kind: "hang", variant: "ctx"}
			xg.Add(1)
			go func(k int) {
				defer xg.Done()
				extra[k], xerrs[k] = runFault(c, len(specs)+k, xspecs[k])
			}(k)
		}
		xg.Wait()
		for k := 0; k < par; k++ {
			if xerrs[k] != nil {
				return xerrs[k]
			}
			results = append(results, extra[k])
			specs = append(specs, xspecs[k])
		}
		c.Count("faults.extra_ctx_hang_trials", par)
	}

	classes := map[string]int{}
	for i, cs := range results {
		why, timingOnly := faultOracle(cs)
		for k := 0; k < 3 && why != "" && (timingOnly || cs.ClockSuspect); k++ {
			// a bound on wall-clock time is never judged on one sample: re-run alone
			again, err := runFault(c, i, specs[i])
			if err != nil {
				return err
			}
			again.Reruns = k + 1
			w2, t2 := faultOracle(again)
			if w2 == "" || !(t2 || again.ClockSuspect) {
				cs, why, timingOnly = again, w2, t2
				results[i] = cs
			}
		}
		if cs.Call != nil && cs.Obs.Err != "" {
			switch {
			case cs.Call.Class == "codes.DeadlineExceeded" && cs.Fault == "hang":
				cs.Signature = map[string]string{"finding": "deadline-status-not-fatal"}
			case cs.Call.Class == "io.ErrUnexpectedEOF" && cs.Fault == "transport":
				cs.Signature = map[string]string{"finding": "unexpected-eof-not-fatal"}
			}
		}
		if cs.Fault == "stall" && cs.ReleasedByCut && cs.ExtraCalls == 0 && strings.HasPrefix(why, "the request was still blocked") {
			// exactly the recorded shape: blocked in the write beyond the bound, served by the others once the connection is cut
			cs.Signature = map[string]string{"finding": "stalled-reader-blocks-write"}
		}
		sh.Add(faultCaseTerm(cs), cs)
		if why != "" {
			c.ImplFail("faults", why+" — "+cs.What, cs)
		}
		if cs.ExtraCalls > 0 {
			c.ImplFail("faults", fmt.Sprintf("%d further calls to plugins failed besides the faulty plugin's", cs.ExtraCalls), cs)
		}
		c.Eval("fault/"+specs[i].String(), true)
		c.Count("faults.kind."+cs.Kind, 1)
		cl := "reply"
		if cs.Call != nil {
			cl = cs.Call.Class
		}
		classes[cs.Kind+"/"+cl]++
		if cs.Fault == "transport" && cs.ReplyComplete {
			c.Count("faults.transport.after_complete_reply", 1)
		}
		if i < 4 {
			c.Sample(map[string]interface{}{"fault": specs[i].String(), "what": cs.What, "call": cs.Call, "latency_ms": cs.LatMs, "tokens": cs.Obs.Tokens}, 8)
		}
	}
	for k, v := range classes {
		c.Count("faults.call_result."+k, v)
	}
	if os.Getenv("VERIF_FAULT_TIMED") == "" {
		if err := driveRegFail(c, imports); err != nil {
			return err
		}
	}
	c.Stats.Exhaustive = !c.Quick()
	c.Stats.Rule = "faults: per case a fresh Adaptation (request time-out 200 ms) with plugins 10-A, 20-B, 30-C; for each of the thirteen entry points x each position of the faulty plugin: trunk cut by the frame-parsing proxy after n bytes in either direction (quick: n in {0,1,7,8,9,17,18,19,end-1,end} = the boundaries of the multiplexer header, the ttrpc header and the message, +-1; thorough: every n of the exchange), trunk ending in the middle of a frame (injected partial frame) at the start/end of the request or while idle, peer close before (unnoticed / noticed / orderly stop), inside the handler and right after the call, handler sleeping 2.5 x the time-out, returning its expired context's error, or issuing an unsolicited update and waiting for it inside the handler (re-entrant), handler returning an error; peer that stops reading while a 512 KiB request is written (recovered by cutting the connection after the bound); each case = probe + faulted + follow-up request; handler errors of ten kinds (errors.New, wrapped, os.ErrInvalid, status errors of seven codes, a wrapped status) — each must veto and leave the plugin registered. regfail: plugins A and C registered, a third one fails in its Synchronize call (error / no answer within the time-out / disconnect); then, each with a bounded wait, a request inside BlockPluginSync()/Unblock(), the registration of a further plugin D and a second request that must reach A, C, D. Every case is non-trivial."
	return nil
}
