package main

// The resync stream: ONE real stub.Stub value registers several times with a real
// adaptation.Adaptation, every time against a state of its own.  Registrations
// that fail after the stub has accepted some chunks flagged More (a later chunk
// cannot be sent even at the minimum chunk size: the runtime gives up and closes
// the plugin, the stub runs close()) are followed by registrations that complete.
// Observed per registration: every Synchronize message the stub received, what the
// runtime's sync call-back was told, every invocation of the plugin's Synchronize
// handler with its arguments, the updates, activation.

import (
	"context"
	"encoding/json"
	"fmt"
	"math/rand"
	"os"
	"path/filepath"
	"strings"
	"sync"
	"time"

	"github.com/containerd/nri/pkg/adaptation"
	"github.com/containerd/nri/pkg/api"
	"github.com/containerd/nri/pkg/stub"
	"github.com/containerd/ttrpc"
	"google.golang.org/protobuf/proto"

	"verif/harness/internal/hx"
)

// idStride separates the ids of the states of successive registrations.
const idStride = 100000

// AttemptSpec is the runtime's state at one registration (paddings, as in Spec).
type AttemptSpec struct {
	Pods    []int    `json:"pods,omitempty"`
	Ctrs    []int    `json:"ctrs,omitempty"`
	PodsRLE [][2]int `json:"pods_rle,omitempty"`
	CtrsRLE [][2]int `json:"ctrs_rle,omitempty"`
}

// ResyncSpec is one case of the resync stream.
type ResyncSpec struct {
	Attempts []*AttemptSpec `json:"attempts"`
	NUpd     int            `json:"nupd"`
}

func (s *ResyncSpec) expand() {
	for _, a := range s.Attempts {
		for _, r := range a.PodsRLE {
			for i := 0; i < r[0]; i++ {
				a.Pods = append(a.Pods, r[1])
			}
		}
		for _, r := range a.CtrsRLE {
			for i := 0; i < r[0]; i++ {
				a.Ctrs = append(a.Ctrs, r[1])
			}
		}
		a.PodsRLE, a.CtrsRLE = nil, nil
	}
}

func (s *ResyncSpec) compact() *ResyncSpec {
	c := &ResyncSpec{NUpd: s.NUpd}
	for _, a := range s.Attempts {
		c.Attempts = append(c.Attempts, &AttemptSpec{PodsRLE: toRLE(a.Pods), CtrsRLE: toRLE(a.Ctrs)})
	}
	return c
}

// HCall is one invocation of the plugin's Synchronize handler.
type HCall struct {
	PodRuns [][2]int `json:"pr"`
	CtrRuns [][2]int `json:"cr"`
}

// AttemptObs is what one registration showed.
type AttemptObs struct {
	Base    int     `json:"base"`
	WP      []int   `json:"wp"`
	WC      []int   `json:"wc"`
	Msgs    []Msg   `json:"msgs"`
	Outcome string  `json:"outcome"` // delivered | failed | livelock | stalled
	SyncErr string  `json:"sync_err,omitempty"`
	Calls   []HCall `json:"calls"`
	GotUpd  []int   `json:"got_upd"`
	Active  bool    `json:"active"`
	// Usable: the runtime's plugin-sync lock was free again after this registration (see Obs.Usable)
	Usable       bool `json:"usable"`
	UsableBoundS int  `json:"usable_bound_s,omitempty"`
	StallS       int  `json:"stall_s,omitempty"`
}

// ResyncObs is what one case showed.
type ResyncObs struct {
	Hdr      int           `json:"hdr"`
	MoreCost int           `json:"more_cost"`
	Limit    int           `json:"limit"`
	Attempts []*AttemptObs `json:"attempts"`
	Millis   int64         `json:"ms"`
	// Planned registrations; fewer were run when one stalled or left the runtime unusable
	Planned int  `json:"planned"`
	Exit    bool `json:"exit,omitempty"` // see Obs.Exit
}

// ---------------------------------------------------------------- worker side

type resyncRec struct {
	sync.Mutex
	last     time.Time
	nupd     int
	bound    int
	cur      *AttemptObs
	livelock bool
	probe    bool
}

func (r *resyncRec) begin(a *AttemptObs, bound int) {
	r.Lock()
	r.cur, r.bound, r.livelock, r.probe = a, bound, false, false
	r.Unlock()
}

type resyncPlugin struct{ rec *resyncRec }

func (p *resyncPlugin) Synchronize(_ context.Context, pods []*api.PodSandbox, ctrs []*api.Container) ([]*api.ContainerUpdate, error) {
	r := p.rec
	r.Lock()
	if r.cur != nil {
		r.cur.Calls = append(r.cur.Calls, HCall{PodRuns: podRuns(pods), CtrRuns: ctrRuns(ctrs)})
	}
	n := r.nupd
	r.Unlock()
	return updates(n), nil
}

func (p *resyncPlugin) RunPodSandbox(_ context.Context, pod *api.PodSandbox) error {
	if pod.GetId() == "probe" {
		p.rec.Lock()
		p.rec.probe = true
		p.rec.Unlock()
	}
	return nil
}

const closeWait = 120 * time.Second

func runResync(dir string, k int, sp *ResyncSpec, stall time.Duration) (*ResyncObs, error) {
	t0 := time.Now()
	out := &ResyncObs{Hdr: hdrLen(), Limit: maxMsgLen(), MoreCost: proto.Size(&api.SynchronizeRequest{More: true}), Planned: len(sp.Attempts)}
	poisoned := false
	sock := filepath.Join(dir, fmt.Sprintf("r%d.sock", k))
	defer os.Remove(sock)

	var (
		stateLock sync.Mutex
		pods      []*api.PodSandbox
		ctrs      []*api.Container
	)
	done := make(chan syncResult, 8)
	syncFn := func(ctx context.Context, cb adaptation.SyncCB) error {
		stateLock.Lock()
		p, c := pods, ctrs
		stateLock.Unlock()
		upd, err := cb(ctx, p, c)
		done <- syncResult{upd, err}
		return err
	}
	updateFn := func(context.Context, []*api.ContainerUpdate) ([]*api.ContainerUpdate, error) { return nil, nil }
	empty := filepath.Join(dir, "empty")
	var rt *adaptation.Adaptation
	startRuntime := func() error {
		r, err := adaptation.New("verif", "1", syncFn, updateFn,
			adaptation.WithSocketPath(sock), adaptation.WithPluginPath(empty), adaptation.WithPluginConfigPath(empty))
		if err != nil {
			return fmt.Errorf("adaptation.New: %w", err)
		}
		if err := r.Start(); err != nil {
			return fmt.Errorf("adaptation.Start: %w", err)
		}
		// the pre-installed (none) plugins were synchronised by Start: drop that result
		select {
		case <-done:
		default:
		}
		rt = r
		return nil
	}
	defer func() {
		if rt != nil && !poisoned {
			rt.Stop()
		}
	}()

	rec := &resyncRec{nupd: sp.NUpd}
	icpt := func(ctx context.Context, unmarshal ttrpc.Unmarshaler, info *ttrpc.UnaryServerInfo, method ttrpc.Method) (interface{}, error) {
		if !strings.HasSuffix(info.FullMethod, "/Synchronize") {
			return method(ctx, unmarshal)
		}
		um := func(i interface{}) error {
			err := unmarshal(i)
			if req, ok := i.(*api.SynchronizeRequest); ok && err == nil {
				rec.Lock()
				rec.last = time.Now()
				over := rec.cur == nil || len(rec.cur.Msgs) >= rec.bound
				if over {
					rec.livelock = true
				} else {
					rec.cur.Msgs = append(rec.cur.Msgs, Msg{PodRuns: podRuns(req.Pods), CtrRuns: ctrRuns(req.Containers),
						NP: len(req.Pods), NC: len(req.Containers), More: req.More, Size: proto.Size(req)})
				}
				rec.Unlock()
				if over {
					return errBound
				}
			}
			return err
		}
		return method(ctx, um)
	}
	closedC := make(chan struct{}, 16)
	// ONE stub value for all registrations of the case
	st, err := stub.New(&resyncPlugin{rec: rec},
		stub.WithSocketPath(sock), stub.WithPluginName("stub"), stub.WithPluginIdx("10"),
		stub.WithOnClose(func() { closedC <- struct{}{} }),
		stub.WithTTRPCOptions(nil, []ttrpc.ServerOpt{ttrpc.WithUnaryServerInterceptor(icpt)}))
	if err != nil {
		return nil, err
	}
	defer func() {
		if !poisoned {
			st.Stop()
		}
	}()
	lastMsg := func() time.Time {
		rec.Lock()
		defer rec.Unlock()
		return rec.last
	}

	for j, as := range sp.Attempts {
		if rt == nil {
			if err := startRuntime(); err != nil {
				return nil, err
			}
		}
		base := (j + 1) * idStride
		ps, cs := buildStateAt(base, as.Pods, as.Ctrs)
		ao := &AttemptObs{Base: base, WP: make([]int, len(ps)), WC: make([]int, len(cs)), Msgs: []Msg{}, Calls: []HCall{}, GotUpd: []int{}}
		for i, p := range ps {
			ao.WP[i] = proto.Size(&api.SynchronizeRequest{Pods: []*api.PodSandbox{p}})
		}
		for i, c := range cs {
			ao.WC[i] = proto.Size(&api.SynchronizeRequest{Containers: []*api.Container{c}})
		}
		stateLock.Lock()
		pods, ctrs = ps, cs
		stateLock.Unlock()
		rec.begin(ao, 2*(len(ps)+len(cs))+1)
		out.Attempts = append(out.Attempts, ao)

		if err := st.Start(context.Background()); err != nil {
			return nil, fmt.Errorf("registration %d: stub start: %w", j+1, err)
		}
		res, stalled := waitSync(done, lastMsg, stall)
		if stalled {
			// the runtime neither synchronised this registration nor failed it (it is still inside
			// synchronize, or an earlier registration left the plugin-sync lock held)
			poisoned = true
			rec.Lock()
			ao.Outcome, ao.StallS = "stalled", int(stall.Seconds())
			rec.cur = nil
			rec.Unlock()
			out.Exit = true
			break
		}
		// registration is finished (plugin appended or dropped) once the sync lock is free again
		ao.Usable, ao.UsableBoundS = syncLockFree(rt)
		ctx, cancel := context.WithTimeout(context.Background(), regTimeout)
		perr := rt.RunPodSandbox(ctx, &api.StateChangeEvent{Pod: &api.PodSandbox{Id: "probe"}})
		cancel()
		if perr != nil {
			return nil, fmt.Errorf("registration %d: probe event: %w", j+1, perr)
		}

		// end of the connection: a failed synchronisation made the runtime close the plugin
		// (the stub's connClosed runs close()); a completed one is ended by the plugin (Stop runs close())
		if res.err == nil {
			st.Stop()
		}
		select {
		case <-closedC:
		case <-time.After(closeWait):
			return nil, fmt.Errorf("registration %d (%v): the stub's onClose was not called within %v", j+1, res.err, closeWait)
		}
		if res.err == nil && rt != nil && j+1 < len(sp.Attempts) {
			// the runtime still lists the plugin that has just stopped; a registration that
			// follows a completed one gets a fresh runtime (the plugin list is C06/C07's subject)
			rt.Stop()
			rt = nil
		}

		rec.Lock()
		ao.Active = rec.probe
		switch {
		case rec.livelock:
			ao.Outcome = "livelock"
		case res.err != nil:
			ao.Outcome = "failed"
			ao.SyncErr = res.err.Error()
		default:
			ao.Outcome = "delivered"
		}
		rec.cur = nil
		rec.Unlock()
		for _, u := range res.upd {
			ao.GotUpd = append(ao.GotUpd, parseID('c', u.GetContainerId()))
		}
		if !ao.Usable {
			// the next registration would block behind the lock: the remaining ones are not run
			break
		}
	}
	out.Millis = time.Since(t0).Milliseconds()
	return out, nil
}

// ---------------------------------------------------------------- driver side

// simSync predicts, for shaping the generator only, how plugin.synchronize splits a state:
// the number of messages accepted and whether the state is delivered.  (The verdicts never
// use it: the Coq model is evaluated on what was observed.)
func simSync(wp, wc []int, hdr, moreCost, limit, min int) (accepted int, delivered bool) {
	accepted, delivered, _ = simSyncR(wp, wc, hdr, moreCost, limit, min)
	return
}

// simSyncR also reports the largest number of consecutive oversize rejections of one message.
func simSyncR(wp, wc []int, hdr, moreCost, limit, min int) (accepted int, delivered bool, worst int) {
	run := 0
	pi, ci := 0, 0
	pp, cp := len(wp), len(wc)
	for iter := 0; iter < 4*(len(wp)+len(wc))+8; iter++ {
		more := len(wp)-pi > pp || len(wc)-ci > cp
		payload := sum(wp[pi:pi+pp]) + sum(wc[ci:ci+cp])
		if more {
			payload += moreCost
		}
		clamp := func() {
			if pp > len(wp)-pi {
				pp = len(wp) - pi
			}
			if cp > len(wc)-ci {
				cp = len(wc) - ci
			}
		}
		if m := msgLen(hdr, payload); m > limit {
			if pp+cp <= min {
				return accepted, false, worst
			}
			if run++; run > worst {
				worst = run
			}
			f := float64(limit) / float64(m)
			if f > 0.9 {
				f = 0.9
			}
			np, nc := int(float64(pp)*f), int(float64(cp)*f)
			if pp > 0 && np == 0 {
				np = 1
			}
			if cp > 0 && nc == 0 {
				nc = 1
			}
			if np+nc < min {
				np, nc = min/2, min/2
			}
			pp, cp = np, nc
			clamp()
			continue
		}
		accepted++
		run = 0
		if !more {
			return accepted, true, worst
		}
		pi, ci = pi+pp, ci+cp
		clamp()
	}
	return accepted, false, worst
}

func attemptWeights(a *AttemptSpec) (wp, wc []int) {
	return weights(&Spec{Pods: a.Pods, Ctrs: a.Ctrs})
}

// genFailing draws a state that is predicted to fail after exactly k accepted chunks
// (k >= 1): small pods and containers first, then containers of which no four fit into one message.
func genFailing(r *rand.Rand, k, hdr, moreCost, min int) *AttemptSpec {
	var last *AttemptSpec
	for try := 0; try < 200; try++ {
		np := r.Intn(6)
		if r.Intn(3) == 0 {
			np = 0
		}
		nsmall := (min/2)*k - r.Intn(2)
		if try > 60 {
			nsmall = 1 + r.Intn(4*k+4)
		}
		if nsmall < 1 {
			nsmall = 1
		}
		nlarge := 8 + r.Intn(14)
		large := 1100000 + r.Intn(1500000)
		a := &AttemptSpec{}
		a.Pods = padList(r, np, func() int { return r.Intn(600) })
		a.Ctrs = padList(r, nsmall, func() int { return r.Intn(2000) })
		for i := 0; i < nlarge; i++ {
			a.Ctrs = append(a.Ctrs, large-r.Intn(50000))
		}
		wp, wc := attemptWeights(a)
		acc, ok := simSync(wp, wc, hdr, moreCost, limitBytes, min)
		if ok || acc == 0 {
			continue
		}
		last = a
		if acc == k {
			return a
		}
	}
	return last
}

// genDelivered draws a transmittable state: empty, a single message, or several messages.
func genDelivered(r *rand.Rand, kind int) *AttemptSpec {
	a := &AttemptSpec{}
	switch kind {
	case 0: // empty state
	case 1: // one message
		a.Pods = padList(r, r.Intn(4), func() int { return r.Intn(800) })
		a.Ctrs = padList(r, 1+r.Intn(9), func() int { return r.Intn(3000) })
	case 2: // no containers at all
		a.Pods = padList(r, 1+r.Intn(5), func() int { return r.Intn(800) })
	default: // several messages: 12..40 containers of 150..520 KiB, every eight fit
		sz := 150000 + r.Intn(370000)
		a.Pods = padList(r, r.Intn(5), func() int { return r.Intn(800) })
		a.Ctrs = padList(r, 12+r.Intn(29), func() int { return sz - r.Intn(sz/8) })
	}
	return a
}

func generateResync(c *hx.Ctx, min int) []tagged {
	var out []tagged
	r := c.Rand("sync.resync")
	hdr := hdrLen()
	moreCost := proto.Size(&api.SynchronizeRequest{More: true})
	n := c.Pick(24, 300)
	for i := 0; i < n; i++ {
		rs := &ResyncSpec{NUpd: r.Intn(3)}
		// the first cases walk through k = 1, 2, 3 accepted chunks and the kinds of the state that follows
		nfail := 1
		if i >= 6 {
			nfail = 1 + r.Intn(3)
		}
		if i >= 6 && r.Intn(8) == 0 {
			// a completed registration first: Stop, then restart
			rs.Attempts = append(rs.Attempts, genDelivered(r, 1+r.Intn(3)))
		}
		for f := 0; f < nfail; f++ {
			k := 1 + (i+f)%3
			a := genFailing(r, k, hdr, moreCost, min)
			if a == nil {
				c.HarnessError("resync: no failing state with accepted chunks found for k=%d", k)
				continue
			}
			rs.Attempts = append(rs.Attempts, a)
		}
		kind := []int{1, 3, 0, 1, 3, 2}[i%6]
		if i >= 6 {
			kind = r.Intn(4)
		}
		rs.Attempts = append(rs.Attempts, genDelivered(r, kind))
		if r.Intn(4) == 0 {
			rs.Attempts = append(rs.Attempts, genDelivered(r, r.Intn(4)))
		}
		out = append(out, tagged{"resync", &Spec{Name: fmt.Sprintf("resync/%d", i), Plugin: "stub", Script: "good", Resync: rs}})
	}
	return out
}

func loadResyncCorpus(c *hx.Ctx) []tagged {
	var out []tagged
	files, _ := filepath.Glob(filepath.Join(corpusDir(), "resync", "*.json"))
	for _, f := range files {
		raw, err := os.ReadFile(f)
		if err != nil {
			c.HarnessError("corpus %s: %v", f, err)
			continue
		}
		var list []struct {
			Name string `json:"name"`
			ResyncSpec
		}
		if err := json.Unmarshal(raw, &list); err != nil {
			c.HarnessError("corpus %s: %v", f, err)
			continue
		}
		for i := range list {
			rs := list[i].ResyncSpec
			rs.expand()
			name := list[i].Name
			if name == "" {
				name = fmt.Sprintf("resync/%s#%d", filepath.Base(f), i)
			}
			out = append(out, tagged{"resync", &Spec{Name: name, Plugin: "stub", Script: "good", Resync: &rs}})
		}
	}
	return out
}

func sameRuns(runs [][2]int, base, n int) bool {
	ids := expandRuns(runs)
	if len(ids) != n {
		return false
	}
	for i, v := range ids {
		if v != base+i {
			return false
		}
	}
	return true
}

// resyncOracle is holds_resync of Run/RunSyncSplit.v evaluated in Go.
func resyncOracle(o *ResyncObs, nupd, min int) []string {
	var bad []string
	for j, a := range o.Attempts {
		np, nc := len(a.WP), len(a.WC)
		pre := fmt.Sprintf("registration %d of %d: ", j+1, len(o.Attempts))
		// what this connection's own messages owe the handler
		var owedP, owedC []int
		final := false
		for _, m := range a.Msgs {
			if final {
				break
			}
			owedP = append(owedP, expandRuns(m.PodRuns)...)
			owedC = append(owedC, expandRuns(m.CtrRuns)...)
			final = !m.More
		}
		switch {
		case !final && len(a.Calls) != 0:
			bad = append(bad, pre+fmt.Sprintf("the Synchronize handler was invoked %d times although the last message never arrived", len(a.Calls)))
		case final && len(a.Calls) != 1:
			bad = append(bad, pre+fmt.Sprintf("the Synchronize handler was invoked %d times for one completed request", len(a.Calls)))
		case final:
			gp, gc := expandRuns(a.Calls[0].PodRuns), expandRuns(a.Calls[0].CtrRuns)
			if fmt.Sprint(gp) != fmt.Sprint(owedP) || fmt.Sprint(gc) != fmt.Sprint(owedC) {
				bad = append(bad, pre+fmt.Sprintf("the Synchronize handler was handed %d pods and %d containers, the messages of this connection carried %d and %d (objects of an earlier connection?)",
					len(gp), len(gc), len(owedP), len(owedC)))
			}
		}
		if !a.Usable && (a.Outcome == "delivered" || a.Outcome == "failed") {
			bad = append(bad, pre+fmt.Sprintf("after the registration (%s) the runtime's plugin-sync lock was not released: BlockPluginSync() still blocked after %d s, the next registration cannot proceed", a.Outcome, a.UsableBoundS))
		}
		switch a.Outcome {
		case "stalled":
			bad = append(bad, pre+fmt.Sprintf("neither completed nor failed: after %d accepted message(s) the runtime sent nothing and reported nothing for %d s", len(a.Msgs), a.StallS))
		case "delivered":
			var ps, cs [][2]int
			for i, m := range a.Msgs {
				ps = append(ps, m.PodRuns...)
				cs = append(cs, m.CtrRuns...)
				if m.More != (i < len(a.Msgs)-1) {
					bad = append(bad, pre+fmt.Sprintf("message %d of %d has More=%v", i+1, len(a.Msgs), m.More))
				}
			}
			if len(a.Msgs) == 0 {
				bad = append(bad, pre+"synchronisation succeeded without any message")
			}
			if !sameRuns(ps, a.Base, np) || !sameRuns(cs, a.Base, nc) {
				bad = append(bad, pre+"the objects received are not exactly the supplied ones, once, in order")
			}
			if len(a.Calls) != 1 {
				bad = append(bad, pre+fmt.Sprintf("the Synchronize handler was invoked %d times", len(a.Calls)))
			} else if !sameRuns(a.Calls[0].PodRuns, a.Base, np) || !sameRuns(a.Calls[0].CtrRuns, a.Base, nc) {
				bad = append(bad, pre+fmt.Sprintf("the Synchronize handler was not handed exactly the state of this registration: got pods %v containers %v, supplied %d pods and %d containers from id %d",
					a.Calls[0].PodRuns, a.Calls[0].CtrRuns, np, nc, a.Base))
			}
			if !isSeq(a.GotUpd, nupd) {
				bad = append(bad, pre+fmt.Sprintf("the runtime received updates %v, the plugin returned %d", a.GotUpd, nupd))
			}
		case "failed":
			if len(a.Calls) != 0 {
				bad = append(bad, pre+"the Synchronize handler was invoked although the registration failed")
			}
			if a.Active {
				bad = append(bad, pre+"the plugin is active although its synchronisation failed")
			}
			if minChunksFit(o.Hdr, o.MoreCost, o.Limit, min, a.WP, a.WC) {
				bad = append(bad, pre+"synchronisation failed although every minimum chunk fits into one message: "+a.SyncErr)
			}
		case "livelock":
			bad = append(bad, pre+fmt.Sprintf("more than %d Synchronize messages for %d objects (the proved bound)", 2*(np+nc)+1, np+nc))
		default:
			bad = append(bad, pre+"unknown outcome "+a.Outcome)
		}
	}
	return bad
}

func coqCalls(l []HCall) string {
	if len(l) == 0 {
		return "[]"
	}
	var parts []string
	for _, h := range l {
		parts = append(parts, fmt.Sprintf("(%s, %s)", zpairs(h.PodRuns), zpairs(h.CtrRuns)))
	}
	return "[" + strings.Join(parts, "; ") + "]"
}

func coqMsgs(l []Msg) string {
	if len(l) == 0 {
		return "[]"
	}
	var msgs []string
	for _, m := range l {
		msgs = append(msgs, fmt.Sprintf("(%s, %s, %s, %d%%Z)", zpairs(m.PodRuns), zpairs(m.CtrRuns), coqBool(m.More), m.Size))
	}
	return "[" + strings.Join(msgs, "; ") + "]"
}

func coqResync(sp *ResyncSpec, o *ResyncObs) string {
	var as []string
	for _, a := range o.Attempts {
		oc := "OOther"
		switch a.Outcome {
		case "delivered":
			oc = "ODelivered"
		case "failed":
			oc = "OFailed"
		case "stalled":
			oc = "OStalled"
		}
		as = append(as, fmt.Sprintf("{| at_base := %d%%Z; at_wp := %s; at_wc := %s; at_msgs := %s; at_outcome := %s; at_calls := %s; at_upd := %s; at_active := %s; at_usable := %s |}",
			a.Base, zweights(a.WP), zweights(a.WC), coqMsgs(a.Msgs), oc, coqCalls(a.Calls), zlist(a.GotUpd), coqBool(a.Active), coqBool(a.Usable)))
	}
	return fmt.Sprintf("{| rs_hdr := %d%%Z; rs_more := %d%%Z; rs_limit := %d%%Z; rs_nupd := %d%%Z; rs_attempts := [%s] |}",
		o.Hdr, o.MoreCost, o.Limit, sp.NUpd, strings.Join(as, "; "))
}

// resyncTotals are the counters the driver checks after the stream.
type resyncTotals struct {
	cases, staleThenDelivered int
}

// handleResync judges and records one case of the resync stream.
func handleResync(c *hx.Ctx, t tagged, rs result, min int, sh **hx.Shard, tot *resyncTotals) {
	sp := t.sp
	if rs.robs == nil {
		// the worker died or hung: nothing was measured
		what := "resync: the worker produced no observation"
		if rs.obs != nil && rs.obs.Outcome == "crashed" {
			what = "the runtime process crashed during a re-registration: " + firstLine(rs.obs.Crash)
		} else if rs.obs != nil && rs.obs.Outcome == "stalled" {
			what = fmt.Sprintf("a re-registration neither completed nor failed and the worker no longer answered (%d s)", rs.obs.StallS)
		}
		c.ImplFail(t.stream, what, map[string]interface{}{"stream": t.stream, "name": sp.Name, "spec": sp.Resync.compact()})
		c.Eval(sp.Name, true)
		return
	}
	o := rs.robs
	type rawAttempt struct {
		Base    int      `json:"base"`
		Outcome string   `json:"outcome"`
		SyncErr string   `json:"sync_err,omitempty"`
		Msgs    []Msg    `json:"msgs"`
		Calls   []HCall  `json:"handler_calls"`
		GotUpd  []int    `json:"got_upd"`
		Active  bool     `json:"active"`
		Usable  bool     `json:"usable"`
		WPRLE   [][2]int `json:"wp_rle"`
		WCRLE   [][2]int `json:"wc_rle"`
	}
	var ras []rawAttempt
	for _, a := range o.Attempts {
		ras = append(ras, rawAttempt{a.Base, a.Outcome, a.SyncErr, a.Msgs, a.Calls, a.GotUpd, a.Active, a.Usable, toRLE(a.WP), toRLE(a.WC)})
	}
	raw := map[string]interface{}{"stream": t.stream, "name": sp.Name, "spec": sp.Resync.compact(), "registrations": ras, "registrations_planned": o.Planned}
	for _, what := range resyncOracle(o, sp.Resync.NUpd, min) {
		c.ImplFail(t.stream, what, raw)
	}
	// non-trivial: a registration that failed after the stub had accepted chunks is followed by one that completed
	stale, nontrivial := false, false
	for _, a := range o.Attempts {
		c.Count("resync.registration."+a.Outcome, 1)
		switch a.Outcome {
		case "failed":
			c.Count(fmt.Sprintf("resync.failed_after_chunks.%d", len(a.Msgs)), 1)
			if len(a.Msgs) > 0 {
				stale = true
			}
		case "delivered":
			c.Count("resync.delivered_messages."+msgBucket(len(a.Msgs)), 1)
			if stale {
				nontrivial = true
			}
		}
	}
	tot.cases++
	if nontrivial {
		tot.staleThenDelivered++
	}
	c.Eval(sp.Name, nontrivial)
	c.Count("stream."+t.stream, 1)
	c.Count(fmt.Sprintf("resync.registrations_per_case.%d", len(o.Attempts)), 1)
	if *sh == nil {
		*sh = c.NewShard(t.stream, imports, "resync_case", "corr_resync", "holds_resync", 40)
	}
	(*sh).Add(coqResync(sp.Resync, o), raw)
	if nontrivial && tot.staleThenDelivered <= 2 {
		var shape []interface{}
		for _, a := range o.Attempts {
			shape = append(shape, map[string]interface{}{"outcome": a.Outcome, "objects": len(a.WP) + len(a.WC), "messages": len(a.Msgs), "handler_calls": len(a.Calls)})
		}
		c.Sample(map[string]interface{}{"stream": "resync", "registrations": shape}, 8)
	}
}
