package main

// Building blocks of the generated plugin types (plugins_gen.go): one mixin per handler
// interface of pkg/stub.  Every mixin method records which method ran and the tokens of the
// arguments it was handed, and returns what the driver scripted for that method.

import (
	"context"
	"errors"
	"fmt"
	"strings"
	"sync"

	"github.com/containerd/nri/pkg/api"
)

// hres is what a plugin method is scripted to return: tokens standing for the adjustment and
// the updates, and the error text ("" = nil error).
type hres struct {
	Adjust string `json:"adjust"`
	Update string `json:"update"`
	Err    string `json:"err"`
}

type invocation struct {
	Method string   `json:"method"`
	Args   []string `json:"args"`
}

type pluginType struct {
	mask int  // bit i = implements handler i (order of handlerDefs = Model.Stub.hindex)
	hook bool // implements ConfigureInterface
	kind string
	mk   func(*core) interface{}
}

// core is the state shared by the mixins of one plugin value.
type core struct {
	mu       sync.Mutex
	inv      []invocation
	beh      map[string]hres
	cfgFail  string // non-empty: the Configure hook fails with this text
	cfgMask  int32
	cfgCalls int
	// the update list the plugin method handed to the stub last, kept by the plugin, and the ids it had then:
	// the stub must not rewrite a slice that belongs to the plugin
	keptUpd    []*api.ContainerUpdate
	keptUpdIDs []string
}

// updates builds the update list a method returns and keeps a reference to it.
func (c *core) updates(tok string) []*api.ContainerUpdate {
	u := mkUpdates(tok)
	c.mu.Lock()
	c.keptUpd = u
	c.keptUpdIDs = nil
	for _, x := range u {
		c.keptUpdIDs = append(c.keptUpdIDs, x.ContainerId)
	}
	c.mu.Unlock()
	return u
}

// keptIntact: the kept list still names the same containers in the same order ("" = yes, else a description).
func (c *core) keptIntact() string {
	c.mu.Lock()
	defer c.mu.Unlock()
	now := updatesTok(c.keptUpd)
	was := strings.Join(c.keptUpdIDs, "+")
	c.keptUpd, c.keptUpdIDs = nil, nil
	if now != was {
		return "the plugin's own update list was [" + was + "] when returned and is [" + now + "] after the call"
	}
	return ""
}

func (c *core) record(method string, args ...string) hres {
	c.mu.Lock()
	defer c.mu.Unlock()
	c.inv = append(c.inv, invocation{Method: method, Args: args})
	return c.beh[method]
}

func (c *core) script(beh map[string]hres) {
	c.mu.Lock()
	c.beh = beh
	c.inv = nil
	c.mu.Unlock()
}

func (c *core) taken() []invocation {
	c.mu.Lock()
	defer c.mu.Unlock()
	out := c.inv
	c.inv = nil
	return out
}

// ---- payload tokens ---------------------------------------------------------------------

func mkPod(tok string) *api.PodSandbox {
	if tok == "" {
		return nil
	}
	// the pod carries resources and overhead of its own: a stub must not hand those to a handler in place of
	// a section the message does not have
	return &api.PodSandbox{Id: tok, Name: "n-" + tok,
		Linux: &api.LinuxPodSandbox{PodOverhead: mkRes("pod-overhead-of-" + tok), PodResources: mkRes("pod-resources-of-" + tok)}}
}

func mkCtr(tok string) *api.Container {
	if tok == "" {
		return nil
	}
	return &api.Container{Id: tok, Name: "n-" + tok}
}

// a resource set is identified by the unified-hierarchy entry "tok"
func mkRes(tok string) *api.LinuxResources {
	if tok == "" {
		return nil
	}
	return &api.LinuxResources{Unified: map[string]string{"tok": tok}}
}

func podTok(p *api.PodSandbox) string {
	if p == nil {
		return ""
	}
	if p.Name != "n-"+p.Id {
		return "corrupt-pod:" + p.Id
	}
	return p.Id
}

func ctrTok(c *api.Container) string {
	if c == nil {
		return ""
	}
	if c.Name != "n-"+c.Id {
		return "corrupt-ctr:" + c.Id
	}
	return c.Id
}

func resTok(r *api.LinuxResources) string {
	if r == nil {
		return ""
	}
	if t, ok := r.Unified["tok"]; ok && len(r.Unified) == 1 {
		return t
	}
	return fmt.Sprintf("corrupt-res:%v", r.Unified)
}

func mkAdjust(tok string) *api.ContainerAdjustment {
	if tok == "" {
		return nil
	}
	return &api.ContainerAdjustment{Annotations: map[string]string{"tok": tok}}
}

func adjustTok(a *api.ContainerAdjustment) string {
	if a == nil {
		return ""
	}
	if t, ok := a.Annotations["tok"]; ok && len(a.Annotations) == 1 {
		return t
	}
	return fmt.Sprintf("corrupt-adjust:%v", a.Annotations)
}

// updates: the token is split at '+' into one update per part
func mkUpdates(tok string) []*api.ContainerUpdate {
	if tok == "" {
		return nil
	}
	var out []*api.ContainerUpdate
	for _, p := range strings.Split(tok, "+") {
		out = append(out, &api.ContainerUpdate{ContainerId: p})
	}
	return out
}

func updatesTok(u []*api.ContainerUpdate) string {
	var parts []string
	for _, x := range u {
		if x == nil {
			parts = append(parts, "nil")
		} else {
			parts = append(parts, x.ContainerId)
		}
	}
	return strings.Join(parts, "+")
}

func errOf(r hres) error {
	if r.Err == "" {
		return nil
	}
	return errors.New(r.Err)
}

// ---- mixins -----------------------------------------------------------------------------

type mNothing struct{ c *core }

type mConfigure struct{ c *core }

func (m mConfigure) Configure(ctx context.Context, config, runtime, version string) (api.EventMask, error) {
	m.c.mu.Lock()
	defer m.c.mu.Unlock()
	m.c.cfgCalls++
	if m.c.cfgFail != "" {
		return 0, errors.New(m.c.cfgFail)
	}
	return api.EventMask(m.c.cfgMask), nil
}

type mRunPodSandbox struct{ c *core }

func (m mRunPodSandbox) RunPodSandbox(ctx context.Context, pod *api.PodSandbox) error {
	return errOf(m.c.record("RunPodSandbox", podTok(pod)))
}

type mUpdatePodSandbox struct{ c *core }

func (m mUpdatePodSandbox) UpdatePodSandbox(ctx context.Context, pod *api.PodSandbox, overhead, res *api.LinuxResources) error {
	return errOf(m.c.record("UpdatePodSandbox", podTok(pod), resTok(overhead), resTok(res)))
}

type mStopPodSandbox struct{ c *core }

func (m mStopPodSandbox) StopPodSandbox(ctx context.Context, pod *api.PodSandbox) error {
	return errOf(m.c.record("StopPodSandbox", podTok(pod)))
}

type mRemovePodSandbox struct{ c *core }

func (m mRemovePodSandbox) RemovePodSandbox(ctx context.Context, pod *api.PodSandbox) error {
	return errOf(m.c.record("RemovePodSandbox", podTok(pod)))
}

type mPostUpdatePodSandbox struct{ c *core }

func (m mPostUpdatePodSandbox) PostUpdatePodSandbox(ctx context.Context, pod *api.PodSandbox) error {
	return errOf(m.c.record("PostUpdatePodSandbox", podTok(pod)))
}

type mCreateContainer struct{ c *core }

func (m mCreateContainer) CreateContainer(ctx context.Context, pod *api.PodSandbox, ctr *api.Container) (*api.ContainerAdjustment, []*api.ContainerUpdate, error) {
	r := m.c.record("CreateContainer", podTok(pod), ctrTok(ctr))
	return mkAdjust(r.Adjust), m.c.updates(r.Update), errOf(r)
}

type mStartContainer struct{ c *core }

func (m mStartContainer) StartContainer(ctx context.Context, pod *api.PodSandbox, ctr *api.Container) error {
	return errOf(m.c.record("StartContainer", podTok(pod), ctrTok(ctr)))
}

type mUpdateContainer struct{ c *core }

func (m mUpdateContainer) UpdateContainer(ctx context.Context, pod *api.PodSandbox, ctr *api.Container, res *api.LinuxResources) ([]*api.ContainerUpdate, error) {
	r := m.c.record("UpdateContainer", podTok(pod), ctrTok(ctr), resTok(res))
	return m.c.updates(r.Update), errOf(r)
}

type mStopContainer struct{ c *core }

func (m mStopContainer) StopContainer(ctx context.Context, pod *api.PodSandbox, ctr *api.Container) ([]*api.ContainerUpdate, error) {
	r := m.c.record("StopContainer", podTok(pod), ctrTok(ctr))
	return m.c.updates(r.Update), errOf(r)
}

type mRemoveContainer struct{ c *core }

func (m mRemoveContainer) RemoveContainer(ctx context.Context, pod *api.PodSandbox, ctr *api.Container) error {
	return errOf(m.c.record("RemoveContainer", podTok(pod), ctrTok(ctr)))
}

type mPostCreateContainer struct{ c *core }

func (m mPostCreateContainer) PostCreateContainer(ctx context.Context, pod *api.PodSandbox, ctr *api.Container) error {
	return errOf(m.c.record("PostCreateContainer", podTok(pod), ctrTok(ctr)))
}

type mPostStartContainer struct{ c *core }

func (m mPostStartContainer) PostStartContainer(ctx context.Context, pod *api.PodSandbox, ctr *api.Container) error {
	return errOf(m.c.record("PostStartContainer", podTok(pod), ctrTok(ctr)))
}

type mPostUpdateContainer struct{ c *core }

func (m mPostUpdateContainer) PostUpdateContainer(ctx context.Context, pod *api.PodSandbox, ctr *api.Container) error {
	return errOf(m.c.record("PostUpdateContainer", podTok(pod), ctrTok(ctr)))
}
