// h_launch holds the drivers of C18 (pre-installed plugins: discovery, launch, environment,
// descriptors, drop-in configuration, invocation order, reaping) and C20 (the sample
// injector plugins), both run against the REAL code: a real adaptation.Adaptation that
// launches real plugin processes.
package main

import (
	"fmt"
	"os"
	"os/exec"
	"path/filepath"
	"strconv"
	"strings"
	"syscall"
	"time"

	"verif/harness/internal/hx"
)

func main() {
	hx.Main(map[string]func(*hx.Ctx) error{"launch": driveLaunch, "injectors": driveInjectors})
}

// verifDir is the root of the verification tree this binary was built from
// (<verif>/build/h_launch).
func verifDir() string {
	if d := os.Getenv("VERIF_DIR"); d != "" {
		return d
	}
	exe, err := os.Executable()
	if err != nil {
		return "/verif"
	}
	return filepath.Dir(filepath.Dir(exe))
}

func goEnv() []string {
	env := []string{}
	for _, kv := range os.Environ() {
		env = append(env, kv)
	}
	return append(env, "GOFLAGS=-mod=mod", "GOPROXY=off", "GOSUMDB=off", "GOTOOLCHAIN=local", "CGO_ENABLED=0")
}

// goBuild runs `go build -o out .`/pkg in dir.  Builds inside the harness module take the
// same lock as lib/vcheck.py's build_go (which rewrites harness/go.sum).
func goBuild(dir, out, pkg string, lock bool, tags string) error {
	if lock {
		lf, err := os.OpenFile(filepath.Join(verifDir(), "build", "go.lock"), os.O_RDWR|os.O_CREATE, 0o644)
		if err == nil {
			defer lf.Close()
			if err := syscall.Flock(int(lf.Fd()), syscall.LOCK_EX); err == nil {
				defer syscall.Flock(int(lf.Fd()), syscall.LOCK_UN)
			}
		}
	}
	args := []string{"build"}
	if tags != "" {
		args = append(args, "-tags", tags)
	}
	args = append(args, "-o", out, pkg)
	cmd := exec.Command("go", args...)
	cmd.Dir = dir
	cmd.Env = goEnv()
	t0 := time.Now()
	log, err := cmd.CombinedOutput()
	if err != nil {
		return fmt.Errorf("go build in %s failed after %v: %v\n%s", dir, time.Since(t0), err, log)
	}
	return nil
}

// runGo runs the go tool in dir with the given environment.
func runGo(dir string, env []string, args ...string) error {
	cmd := exec.Command("go", args...)
	cmd.Dir = dir
	cmd.Env = env
	t0 := time.Now()
	log, err := cmd.CombinedOutput()
	if err != nil {
		return fmt.Errorf("go %v in %s failed after %v: %v\n%s", args, dir, time.Since(t0), err, log)
	}
	return nil
}

// procState returns the state letter of /proc/<pid>/stat of a child of this process ("" when
// the process is gone, or when the pid now belongs to somebody else's process: the plugins are
// launched by the Adaptation running inside this process, so they are its children).
func procState(pid int) string {
	b, err := os.ReadFile(fmt.Sprintf("/proc/%d/stat", pid))
	if err != nil {
		return ""
	}
	// pid (comm) S ppid ...   — comm may contain spaces and parentheses: use the last ')'
	s := string(b)
	for i := len(s) - 1; i >= 0; i-- {
		if s[i] == ')' {
			f := strings.Fields(s[i+1:])
			if len(f) >= 2 {
				if ppid, err := strconv.Atoi(f[1]); err == nil && ppid != os.Getpid() {
					return "" // a recycled pid
				}
				return f[0][:1]
			}
			break
		}
	}
	return "?"
}

// ownSockets returns the inode links ("socket:[n]") of the sockets open in this process that are not in
// the set given (nil = all of them).
func ownSockets(except map[string]bool) map[string]bool {
	out := map[string]bool{}
	ents, err := os.ReadDir("/proc/self/fd")
	if err != nil {
		return out
	}
	for _, e := range ents {
		l, err := os.Readlink("/proc/self/fd/" + e.Name())
		if err == nil && strings.HasPrefix(l, "socket:") && !except[l] {
			out[l] = true
		}
	}
	return out
}

// waitFile polls until the file exists, at most for d.
func waitFile(path string, d time.Duration) bool {
	deadline := time.Now().Add(d)
	for {
		if _, err := os.Stat(path); err == nil {
			return true
		}
		if time.Now().After(deadline) {
			return false
		}
		time.Sleep(2 * time.Millisecond)
	}
}

// notRunning: gone or a zombie (dead, not yet waited for).
func notRunning(state string) bool { return state == "" || state == "Z" || state == "X" }

// waitNotRunning polls until the process is gone or a zombie, at most for d.
func waitNotRunning(pid int, d time.Duration) string {
	deadline := time.Now().Add(d)
	for {
		st := procState(pid)
		if notRunning(st) || time.Now().After(deadline) {
			return st
		}
		time.Sleep(2 * time.Millisecond)
	}
}

// waitGone polls until the process has been reaped, at most for d.
func waitGone(pid int, d time.Duration) string {
	deadline := time.Now().Add(d)
	for {
		st := procState(pid)
		if st == "" || time.Now().After(deadline) {
			return st
		}
		time.Sleep(2 * time.Millisecond)
	}
}
