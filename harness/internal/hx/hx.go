// Package hx is the shared skeleton of the correspondence drivers: seeded PRNG
// streams, Coq case-file shards, statistics and samples for the evidence.
package hx

import (
	"encoding/json"
	"flag"
	"fmt"
	"hash/fnv"
	"math/rand"
	"os"
	"path/filepath"
	"sort"
	"strings"
	"sync"
)

// Ctx is handed to every driver.
type Ctx struct {
	Seed   int64
	Tier   string // quick | thorough
	Out    string // output directory
	Repo   string
	Replay string // optional replay file

	mu     sync.Mutex
	shards []*Shard
	Stats  Stats
}

// Stats is written to stats.json and ends up in the evidence file.
type Stats struct {
	Evaluations        int                    `json:"evaluations"`
	DistinctNontrivial int                    `json:"distinct_nontrivial"`
	Rule               string                 `json:"rule"`
	Samples            []interface{}          `json:"samples"`
	Distribution       map[string]int         `json:"distribution"`
	Exhaustive         bool                   `json:"exhaustive"`
	ImplFailures       []ImplFailure          `json:"impl_failures"`
	HarnessErrors      []string               `json:"harness_errors"`
	Extra              map[string]interface{} `json:"extra,omitempty"`
	Shards             []ShardInfo            `json:"shards"`
	distinct           map[string]struct{}
}

// ImplFailure is a failure of the property's predicate found by evaluating an
// oracle on the implementation's behaviour directly in Go.
type ImplFailure struct {
	Stream string      `json:"stream"`
	What   string      `json:"what"`
	Case   interface{} `json:"case"`
}

// ShardInfo describes one cases file.
type ShardInfo struct {
	File   string   `json:"file"`
	Stream string   `json:"stream"`
	Cases  int      `json:"cases"`
	JSON   string   `json:"json"`
	Preds  []string `json:"preds,omitempty"` // verdict shards: names of the predicates, in order
}

// Rand returns the PRNG of a named stream, derived from the one seed.
func (c *Ctx) Rand(stream string) *rand.Rand {
	h := fnv.New64a()
	fmt.Fprintf(h, "%d/%s", c.Seed, stream)
	return rand.New(rand.NewSource(int64(h.Sum64())))
}

// Quick reports whether the quick tier is running.
func (c *Ctx) Quick() bool { return c.Tier != "thorough" }

// Pick returns q in the quick tier and t in the thorough tier.
func (c *Ctx) Pick(q, t int) int {
	if c.Quick() {
		return q
	}
	return t
}

// Count increments a distribution counter.
func (c *Ctx) Count(key string, n int) {
	c.mu.Lock()
	defer c.mu.Unlock()
	if c.Stats.Distribution == nil {
		c.Stats.Distribution = map[string]int{}
	}
	c.Stats.Distribution[key] += n
}

// Eval records one evaluated case; key identifies it for distinctness and
// nontrivial says whether it exercised the property's distinguishing shape.
func (c *Ctx) Eval(key string, nontrivial bool) {
	c.mu.Lock()
	defer c.mu.Unlock()
	c.Stats.Evaluations++
	if !nontrivial {
		return
	}
	if c.Stats.distinct == nil {
		c.Stats.distinct = map[string]struct{}{}
	}
	if _, ok := c.Stats.distinct[key]; !ok {
		c.Stats.distinct[key] = struct{}{}
		c.Stats.DistinctNontrivial++
	}
}

// Sample keeps up to max samples for the evidence.
func (c *Ctx) Sample(v interface{}, max int) {
	c.mu.Lock()
	defer c.mu.Unlock()
	if len(c.Stats.Samples) < max {
		c.Stats.Samples = append(c.Stats.Samples, v)
	}
}

// ImplFail records an implementation-side oracle failure.
func (c *Ctx) ImplFail(stream, what string, cs interface{}) {
	c.mu.Lock()
	defer c.mu.Unlock()
	if len(c.Stats.ImplFailures) < 50 {
		c.Stats.ImplFailures = append(c.Stats.ImplFailures, ImplFailure{Stream: stream, What: what, Case: cs})
	}
}

// HarnessError records a failure of the machinery itself.
func (c *Ctx) HarnessError(format string, args ...interface{}) {
	c.mu.Lock()
	defer c.mu.Unlock()
	c.Stats.HarnessErrors = append(c.Stats.HarnessErrors, fmt.Sprintf(format, args...))
}

// Shard accumulates the cases of one Coq file.
type Shard struct {
	ctx     *Ctx
	stream  string
	imports string
	typ     string
	corr    string
	holds   string
	verdict string
	preds   []string
	max     int
	n       int
	k       int
	terms   []string
	raws    []interface{}
}

// NewShard starts a stream of cases of Coq type typ, checked by the boolean
// functions corr and holds (holds may be empty) from the module imports.
func (c *Ctx) NewShard(stream, imports, typ, corr, holds string, max int) *Shard {
	s := &Shard{ctx: c, stream: stream, imports: imports, typ: typ, corr: corr, holds: holds, max: max}
	c.mu.Lock()
	c.shards = append(c.shards, s)
	c.mu.Unlock()
	return s
}

// NewShardV starts a stream whose cases are judged by ONE Coq function verdict : typ -> list bool that
// computes the shared part once; preds names the booleans in order.  Names starting with "corr" are
// correspondences, names starting with "holds" are property predicates (selected per property by the
// "holds_preds" key of props/<ID>.json).
func (c *Ctx) NewShardV(stream, imports, typ, verdict string, preds []string, max int) *Shard {
	s := &Shard{ctx: c, stream: stream, imports: imports, typ: typ, verdict: verdict, preds: preds, max: max}
	c.mu.Lock()
	c.shards = append(c.shards, s)
	c.mu.Unlock()
	return s
}

// Add appends a case: its Coq term and its raw form (for replay files).
func (s *Shard) Add(term string, raw interface{}) {
	s.terms = append(s.terms, term)
	s.raws = append(s.raws, raw)
	if len(s.terms) >= s.max {
		s.Flush()
	}
}

// Flush writes the pending cases as one file.
func (s *Shard) Flush() {
	if len(s.terms) == 0 {
		return
	}
	name := fmt.Sprintf("cases_%s_%03d", s.stream, s.k)
	s.k++
	var b strings.Builder
	b.WriteString("From Coq Require Import String List Bool ZArith NArith.\n")
	b.WriteString(s.imports + "\n")
	b.WriteString("Import ListNotations.\nOpen Scope string_scope.\nOpen Scope list_scope.\n")
	fmt.Fprintf(&b, "Definition cases : list %s := [\n", s.typ)
	for i, t := range s.terms {
		sep := ";"
		if i == len(s.terms)-1 {
			sep = ""
		}
		fmt.Fprintf(&b, "  %s%s\n", t, sep)
	}
	b.WriteString("].\n")
	if s.verdict != "" {
		fmt.Fprintf(&b, "Definition verdicts := Eval vm_compute in map %s cases.\n", s.verdict)
		b.WriteString("Set Printing Width 1000000.\nSet Printing Depth 1000000.\nPrint verdicts.\n")
	} else {
		s.flushLegacy(&b)
	}
	s.write(name, &b)
}

func (s *Shard) flushLegacy(b *strings.Builder) {
	fmt.Fprintf(b, "Definition corr_fails := Eval vm_compute in fails %s cases.\n", s.corr)
	if s.holds != "" {
		fmt.Fprintf(b, "Definition holds_fails := Eval vm_compute in fails %s cases.\n", s.holds)
	} else {
		b.WriteString("Definition holds_fails : list nat := [].\n")
	}
	b.WriteString("Set Printing Width 1000000.\nSet Printing Depth 1000000.\n")
	b.WriteString("Print corr_fails.\nPrint holds_fails.\n")
}

func (s *Shard) write(name string, b *strings.Builder) {
	vfile := filepath.Join(s.ctx.Out, name+".v")
	if err := os.WriteFile(vfile, []byte(b.String()), 0o644); err != nil {
		s.ctx.HarnessError("write %s: %v", vfile, err)
	}
	jfile := filepath.Join(s.ctx.Out, name+".json")
	js, err := json.Marshal(s.raws)
	if err != nil {
		s.ctx.HarnessError("marshal %s: %v", jfile, err)
	}
	if err := os.WriteFile(jfile, js, 0o644); err != nil {
		s.ctx.HarnessError("write %s: %v", jfile, err)
	}
	s.ctx.mu.Lock()
	s.ctx.Stats.Shards = append(s.ctx.Stats.Shards, ShardInfo{File: name + ".v", Stream: s.stream, Cases: len(s.terms), JSON: name + ".json", Preds: s.preds})
	s.ctx.mu.Unlock()
	s.n += len(s.terms)
	s.terms, s.raws = nil, nil
}

// Finish flushes all shards and writes stats.json.
func (c *Ctx) Finish() error {
	for _, s := range c.shards {
		s.Flush()
	}
	sort.Slice(c.Stats.Shards, func(i, j int) bool { return c.Stats.Shards[i].File < c.Stats.Shards[j].File })
	if c.Stats.Samples == nil {
		c.Stats.Samples = []interface{}{}
	}
	js, err := json.MarshalIndent(&c.Stats, "", " ")
	if err != nil {
		return err
	}
	return os.WriteFile(filepath.Join(c.Out, "stats.json"), js, 0o644)
}

// Main is the entry point shared by every harness binary:
//
//	h_xxx -out DIR [-seed N] [-tier quick|thorough] [-repo /repo] <driver>
func Main(drivers map[string]func(*Ctx) error) {
	var c Ctx
	flag.Int64Var(&c.Seed, "seed", 1, "PRNG seed")
	flag.StringVar(&c.Tier, "tier", "quick", "quick|thorough")
	flag.StringVar(&c.Out, "out", "", "output directory")
	flag.StringVar(&c.Repo, "repo", "/repo", "repository root")
	flag.StringVar(&c.Replay, "replay", "", "replay file")
	flag.Parse()
	if flag.NArg() != 1 || c.Out == "" {
		var names []string
		for n := range drivers {
			names = append(names, n)
		}
		sort.Strings(names)
		fmt.Fprintf(os.Stderr, "usage: %s -out DIR [-seed N] [-tier T] <driver>\ndrivers: %v\n", os.Args[0], names)
		os.Exit(2)
	}
	d, ok := drivers[flag.Arg(0)]
	if !ok {
		fmt.Fprintf(os.Stderr, "unknown driver %q\n", flag.Arg(0))
		os.Exit(2)
	}
	if err := os.MkdirAll(c.Out, 0o755); err != nil {
		fmt.Fprintln(os.Stderr, err)
		os.Exit(2)
	}
	if err := d(&c); err != nil {
		c.HarnessError("driver %s: %v", flag.Arg(0), err)
	}
	if err := c.Finish(); err != nil {
		fmt.Fprintln(os.Stderr, err)
		os.Exit(2)
	}
	if len(c.Stats.HarnessErrors) > 0 {
		for _, e := range c.Stats.HarnessErrors {
			fmt.Fprintln(os.Stderr, "HARNESS-ERROR:", e)
		}
		os.Exit(3)
	}
}
