(* Model of pkg/runtime-tools/generate/generate.go (Generator.Adjust and the
   per-field Adjust* functions) together with the stock runtime-tools generator
   primitives they call, on the observable part of an OCI spec.  No proofs here. *)
From Coq Require Import String Ascii List Bool ZArith Arith.
From NRI Require Import Base.Strs Base.Assoc Model.Types.
Import ListNotations.
Open Scope string_scope.
Open Scope list_scope.

Record devrule := { dr_type : string; dr_major : option Z; dr_minor : option Z; dr_access : string }.

(* the observable part of a spec: the container fields (Process, Mounts, Hooks, Annotations,
   Linux.Devices / Resources / CgroupsPath), the CDI names handed to the injector call-back,
   the device cgroup rules *)
Record spec := { sp_c : container; sp_cdi : list string; sp_rules : list devrule }.

(* ---------- annotations: removals first, then sets (map iteration order is a parameter) ---------- *)
Definition gen_annotations (ann : list (string * string)) (m : list (string * string)) : list (string * string) :=
  let removed := fold_left (fun m e => if marked (fst e) then aremove (rawkey (fst e)) m else m) ann m in
  fold_left (fun m e => if marked (fst e) then m else aset (fst e) (snd e) m) ann removed.

(* ---------- environment ---------- *)
(* AddProcessEnv + addEnv with its key cache: replace the entry added under this name, or append *)
Fixpoint env_upsert (name entry : string) (env : list (string * string)) : list (string * string) :=
  match env with
  | [] => [(name, entry)]
  | (k, e) :: r => if String.eqb name k then (k, entry) :: r else (k, e) :: env_upsert name entry r
  end.
Definition add_process_env (name value : string) (env : list (string * string)) : list (string * string) :=
  if String.eqb name "" then env else env_upsert name (name ++ "=" ++ value) env.

(* mod[key] = e, a set winning over a removal of the same variable *)
Fixpoint env_mod (es : list (string * string)) (m : list (string * (string * string))) : list (string * (string * string)) :=
  match es with
  | [] => m
  | e :: r =>
      let key := rawkey (fst e) in
      let keep_old := marked (fst e) && match alookup key m with Some old => negb (marked (fst old)) | None => false end in
      env_mod r (if keep_old then m else aset key e m)
  end.

(* first pass over the existing environment; returns the rebuilt environment and what is left of mod *)
Fixpoint env_rebuild (old : list string) (m : list (string * (string * string))) (acc : list (string * string))
  : list (string * string) * list (string * (string * string)) :=
  match old with
  | [] => (acc, m)
  | e :: r =>
      let '(k, ov) := cut "="%char e in
      match alookup k m with
      | Some x =>
          let m' := aremove k m in
          if marked (fst x) then env_rebuild r m' acc
          else env_rebuild r m' (add_process_env (fst x) (snd x) acc)
      | None =>
          match ov with
          | Some v => env_rebuild r m (add_process_env k v acc)
          (* no '=' and not named by the adjustment: appended as it is, outside the key cache (no name is
             ever "", so the entry is never replaced) *)
          | None => env_rebuild r m (acc ++ [("", e)])
          end
      end
  end.

Definition gen_env (es : list (string * string)) (env : list string) : list string :=
  let m := env_mod es [] in
  match m with
  | [] => env
  | _ =>
      let '(acc, m') := env_rebuild env m [] in
      let acc' := fold_left (fun acc e =>
                     if marked (fst e) then acc
                     else match alookup (fst e) m' with
                          | Some _ => add_process_env (fst e) (snd e) acc
                          | None => acc
                          end) es acc in
      map snd acc'
  end.

(* ---------- args ---------- *)
Definition gen_args (args cur : list string) : list string :=
  match args with
  | [] => cur
  | a0 :: rest =>
      let args' := if String.eqb a0 "" then rest else args in
      match args' with [] => cur | _ => args' end
  end.

(* ---------- devices ---------- *)
Fixpoint remove_first {E} (key : E -> string) (k : string) (l : list E) : list E :=
  match l with
  | [] => []
  | e :: r => if String.eqb (key e) k then r else e :: remove_first key k r
  end.
Fixpoint add_device (d : device) (l : list device) : list device :=
  match l with
  | [] => [d]
  | e :: r => if String.eqb (d_path e) (d_path d) then d :: r else e :: add_device d r
  end.
Definition access_string (d : device) : string := "rw" ++ (if String.eqb (d_type d) "b" then "m" else "").

Definition gen_devices (ds : list device) (devs : list device) (rules : list devrule) : list device * list devrule :=
  let devs1 := fold_left (fun l d => if marked (d_path d) then remove_first d_path (rawkey (d_path d)) l else l) ds devs in
  fold_left (fun st d =>
               if marked (d_path d) then st
               else (add_device d (remove_first d_path (d_path d) (fst st)),
                     snd st ++ [{| dr_type := d_type d; dr_major := Some (d_major d); dr_minor := Some (d_minor d);
                                   dr_access := access_string d |}]))
            ds (devs1, rules).

(* ---------- resources ---------- *)
Definition set_if (f : sfield) (src dst : list (sfield * sval)) : list (sfield * sval) :=
  match flookup f src with Some v => fset f v dst | None => dst end.
Fixpoint hp_upsert (size : string) (lim : Z) (l : list (string * Z)) : list (string * Z) :=
  match l with
  | [] => [(size, lim)]
  | (s, v) :: r => if String.eqb s size then (s, lim) :: r else (s, v) :: hp_upsert size lim r
  end.
Definition fremove (f : sfield) (l : list (sfield * sval)) : list (sfield * sval) :=
  filter (fun e => negb (sfield_eqb f (fst e))) l.

Definition gen_resources (r c : resources) : resources :=
  let sc := r_scal r in
  let s1 := fold_left (fun dst f => set_if f sc dst) [CpuPeriod; CpuQuota; CpuShares; CpuCpus; CpuMems; CpuRtRuntime; CpuRtPeriod] (r_scal c) in
  (* a memory limit of 0 is skipped on purpose; the swap limit follows the limit *)
  let s2 := match flookup MemLimit sc with
            | Some (VZ l) => if Z.eqb l 0 then s1 else fset MemSwap (VZ l) (fset MemLimit (VZ l) s1)
            | _ => s1
            end in
  let s3 := set_if Pids sc s2 in
  (* block I/O and RDT classes: the empty class clears, another one is resolved and set *)
  let cls f s := match flookup f sc with
                 | Some (VS "") => fremove f s
                 | Some v => fset f v s
                 | None => s
                 end in
  {| r_scal := cls RdtClass (cls BlockioClass s3);
     r_hp := fold_left (fun l e => hp_upsert (fst e) (snd e) l) (r_hp r) (r_hp c);
     r_uni := fold_left (fun m e => aset (fst e) (snd e) m) (r_uni r) (r_uni c) |}.

(* ---------- mounts ---------- *)
(* filepath.Clean on slash-separated paths *)
Fixpoint clean_parts (rooted : bool) (parts : list string) (acc : list string) : list string :=
  match parts with
  | [] => rev acc
  | p :: r =>
      if String.eqb p "" || String.eqb p "." then clean_parts rooted r acc
      else if String.eqb p ".." then
        match acc with
        | [] => if rooted then clean_parts rooted r [] else clean_parts rooted r [".."]
        | q :: acc' => if String.eqb q ".." then clean_parts rooted r (".." :: acc) else clean_parts rooted r acc'
        end
      else clean_parts rooted r (p :: acc)
  end.
Definition clean_path (p : string) : string :=
  match p with
  | EmptyString => "."
  | String c _ =>
      let rooted := Ascii.eqb c "/"%char in
      let body := join "/" (clean_parts rooted (split_on "/"%char p) []) in
      if rooted then "/" ++ body else if String.eqb body "" then "." else body
  end.
Definition mount_parts (m : mount) : nat := count_char "/"%char (clean_path (m_dest m)).

Definition str_ltb (a b : string) : bool := match String.compare a b with Lt => true | _ => false end.
(* orderedMounts.Less *)
Definition mount_less (a b : mount) : bool :=
  if Nat.ltb (mount_parts a) (mount_parts b) then true
  else if Nat.ltb (mount_parts b) (mount_parts a) then false
  else str_ltb (m_dest a) (m_dest b).
Fixpoint insert_mount (m : mount) (l : list mount) : list mount :=
  match l with
  | [] => [m]
  | x :: r => if mount_less m x then m :: x :: r else x :: insert_mount m r
  end.
Definition sort_mounts (l : list mount) : list mount := fold_right insert_mount [] l.

Definition gen_mounts (ms : list mount) (cur : list mount) : list mount :=
  match ms with
  | [] => cur
  | _ =>
      let c1 := fold_left (fun l m => if marked (m_dest m) then remove_first m_dest (rawkey (m_dest m)) l else l) ms cur in
      let c2 := fold_left (fun l m => if marked (m_dest m) then l else remove_first m_dest (m_dest m) l ++ [m]) ms c1 in
      sort_mounts c2
  end.

(* ---------- Generator.Adjust ---------- *)
Definition gen_adjust (a : adjustment) (s : spec) : spec :=
  let c := sp_c s in
  let '(devs, rules) := gen_devices (a_devices a) (c_devices c) (sp_rules s) in
  {| sp_c := {| c_id := c_id c;
                c_ann := gen_annotations (a_ann a) (c_ann c);
                c_mounts := gen_mounts (a_mounts a) (c_mounts c);
                c_env := gen_env (a_env a) (c_env c);
                c_args := gen_args (a_args a) (c_args c);
                c_hooks := hooks_append (c_hooks c) (a_hooks a);
                c_rlimits := c_rlimits c ++ a_rlimits a;
                c_devices := devs;
                c_res := gen_resources (a_res a) (c_res c);
                c_cgroups := if String.eqb (a_cgroups a) "" then c_cgroups c else a_cgroups a;
                c_oom := match a_oom a with Some v => Some v | None => c_oom c end |};
     sp_cdi := sp_cdi s ++ a_cdi a;
     sp_rules := rules |}.

Definition gen_all (adjs : list adjustment) (s : spec) : spec := fold_left (fun s a => gen_adjust a s) adjs s.

(* ---------- predicates about the mount order (C13) ---------- *)
(* proper ancestor, on cleaned destinations *)
Definition is_parent (a b : string) : bool :=
  let ca := clean_path a in let cb := clean_path b in
  negb (String.eqb ca cb) && (if String.eqb ca "/" then String.prefix "/" cb else String.prefix (ca ++ "/")%string cb).
(* no mount is followed by a mount of one of its parent directories *)
Fixpoint parents_first (l : list mount) : bool :=
  match l with
  | [] => true
  | m :: r => forallb (fun x => negb (is_parent (m_dest x) (m_dest m))) r && parents_first r
  end.
