// Package probe is the body of the probe plugin (harness/cmd/probeplugin) that the
// C18 driver installs under many names into generated plugin directories, and the
// report format it shares with the driver.
//
// A launched plugin gets ONLY the three NRI_* variables, so the probe derives the
// place of its reports from its own argv[0]: <plugin dir>/../reports/.  Its
// behaviour is selected by sub-strings of its own file name.
package probe

import (
	"context"
	"encoding/json"
	"errors"
	"fmt"
	"os"
	"path/filepath"
	"sort"
	"strconv"
	"strings"
	"syscall"
	"time"

	"github.com/containerd/nri/pkg/api"
	"github.com/containerd/nri/pkg/stub"
	"github.com/containerd/ttrpc"
	"google.golang.org/protobuf/proto"
)

// Launch is written (one JSON line per process start) to <reports>/<file name>.launch
// before anything else happens.
type Launch struct {
	Pid   int               `json:"pid"`
	Argv  []string          `json:"argv"`
	Env   []string          `json:"env"` // as received, in order
	Fds   map[string]string `json:"fds"` // inherited descriptors: number -> link target
	Own   map[string]string `json:"own"` // opened by the probe's own runtime before main (close-on-exec set)
	Exe   string            `json:"exe"`
	Cwd   string            `json:"cwd"`      // working directory the process was started in
	Stub  string            `json:"stub"`     // idx-name the real stub picked up ("" if stub.New failed)
	Error string            `json:"stub_err"` // error of stub.New
}

// Config is written to <reports>/<file name>.config when Configure is received.
type Config struct {
	Config  string `json:"config"`
	Runtime string `json:"runtime"`
	Version string `json:"version"`
	Count   int    `json:"count"`
}

// Behaviour sub-strings of the file name.
const (
	BExit     = "exit"     // exits at once, before touching the socket
	BNoReg    = "noreg"    // never registers (sleeps with the socket open)
	BCloseFd  = "closefd"  // closes the socket and keeps running without registering
	BCfgErr   = "cfgerr"   // Configure handler fails
	BSyncFail = "syncfail" // Synchronize handler fails
	BDieLater = "dielater" // exits once <reports>/die.<file name> exists (after synchronisation)
	// closes its connection to the runtime once <reports>/die.<file name> exists (after synchronisation),
	// writes <reports>/<file name>.closed when its end is closed, and keeps running
	BHangLater = "hanglater"
	// the Synchronize handler never answers (the runtime's request time-out ends it)
	BSyncHang = "synchang"
	// the Synchronize handler answers after SyncSlowDelay
	BSyncSlow = "syncslow"
)

// RegAs marks a probe that registers under an identity of its own instead of the one it was launched with: the file
// name contains "regas" followed by dot-separated parts "i<index>" and / or "n<name>", e.g. "10-regas.i90.nother"
// (declares index 90, name other), "10-regas.i9" (malformed index), "10-regas.n" (empty name).  Everything else
// is the well-behaved probe: RegAs is NOT one of the failure modes of Behaviour.
const RegAs = "regas"

// Declared returns the name and index a probe with this file name puts into its RegisterPlugin request
// (ok = false: it registers what the stub took from its environment).
func Declared(file string) (name, idx string, setName, setIdx, ok bool) {
	i := strings.Index(file, RegAs)
	if i < 0 {
		return
	}
	for _, part := range strings.Split(file[i+len(RegAs):], ".") {
		switch {
		case strings.HasPrefix(part, "i"):
			idx, setIdx, ok = part[1:], true, true
		case strings.HasPrefix(part, "n"):
			name, setName, ok = part[1:], true, true
		}
	}
	return
}

// declareAs makes the real stub's registration carry another identity: a ttrpc client interceptor rewrites the
// RegisterPlugin request on its way out (the stub itself refuses an empty name and cannot be given a second one).
func declareAs(file string) (stub.Option, bool) {
	name, idx, setName, setIdx, ok := Declared(file)
	if !ok {
		return nil, false
	}
	ic := func(ctx context.Context, req *ttrpc.Request, resp *ttrpc.Response, _ *ttrpc.UnaryClientInfo, invoke ttrpc.Invoker) error {
		if req.Method == "RegisterPlugin" {
			var r api.RegisterPluginRequest
			if err := proto.Unmarshal(req.Payload, &r); err == nil {
				if setName {
					r.PluginName = name
				}
				if setIdx {
					r.PluginIdx = idx
				}
				if b, err := proto.Marshal(&r); err == nil {
					req.Payload = b
				}
			}
		}
		return invoke(ctx, req, resp)
	}
	return stub.WithTTRPCOptions([]ttrpc.ClientOpts{ttrpc.WithUnaryClientInterceptor(ic)}, nil), true
}

// SyncSlowDelay is how long a syncslow probe takes to answer Synchronize.
const SyncSlowDelay = 300 * time.Millisecond

// Behaviour returns the behaviour selected by a plugin file name ("" = well behaved).
func Behaviour(file string) string {
	for _, b := range []string{BExit, BNoReg, BCloseFd, BCfgErr, BSyncFail, BDieLater, BHangLater, BSyncHang, BSyncSlow} {
		if strings.Contains(file, b) {
			return b
		}
	}
	return ""
}

// ReadFds lists the open descriptors without opening any.  A descriptor that survived the
// exec cannot carry the close-on-exec flag, while everything the probe's own Go runtime
// opens before main (its epoll instance and event descriptor) does: inherited = flag clear.
func ReadFds() (inherited, own map[string]string) {
	inherited, own = map[string]string{}, map[string]string{}
	buf := make([]byte, 4096)
	for fd := 0; fd < 4096; fd++ {
		n, err := syscall.Readlink("/proc/self/fd/"+strconv.Itoa(fd), buf)
		if err != nil {
			continue
		}
		flags, _, errno := syscall.Syscall(syscall.SYS_FCNTL, uintptr(fd), syscall.F_GETFD, 0)
		if errno == 0 && flags&syscall.FD_CLOEXEC != 0 {
			own[strconv.Itoa(fd)] = string(buf[:n])
			continue
		}
		inherited[strconv.Itoa(fd)] = string(buf[:n])
	}
	return
}

type plugin struct {
	file    string
	reports string
	beh     string
	nconf   int
	st      stub.Stub
}

func (p *plugin) appendLine(name, line string) {
	f, err := os.OpenFile(filepath.Join(p.reports, name), os.O_WRONLY|os.O_APPEND|os.O_CREATE, 0o644)
	if err != nil {
		return
	}
	f.WriteString(line + "\n")
	f.Close()
}

func (p *plugin) Configure(_ context.Context, config, runtime, version string) (api.EventMask, error) {
	p.nconf++
	js, _ := json.Marshal(Config{Config: config, Runtime: runtime, Version: version, Count: p.nconf})
	os.WriteFile(filepath.Join(p.reports, p.file+".config"), js, 0o644)
	if p.beh == BCfgErr {
		return 0, errors.New("probe: configuration refused on purpose")
	}
	return 0, nil
}

func (p *plugin) Synchronize(_ context.Context, pods []*api.PodSandbox, ctrs []*api.Container) ([]*api.ContainerUpdate, error) {
	p.appendLine("events.log", fmt.Sprintf("%s sync %d/%d", p.file, len(pods), len(ctrs)))
	if p.beh == BSyncFail {
		return nil, errors.New("probe: synchronisation refused on purpose")
	}
	if p.beh == BSyncHang {
		time.Sleep(time.Hour) // at most until the self-destruct of Main; the runtime gives up and kills the process
	}
	if p.beh == BSyncSlow {
		time.Sleep(SyncSlowDelay)
	}
	if p.beh == BDieLater {
		go func() {
			trigger := filepath.Join(p.reports, "die."+p.file)
			for {
				if _, err := os.Stat(trigger); err == nil {
					os.Exit(4)
				}
				time.Sleep(5 * time.Millisecond)
			}
		}()
	}
	if p.beh == BHangLater {
		go func() {
			trigger := filepath.Join(p.reports, "die."+p.file)
			for {
				if _, err := os.Stat(trigger); err == nil {
					break
				}
				time.Sleep(5 * time.Millisecond)
			}
			p.st.Stop() // closes this end of the connection; the process stays
			os.WriteFile(filepath.Join(p.reports, p.file+".closed"), []byte("closed\n"), 0o644)
		}()
	}
	return nil, nil
}

func (p *plugin) RunPodSandbox(_ context.Context, pod *api.PodSandbox) error {
	p.appendLine("events.log", fmt.Sprintf("%s runpod %s", p.file, pod.GetId()))
	return nil
}

func (p *plugin) CreateContainer(_ context.Context, pod *api.PodSandbox, ctr *api.Container) (*api.ContainerAdjustment, []*api.ContainerUpdate, error) {
	p.appendLine("events.log", fmt.Sprintf("%s create %s", p.file, ctr.GetId()))
	return nil, nil, nil
}

// Main is the probe plugin.
func Main() {
	// never outlive a crashed harness by much
	go func() { time.Sleep(150 * time.Second); os.Exit(9) }()

	fds, own := ReadFds()
	arg0 := os.Args[0]
	file := filepath.Base(arg0)
	reports := filepath.Join(filepath.Dir(filepath.Dir(arg0)), "reports")
	p := &plugin{file: file, reports: reports, beh: Behaviour(file)}

	exe, _ := os.Executable()
	cwd, _ := os.Getwd()
	rep := Launch{Pid: os.Getpid(), Argv: os.Args, Env: os.Environ(), Fds: fds, Own: own, Exe: exe, Cwd: cwd}
	if rep.Env == nil {
		rep.Env = []string{}
	}

	var st stub.Stub
	var err error
	var opts []stub.Option
	if p.beh == BHangLater {
		// without a close handler the stub exits the process when its connection goes away
		opts = append(opts, stub.WithOnClose(func() {}))
	}
	if o, ok := declareAs(file); ok {
		opts = append(opts, o)
	}
	st, err = stub.New(p, opts...)
	p.st = st
	if err != nil {
		rep.Error = err.Error()
	} else if n, ok := st.(interface{ Name() string }); ok {
		rep.Stub = n.Name()
	}
	js, _ := json.Marshal(rep)
	p.appendLine(file+".launch", string(js))

	switch p.beh {
	case BExit:
		os.Exit(3)
	case BNoReg:
		time.Sleep(time.Hour)
	case BCloseFd:
		if fd, e := strconv.Atoi(os.Getenv(api.PluginSocketEnvVar)); e == nil {
			syscall.Close(fd)
		}
		time.Sleep(time.Hour)
	}
	if err != nil {
		os.Exit(5)
	}
	err = st.Run(context.Background())
	if p.beh == BHangLater {
		// stays around (at most until the self-destruct above) after closing its connection, whatever
		// Run says about the listener it found closed
		if err != nil {
			p.appendLine(file+".runerr", err.Error())
		}
		time.Sleep(time.Hour)
	}
	if err != nil {
		p.appendLine(file+".runerr", err.Error())
		os.Exit(6)
	}
}

// SortedEnv returns a sorted copy.
func SortedEnv(env []string) []string {
	out := append([]string{}, env...)
	sort.Strings(out)
	return out
}
