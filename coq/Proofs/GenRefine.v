(* C13: the model of the OCI spec generator (Model/Generate.v) refines the reference semantics of one
   adjustment (Spec/Apply.v) on the observable projection, for ALL well-formed inputs; part 1: generic
   lemmas, the keyed families (mounts, devices), annotations / unified, the environment.
   Every family is first characterised at Prop level as a finite map ("kfind key k result = ...") and is
   reflected into the boolean observable equality at the end (Proofs/GenRefine2.v). *)
From Coq Require Import String Ascii List Bool ZArith Arith Lia Permutation Sorted.
From NRI Require Import Base.Lists Base.Strs Base.Assoc Model.Types Model.Result Model.Generate
  Spec.Apply Spec.GenSpec Proofs.KeyedProofs Proofs.GenerateProofs.
Import ListNotations.
Open Scope string_scope.
Open Scope list_scope.

(* ---------- boolean NoDup ---------- *)
Lemma nodupb_NoDup l : nodupb l = true <-> NoDup l.
Proof.
  induction l as [|x r IH]; cbn [nodupb].
  - split; [constructor|reflexivity].
  - rewrite andb_true_iff, negb_true_iff, IH, smem_false_notin. split.
    + intros [H1 H2]. constructor; assumption.
    + intros H. inversion H; subst. split; assumption.
Qed.

Lemma fnodupb_NoDup l : fnodupb l = true <-> NoDup l.
Proof.
  induction l as [|x r IH]; cbn [fnodupb].
  - split; [constructor|reflexivity].
  - rewrite andb_true_iff, negb_true_iff, IH. split.
    + intros [H1 H2]. constructor; [|exact H2]. intros Hin.
      assert (Ht : existsb (sfield_eqb x) r = true).
      { apply existsb_exists. exists x. split; [exact Hin|]. destruct (sfield_eqb_spec x x); [reflexivity|contradiction]. }
      congruence.
    + intros H. inversion H as [|? ? Hx Hr]; subst. split; [|exact Hr].
      destruct (existsb (sfield_eqb x) r) eqn:He; [|reflexivity]. exfalso. apply Hx.
      apply existsb_exists in He. destruct He as [y [Hy He]]. destruct (sfield_eqb_spec x y); [subst; exact Hy|discriminate].
Qed.

(* ---------- kfind: more lemmas ---------- *)
Section KF.
Context {E : Type} (key : E -> string).

Lemma kfind_cons k e l : kfind key k (e :: l) = if String.eqb k (key e) then Some e else kfind key k l.
Proof. reflexivity. Qed.

Lemma kfind_In_keys k l : In k (map key l) -> exists x, kfind key k l = Some x.
Proof.
  intros Hin. destruct (kfind key k l) as [x|] eqn:Hf; [exists x; reflexivity|].
  apply kfind_None_notin in Hf. contradiction.
Qed.

Lemma kfind_NoDup_In k x l : NoDup (map key l) -> In x l -> key x = k -> kfind key k l = Some x.
Proof.
  induction l as [|y r IH]; intros Hnd Hin Hk; [contradiction|].
  cbn [map] in Hnd. inversion Hnd as [|? ? Hy Hr]; subst. cbn [kfind].
  destruct Hin as [->|Hin].
  - rewrite String.eqb_refl. reflexivity.
  - destruct (String.eqb_spec (key x) (key y)) as [Eq|_].
    + exfalso. apply Hy. rewrite <- Eq. apply in_map. exact Hin.
    + apply IH; [exact Hr|exact Hin|reflexivity].
Qed.

(* read as a map, a list with distinct keys does not depend on its order *)
Lemma kfind_perm k l l' : Permutation l l' -> NoDup (map key l) -> kfind key k l = kfind key k l'.
Proof.
  intros HP. induction HP as [|x l l' HP IH|x y l|l l' l'' HP1 IH1 HP2 IH2]; intros Hnd.
  - reflexivity.
  - cbn [map] in Hnd. inversion Hnd; subst. cbn [kfind]. rewrite IH by assumption. reflexivity.
  - cbn [map] in Hnd. inversion Hnd as [|? ? Hy Hr]; subst. cbn [kfind].
    destruct (String.eqb_spec k (key y)) as [Ey|_]; destruct (String.eqb_spec k (key x)) as [Ex|_]; try reflexivity.
    exfalso. apply Hy. left. congruence.
  - rewrite IH1 by exact Hnd. apply IH2.
    apply (Permutation_NoDup (l := map key l)); [apply Permutation_map; exact HP1|exact Hnd].
Qed.

Lemma kfind_rev k l : NoDup (map key l) -> kfind key k (rev l) = kfind key k l.
Proof. intros Hnd. symmetry. apply kfind_perm; [apply Permutation_rev|exact Hnd]. Qed.

(* two lists with distinct keys that are equal as maps are permutations of each other *)
Lemma kfind_eq_perm l l' :
  NoDup (map key l) -> NoDup (map key l') -> (forall k, kfind key k l = kfind key k l') -> Permutation l l'.
Proof.
  intros H1 H2 Heq. apply NoDup_Permutation.
  - apply (NoDup_map_inv key). exact H1.
  - apply (NoDup_map_inv key). exact H2.
  - intros x. split; intros Hin.
    + pose proof (kfind_NoDup_In (key x) x l H1 Hin eq_refl) as Hf. rewrite Heq in Hf.
      apply kfind_Some_key in Hf. tauto.
    + pose proof (kfind_NoDup_In (key x) x l' H2 Hin eq_refl) as Hf. rewrite <- Heq in Hf.
      apply kfind_Some_key in Hf. tauto.
Qed.

(* ---------- remove_first on a list with distinct keys ---------- *)
Lemma remove_first_In x d l : In x (remove_first key d l) -> In x l.
Proof.
  induction l as [|e r IH]; cbn [remove_first]; [tauto|].
  destruct (String.eqb (key e) d); [intros H; right; exact H|].
  intros [->|H]; [left; reflexivity|right; apply IH; exact H].
Qed.

Lemma remove_first_NoDup d l : NoDup (map key l) -> NoDup (map key (remove_first key d l)).
Proof.
  induction l as [|e r IH]; cbn [remove_first map]; intros Hnd; [constructor|].
  inversion Hnd as [|? ? He Hr]; subst.
  destruct (String.eqb (key e) d); [exact Hr|].
  cbn [map]. constructor; [|apply IH; exact Hr].
  intros Hin. apply He. apply in_map_iff in Hin. destruct Hin as [x [Hx Hin]].
  apply in_map_iff. exists x. split; [exact Hx|apply (remove_first_In x d r Hin)].
Qed.

Lemma kfind_remove_first k d l :
  NoDup (map key l) -> kfind key k (remove_first key d l) = if String.eqb k d then None else kfind key k l.
Proof.
  induction l as [|e r IH]; cbn [remove_first map]; intros Hnd.
  - destruct (String.eqb k d); reflexivity.
  - inversion Hnd as [|? ? He Hr]; subst.
    destruct (String.eqb_spec (key e) d) as [Ed|Ed].
    + cbn [kfind]. destruct (String.eqb_spec k d) as [->|Hkd].
      * apply kfind_None_notin. rewrite <- Ed. exact He.
      * destruct (String.eqb_spec k (key e)); [congruence|reflexivity].
    + cbn [kfind]. destruct (String.eqb_spec k (key e)) as [->|Hke].
      * destruct (String.eqb_spec (key e) d); [contradiction|reflexivity].
      * apply IH. exact Hr.
Qed.

(* ---------- phase 1 of AdjustMounts / AdjustDevices: the removals ---------- *)
Definition del_phase (es cur : list E) : list E :=
  fold_left (fun l e => if marked (key e) then remove_first key (rawkey (key e)) l else l) es cur.

Lemma del_phase_NoDup es : forall cur, NoDup (map key cur) -> NoDup (map key (del_phase es cur)).
Proof.
  unfold del_phase. induction es as [|e r IH]; intros cur Hnd; cbn [fold_left]; [exact Hnd|].
  apply IH. destruct (marked (key e)); [apply remove_first_NoDup|]; exact Hnd.
Qed.

Lemma del_phase_kfind es : forall cur k, NoDup (map key cur) ->
  kfind key k (del_phase es cur) = if smem k (r_dels key es) then None else kfind key k cur.
Proof.
  unfold del_phase, r_dels. induction es as [|e r IH]; intros cur k Hnd; cbn [fold_left filter map]; [reflexivity|].
  destruct (marked (key e)) eqn:Hm.
  - cbn [map]. rewrite smem_cons, IH by (apply remove_first_NoDup; exact Hnd).
    rewrite kfind_remove_first by exact Hnd.
    destruct (String.eqb k (rawkey (key e))); cbn [orb]; [|reflexivity].
    destruct (smem k _); reflexivity.
  - apply IH. exact Hnd.
Qed.

(* ---------- phase 2: the sets, for any primitive that replaces-or-appends one entry ---------- *)
Variable step : E -> list E -> list E.
Hypothesis step_NoDup : forall e l, NoDup (map key l) -> NoDup (map key (step e l)).
Hypothesis step_kfind : forall e l k, NoDup (map key l) ->
  kfind key k (step e l) = if String.eqb k (key e) then Some e else kfind key k l.

Definition set_phase (es c1 : list E) : list E :=
  fold_left (fun l e => if marked (key e) then l else step e l) es c1.

Lemma set_phase_NoDup es : forall c1, NoDup (map key c1) -> NoDup (map key (set_phase es c1)).
Proof.
  unfold set_phase. induction es as [|e r IH]; intros c1 Hnd; cbn [fold_left]; [exact Hnd|].
  apply IH. destruct (marked (key e)); [exact Hnd|apply step_NoDup; exact Hnd].
Qed.

(* the LAST set of a key counts *)
Lemma set_phase_kfind es : forall c1 k, NoDup (map key c1) ->
  kfind key k (set_phase es c1) =
  match kfind key k (rev (r_adds key es)) with Some e => Some e | None => kfind key k c1 end.
Proof.
  unfold set_phase, r_adds. induction es as [|e r IH]; intros c1 k Hnd; cbn [fold_left filter]; [reflexivity|].
  destruct (marked (key e)) eqn:Hm; cbn [negb].
  - apply IH. exact Hnd.
  - cbn [rev]. rewrite kfind_app, IH by (apply step_NoDup; exact Hnd).
    destruct (kfind key k (rev _)); [reflexivity|].
    rewrite step_kfind by exact Hnd. cbn [kfind]. destruct (String.eqb k (key e)); reflexivity.
Qed.

(* both phases = the reference semantics, when no key is set twice *)
Lemma two_phase_kfind es cur k :
  NoDup (map key cur) -> NoDup (r_mods key es) ->
  kfind key k (set_phase es (del_phase es cur)) = kfind key k (apply_keyed key key (fun e => e) cur es).
Proof.
  intros Hc Hm.
  rewrite set_phase_kfind by (apply del_phase_NoDup; exact Hc).
  rewrite del_phase_kfind by exact Hc.
  rewrite kfind_rev by exact Hm.
  pose proof (sem_char key key (fun e => e) (fun _ => True) (fun e _ _ => eq_refl) cur es k (fun _ _ => I)) as Hs.
  unfold sem in Hs. rewrite Hs. change (k_adds key es) with (r_adds key es). change (k_dels key es) with (r_dels key es).
  destruct (kfind key k (r_adds key es)); reflexivity.
Qed.

Lemma two_phase_NoDup es cur : NoDup (map key cur) -> NoDup (map key (set_phase es (del_phase es cur))).
Proof. intros H. apply set_phase_NoDup, del_phase_NoDup, H. Qed.
End KF.

(* the characterisation of the reference semantics of a keyed family *)
Lemma ref_keyed_kfind {E} (key : E -> string) cur es k :
  kfind key k (apply_keyed key key (fun e => e) cur es) =
  match kfind key k (r_adds key es) with
  | Some e => Some e
  | None => if smem k (r_dels key es) then None else kfind key k cur
  end.
Proof.
  exact (sem_char key key (fun e => e) (fun _ => True) (fun e _ _ => eq_refl) cur es k (fun _ _ => I)).
Qed.

(* ---------- r_adds / r_dels under a permutation of the adjustment's list ---------- *)
Lemma Permutation_filter {A} (p : A -> bool) l l' : Permutation l l' -> Permutation (filter p l) (filter p l').
Proof.
  intros HP. induction HP as [|x l l' HP IH|x y l|l l' l'' HP1 IH1 HP2 IH2]; cbn [filter].
  - constructor.
  - destruct (p x); [constructor|]; exact IH.
  - destruct (p x), (p y); try apply Permutation_refl. apply perm_swap.
  - eapply Permutation_trans; eassumption.
Qed.

Lemma r_adds_perm {E} (key : E -> string) es es' : Permutation es es' -> Permutation (r_adds key es) (r_adds key es').
Proof. apply Permutation_filter. Qed.
Lemma r_mods_perm {E} (key : E -> string) es es' : Permutation es es' -> Permutation (r_mods key es) (r_mods key es').
Proof. intros H. unfold r_mods. apply Permutation_map, r_adds_perm, H. Qed.
Lemma r_dels_perm {E} (key : E -> string) es es' : Permutation es es' -> Permutation (r_dels key es) (r_dels key es').
Proof. intros H. unfold r_dels. apply Permutation_map, Permutation_filter, H. Qed.

Lemma smem_perm k l l' : Permutation l l' -> smem k l = smem k l'.
Proof.
  intros HP. destruct (smem k l') eqn:H'.
  - apply smem_In. apply smem_In in H'. apply (Permutation_in k (Permutation_sym HP) H').
  - apply smem_false_notin. apply smem_false_notin in H'. intros Hin. apply H'. apply (Permutation_in k HP Hin).
Qed.

Lemma ref_keyed_perm {E} (key : E -> string) cur es es' k :
  Permutation es es' -> NoDup (r_mods key es) ->
  kfind key k (apply_keyed key key (fun e => e) cur es) = kfind key k (apply_keyed key key (fun e => e) cur es').
Proof.
  intros HP Hnd. rewrite !ref_keyed_kfind.
  rewrite (kfind_perm key k _ _ (r_adds_perm key es es' HP) Hnd).
  rewrite (smem_perm k _ _ (r_dels_perm key es es' HP)). reflexivity.
Qed.

(* ---------- mounts ---------- *)
Definition mount_step (m : mount) (l : list mount) : list mount := remove_first m_dest (m_dest m) l ++ [m].

Lemma app_one_NoDup {E} (key : E -> string) e l :
  NoDup (map key l) -> ~ In (key e) (map key l) -> NoDup (map key (l ++ [e])).
Proof.
  intros Hnd Hni. rewrite map_app. apply NoDup_app_intro; [exact Hnd|repeat constructor; intros []|].
  intros x Hx [<-|[]]. exact (Hni Hx).
Qed.

Lemma remove_first_notin {E} (key : E -> string) d l : NoDup (map key l) -> ~ In d (map key (remove_first key d l)).
Proof.
  intros Hnd. apply kfind_None_notin. rewrite kfind_remove_first by exact Hnd. rewrite String.eqb_refl. reflexivity.
Qed.

Lemma mount_step_NoDup m l : NoDup (map m_dest l) -> NoDup (map m_dest (mount_step m l)).
Proof.
  intros Hnd. unfold mount_step. apply app_one_NoDup; [apply remove_first_NoDup; exact Hnd|apply remove_first_notin; exact Hnd].
Qed.

Lemma mount_step_kfind m l k : NoDup (map m_dest l) ->
  kfind m_dest k (mount_step m l) = if String.eqb k (m_dest m) then Some m else kfind m_dest k l.
Proof.
  intros Hnd. unfold mount_step. rewrite kfind_app, kfind_remove_first by exact Hnd. cbn [kfind].
  destruct (String.eqb k (m_dest m)); [reflexivity|]. destruct (kfind m_dest k l); reflexivity.
Qed.

(* the unsorted result of AdjustMounts *)
Definition mounts_unsorted (ms cur : list mount) : list mount :=
  set_phase m_dest mount_step ms (del_phase m_dest ms cur).

Lemma gen_mounts_unfold ms cur :
  gen_mounts ms cur = match ms with [] => cur | _ => sort_mounts (mounts_unsorted ms cur) end.
Proof. reflexivity. Qed.

Lemma mounts_unsorted_NoDup ms cur : NoDup (map m_dest cur) -> NoDup (map m_dest (mounts_unsorted ms cur)).
Proof. apply two_phase_NoDup. exact mount_step_NoDup. Qed.

Lemma gen_mounts_NoDup ms cur : NoDup (map m_dest cur) -> NoDup (map m_dest (gen_mounts ms cur)).
Proof.
  intros Hc. rewrite gen_mounts_unfold. destruct ms as [|m0 r]; [exact Hc|].
  apply (Permutation_NoDup (l := map m_dest (mounts_unsorted (m0 :: r) cur))).
  - apply Permutation_map, Permutation_sym, sort_mounts_perm.
  - apply mounts_unsorted_NoDup. exact Hc.
Qed.

Theorem gen_mounts_refines ms cur k :
  NoDup (map m_dest cur) -> NoDup (r_mods m_dest ms) ->
  kfind m_dest k (gen_mounts ms cur) = kfind m_dest k (apply_keyed m_dest m_dest (fun m => m) cur ms).
Proof.
  intros Hc Hm. rewrite gen_mounts_unfold. destruct ms as [|m0 r].
  - rewrite ref_keyed_kfind. reflexivity.
  - rewrite <- (two_phase_kfind m_dest mount_step mount_step_NoDup mount_step_kfind (m0 :: r) cur k Hc Hm).
    symmetry. apply kfind_perm; [apply Permutation_sym, sort_mounts_perm|exact (mounts_unsorted_NoDup (m0 :: r) cur Hc)].
Qed.

(* ---------- devices ---------- *)
Definition dev_step (d : device) (l : list device) : list device := add_device d (remove_first d_path (d_path d) l).
Definition dev_rule (d : device) : devrule :=
  {| dr_type := d_type d; dr_major := Some (d_major d); dr_minor := Some (d_minor d); dr_access := access_string d |}.

Lemma add_device_app d l : ~ In (d_path d) (map d_path l) -> add_device d l = l ++ [d].
Proof.
  induction l as [|e r IH]; cbn [add_device map]; intros Hni; [reflexivity|].
  destruct (String.eqb_spec (d_path e) (d_path d)) as [Eq|_].
  - exfalso. apply Hni. left. exact Eq.
  - cbn [app]. f_equal. apply IH. intros H. apply Hni. right. exact H.
Qed.

Lemma dev_step_eq d l : NoDup (map d_path l) -> dev_step d l = remove_first d_path (d_path d) l ++ [d].
Proof. intros Hnd. unfold dev_step. apply add_device_app, remove_first_notin, Hnd. Qed.

Lemma dev_step_NoDup d l : NoDup (map d_path l) -> NoDup (map d_path (dev_step d l)).
Proof.
  intros Hnd. rewrite dev_step_eq by exact Hnd.
  apply app_one_NoDup; [apply remove_first_NoDup; exact Hnd|apply remove_first_notin; exact Hnd].
Qed.

Lemma dev_step_kfind d l k : NoDup (map d_path l) ->
  kfind d_path k (dev_step d l) = if String.eqb k (d_path d) then Some d else kfind d_path k l.
Proof.
  intros Hnd. rewrite dev_step_eq by exact Hnd. rewrite kfind_app, kfind_remove_first by exact Hnd. cbn [kfind].
  destruct (String.eqb k (d_path d)); [reflexivity|]. destruct (kfind d_path k l); reflexivity.
Qed.

Lemma gen_devices_fold ds : forall l rules,
  fold_left (fun st d =>
               if marked (d_path d) then st
               else (add_device d (remove_first d_path (d_path d) (fst st)), snd st ++ [dev_rule d])) ds (l, rules)
  = (set_phase d_path dev_step ds l, rules ++ map dev_rule (r_adds d_path ds)).
Proof.
  unfold set_phase, r_adds. induction ds as [|d r IH]; intros l rules; cbn [fold_left filter map].
  - rewrite app_nil_r. reflexivity.
  - destruct (marked (d_path d)); cbn [negb fst snd].
    + apply IH.
    + rewrite IH. cbn [map]. rewrite <- app_assoc. reflexivity.
Qed.

Lemma gen_devices_unfold ds devs rules :
  gen_devices ds devs rules =
  (set_phase d_path dev_step ds (del_phase d_path ds devs), rules ++ map dev_rule (r_adds d_path ds)).
Proof. unfold gen_devices. apply gen_devices_fold. Qed.

Theorem gen_devices_refines ds devs rules k :
  NoDup (map d_path devs) -> NoDup (r_mods d_path ds) ->
  kfind d_path k (fst (gen_devices ds devs rules)) = kfind d_path k (apply_keyed d_path d_path (fun d => d) devs ds).
Proof.
  intros Hc Hm. rewrite gen_devices_unfold. cbn [fst].
  apply (two_phase_kfind d_path dev_step dev_step_NoDup dev_step_kfind ds devs k Hc Hm).
Qed.

Lemma gen_devices_NoDup ds devs rules : NoDup (map d_path devs) -> NoDup (map d_path (fst (gen_devices ds devs rules))).
Proof. intros Hc. rewrite gen_devices_unfold. cbn [fst]. apply two_phase_NoDup; [exact dev_step_NoDup|exact Hc]. Qed.

(* every device that is set has its allow rule *)
Theorem gen_devices_rules ds devs rules : dev_rules_ok ds (snd (gen_devices ds devs rules)) = true.
Proof.
  rewrite gen_devices_unfold. cbn [snd]. unfold dev_rules_ok. apply forallb_forall. intros d Hd.
  destruct (marked (d_path d)) eqn:Hm; [reflexivity|]. cbn [orb].
  apply existsb_exists. exists (dev_rule d). split.
  - apply in_or_app. right. apply in_map. unfold r_adds. apply filter_In. split; [exact Hd|rewrite Hm; reflexivity].
  - unfold dev_rule. cbn [dr_type dr_major dr_minor opt_eqb]. rewrite String.eqb_refl, !Z.eqb_refl. reflexivity.
Qed.

(* ---------- string maps: annotations, unified ---------- *)
Lemma kfind_aset {V} k k' (v : V) l :
  kfind fst k (aset k' v l) = if String.eqb k k' then Some (k', v) else kfind fst k l.
Proof.
  induction l as [|[k2 v2] r IH]; cbn [aset].
  - cbn [kfind fst]. reflexivity.
  - destruct (String.eqb_spec k' k2) as [->|Hne]; cbn [kfind fst].
    + destruct (String.eqb k k2); reflexivity.
    + destruct (String.eqb_spec k k2) as [->|Hk2].
      * destruct (String.eqb_spec k2 k'); [congruence|reflexivity].
      * exact IH.
Qed.

Lemma kfind_aremove {V} k k' (l : list (string * V)) :
  kfind fst k (aremove k' l) = if String.eqb k k' then None else kfind fst k l.
Proof.
  unfold aremove. rewrite (kfind_filter_key fst k (fun x => negb (String.eqb k' x))).
  destruct (String.eqb_spec k' k) as [->|Hne].
  - rewrite String.eqb_refl. reflexivity.
  - destruct (String.eqb_spec k k'); [congruence|reflexivity].
Qed.

Section SMap.
Context {V : Type}.
Definition ann_del (es c : list (string * V)) : list (string * V) :=
  fold_left (fun m e => if marked (fst e) then aremove (rawkey (fst e)) m else m) es c.
Definition ann_set (es c : list (string * V)) : list (string * V) :=
  fold_left (fun m e => if marked (fst e) then m else aset (fst e) (snd e) m) es c.
Definition uni_set (es c : list (string * V)) : list (string * V) :=
  fold_left (fun m e => aset (fst e) (snd e) m) es c.

Lemma ann_del_kfind es : forall c k,
  kfind fst k (ann_del es c) = if smem k (r_dels fst es) then None else kfind fst k c.
Proof.
  unfold ann_del, r_dels. induction es as [|e r IH]; intros c k; cbn [fold_left filter map]; [reflexivity|].
  destruct (marked (fst e)).
  - cbn [map]. rewrite smem_cons, IH, kfind_aremove.
    destruct (String.eqb k (rawkey (fst e))); cbn [orb]; [|reflexivity]. destruct (smem k _); reflexivity.
  - apply IH.
Qed.

Lemma ann_set_kfind es : forall c k,
  kfind fst k (ann_set es c) = match kfind fst k (rev (r_adds fst es)) with Some e => Some e | None => kfind fst k c end.
Proof.
  unfold ann_set, r_adds. induction es as [|e r IH]; intros c k; cbn [fold_left filter]; [reflexivity|].
  destruct (marked (fst e)); cbn [negb].
  - apply IH.
  - cbn [rev]. rewrite kfind_app, IH. destruct (kfind fst k (rev _)); [reflexivity|].
    rewrite kfind_aset. cbn [kfind]. destruct e as [k' v]. cbn [fst snd]. destruct (String.eqb k k'); reflexivity.
Qed.

Lemma uni_set_kfind es : forall c k,
  kfind fst k (uni_set es c) = match kfind fst k (rev es) with Some e => Some e | None => kfind fst k c end.
Proof.
  unfold uni_set. induction es as [|e r IH]; intros c k; cbn [fold_left]; [reflexivity|].
  cbn [rev]. rewrite kfind_app, IH. destruct (kfind fst k (rev r)); [reflexivity|].
  rewrite kfind_aset. cbn [kfind]. destruct e as [k' v]. cbn [fst snd]. destruct (String.eqb k k'); reflexivity.
Qed.
End SMap.

(* removals first, then sets: a set wins over a removal of the same key *)
Theorem apply_ann_kfind c ann k :
  NoDup (r_mods fst ann) ->
  kfind fst k (apply_ann c ann) =
  match kfind fst k (r_adds fst ann) with
  | Some e => Some e
  | None => if smem k (r_dels fst ann) then None else kfind fst k c
  end.
Proof.
  intros Hnd. change (apply_ann c ann) with (ann_set ann (ann_del ann c)).
  rewrite ann_set_kfind, ann_del_kfind, kfind_rev by exact Hnd. reflexivity.
Qed.

Lemma gen_annotations_eq ann c : gen_annotations ann c = apply_ann c ann.
Proof. reflexivity. Qed.

Theorem apply_ann_perm c ann ann' k :
  Permutation ann ann' -> NoDup (r_mods fst ann) -> kfind fst k (apply_ann c ann) = kfind fst k (apply_ann c ann').
Proof.
  intros HP Hnd.
  assert (Hnd' : NoDup (r_mods fst ann')) by (apply (Permutation_NoDup (r_mods_perm fst ann ann' HP) Hnd)).
  rewrite !apply_ann_kfind by assumption.
  rewrite (kfind_perm fst k _ _ (r_adds_perm fst ann ann' HP) Hnd).
  rewrite (smem_perm k _ _ (r_dels_perm fst ann ann' HP)). reflexivity.
Qed.

Theorem uni_set_perm {V} (es es' c : list (string * V)) k :
  Permutation es es' -> NoDup (map fst es) -> kfind fst k (uni_set es c) = kfind fst k (uni_set es' c).
Proof.
  intros HP Hnd.
  assert (Hnd' : NoDup (map fst es')) by (apply (Permutation_NoDup (Permutation_map fst HP) Hnd)).
  rewrite !uni_set_kfind, !kfind_rev by assumption.
  rewrite (kfind_perm fst k _ _ HP Hnd). reflexivity.
Qed.

(* ---------- the environment ---------- *)
Definition env_val (s : string) : string := match snd (cut "="%char s) with Some v => v | None => "" end.

Lemma env_pairs_eq l : env_pairs l = map (fun s => (ref_env_key s, env_val s)) l.
Proof.
  unfold env_pairs. apply map_ext. intros s. unfold ref_env_key, env_val.
  destruct (cut "="%char s) as [k [v|]]; reflexivity.
Qed.

Lemma kfind_env_pairs k l :
  kfind fst k (env_pairs l) = option_map (fun s => (ref_env_key s, env_val s)) (kfind ref_env_key k l).
Proof.
  rewrite env_pairs_eq. induction l as [|s r IH]; cbn [map kfind fst option_map]; [reflexivity|].
  destruct (String.eqb k (ref_env_key s)); [reflexivity|exact IH].
Qed.

Lemma cut_some s : forall k v, cut "="%char s = (k, Some v) -> s = (k ++ "=" ++ v)%string /\ count_char "="%char k = 0.
Proof.
  induction s as [|c r IH]; intros k v H; cbn [cut] in H; [discriminate|].
  destruct (Ascii.eqb_spec c "="%char) as [->|Hne].
  - inversion H; subst. split; reflexivity.
  - destruct (cut "="%char r) as [a b] eqn:Hc. inversion H; subst. destruct (IH a v eq_refl) as [-> Hcnt].
    split; [reflexivity|]. cbn [count_char]. destruct (Ascii.eqb_spec "="%char c); [congruence|]. exact Hcnt.
Qed.

Lemma ref_env_key_oci n v : count_char "="%char n = 0 -> ref_env_key (n ++ "=" ++ v)%string = n.
Proof. intros H. unfold ref_env_key. rewrite (cut_key_eq n v H). reflexivity. Qed.

(* AddProcessEnv with its key cache *)
Lemma alookup_env_upsert k n e acc :
  alookup k (env_upsert n e acc) = if String.eqb k n then Some e else alookup k acc.
Proof.
  induction acc as [|[k2 e2] r IH]; cbn [env_upsert alookup]; [reflexivity|].
  destruct (String.eqb_spec n k2) as [->|Hne]; cbn [alookup].
  - destruct (String.eqb k k2); reflexivity.
  - destruct (String.eqb_spec k k2) as [->|Hk2].
    + destruct (String.eqb_spec k2 n); [congruence|reflexivity].
    + exact IH.
Qed.

Lemma env_upsert_In p n e acc : In p (env_upsert n e acc) -> In p acc \/ p = (n, e).
Proof.
  induction acc as [|[k2 e2] r IH]; cbn [env_upsert].
  - intros [<-|[]]. right. reflexivity.
  - destruct (String.eqb_spec n k2) as [->|Hne].
    + intros [<-|H]; [right; reflexivity|left; right; exact H].
    + intros [<-|H]; [left; left; reflexivity|]. destruct (IH H) as [H1|H1]; [left; right; exact H1|right; exact H1].
Qed.

(* --- mod[key] = e --- *)
Definition emstep (e : string * string) (m : list (string * (string * string))) :=
  if marked (fst e) && match alookup (rawkey (fst e)) m with Some old => negb (marked (fst old)) | None => false end
  then m else aset (rawkey (fst e)) e m.
Lemma env_mod_cons e r m : env_mod (e :: r) m = env_mod r (emstep e m).
Proof. reflexivity. Qed.

Lemma emstep_other e m k : k <> rawkey (fst e) -> alookup k (emstep e m) = alookup k m.
Proof. intros Hne. unfold emstep. destruct (_ && _); [reflexivity|]. apply alookup_aset_other. exact Hne. Qed.

Lemma emstep_unmarked e m : marked (fst e) = false -> alookup (fst e) (emstep e m) = Some e.
Proof.
  intros Hm. unfold emstep. rewrite Hm. cbn [andb]. rewrite (rawkey_unmarked _ Hm). apply alookup_aset_same.
Qed.

Lemma emstep_keep e m old :
  marked (fst e) = true -> alookup (rawkey (fst e)) m = Some old -> marked (fst old) = false -> emstep e m = m.
Proof. intros Hm Ho Hom. unfold emstep. rewrite Hm, Ho, Hom. reflexivity. Qed.

Lemma emstep_marked e m :
  marked (fst e) = true -> (forall old, alookup (rawkey (fst e)) m = Some old -> marked (fst old) = true) ->
  alookup (rawkey (fst e)) (emstep e m) = Some e.
Proof.
  intros Hm Ho. unfold emstep. rewrite Hm. cbn [andb].
  destruct (alookup (rawkey (fst e)) m) as [old|] eqn:Hl.
  - rewrite (Ho old eq_refl). cbn [negb]. apply alookup_aset_same.
  - apply alookup_aset_same.
Qed.

Definition m_ok (m : list (string * (string * string))) : Prop :=
  forall k x, alookup k m = Some x -> rawkey (fst x) = k.

Lemma emstep_ok e m : m_ok m -> m_ok (emstep e m).
Proof.
  intros Hok. unfold emstep. destruct (_ && _); [exact Hok|]. intros k x.
  destruct (String.eqb_spec k (rawkey (fst e))) as [->|Hne].
  - rewrite alookup_aset_same. intros H. inversion H; subst. reflexivity.
  - rewrite alookup_aset_other by exact Hne. apply Hok.
Qed.

Lemma env_mod_ok es : forall m, m_ok m -> m_ok (env_mod es m).
Proof. induction es as [|e r IH]; intros m Hok; [exact Hok|]. rewrite env_mod_cons. apply IH, emstep_ok, Hok. Qed.

Lemma r_mods_cons {E} (key : E -> string) e r :
  r_mods key (e :: r) = if marked (key e) then r_mods key r else key e :: r_mods key r.
Proof. unfold r_mods, r_adds. cbn [filter]. destruct (marked (key e)); reflexivity. Qed.
Lemma r_dels_cons {E} (key : E -> string) e r :
  r_dels key (e :: r) = if marked (key e) then rawkey (key e) :: r_dels key r else r_dels key r.
Proof. unfold r_dels. cbn [filter]. destruct (marked (key e)); reflexivity. Qed.

(* an unmarked entry stays once no later entry sets its key *)
Lemma env_mod_keep es : forall m k old,
  ~ In k (r_mods fst es) -> alookup k m = Some old -> marked (fst old) = false -> alookup k (env_mod es m) = Some old.
Proof.
  induction es as [|e r IH]; intros m k old Hni Hl Hom; [exact Hl|].
  rewrite env_mod_cons. rewrite r_mods_cons in Hni. destruct (marked (fst e)) eqn:Hm.
  - destruct (String.eqb_spec k (rawkey (fst e))) as [->|Hne].
    + rewrite (emstep_keep e m old Hm Hl Hom). apply IH; assumption.
    + apply IH; [exact Hni| |exact Hom]. rewrite emstep_other by exact Hne. exact Hl.
  - assert (Hne : k <> rawkey (fst e)).
    { rewrite (rawkey_unmarked _ Hm). intros ->. apply Hni. left. reflexivity. }
    apply IH; [intros H; apply Hni; right; exact H| |exact Hom]. rewrite emstep_other by exact Hne. exact Hl.
Qed.

(* (i) a variable that is set *)
Lemma env_mod_set es : forall m e,
  In e es -> marked (fst e) = false -> NoDup (r_mods fst es) -> alookup (fst e) (env_mod es m) = Some e.
Proof.
  induction es as [|e0 r IH]; intros m e Hin Hm Hnd; [contradiction|].
  rewrite env_mod_cons. rewrite r_mods_cons in Hnd.
  assert (Hdec : forall x y : string * string, {x = y} + {x <> y}) by (decide equality; apply string_dec).
  destruct (in_dec Hdec e r) as [Hr|Hr].
  - apply IH; [exact Hr|exact Hm|]. destruct (marked (fst e0)); [exact Hnd|inversion Hnd; assumption].
  - destruct Hin as [->|Hin]; [|contradiction]. rewrite Hm in Hnd. inversion Hnd as [|? ? Hx Hr']; subst.
    apply (env_mod_keep r _ (fst e) e Hx); [apply emstep_unmarked; exact Hm|exact Hm].
Qed.

(* (ii) a variable that is removed and not set *)
Lemma env_mod_stays_marked es : forall m k,
  ~ In k (r_mods fst es) -> (exists x, alookup k m = Some x /\ marked (fst x) = true) ->
  exists x, alookup k (env_mod es m) = Some x /\ marked (fst x) = true.
Proof.
  induction es as [|e r IH]; intros m k Hni Hx; [exact Hx|].
  rewrite env_mod_cons. rewrite r_mods_cons in Hni. destruct (marked (fst e)) eqn:Hm.
  - apply IH; [exact Hni|]. destruct (String.eqb_spec k (rawkey (fst e))) as [->|Hne].
    + exists e. split; [|exact Hm]. apply emstep_marked; [exact Hm|].
      intros old Ho. destruct Hx as [x [Hx1 Hx2]]. congruence.
    + rewrite emstep_other by exact Hne. exact Hx.
  - assert (Hne : k <> rawkey (fst e)).
    { rewrite (rawkey_unmarked _ Hm). intros ->. apply Hni. left. reflexivity. }
    apply IH; [intros H; apply Hni; right; exact H|]. rewrite emstep_other by exact Hne. exact Hx.
Qed.

Lemma env_mod_removed es : forall m k,
  ~ In k (r_mods fst es) -> In k (r_dels fst es) -> (forall old, alookup k m = Some old -> marked (fst old) = true) ->
  exists x, alookup k (env_mod es m) = Some x /\ marked (fst x) = true.
Proof.
  induction es as [|e r IH]; intros m k Hni Hd Ho; [contradiction|].
  rewrite env_mod_cons. rewrite r_mods_cons in Hni. rewrite r_dels_cons in Hd. destruct (marked (fst e)) eqn:Hm.
  - destruct (String.eqb_spec k (rawkey (fst e))) as [->|Hne].
    + apply env_mod_stays_marked; [exact Hni|]. exists e. split; [|exact Hm]. apply emstep_marked; assumption.
    + destruct Hd as [Hd|Hd]; [congruence|]. apply IH; [exact Hni|exact Hd|]. rewrite emstep_other by exact Hne. exact Ho.
  - assert (Hne : k <> rawkey (fst e)).
    { rewrite (rawkey_unmarked _ Hm). intros ->. apply Hni. left. reflexivity. }
    apply IH; [intros H; apply Hni; right; exact H|exact Hd|]. rewrite emstep_other by exact Hne. exact Ho.
Qed.

(* (iii) a variable the adjustment does not name *)
Lemma env_mod_untouched es : forall m k,
  ~ In k (r_mods fst es) -> ~ In k (r_dels fst es) -> alookup k (env_mod es m) = alookup k m.
Proof.
  induction es as [|e r IH]; intros m k Hni Hnd; [reflexivity|].
  rewrite env_mod_cons. rewrite r_mods_cons in Hni. rewrite r_dels_cons in Hnd.
  assert (Hne : k <> rawkey (fst e)).
  { destruct (marked (fst e)) eqn:Hm.
    - intros ->. apply Hnd. left. reflexivity.
    - rewrite (rawkey_unmarked _ Hm). intros ->. apply Hni. left. reflexivity. }
  rewrite IH.
  - apply emstep_other. exact Hne.
  - destruct (marked (fst e)); [exact Hni|intros H; apply Hni; right; exact H].
  - destruct (marked (fst e)); [intros H; apply Hnd; right; exact H|exact Hnd].
Qed.

(* --- the pass over the existing environment --- *)
(* W3: every existing entry ("key=value", or a bare "key" without '=') has a non-empty key, the keys are distinct *)
Definition env_W3 (old : list string) : Prop :=
  (forall s, In s old -> ref_env_key s <> "") /\ NoDup (map ref_env_key old).

Lemma env_upsert_app n e acc : ~ In n (map fst acc) -> env_upsert n e acc = acc ++ [(n, e)].
Proof.
  induction acc as [|[k2 e2] r IH]; cbn [env_upsert map fst app]; intros Hni; [reflexivity|].
  destruct (String.eqb_spec n k2) as [->|Hne]; [exfalso; apply Hni; left; reflexivity|].
  f_equal. apply IH. intros H. apply Hni. right. exact H.
Qed.

Lemma add_env_eq n v acc : n <> "" -> add_process_env n v acc = env_upsert n (n ++ "=" ++ v)%string acc.
Proof. intros Hn. unfold add_process_env. destruct (String.eqb_spec n ""); [contradiction|reflexivity]. Qed.

Definition rb_m (k0 : string) (m : list (string * (string * string))) :=
  match alookup k0 m with Some _ => aremove k0 m | None => m end.
(* what one existing entry becomes: (name in the key cache, entry) *)
Definition rb_entry (m : list (string * (string * string))) (s : string) : list (string * string) :=
  match alookup (ref_env_key s) m with
  | Some x => if marked (fst x) then [] else [(ref_env_key s, (ref_env_key s ++ "=" ++ snd x)%string)]
  | None => match snd (cut "="%char s) with Some _ => [(ref_env_key s, s)] | None => [("", s)] end
  end.

Lemma rb_m_lookup k0 m k : alookup k (rb_m k0 m) = if String.eqb k k0 then None else alookup k m.
Proof.
  unfold rb_m. destruct (alookup k0 m) eqn:Hl.
  - destruct (String.eqb_spec k k0) as [->|Hne]; [apply alookup_aremove_same|apply alookup_aremove_other; exact Hne].
  - destruct (String.eqb_spec k k0) as [->|Hne]; [exact Hl|reflexivity].
Qed.

Lemma rb_m_ok k0 m : m_ok m -> m_ok (rb_m k0 m).
Proof.
  intros Hok k x. rewrite rb_m_lookup. destruct (String.eqb k k0); [discriminate|apply Hok].
Qed.

Lemma env_rebuild_cons s r m acc :
  ref_env_key s <> "" -> m_ok m -> ~ In (ref_env_key s) (map fst acc) ->
  env_rebuild (s :: r) m acc = env_rebuild r (rb_m (ref_env_key s) m) (acc ++ rb_entry m s).
Proof.
  intros Hk Hok Hni. cbn [env_rebuild]. unfold rb_m, rb_entry, ref_env_key in *.
  destruct (cut "="%char s) as [k ov] eqn:Hc. cbn [fst snd] in *.
  destruct (alookup k m) as [x|] eqn:Hl.
  - destruct (marked (fst x)) eqn:Hm; [rewrite app_nil_r; reflexivity|].
    pose proof (Hok k x Hl) as Hr. rewrite (rawkey_unmarked _ Hm) in Hr. rewrite Hr.
    rewrite add_env_eq, env_upsert_app by assumption. reflexivity.
  - destruct ov as [v|]; [|reflexivity].
    destruct (cut_some s k v Hc) as [Hs _]. rewrite add_env_eq, env_upsert_app by assumption. rewrite <- Hs. reflexivity.
Qed.

Lemma rb_entry_names m s n : In n (map fst (rb_entry m s)) -> n = "" \/ n = ref_env_key s.
Proof.
  unfold rb_entry. destruct (alookup (ref_env_key s) m) as [x|].
  - destruct (marked (fst x)); cbn [map fst In]; [tauto|]. intros [<-|[]]. right. reflexivity.
  - destruct (snd (cut "="%char s)); cbn [map fst In]; intros [<-|[]]; [right|left]; reflexivity.
Qed.

Lemma rb_entry_other m k0 s : ref_env_key s <> k0 -> rb_entry (rb_m k0 m) s = rb_entry m s.
Proof. intros Hne. unfold rb_entry. rewrite rb_m_lookup. destruct (String.eqb_spec (ref_env_key s) k0); [contradiction|reflexivity]. Qed.

Lemma flat_map_ext_In {A B} (f g : A -> list B) l : (forall x, In x l -> f x = g x) -> flat_map f l = flat_map g l.
Proof.
  induction l as [|x r IH]; intros H; cbn [flat_map]; [reflexivity|].
  rewrite (H x (or_introl eq_refl)), IH; [reflexivity|]. intros y Hy. apply H. right. exact Hy.
Qed.

Lemma env_W3_cons s r : env_W3 (s :: r) -> ref_env_key s <> "" /\ ~ In (ref_env_key s) (map ref_env_key r) /\ env_W3 r.
Proof.
  intros [Hf Hnd]. cbn [map] in Hnd. inversion Hnd as [|? ? Hx Hr]; subst.
  split; [apply Hf; left; reflexivity|]. split; [exact Hx|]. split; [|exact Hr]. intros s' Hs'. apply Hf. right. exact Hs'.
Qed.

(* the rebuilt environment: every upsert is an append, because the keys are distinct *)
Lemma rebuild_fst old : forall m acc, m_ok m -> env_W3 old ->
  (forall s, In s old -> ~ In (ref_env_key s) (map fst acc)) ->
  fst (env_rebuild old m acc) = acc ++ flat_map (rb_entry m) old.
Proof.
  induction old as [|s r IH]; intros m acc Hok HW Hacc; [cbn; rewrite app_nil_r; reflexivity|].
  destruct (env_W3_cons s r HW) as [Hk [Hni HWr]].
  rewrite (env_rebuild_cons s r m acc Hk Hok (Hacc s (or_introl eq_refl))).
  rewrite IH; [|apply rb_m_ok; exact Hok|exact HWr|].
  - cbn [flat_map]. rewrite <- app_assoc. f_equal. f_equal. apply flat_map_ext_In. intros s' Hs'.
    apply rb_entry_other. intros E. apply Hni. rewrite <- E. apply in_map. exact Hs'.
  - intros s' Hs'. rewrite map_app. intros Hin. apply in_app_or in Hin. destruct Hin as [Hin|Hin].
    + exact (Hacc s' (or_intror Hs') Hin).
    + destruct (rb_entry_names m s _ Hin) as [E|E].
      * destruct HWr as [Hf _]. exact (Hf s' Hs' E).
      * apply Hni. rewrite <- E. apply in_map. exact Hs'.
Qed.

(* what is left of mod does not depend on the rebuilt environment *)
Lemma rebuild_snd old : forall m acc,
  snd (env_rebuild old m acc) = fold_left (fun m s => rb_m (ref_env_key s) m) old m.
Proof.
  induction old as [|s r IH]; intros m acc; [reflexivity|].
  cbn [env_rebuild fold_left]. destruct (cut "="%char s) as [k ov] eqn:Hc.
  assert (Hk : ref_env_key s = k) by (unfold ref_env_key; rewrite Hc; reflexivity). rewrite Hk.
  replace (rb_m k m) with (match alookup k m with Some _ => aremove k m | None => m end) by reflexivity.
  destruct (alookup k m) as [x|]; [destruct (marked (fst x))|destruct ov]; apply IH.
Qed.

Lemma rebuild_m old : forall m acc k,
  alookup k (snd (env_rebuild old m acc)) = if smem k (map ref_env_key old) then None else alookup k m.
Proof.
  intros m acc k. rewrite rebuild_snd. revert m. induction old as [|s r IH]; intros m; [reflexivity|].
  cbn [fold_left map]. rewrite IH, smem_cons, rb_m_lookup.
  destruct (String.eqb k (ref_env_key s)); cbn [orb]; [|reflexivity]. destruct (smem k _); reflexivity.
Qed.

(* --- the pass appending the new variables --- *)
Definition env_third (m' : list (string * (string * string))) (es acc : list (string * string)) :=
  fold_left (fun acc e =>
               if marked (fst e) then acc
               else match alookup (fst e) m' with
                    | Some _ => add_process_env (fst e) (snd e) acc
                    | None => acc
                    end) es acc.

(* settable names: non-empty, no '=' *)
Definition names_ok (es : list (string * string)) : Prop :=
  forall n, In n (r_mods fst es) -> n <> "" /\ count_char "="%char n = 0.

Lemma names_ok_cons e r : names_ok (e :: r) ->
  (marked (fst e) = false -> fst e <> "" /\ count_char "="%char (fst e) = 0) /\ names_ok r.
Proof.
  intros H. split.
  - intros Hm. apply H. rewrite r_mods_cons, Hm. left. reflexivity.
  - intros n Hn. apply H. rewrite r_mods_cons. destruct (marked (fst e)); [exact Hn|right; exact Hn].
Qed.

Lemma In_r_mods {E} (key : E -> string) e es : In e es -> marked (key e) = false -> In (key e) (r_mods key es).
Proof.
  intros Hin Hm. unfold r_mods. apply in_map. unfold r_adds. apply filter_In. split; [exact Hin|rewrite Hm; reflexivity].
Qed.

Definition third_new (m' : list (string * (string * string))) (e : string * string) : bool :=
  negb (marked (fst e)) && match alookup (fst e) m' with Some _ => true | None => false end.

Lemma third_app m' es : forall acc, NoDup (r_mods fst es) -> names_ok es ->
  (forall e, In e es -> third_new m' e = true -> ~ In (fst e) (map fst acc)) ->
  env_third m' es acc = acc ++ map (fun e => (fst e, ref_env_oci e)) (filter (third_new m') es).
Proof.
  unfold env_third. induction es as [|e r IH]; intros acc Hnd Hn Hacc; [cbn; rewrite app_nil_r; reflexivity|].
  cbn [fold_left filter]. rewrite r_mods_cons in Hnd. destruct (names_ok_cons e r Hn) as [Hne Hnr].
  pose proof (Hacc e (or_introl eq_refl)) as He. unfold third_new in He |- * at 1.
  destruct (marked (fst e)) eqn:Hm; cbn [negb andb] in *.
  - apply IH; [exact Hnd|exact Hnr|]. intros e' He'. apply Hacc. right. exact He'.
  - inversion Hnd as [|? ? Hx Hr]; subst. destruct (Hne eq_refl) as [Hne1 Hne2].
    destruct (alookup (fst e) m') as [y|].
    + rewrite add_env_eq by exact Hne1. rewrite env_upsert_app by (apply He; reflexivity).
      rewrite IH; [|exact Hr|exact Hnr|].
      * cbn [map]. rewrite <- app_assoc. reflexivity.
      * intros e' He' Hnew. rewrite map_app. intros Hin. apply in_app_or in Hin. destruct Hin as [Hin|[E|[]]].
        -- exact (Hacc e' (or_intror He') Hnew Hin).
        -- cbn [fst] in E. apply Hx. rewrite E. apply In_r_mods; [exact He'|].
           unfold third_new in Hnew. apply andb_true_iff in Hnew. destruct Hnew as [Hnew _]. apply negb_true_iff in Hnew. exact Hnew.
    + apply IH; [exact Hr|exact Hnr|]. intros e' He'. apply Hacc. right. exact He'.
Qed.

Lemma gen_env_unfold es env :
  gen_env es env =
  match env_mod es [] with
  | [] => env
  | _ :: _ => map snd (env_third (snd (env_rebuild env (env_mod es []) [])) es (fst (env_rebuild env (env_mod es []) [])))
  end.
Proof.
  unfold gen_env, env_third. cbv zeta. destruct (env_mod es []) as [|p l]; [reflexivity|].
  destruct (env_rebuild env (p :: l) []) as [acc m']. reflexivity.
Qed.

Lemma kfind_adds_In {E} (key : E -> string) k es e :
  kfind key k (r_adds key es) = Some e -> In e es /\ marked (key e) = false /\ key e = k.
Proof.
  intros H. apply kfind_Some_key in H. destruct H as [Hk Hin]. unfold r_adds in Hin. apply filter_In in Hin.
  destruct Hin as [Hin Hm]. apply negb_true_iff in Hm. tauto.
Qed.

Lemma map_flat_map {A B C} (g : B -> C) (f : A -> list B) l : map g (flat_map f l) = flat_map (fun x => map g (f x)) l.
Proof. induction l as [|x r IH]; cbn [flat_map map]; [reflexivity|]. rewrite map_app, IH. reflexivity. Qed.

Lemma flat_map_single {A} (l : list A) : flat_map (fun x => [x]) l = l.
Proof. induction l as [|x r IH]; cbn [flat_map app]; [reflexivity|]. rewrite IH. reflexivity. Qed.

Lemma filter_filter {A} (p q : A -> bool) l : filter q (filter p l) = filter (fun x => p x && q x) l.
Proof.
  induction l as [|x r IH]; cbn [filter]; [reflexivity|].
  destruct (p x); cbn [andb filter]; [destruct (q x); rewrite IH; reflexivity|exact IH].
Qed.

(* what an existing entry becomes, read off the adjustment *)
Definition env_kept (es : list (string * string)) (s : string) : list string :=
  match kfind fst (ref_env_key s) (r_adds fst es) with
  | Some e => [ref_env_oci e]
  | None => if smem (ref_env_key s) (r_dels fst es) then [] else [s]
  end.
Lemma env_expected_eq es env :
  env_expected es env =
  flat_map (env_kept es) env ++ map ref_env_oci (filter (fun e => negb (smem (fst e) (map ref_env_key env))) (r_adds fst es)).
Proof. reflexivity. Qed.

Lemma rb_entry_kept es s :
  NoDup (r_mods fst es) -> map snd (rb_entry (env_mod es []) s) = env_kept es s.
Proof.
  intros Hnd. unfold rb_entry, env_kept. set (k := ref_env_key s).
  destruct (kfind fst k (r_adds fst es)) as [e|] eqn:Ha.
  - destruct (kfind_adds_In fst k es e Ha) as [Hin [Hm Hk]].
    pose proof (env_mod_set es [] e Hin Hm Hnd) as Hl. rewrite Hk in Hl. rewrite Hl, Hm.
    unfold ref_env_oci. rewrite Hk. reflexivity.
  - apply kfind_None_notin in Ha. destruct (smem k (r_dels fst es)) eqn:Hd.
    + apply smem_In in Hd. destruct (env_mod_removed es [] k Ha Hd) as [x [Hx Hxm]]; [intros old; discriminate|].
      rewrite Hx, Hxm. reflexivity.
    + apply smem_false_notin in Hd. rewrite (env_mod_untouched es [] k Ha Hd). cbn [alookup].
      destruct (snd (cut "="%char s)); reflexivity.
Qed.

(* AdjustEnv, exactly: the existing entries in their order, each set one replaced in place, each removed
   one dropped, every other one untouched; then the new variables in the order of the adjustment *)
Theorem gen_env_exact es env :
  env_W3 env -> NoDup (r_mods fst es) -> names_ok es -> gen_env es env = env_expected es env.
Proof.
  intros HW Hnd Hn. rewrite env_expected_eq.
  assert (Hok : m_ok (env_mod es [])) by (apply env_mod_ok; intros k' x; discriminate).
  rewrite gen_env_unfold. destruct (env_mod es []) as [|p l] eqn:HM.
  - (* the adjustment names no variable *)
    assert (Ha : r_adds fst es = []).
    { destruct (r_adds fst es) as [|e r] eqn:Hadds; [reflexivity|].
      assert (Hin : In e (r_adds fst es)) by (rewrite Hadds; left; reflexivity).
      unfold r_adds in Hin. apply filter_In in Hin. destruct Hin as [Hin Hm]. apply negb_true_iff in Hm.
      pose proof (env_mod_set es [] e Hin Hm Hnd) as Hl. rewrite HM in Hl. discriminate. }
    assert (Hd : forall k, smem k (r_dels fst es) = false).
    { intros k. destruct (smem k (r_dels fst es)) eqn:Hd; [|reflexivity]. apply smem_In in Hd.
      destruct (env_mod_removed es [] k) as [x [Hx _]]; [unfold r_mods; rewrite Ha; intros []|exact Hd|intros old; discriminate|].
      rewrite HM in Hx. discriminate. }
    rewrite Ha. cbn [filter map]. rewrite app_nil_r.
    rewrite (flat_map_ext_In (env_kept es) (fun s => [s])); [symmetry; apply flat_map_single|].
    intros s _. unfold env_kept. rewrite Ha, Hd. reflexivity.
  - rewrite <- HM in *. clear HM p l. set (M := env_mod es []) in *.
    rewrite rebuild_fst; [|exact Hok|exact HW|intros s _ []]. cbn [app].
    rewrite third_app; [|exact Hnd|exact Hn|].
    + rewrite map_app, map_flat_map, map_map. cbn [snd]. f_equal.
      * apply flat_map_ext_In. intros s _. apply rb_entry_kept. exact Hnd.
      * rewrite map_ext with (g := ref_env_oci) by reflexivity. f_equal.
        unfold r_adds. rewrite filter_filter. apply filter_ext_in. intros e He.
        unfold third_new. destruct (marked (fst e)) eqn:Hm; cbn [negb andb]; [reflexivity|].
        rewrite rebuild_m. destruct (smem (fst e) (map ref_env_key env)); [reflexivity|].
        pose proof (env_mod_set es [] e He Hm Hnd) as Hl. fold M in Hl. rewrite Hl. reflexivity.
    + intros e He Hnew Hin. unfold third_new in Hnew. apply andb_true_iff in Hnew. destruct Hnew as [Hm Hl].
      apply negb_true_iff in Hm. rewrite rebuild_m in Hl.
      destruct (smem (fst e) (map ref_env_key env)) eqn:Hs; [discriminate|]. apply smem_false_notin in Hs.
      rewrite map_flat_map in Hin. apply in_flat_map in Hin. destruct Hin as [s [Hs1 Hs2]].
      destruct (rb_entry_names M s _ Hs2) as [E|E].
      * destruct (Hn (fst e) (In_r_mods fst e es He Hm)) as [Hne _]. exact (Hne E).
      * apply Hs. rewrite E. apply in_map. exact Hs1.
Qed.

(* --- the expected list read as a map --- *)
Lemma kfind_flat_map_keyed (f : string -> list string) env k :
  (forall s x, In x (f s) -> ref_env_key x = ref_env_key s) -> NoDup (map ref_env_key env) ->
  kfind ref_env_key k (flat_map f env) =
  match kfind ref_env_key k env with Some s => kfind ref_env_key k (f s) | None => None end.
Proof.
  intros Hf. induction env as [|s r IH]; intros Hnd; [reflexivity|].
  cbn [map] in Hnd. inversion Hnd as [|? ? Hx Hr]; subst. cbn [flat_map kfind]. rewrite kfind_app, IH by exact Hr.
  destruct (String.eqb_spec k (ref_env_key s)) as [->|Hne].
  - destruct (kfind ref_env_key (ref_env_key s) (f s)); [reflexivity|].
    assert (Hnone : kfind ref_env_key (ref_env_key s) r = None) by (apply kfind_None_notin; exact Hx).
    rewrite Hnone. reflexivity.
  - assert (Hnone : kfind ref_env_key k (f s) = None).
    { apply kfind_None_notin. intros Hin. apply in_map_iff in Hin. destruct Hin as [x [Hx1 Hx2]].
      apply Hne. rewrite <- Hx1. apply Hf. exact Hx2. }
    rewrite Hnone. reflexivity.
Qed.

Lemma names_ok_adds es e : names_ok es -> In e (r_adds fst es) -> ref_env_key (ref_env_oci e) = fst e.
Proof.
  intros Hn Hin. unfold ref_env_oci. apply ref_env_key_oci. apply Hn. unfold r_mods. apply in_map. exact Hin.
Qed.

Lemma env_kept_key es s x : names_ok es -> In x (env_kept es s) -> ref_env_key x = ref_env_key s.
Proof.
  intros Hn. unfold env_kept. destruct (kfind fst (ref_env_key s) (r_adds fst es)) as [e|] eqn:Ha.
  - intros [<-|[]]. apply kfind_Some_key in Ha. destruct Ha as [Hk Hin]. rewrite (names_ok_adds es e Hn Hin). exact Hk.
  - destruct (smem _ _); [intros []|]. intros [<-|[]]. reflexivity.
Qed.

Theorem env_expected_kfind es env k :
  NoDup (map ref_env_key env) -> names_ok es ->
  kfind ref_env_key k (env_expected es env) =
  match kfind fst k (r_adds fst es) with
  | Some e => Some (ref_env_oci e)
  | None => if smem k (r_dels fst es) then None else kfind ref_env_key k env
  end.
Proof.
  intros Hnd Hn. rewrite env_expected_eq, kfind_app.
  rewrite (kfind_flat_map_keyed (env_kept es) env k (fun s x => env_kept_key es s x Hn) Hnd).
  rewrite (kfind_map_inj _ _ fst ref_env_key ref_env_oci (fun e => In e (r_adds fst es))
             (fun e Hg _ => names_ok_adds es e Hn Hg)).
  2:{ intros e He. apply filter_In in He. destruct He as [He _]. split; [exact He|].
      unfold r_adds in He. apply filter_In in He. destruct He as [_ Hm]. apply negb_true_iff in Hm. exact Hm. }
  rewrite (kfind_filter_key fst k (fun x => negb (smem x (map ref_env_key env)))).
  destruct (kfind ref_env_key k env) as [s|] eqn:Hs.
  - destruct (kfind_Some_key _ _ _ _ Hs) as [Hk Hin].
    assert (Hmem : smem k (map ref_env_key env) = true) by (apply smem_In; rewrite <- Hk; apply in_map; exact Hin).
    rewrite Hmem. cbn [negb]. unfold env_kept. rewrite Hk.
    destruct (kfind fst k (r_adds fst es)) as [e|] eqn:Ha.
    + cbn [kfind]. apply kfind_Some_key in Ha. destruct Ha as [Hke Hine].
      rewrite (names_ok_adds es e Hn Hine), Hke, String.eqb_refl. reflexivity.
    + destruct (smem k (r_dels fst es)); [reflexivity|]. cbn [kfind]. rewrite Hk, String.eqb_refl. reflexivity.
  - assert (Hmem : smem k (map ref_env_key env) = false) by (apply smem_false_notin; apply kfind_None_notin; exact Hs).
    rewrite Hmem. cbn [negb]. destruct (kfind fst k (r_adds fst es)); cbn [option_map]; [reflexivity|].
    destruct (smem k (r_dels fst es)); reflexivity.
Qed.

(* AdjustEnv = the reference semantics, as a map from names to entries *)
Theorem gen_env_refines es env k :
  env_W3 env -> NoDup (r_mods fst es) -> names_ok es ->
  kfind ref_env_key k (gen_env es env) = kfind ref_env_key k (apply_keyed fst ref_env_key ref_env_oci env es).
Proof.
  intros HW Hnd Hn. rewrite (gen_env_exact es env HW Hnd Hn). rewrite env_expected_kfind by (try apply HW; exact Hn).
  pose proof (sem_char fst ref_env_key ref_env_oci
                (fun e => marked (fst e) = false -> count_char "="%char (fst e) = 0)
                (fun e Hg Hm => ref_env_key_oci (fst e) (snd e) (Hg Hm)) env es k) as Hs.
  unfold sem in Hs. rewrite Hs; [reflexivity|].
  intros e He Hm. apply Hn. apply In_r_mods; assumption.
Qed.

(* the entries no entry of the adjustment names are the same entries, in the same relative order *)
Theorem gen_env_unnamed es env :
  env_W3 env -> NoDup (r_mods fst es) -> names_ok es ->
  filter (env_unnamed es) (gen_env es env) = filter (env_unnamed es) env.
Proof.
  intros HW Hnd Hn. rewrite (gen_env_exact es env HW Hnd Hn), env_expected_eq, filter_app.
  assert (Hnamed : forall k, In k (r_mods fst es) \/ In k (r_dels fst es) -> smem k (map (fun e => rawkey (fst e)) es) = true).
  { intros k Hk. apply smem_In. destruct Hk as [Hk|Hk].
    - unfold r_mods, r_adds in Hk. apply in_map_iff in Hk. destruct Hk as [e [Hk He]]. apply filter_In in He.
      destruct He as [He Hm]. apply negb_true_iff in Hm. apply in_map_iff. exists e. split; [|exact He].
      rewrite (rawkey_unmarked _ Hm). exact Hk.
    - unfold r_dels in Hk. apply in_map_iff in Hk. destruct Hk as [e [Hk He]]. apply filter_In in He.
      apply in_map_iff. exists e. tauto. }
  assert (Hnew : filter (env_unnamed es)
                   (map ref_env_oci (filter (fun e => negb (smem (fst e) (map ref_env_key env))) (r_adds fst es))) = []).
  { generalize (fun e (H : In e (filter (fun e => negb (smem (fst e) (map ref_env_key env))) (r_adds fst es))) =>
                  proj1 (proj1 (filter_In _ e _) H)).
    generalize (filter (fun e => negb (smem (fst e) (map ref_env_key env))) (r_adds fst es)). intros l Hl.
    induction l as [|e r IH]; [reflexivity|]. cbn [map filter].
    assert (Hu : env_unnamed es (ref_env_oci e) = false).
    { unfold env_unnamed. rewrite (names_ok_adds es e Hn (Hl e (or_introl eq_refl))).
      rewrite Hnamed; [reflexivity|]. left. unfold r_mods. apply in_map. apply Hl. left. reflexivity. }
    rewrite Hu. apply IH. intros e' He'. apply Hl. right. exact He'. }
  rewrite Hnew, app_nil_r. clear Hnew.
  induction env as [|s r IH]; [reflexivity|]. cbn [flat_map]. rewrite filter_app.
  destruct (env_W3_cons s r HW) as [_ [_ HWr]]. rewrite (IH HWr). cbn [filter].
  unfold env_kept, env_unnamed at 1 3.
  destruct (kfind fst (ref_env_key s) (r_adds fst es)) as [e|] eqn:Ha.
  - apply kfind_Some_key in Ha. destruct Ha as [Hk Hin]. cbn [filter].
    unfold env_unnamed. rewrite (names_ok_adds es e Hn Hin), Hk.
    rewrite Hnamed; [reflexivity|]. left. rewrite <- Hk. unfold r_mods. apply in_map. exact Hin.
  - destruct (smem (ref_env_key s) (r_dels fst es)) eqn:Hd.
    + cbn [filter app]. apply smem_In in Hd. rewrite Hnamed; [reflexivity|]. right. exact Hd.
    + cbn [filter]. unfold env_unnamed. destruct (negb (smem (ref_env_key s) _)); reflexivity.
Qed.

Theorem ref_env_perm env es es' k :
  Permutation es es' -> NoDup (r_mods fst es) -> names_ok es ->
  kfind ref_env_key k (apply_keyed fst ref_env_key ref_env_oci env es) =
  kfind ref_env_key k (apply_keyed fst ref_env_key ref_env_oci env es').
Proof.
  intros HP Hnd Hn.
  assert (Hn' : names_ok es').
  { intros n Hin. apply Hn. apply (Permutation_in n (Permutation_sym (r_mods_perm fst es es' HP)) Hin). }
  assert (Hchar : forall xs, names_ok xs ->
            kfind ref_env_key k (apply_keyed fst ref_env_key ref_env_oci env xs) =
            match kfind fst k (r_adds fst xs) with
            | Some e => Some (ref_env_oci e)
            | None => if smem k (r_dels fst xs) then None else kfind ref_env_key k env
            end).
  { intros xs Hx.
    apply (sem_char fst ref_env_key ref_env_oci
             (fun e => marked (fst e) = false -> count_char "="%char (fst e) = 0)
             (fun e Hg Hm => ref_env_key_oci (fst e) (snd e) (Hg Hm)) env xs k).
    intros e He Hm. apply Hx. unfold r_mods. apply in_map. unfold r_adds. apply filter_In.
    split; [exact He|rewrite Hm; reflexivity]. }
  rewrite !Hchar by assumption.
  rewrite (kfind_perm fst k _ _ (r_adds_perm fst es es' HP) Hnd).
  rewrite (smem_perm k _ _ (r_dels_perm fst es es' HP)). reflexivity.
Qed.
