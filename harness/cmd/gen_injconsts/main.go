// gen_injconsts regenerates coq/Model/InjConsts.v from the sources of the two sample injector
// plugins: the annotation key constants of plugins/device-injector/device-injector.go and
// plugins/ulimit-adjuster/adjuster.go, the rlimit prefix and the SET of valid rlimit names.
// It is one of the translators of the trusted base (DESIGN.md section 8).
//
// The set of valid names is read for its meaning, not for one shape of the source:
//
//  1. from the source, when the validity test reached from parseUlimits (directly or through
//     unexported helpers, two levels deep) is one of
//     - a package-level variable, never written anywhere else in the file, initialised by a
//     non-empty map literal with string keys (values that are
//     not all `true` / struct{}{} make the shape unrecognised: `m[k]` and `_, ok := m[k]`
//     would differ),
//     - a package-level variable initialised by a slice or array literal of strings (in any
//     order: the set is read; a binary search over an unsorted slice then shows up as a
//     disagreement between the plugin and the model, with a failing input),
//     - a helper `func(s string) bool` whose body is a switch over s with string cases
//     returning true and false otherwise;
//  2. otherwise by RUNNING the plugin's own code: a scratch copy of the plugin package is built
//     together with a small probe that calls parseUlimits for every name of a fixed candidate
//     list (the RLIMIT_* names of golang.org/x/sys/unix for Linux plus near misses) and records
//     which are accepted.
//
// The generated file says in a comment which way the table was obtained.  Anything else — no
// parseUlimits, two candidate tables, a probe that does not build — stops the translator with a
// message: the tie through InjConsts.v then counts as broken (lib/vcheck.py), never a default.
//
// What the translator does NOT read: the key precedence of getAnnotation and the hard/soft
// comparison.  They are part of the hand-written model and tied to the code by the
// correspondence run only, so rewriting them (loop or if-chain, `a < b` or `b > a`, log calls,
// counters) cannot break anything here.
package main

import (
	"encoding/json"
	"flag"
	"fmt"
	"go/ast"
	"go/constant"
	"go/token"
	"os"
	"os/exec"
	"path/filepath"
	"sort"
	"strings"

	"verif/harness/internal/coqfmt"
	"verif/harness/internal/gast"
)

const parseFn = "parseUlimits"

// candidates: every RLIMIT_* name golang.org/x/sys/unix defines for Linux, then names that must
// not be accepted (other systems' limits, prefixed / mangled spellings, the empty string).
var candidates = []string{
	"AS", "CORE", "CPU", "DATA", "FSIZE", "LOCKS", "MEMLOCK", "MSGQUEUE", "NICE", "NOFILE", "NPROC", "RSS",
	"RTPRIO", "RTTIME", "SIGPENDING", "STACK",
	"OFILE", "VMEM", "SBSIZE", "NPTS", "SWAP", "KQUEUES", "UMTXP", "NLIMITS", "INFINITY",
	"", "FOO", "A", "S", "CP", "CPUS", "NO FILE", "NOFILE ", " NOFILE", "NO_FILE", "LIMIT_CPU", "_AS", "TNOFILE", "MCORE",
	"OCK", "EMLOCK", "SGQUEUE", "SS", "TPRIO", "TTIME", "OCKS",
}

type source struct {
	f      *gast.File
	consts map[string]constant.Value
	funcs  map[string]*ast.FuncDecl
	vars   map[string]ast.Expr // package-level variables with an initialiser
}

func load(path string) *source {
	f := gast.Parse(path)
	s := &source{f: f, consts: f.Consts(nil), funcs: map[string]*ast.FuncDecl{}, vars: map[string]ast.Expr{}}
	for _, d := range f.F.Decls {
		switch x := d.(type) {
		case *ast.FuncDecl:
			if x.Recv == nil {
				s.funcs[x.Name.Name] = x
			}
		case *ast.GenDecl:
			if x.Tok != token.VAR {
				continue
			}
			for _, sp := range x.Specs {
				vs := sp.(*ast.ValueSpec)
				for i, n := range vs.Names {
					if i < len(vs.Values) {
						s.vars[n.Name] = vs.Values[i]
					}
				}
			}
		}
	}
	return s
}

func (s *source) str(e ast.Expr) (string, bool) {
	v := gast.Eval(e, s.consts, 0)
	if v == nil || v.Kind() != constant.String {
		return "", false
	}
	return constant.StringVal(v), true
}

// setOfLiteral reads a string set from a composite literal: a map with string keys or a
// slice / array of strings.
func (s *source) setOfLiteral(e ast.Expr) ([]string, string, bool) {
	cl, ok := e.(*ast.CompositeLit)
	if !ok {
		return nil, "", false
	}
	switch t := cl.Type.(type) {
	case *ast.MapType:
		var out []string
		for _, el := range cl.Elts {
			kv, ok := el.(*ast.KeyValueExpr)
			if !ok {
				return nil, "", false
			}
			k, ok := s.str(kv.Key)
			if !ok {
				return nil, "", false
			}
			switch v := kv.Value.(type) {
			case *ast.CompositeLit: // struct{}{} or {}
				if len(v.Elts) != 0 {
					return nil, "", false
				}
			case *ast.Ident:
				if v.Name != "true" {
					return nil, "", false
				}
			default:
				return nil, "", false
			}
			out = append(out, k)
		}
		return out, "the keys of a map literal", true
	case *ast.ArrayType:
		if id, ok := t.Elt.(*ast.Ident); !ok || id.Name != "string" {
			return nil, "", false
		}
		var out []string
		for _, el := range cl.Elts {
			if kv, ok := el.(*ast.KeyValueExpr); ok { // indexed element
				el = kv.Value
			}
			k, ok := s.str(el)
			if !ok {
				return nil, "", false
			}
			out = append(out, k)
		}
		return out, "the elements of a slice / array literal", true
	}
	return nil, "", false
}

// setOfSwitch reads a string set from `func f(x string) bool { switch x { case "A", "B": return true }; return false }`
// (a default clause returning false is accepted; anything else in the body is not).
func (s *source) setOfSwitch(fd *ast.FuncDecl) ([]string, bool) {
	if fd.Body == nil || fd.Type.Params == nil || len(fd.Type.Params.List) != 1 || len(fd.Type.Params.List[0].Names) != 1 ||
		fd.Type.Results == nil || len(fd.Type.Results.List) != 1 {
		return nil, false
	}
	if id, ok := fd.Type.Results.List[0].Type.(*ast.Ident); !ok || id.Name != "bool" {
		return nil, false
	}
	param := fd.Type.Params.List[0].Names[0].Name
	returns := func(st ast.Stmt, want string) bool {
		r, ok := st.(*ast.ReturnStmt)
		if !ok || len(r.Results) != 1 {
			return false
		}
		id, ok := r.Results[0].(*ast.Ident)
		return ok && id.Name == want
	}
	var sw *ast.SwitchStmt
	for i, st := range fd.Body.List {
		switch x := st.(type) {
		case *ast.SwitchStmt:
			if sw != nil || i != 0 {
				return nil, false
			}
			sw = x
		default:
			if !(i == len(fd.Body.List)-1 && returns(st, "false")) {
				return nil, false
			}
		}
	}
	if sw == nil || sw.Init != nil {
		return nil, false
	}
	if tag, ok := sw.Tag.(*ast.Ident); !ok || tag.Name != param {
		return nil, false
	}
	var out []string
	for _, c := range sw.Body.List {
		cc := c.(*ast.CaseClause)
		if cc.List == nil { // default
			if len(cc.Body) != 1 || !returns(cc.Body[0], "false") {
				return nil, false
			}
			continue
		}
		if len(cc.Body) != 1 || !returns(cc.Body[0], "true") {
			return nil, false
		}
		for _, e := range cc.List {
			k, ok := s.str(e)
			if !ok {
				return nil, false
			}
			out = append(out, k)
		}
	}
	return out, true
}

// reachable returns the package-level functions reached from fn through calls, depth levels of helpers deep,
// and every identifier mentioned in their bodies.
func (s *source) reachable(fn string, depth int) (fns []string, idents map[string]bool) {
	idents = map[string]bool{}
	seen := map[string]bool{fn: true}
	level := []string{fn}
	for d := 0; d <= depth && len(level) > 0; d++ {
		var next []string
		for _, name := range level {
			fd := s.funcs[name]
			if fd == nil || fd.Body == nil {
				continue
			}
			fns = append(fns, name)
			ast.Inspect(fd.Body, func(n ast.Node) bool {
				if id, ok := n.(*ast.Ident); ok {
					idents[id.Name] = true
					if _, isFn := s.funcs[id.Name]; isFn && !seen[id.Name] {
						seen[id.Name] = true
						next = append(next, id.Name)
					}
				}
				return true
			})
		}
		level = next
	}
	return
}

// readOnly reports whether the package-level variable v is only ever READ in the file: apart from its declaration
// every occurrence is the operand of an index expression that is not assigned to, the operand of range, or an
// argument of len / a search or membership function.  A table filled or changed by code (init, append, delete,
// an assignment, its address taken, handed to any other function) is not a table this translator can read.
func (s *source) readOnly(v string) bool {
	readers := map[string]bool{"len": true, "sort.SearchStrings": true, "sort.StringsAreSorted": true,
		"slices.Contains": true, "slices.BinarySearch": true, "slices.Index": true}
	ok := true
	var stack []ast.Node
	ast.Inspect(s.f.F, func(n ast.Node) bool {
		if n == nil {
			stack = stack[:len(stack)-1]
			return true
		}
		stack = append(stack, n)
		id, isID := n.(*ast.Ident)
		if !isID || id.Name != v || len(stack) < 2 {
			return true
		}
		parent := stack[len(stack)-2]
		var grand ast.Node
		if len(stack) >= 3 {
			grand = stack[len(stack)-3]
		}
		switch p := parent.(type) {
		case *ast.ValueSpec: // the declaration itself (or a shadowing one: then the name is ambiguous)
			if grand != nil {
				if gd, isGD := grand.(*ast.GenDecl); isGD && gd.Tok == token.VAR && len(stack) == 4 {
					return true
				}
			}
			ok = false
		case *ast.IndexExpr:
			if p.X != n {
				return true // used as an index: a read of a different kind, but a read
			}
			switch g := grand.(type) {
			case *ast.AssignStmt:
				for _, l := range g.Lhs {
					if l == parent {
						ok = false
					}
				}
			case *ast.IncDecStmt:
				ok = false
			case *ast.UnaryExpr:
				if g.Op == token.AND {
					ok = false
				}
			}
		case *ast.RangeStmt:
			if p.X != n {
				ok = false
			}
		case *ast.CallExpr:
			name := ""
			switch f := p.Fun.(type) {
			case *ast.Ident:
				name = f.Name
			case *ast.SelectorExpr:
				if x, isX := f.X.(*ast.Ident); isX {
					name = x.Name + "." + f.Sel.Name
				}
			}
			if !readers[name] {
				ok = false
			}
		default:
			ok = false
		}
		return true
	})
	return ok
}

// validFromSource: exactly one recognisable table among what parseUlimits and its helpers mention.
func (s *source) validFromSource() ([]string, string, bool) {
	if s.funcs[parseFn] == nil {
		gast.Fatal("func %s not found in %s", parseFn, s.f.Path)
	}
	fns, idents := s.reachable(parseFn, 2)
	type found struct {
		set []string
		how string
	}
	var all []found
	var names []string
	for v := range s.vars {
		names = append(names, v)
	}
	sort.Strings(names)
	for _, v := range names {
		if !idents[v] {
			continue
		}
		if set, how, ok := s.setOfLiteral(s.vars[v]); ok && len(set) > 0 && s.readOnly(v) {
			all = append(all, found{set, fmt.Sprintf("%s of the package-level variable %s (never written elsewhere)", how, v)})
		}
	}
	for _, fn := range fns {
		if fn == parseFn {
			continue
		}
		if set, ok := s.setOfSwitch(s.funcs[fn]); ok && len(set) > 0 {
			all = append(all, found{set, fmt.Sprintf("the string cases of the switch in func %s", fn)})
		}
	}
	if len(all) != 1 {
		return nil, fmt.Sprintf("%d recognisable tables among what %s and its helpers mention", len(all), parseFn), false
	}
	return all[0].set, all[0].how, true
}

const probeSrc = `package %s

import (
	"context"
	"encoding/json"
	"fmt"
	"os"
)

func init() {
	raw := os.Getenv("VERIF_PROBE_RLIMITS")
	if raw == "" {
		return
	}
	var cands, accepted []string
	if err := json.Unmarshal([]byte(raw), &cands); err != nil {
		fmt.Fprintln(os.Stderr, err)
		os.Exit(3)
	}
	for _, c := range cands {
		t, _ := json.Marshal(c)
		ann := map[string]string{%s + "/container.c": fmt.Sprintf("[{\"type\": %%s, \"hard\": 1, \"soft\": 1}]", t)}
		if _, err := %s(context.Background(), "c", ann); err == nil {
			accepted = append(accepted, c)
		}
	}
	out, _ := json.Marshal(accepted)
	fmt.Printf("VERIF-ACCEPTED %%s\n", out)
	os.Exit(0)
}
`

// validByRunning builds a scratch copy of the plugin package with a probe and asks the plugin's own
// parseUlimits which candidate names it accepts.
func validByRunning(repo string, s *source) []string {
	dir := filepath.Join(repo, "plugins/ulimit-adjuster")
	tmp, err := os.MkdirTemp("", "gen_injconsts_")
	if err != nil {
		gast.Fatal("scratch directory: %v", err)
	}
	defer os.RemoveAll(tmp)
	fatal := func(format string, args ...interface{}) { // gast.Fatal exits: remove the scratch copy first
		os.RemoveAll(tmp)
		gast.Fatal(format, args...)
	}
	ents, err := os.ReadDir(dir)
	if err != nil {
		fatal("%v", err)
	}
	for _, e := range ents {
		n := e.Name()
		if e.IsDir() || strings.HasSuffix(n, "_test.go") || !(strings.HasSuffix(n, ".go") || n == "go.mod" || n == "go.sum") {
			continue
		}
		b, err := os.ReadFile(filepath.Join(dir, n))
		if err != nil {
			fatal("%v", err)
		}
		if n == "go.mod" {
			abs, _ := filepath.Abs(repo)
			b = []byte(strings.ReplaceAll(string(b), "=> ../..", "=> "+abs))
		}
		if err := os.WriteFile(filepath.Join(tmp, n), b, 0o644); err != nil {
			fatal("%v", err)
		}
	}
	if _, ok := s.consts["ulimitKey"]; !ok {
		fatal("constant ulimitKey not found in %s", s.f.Path)
	}
	probe := fmt.Sprintf(probeSrc, s.f.F.Name.Name, "ulimitKey", parseFn)
	if err := os.WriteFile(filepath.Join(tmp, "zz_verif_probe.go"), []byte(probe), 0o644); err != nil {
		fatal("%v", err)
	}
	env := []string{}
	for _, kv := range os.Environ() {
		if !strings.HasPrefix(kv, "GOFLAGS=") {
			env = append(env, kv)
		}
	}
	env = append(env, "GOFLAGS=-mod=mod", "GOPROXY=off", "GOSUMDB=off", "GOTOOLCHAIN=local", "CGO_ENABLED=0")
	bin := filepath.Join(tmp, "probe.bin")
	build := exec.Command("go", "build", "-o", bin, ".")
	build.Dir, build.Env = tmp, env
	if log, err := build.CombinedOutput(); err != nil {
		fatal("the table of valid rlimit names has no shape this translator reads, and the probe of %s does not build: %v\n%s", parseFn, err, log)
	}
	cj, _ := json.Marshal(candidates)
	run := exec.Command(bin)
	run.Env = append(env, "VERIF_PROBE_RLIMITS="+string(cj))
	outb, err := run.Output()
	if err != nil {
		fatal("the probe of %s failed: %v", parseFn, err)
	}
	for _, line := range strings.Split(string(outb), "\n") {
		if rest, ok := strings.CutPrefix(line, "VERIF-ACCEPTED "); ok {
			var acc []string
			if err := json.Unmarshal([]byte(rest), &acc); err != nil {
				fatal("probe output: %v", err)
			}
			return acc
		}
	}
	fatal("the probe of %s printed no result", parseFn)
	return nil
}

func main() {
	repo := flag.String("repo", "/repo", "repository root")
	out := flag.String("out", "", "output file (default: stdout)")
	flag.Parse()

	var b gast.Builder
	b.P("(* GENERATED by harness/cmd/gen_injconsts from the plugin sources under %s/plugins — do not edit. *)", *repo)
	b.P("From Coq Require Import String List.")
	b.P("Import ListNotations.")
	b.P("Open Scope string_scope.")
	b.P("")

	di := gast.Parse(filepath.Join(*repo, "plugins/device-injector/device-injector.go"))
	dic := di.Consts(nil)
	b.P("(* plugins/device-injector/device-injector.go *)")
	b.P("Definition device_key : string := %s.", coqfmt.Str(gast.MustStr(dic, "deviceKey")))
	b.P("Definition mount_key : string := %s.", coqfmt.Str(gast.MustStr(dic, "mountKey")))
	b.P("Definition cdi_device_key : string := %s.", coqfmt.Str(gast.MustStr(dic, "cdiDeviceKey")))

	ua := load(filepath.Join(*repo, "plugins/ulimit-adjuster/adjuster.go"))
	b.P("(* plugins/ulimit-adjuster/adjuster.go *)")
	b.P("Definition ulimit_key : string := %s.", coqfmt.Str(gast.MustStr(ua.consts, "ulimitKey")))
	b.P("Definition rlimit_prefix : string := %s.", coqfmt.Str(gast.MustStr(ua.consts, "rlimitPrefix")))
	names, how, ok := ua.validFromSource()
	if ok {
		b.P("(* valid_rlimits: read from the source — %s *)", how)
	} else {
		names = validByRunning(*repo, ua)
		b.P("(* valid_rlimits: NOT read from the source (%s); obtained by running the plugin's own %s over %d candidate names and keeping the accepted ones *)",
			how, parseFn, len(candidates))
	}
	set := map[string]bool{}
	var uniq []string
	for _, n := range names {
		if !set[n] {
			set[n] = true
			uniq = append(uniq, n)
		}
	}
	sort.Strings(uniq)
	b.P("Definition valid_rlimits : list string := %s.", coqfmt.StrList(uniq))
	gast.Emit(*out, b.String())
}
