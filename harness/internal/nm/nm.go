// Package nm mirrors the Coq types of coq/Model/Types.v in Go: neutral values
// that convert to the real api messages, are read back from them, print as
// Coq terms and serialise to readable JSON for replay files.
package nm

import (
	"fmt"
	"os"
	"sort"
	"strings"

	"github.com/containerd/nri/pkg/api"

	"verif/harness/internal/coqfmt"
)

// ---------------------------------------------------------------- scalars

// Fields lists the scalar resource fields in the order of Types.v.
var Fields = []string{
	"MemLimit", "MemReservation", "MemSwap", "MemKernel", "MemKernelTcp", "MemSwappiness",
	"MemDisableOom", "MemUseHierarchy",
	"CpuShares", "CpuQuota", "CpuPeriod", "CpuRtRuntime", "CpuRtPeriod", "CpuCpus", "CpuMems",
	"BlockioClass", "RdtClass", "Pids",
}

// Kind of a field: i = int64, u = uint64, b = bool, s = string.
var Kind = map[string]byte{
	"MemLimit": 'i', "MemReservation": 'i', "MemSwap": 'i', "MemKernel": 'i', "MemKernelTcp": 'i', "MemSwappiness": 'u',
	"MemDisableOom": 'b', "MemUseHierarchy": 'b',
	"CpuShares": 'u', "CpuQuota": 'i', "CpuPeriod": 'u', "CpuRtRuntime": 'i', "CpuRtPeriod": 'u', "CpuCpus": 's', "CpuMems": 's',
	"BlockioClass": 's', "RdtClass": 's', "Pids": 'i',
}

// SVal is the value of one scalar field.
type SVal struct {
	F string `json:"f"`
	I int64  `json:"i,omitempty"`
	U uint64 `json:"u,omitempty"`
	B bool   `json:"b,omitempty"`
	S string `json:"s,omitempty"`
}

func (v SVal) Coq() string {
	switch Kind[v.F] {
	case 'i':
		return coqfmt.Pair(v.F, "VZ "+coqfmt.Z(v.I))
	case 'u':
		return coqfmt.Pair(v.F, "VZ "+coqfmt.ZU(v.U))
	case 'b':
		return coqfmt.Pair(v.F, "VB "+coqfmt.Bool(v.B))
	default:
		return coqfmt.Pair(v.F, "VS "+coqfmt.Str(v.S))
	}
}

// HP is a hugepage limit.
type HP struct {
	Size  string `json:"size"`
	Limit uint64 `json:"limit"`
}

// KV is a key/value pair of a map in a fixed order.
type KV struct {
	K string `json:"k"`
	V string `json:"v"`
}

// Res mirrors Types.resources.
type Res struct {
	Scal []SVal `json:"scal,omitempty"`
	HP   []HP   `json:"hp,omitempty"`
	Uni  []KV   `json:"uni,omitempty"`
}

func kvsCoq(l []KV) string {
	out := make([]string, len(l))
	for i, e := range l {
		out[i] = coqfmt.Pair(coqfmt.Str(e.K), coqfmt.Str(e.V))
	}
	return coqfmt.List(out)
}

func (r *Res) Coq() string {
	if r == nil {
		return "res_empty"
	}
	sc := make([]string, len(r.Scal))
	for i, v := range r.Scal {
		sc[i] = v.Coq()
	}
	hp := make([]string, len(r.HP))
	for i, h := range r.HP {
		hp[i] = coqfmt.Pair(coqfmt.Str(h.Size), coqfmt.ZU(h.Limit))
	}
	return fmt.Sprintf("{| r_scal := %s; r_hp := %s; r_uni := %s |}", coqfmt.List(sc), coqfmt.List(hp), kvsCoq(r.Uni))
}

func (r *Res) get(f string) *SVal {
	if r == nil {
		return nil
	}
	for i := range r.Scal {
		if r.Scal[i].F == f {
			return &r.Scal[i]
		}
	}
	return nil
}

func (r *Res) Empty() bool {
	return r == nil || (len(r.Scal) == 0 && len(r.HP) == 0 && len(r.Uni) == 0)
}

// ToAPI builds the protobuf message.  Nil for an empty value when nilEmpty is set.
func (r *Res) ToAPI() *api.LinuxResources {
	if r == nil {
		return nil
	}
	o := &api.LinuxResources{}
	mem := func() *api.LinuxMemory {
		if o.Memory == nil {
			o.Memory = &api.LinuxMemory{}
		}
		return o.Memory
	}
	cpu := func() *api.LinuxCPU {
		if o.Cpu == nil {
			o.Cpu = &api.LinuxCPU{}
		}
		return o.Cpu
	}
	for _, v := range r.Scal {
		switch v.F {
		case "MemLimit":
			mem().Limit = api.Int64(v.I)
		case "MemReservation":
			mem().Reservation = api.Int64(v.I)
		case "MemSwap":
			mem().Swap = api.Int64(v.I)
		case "MemKernel":
			mem().Kernel = api.Int64(v.I)
		case "MemKernelTcp":
			mem().KernelTcp = api.Int64(v.I)
		case "MemSwappiness":
			mem().Swappiness = api.UInt64(v.U)
		case "MemDisableOom":
			mem().DisableOomKiller = api.Bool(v.B)
		case "MemUseHierarchy":
			mem().UseHierarchy = api.Bool(v.B)
		case "CpuShares":
			cpu().Shares = api.UInt64(v.U)
		case "CpuQuota":
			cpu().Quota = api.Int64(v.I)
		case "CpuPeriod":
			cpu().Period = api.UInt64(v.U)
		case "CpuRtRuntime":
			cpu().RealtimeRuntime = api.Int64(v.I)
		case "CpuRtPeriod":
			cpu().RealtimePeriod = api.UInt64(v.U)
		case "CpuCpus":
			cpu().Cpus = v.S
		case "CpuMems":
			cpu().Mems = v.S
		case "BlockioClass":
			o.BlockioClass = api.String(v.S)
		case "RdtClass":
			o.RdtClass = api.String(v.S)
		case "Pids":
			o.Pids = &api.LinuxPids{Limit: v.I}
		default:
			panic("nm: unknown field " + v.F)
		}
	}
	for _, h := range r.HP {
		o.HugepageLimits = append(o.HugepageLimits, &api.HugepageLimit{PageSize: h.Size, Limit: h.Limit})
	}
	if len(r.Uni) > 0 {
		o.Unified = map[string]string{}
		for _, e := range r.Uni {
			o.Unified[e.K] = e.V
		}
	}
	return o
}

// SortedKVs returns a map in key order.
func SortedKVs(m map[string]string) []KV {
	keys := make([]string, 0, len(m))
	for k := range m {
		keys = append(keys, k)
	}
	sort.Strings(keys)
	out := make([]KV, 0, len(keys))
	for _, k := range keys {
		out = append(out, KV{k, m[k]})
	}
	return out
}

// ResFromAPI reads a protobuf message back (canonical: fields in Types.v order, maps sorted).
func ResFromAPI(o *api.LinuxResources) *Res {
	r := &Res{}
	if o == nil {
		return r
	}
	add := func(v SVal) { r.Scal = append(r.Scal, v) }
	if m := o.Memory; m != nil {
		if m.Limit != nil {
			add(SVal{F: "MemLimit", I: m.Limit.Value})
		}
		if m.Reservation != nil {
			add(SVal{F: "MemReservation", I: m.Reservation.Value})
		}
		if m.Swap != nil {
			add(SVal{F: "MemSwap", I: m.Swap.Value})
		}
		if m.Kernel != nil {
			add(SVal{F: "MemKernel", I: m.Kernel.Value})
		}
		if m.KernelTcp != nil {
			add(SVal{F: "MemKernelTcp", I: m.KernelTcp.Value})
		}
		if m.Swappiness != nil {
			add(SVal{F: "MemSwappiness", U: m.Swappiness.Value})
		}
		if m.DisableOomKiller != nil {
			add(SVal{F: "MemDisableOom", B: m.DisableOomKiller.Value})
		}
		if m.UseHierarchy != nil {
			add(SVal{F: "MemUseHierarchy", B: m.UseHierarchy.Value})
		}
	}
	if c := o.Cpu; c != nil {
		if c.Shares != nil {
			add(SVal{F: "CpuShares", U: c.Shares.Value})
		}
		if c.Quota != nil {
			add(SVal{F: "CpuQuota", I: c.Quota.Value})
		}
		if c.Period != nil {
			add(SVal{F: "CpuPeriod", U: c.Period.Value})
		}
		if c.RealtimeRuntime != nil {
			add(SVal{F: "CpuRtRuntime", I: c.RealtimeRuntime.Value})
		}
		if c.RealtimePeriod != nil {
			add(SVal{F: "CpuRtPeriod", U: c.RealtimePeriod.Value})
		}
		if c.Cpus != "" {
			add(SVal{F: "CpuCpus", S: c.Cpus})
		}
		if c.Mems != "" {
			add(SVal{F: "CpuMems", S: c.Mems})
		}
	}
	if o.BlockioClass != nil {
		add(SVal{F: "BlockioClass", S: o.BlockioClass.Value})
	}
	if o.RdtClass != nil {
		add(SVal{F: "RdtClass", S: o.RdtClass.Value})
	}
	if o.Pids != nil {
		add(SVal{F: "Pids", I: o.Pids.Limit})
	}
	for _, h := range o.HugepageLimits {
		r.HP = append(r.HP, HP{h.PageSize, h.Limit})
	}
	r.Uni = SortedKVs(o.Unified)
	return r
}

// ---------------------------------------------------------------- composite values

type Mount struct {
	Dest   string   `json:"dest"`
	Type   string   `json:"type,omitempty"`
	Source string   `json:"source,omitempty"`
	Opts   []string `json:"opts,omitempty"`
}

func (m Mount) Coq() string {
	return fmt.Sprintf("{| m_dest := %s; m_type := %s; m_source := %s; m_opts := %s |}",
		coqfmt.Str(m.Dest), coqfmt.Str(m.Type), coqfmt.Str(m.Source), coqfmt.StrList(m.Opts))
}
func (m Mount) ToAPI() *api.Mount {
	return &api.Mount{Destination: m.Dest, Type: m.Type, Source: m.Source, Options: append([]string(nil), m.Opts...)}
}
func MountFromAPI(m *api.Mount) Mount {
	return Mount{Dest: m.Destination, Type: m.Type, Source: m.Source, Opts: append([]string(nil), m.Options...)}
}

type Device struct {
	Path  string  `json:"path"`
	Type  string  `json:"type,omitempty"`
	Major int64   `json:"major,omitempty"`
	Minor int64   `json:"minor,omitempty"`
	Mode  *uint32 `json:"mode,omitempty"`
	UID   *uint32 `json:"uid,omitempty"`
	GID   *uint32 `json:"gid,omitempty"`
}

func optU32(p *uint32) string {
	if p == nil {
		return "None"
	}
	return "(Some " + coqfmt.ZU(uint64(*p)) + ")"
}
func (d Device) Coq() string {
	return fmt.Sprintf("{| d_path := %s; d_type := %s; d_major := %s; d_minor := %s; d_mode := %s; d_uid := %s; d_gid := %s |}",
		coqfmt.Str(d.Path), coqfmt.Str(d.Type), coqfmt.Z(d.Major), coqfmt.Z(d.Minor), optU32(d.Mode), optU32(d.UID), optU32(d.GID))
}
func (d Device) ToAPI() *api.LinuxDevice {
	o := &api.LinuxDevice{Path: d.Path, Type: d.Type, Major: d.Major, Minor: d.Minor}
	if d.Mode != nil {
		o.FileMode = &api.OptionalFileMode{Value: *d.Mode}
	}
	if d.UID != nil {
		o.Uid = &api.OptionalUInt32{Value: *d.UID}
	}
	if d.GID != nil {
		o.Gid = &api.OptionalUInt32{Value: *d.GID}
	}
	return o
}
func DeviceFromAPI(d *api.LinuxDevice) Device {
	o := Device{Path: d.Path, Type: d.Type, Major: d.Major, Minor: d.Minor}
	if d.FileMode != nil {
		v := d.FileMode.Value
		o.Mode = &v
	}
	if d.Uid != nil {
		v := d.Uid.Value
		o.UID = &v
	}
	if d.Gid != nil {
		v := d.Gid.Value
		o.GID = &v
	}
	return o
}

type Hook struct {
	Path    string   `json:"path"`
	Args    []string `json:"args,omitempty"`
	Env     []string `json:"env,omitempty"`
	Timeout *int64   `json:"timeout,omitempty"`
}

func (h Hook) Coq() string {
	return fmt.Sprintf("{| h_path := %s; h_args := %s; h_env := %s; h_timeout := %s |}",
		coqfmt.Str(h.Path), coqfmt.StrList(h.Args), coqfmt.StrList(h.Env), coqfmt.OptZ(h.Timeout))
}
func (h Hook) ToAPI() *api.Hook {
	o := &api.Hook{Path: h.Path, Args: append([]string(nil), h.Args...), Env: append([]string(nil), h.Env...)}
	if h.Timeout != nil {
		o.Timeout = &api.OptionalInt{Value: *h.Timeout}
	}
	return o
}
func HookFromAPI(h *api.Hook) Hook {
	o := Hook{Path: h.Path, Args: append([]string(nil), h.Args...), Env: append([]string(nil), h.Env...)}
	if h.Timeout != nil {
		v := h.Timeout.Value
		o.Timeout = &v
	}
	return o
}

// Hooks: the six lists in the order of Types.hooks.
type Hooks struct {
	Prestart        []Hook `json:"prestart,omitempty"`
	CreateRuntime   []Hook `json:"createruntime,omitempty"`
	CreateContainer []Hook `json:"createcontainer,omitempty"`
	StartContainer  []Hook `json:"startcontainer,omitempty"`
	Poststart       []Hook `json:"poststart,omitempty"`
	Poststop        []Hook `json:"poststop,omitempty"`
}

func hookList(l []Hook) string {
	out := make([]string, len(l))
	for i, h := range l {
		out[i] = h.Coq()
	}
	return coqfmt.List(out)
}
func (h *Hooks) Coq() string {
	if h == nil || h.Empty() {
		return "hooks_empty"
	}
	return fmt.Sprintf("{| hk_prestart := %s; hk_createruntime := %s; hk_createcontainer := %s; hk_startcontainer := %s; hk_poststart := %s; hk_poststop := %s |}",
		hookList(h.Prestart), hookList(h.CreateRuntime), hookList(h.CreateContainer), hookList(h.StartContainer), hookList(h.Poststart), hookList(h.Poststop))
}
func (h *Hooks) Empty() bool {
	return h == nil || len(h.Prestart)+len(h.CreateRuntime)+len(h.CreateContainer)+len(h.StartContainer)+len(h.Poststart)+len(h.Poststop) == 0
}
func hooksTo(l []Hook) []*api.Hook {
	var out []*api.Hook
	for _, h := range l {
		out = append(out, h.ToAPI())
	}
	return out
}
func hooksFrom(l []*api.Hook) []Hook {
	var out []Hook
	for _, h := range l {
		out = append(out, HookFromAPI(h))
	}
	return out
}
func (h *Hooks) ToAPI() *api.Hooks {
	if h == nil {
		return nil
	}
	return &api.Hooks{Prestart: hooksTo(h.Prestart), CreateRuntime: hooksTo(h.CreateRuntime), CreateContainer: hooksTo(h.CreateContainer),
		StartContainer: hooksTo(h.StartContainer), Poststart: hooksTo(h.Poststart), Poststop: hooksTo(h.Poststop)}
}
func HooksFromAPI(h *api.Hooks) *Hooks {
	if h == nil {
		return &Hooks{}
	}
	return &Hooks{Prestart: hooksFrom(h.Prestart), CreateRuntime: hooksFrom(h.CreateRuntime), CreateContainer: hooksFrom(h.CreateContainer),
		StartContainer: hooksFrom(h.StartContainer), Poststart: hooksFrom(h.Poststart), Poststop: hooksFrom(h.Poststop)}
}

type Rlimit struct {
	Type string `json:"type"`
	Hard uint64 `json:"hard"`
	Soft uint64 `json:"soft"`
}

func (l Rlimit) Coq() string {
	return fmt.Sprintf("{| rl_type := %s; rl_hard := %s; rl_soft := %s |}", coqfmt.Str(l.Type), coqfmt.ZU(l.Hard), coqfmt.ZU(l.Soft))
}

// Container mirrors Types.container.
type Container struct {
	ID      string   `json:"id"`
	Ann     []KV     `json:"ann,omitempty"`
	Mounts  []Mount  `json:"mounts,omitempty"`
	Env     []string `json:"env,omitempty"`
	Args    []string `json:"args,omitempty"`
	Hooks   *Hooks   `json:"hooks,omitempty"`
	Rlimits []Rlimit `json:"rlimits,omitempty"`
	Devices []Device `json:"devices,omitempty"`
	Res     *Res     `json:"res,omitempty"`
	Cgroups string   `json:"cgroups,omitempty"`
	Oom     *int64   `json:"oom,omitempty"`
}

func mountList(l []Mount) string {
	out := make([]string, len(l))
	for i, m := range l {
		out[i] = m.Coq()
	}
	return coqfmt.List(out)
}
func deviceList(l []Device) string {
	out := make([]string, len(l))
	for i, m := range l {
		out[i] = m.Coq()
	}
	return coqfmt.List(out)
}
func rlimitList(l []Rlimit) string {
	out := make([]string, len(l))
	for i, m := range l {
		out[i] = m.Coq()
	}
	return coqfmt.List(out)
}

func (c *Container) Coq() string {
	return fmt.Sprintf("{| c_id := %s; c_ann := %s; c_mounts := %s; c_env := %s; c_args := %s; c_hooks := %s; c_rlimits := %s; c_devices := %s; c_res := %s; c_cgroups := %s; c_oom := %s |}",
		coqfmt.Str(c.ID), kvsCoq(c.Ann), mountList(c.Mounts), coqfmt.StrList(c.Env), coqfmt.StrList(c.Args), c.Hooks.Coq(),
		rlimitList(c.Rlimits), deviceList(c.Devices), c.Res.Coq(), coqfmt.Str(c.Cgroups), coqfmt.OptZ(c.Oom))
}

func (c *Container) ToAPI(pod string) *api.Container {
	o := &api.Container{Id: c.ID, PodSandboxId: pod, Name: "ctr-" + c.ID, Args: append([]string(nil), c.Args...), Env: append([]string(nil), c.Env...)}
	if len(c.Ann) > 0 {
		o.Annotations = map[string]string{}
		for _, e := range c.Ann {
			o.Annotations[e.K] = e.V
		}
	}
	for _, m := range c.Mounts {
		o.Mounts = append(o.Mounts, m.ToAPI())
	}
	if !c.Hooks.Empty() {
		o.Hooks = c.Hooks.ToAPI()
	}
	for _, l := range c.Rlimits {
		o.Rlimits = append(o.Rlimits, &api.POSIXRlimit{Type: l.Type, Hard: l.Hard, Soft: l.Soft})
	}
	lin := &api.LinuxContainer{CgroupsPath: c.Cgroups}
	for _, d := range c.Devices {
		lin.Devices = append(lin.Devices, d.ToAPI())
	}
	if !c.Res.Empty() {
		lin.Resources = c.Res.ToAPI()
	}
	if c.Oom != nil {
		lin.OomScoreAdj = &api.OptionalInt{Value: *c.Oom}
	}
	o.Linux = lin
	return o
}

// ContainerFromAPI reads what a plugin was shown (canonical form).
func ContainerFromAPI(c *api.Container) *Container {
	o := &Container{ID: c.GetId(), Ann: SortedKVs(c.GetAnnotations()), Env: append([]string(nil), c.GetEnv()...), Args: append([]string(nil), c.GetArgs()...)}
	for _, m := range c.GetMounts() {
		o.Mounts = append(o.Mounts, MountFromAPI(m))
	}
	o.Hooks = HooksFromAPI(c.GetHooks())
	for _, l := range c.GetRlimits() {
		o.Rlimits = append(o.Rlimits, Rlimit{l.Type, l.Hard, l.Soft})
	}
	for _, d := range c.GetLinux().GetDevices() {
		o.Devices = append(o.Devices, DeviceFromAPI(d))
	}
	o.Res = ResFromAPI(c.GetLinux().GetResources())
	o.Cgroups = c.GetLinux().GetCgroupsPath()
	if v := c.GetLinux().GetOomScoreAdj(); v != nil {
		x := v.Value
		o.Oom = &x
	}
	return o
}

// Adjust mirrors Types.adjustment.
type Adjust struct {
	Ann     []KV     `json:"ann,omitempty"`
	Mounts  []Mount  `json:"mounts,omitempty"`
	Env     []KV     `json:"env,omitempty"`
	Args    []string `json:"args,omitempty"`
	Hooks   *Hooks   `json:"hooks,omitempty"`
	Rlimits []Rlimit `json:"rlimits,omitempty"`
	CDI     []string `json:"cdi,omitempty"`
	Devices []Device `json:"devices,omitempty"`
	Res     *Res     `json:"res,omitempty"`
	Cgroups string   `json:"cgroups,omitempty"`
	Oom     *int64   `json:"oom,omitempty"`
}

func (a *Adjust) Coq() string {
	if a == nil {
		return "adj_empty"
	}
	return fmt.Sprintf("{| a_ann := %s; a_mounts := %s; a_env := %s; a_args := %s; a_hooks := %s; a_rlimits := %s; a_cdi := %s; a_devices := %s; a_res := %s; a_cgroups := %s; a_oom := %s |}",
		kvsCoq(a.Ann), mountList(a.Mounts), kvsCoq(a.Env), coqfmt.StrList(a.Args), a.Hooks.Coq(), rlimitList(a.Rlimits),
		coqfmt.StrList(a.CDI), deviceList(a.Devices), a.Res.Coq(), coqfmt.Str(a.Cgroups), coqfmt.OptZ(a.Oom))
}

func (a *Adjust) ToAPI() *api.ContainerAdjustment {
	if a == nil {
		return nil
	}
	o := &api.ContainerAdjustment{Args: append([]string(nil), a.Args...)}
	if len(a.Ann) > 0 {
		o.Annotations = map[string]string{}
		for _, e := range a.Ann {
			o.Annotations[e.K] = e.V
		}
	}
	for _, m := range a.Mounts {
		o.Mounts = append(o.Mounts, m.ToAPI())
	}
	for _, e := range a.Env {
		o.Env = append(o.Env, &api.KeyValue{Key: e.K, Value: e.V})
	}
	if !a.Hooks.Empty() {
		o.Hooks = a.Hooks.ToAPI()
	}
	for _, l := range a.Rlimits {
		o.Rlimits = append(o.Rlimits, &api.POSIXRlimit{Type: l.Type, Hard: l.Hard, Soft: l.Soft})
	}
	for _, n := range a.CDI {
		o.CDIDevices = append(o.CDIDevices, &api.CDIDevice{Name: n})
	}
	if len(a.Devices) > 0 || !a.Res.Empty() || a.Cgroups != "" || a.Oom != nil {
		lin := &api.LinuxContainerAdjustment{CgroupsPath: a.Cgroups}
		for _, d := range a.Devices {
			lin.Devices = append(lin.Devices, d.ToAPI())
		}
		if !a.Res.Empty() {
			lin.Resources = a.Res.ToAPI()
		}
		if a.Oom != nil {
			lin.OomScoreAdj = &api.OptionalInt{Value: *a.Oom}
		}
		o.Linux = lin
	}
	return o
}

// AdjustFromAPI reads the combined adjustment returned to the runtime.
func AdjustFromAPI(a *api.ContainerAdjustment) *Adjust {
	o := &Adjust{}
	if a == nil {
		return o
	}
	o.Ann = SortedKVs(a.Annotations)
	for _, m := range a.Mounts {
		o.Mounts = append(o.Mounts, MountFromAPI(m))
	}
	for _, e := range a.Env {
		o.Env = append(o.Env, KV{e.Key, e.Value})
	}
	o.Args = append([]string(nil), a.Args...)
	o.Hooks = HooksFromAPI(a.Hooks)
	for _, l := range a.Rlimits {
		o.Rlimits = append(o.Rlimits, Rlimit{l.Type, l.Hard, l.Soft})
	}
	for _, d := range a.CDIDevices {
		o.CDI = append(o.CDI, d.Name)
	}
	for _, d := range a.GetLinux().GetDevices() {
		o.Devices = append(o.Devices, DeviceFromAPI(d))
	}
	o.Res = ResFromAPI(a.GetLinux().GetResources())
	o.Cgroups = a.GetLinux().GetCgroupsPath()
	if v := a.GetLinux().GetOomScoreAdj(); v != nil {
		x := v.Value
		o.Oom = &x
	}
	return o
}

// Update mirrors Types.update.
type Update struct {
	ID     string `json:"id"`
	Res    *Res   `json:"res,omitempty"` // nil = no Linux/Resources
	Ignore bool   `json:"ignore,omitempty"`
}

func (u Update) Coq() string {
	r := "None"
	if u.Res != nil {
		r = "(Some " + u.Res.Coq() + ")"
	}
	return fmt.Sprintf("{| u_id := %s; u_res := %s; u_ignore := %s |}", coqfmt.Str(u.ID), r, coqfmt.Bool(u.Ignore))
}
func (u Update) ToAPI() *api.ContainerUpdate {
	o := &api.ContainerUpdate{ContainerId: u.ID, IgnoreFailure: u.Ignore}
	if u.Res != nil {
		r := u.Res.ToAPI()
		if r == nil {
			r = &api.LinuxResources{}
		}
		o.Linux = &api.LinuxContainerUpdate{Resources: r}
	}
	return o
}

// Response mirrors Types.response.
type Response struct {
	Adjust  *Adjust  `json:"adjust,omitempty"`
	Updates []Update `json:"updates,omitempty"`
}

func (r Response) Coq() string {
	a := "None"
	if r.Adjust != nil {
		a = "(Some " + r.Adjust.Coq() + ")"
	}
	us := make([]string, len(r.Updates))
	for i, u := range r.Updates {
		us[i] = u.Coq()
	}
	return fmt.Sprintf("{| rp_adjust := %s; rp_updates := %s |}", a, coqfmt.List(us))
}

// OutUpdate is one entry of the updates handed to the runtime (Nil = the nil placeholder).
type OutUpdate struct {
	Nil bool   `json:"nil,omitempty"`
	ID  string `json:"id,omitempty"`
	Res *Res   `json:"res,omitempty"`
}

func OutUpdatesFromAPI(us []*api.ContainerUpdate) []OutUpdate {
	var out []OutUpdate
	for _, u := range us {
		if u == nil {
			out = append(out, OutUpdate{Nil: true})
			continue
		}
		out = append(out, OutUpdate{ID: u.ContainerId, Res: ResFromAPI(u.GetLinux().GetResources())})
	}
	return out
}
func OutUpdatesCoq(us []OutUpdate) string {
	out := make([]string, len(us))
	for i, u := range us {
		if u.Nil {
			out[i] = "None"
		} else {
			out[i] = "(Some " + coqfmt.Pair(coqfmt.Str(u.ID), u.Res.Coq()) + ")"
		}
	}
	return coqfmt.List(out)
}

// Fatal aborts with a harness error.
func Fatal(format string, args ...interface{}) {
	fmt.Fprintf(os.Stderr, "HARNESS-ERROR: "+format+"\n", args...)
	os.Exit(3)
}

var _ = strings.Join
