package main

import (
	"encoding/hex"
	"fmt"
	"io"
	"net"
	"runtime"
	"sync"
	"sync/atomic"
	"time"

	"github.com/containerd/nri/pkg/net/multiplex"
)

// A script is a list of calls on the two ends of one trunk, executed one after the other
// (background calls are started and joined explicitly).  Every call on the implementation
// runs under a time bound and with a recover, so that "hangs" and "panics" are results.

type act struct {
	Op   string `json:"op"`
	Side int    `json:"side"`
	ID   uint32 `json:"id,omitempty"`
	Size int    `json:"size,omitempty"`
	Seq  int    `json:"seq,omitempty"`
	N    int    `json:"n,omitempty"`    // closers: how many; join: index of the background act
	Mode int    `json:"mode,omitempty"` // closers: which mixture of mux.Close / conn.Close
	Hex  string `json:"hex,omitempty"`  // raw: the bytes
}

type actRes struct {
	Kind  string   `json:"kind"` // ok data eof err timeout panic started early conn none
	Hex   string   `json:"hex,omitempty"`
	Items []actRes `json:"items,omitempty"` // drain: the successive Read results (consecutive errors collapsed)
	Err   string   `json:"err,omitempty"`   // error text, diagnostics only
	N     int      `json:"n,omitempty"`     // raw: bytes the transport accepted when the Write failed
}

type scriptScn struct {
	Stream    string      `json:"stream"`
	Note      string      `json:"note,omitempty"`
	Transport string      `json:"transport"`
	QLen      int         `json:"qlen"`
	Open      [2][]uint32 `json:"open"`
	Cut       [2]int      `json:"cut"`     // byte budget of the side's trunk writes, -1 = unlimited
	CutErr    [2]string   `json:"cuterr"`  // "", "timeout", "temporary": the kind of error the failing trunk.Write returns (see recConn)
	Blocked   [2]bool     `json:"blocked"` // the side's reader stays blocked until an "unblock" act
	Raw       [2]bool     `json:"raw"`     // the side is a bare transport end without a Mux
	RdFail    [2]int      `json:"rdfail"`  // k > 0: the side's trunk Read fails once with a time-out at offset k-1 of its incoming stream, then carries on
	Plain     [2]bool     `json:"plain"`   // the side's Mux is created WITHOUT WithBlockedRead: never blocked, Unblock is not called at set-up
	Acts      []act       `json:"acts"`
}

type scriptObs struct {
	Res  []actRes  `json:"res"`
	Sent [2]string `json:"sent"` // hex of the bytes each side's trunk really carried
	Fail string    `json:"fail,omitempty"`
	Hung bool      `json:"hung,omitempty"` // some call did not return within the bound
}

// curBound is the bound of the next call (nanoseconds): opBound, afterHangBound once a call of the
// current scenario has hung.  Scenarios run one after the other inside a child process.
var curBound atomic.Int64

func bound() time.Duration { return time.Duration(curBound.Load()) }
func hangSeen()            { curBound.Store(int64(afterHangBound)) }

// payload of scripted Write number seq of a side (arbitrary bytes, travels as hex)
func spayload(side, seq, size int) []byte {
	b := make([]byte, size)
	for p := range b {
		b[p] = byte(seq*31 + p*7 + side*101 + 1)
	}
	return b
}

const drainErrors = 64 // consecutive errors after which a closed connection counts as drained

func classify(err error) actRes {
	if err == io.EOF {
		return actRes{Kind: "eof"}
	}
	return actRes{Kind: "err", Err: err.Error()}
}

// bounded runs f with a recover; a call that does not return within opBound is "timeout".
func bounded(f func() actRes) actRes {
	ch := make(chan actRes, 1)
	go func() {
		defer func() {
			if p := recover(); p != nil {
				ch <- actRes{Kind: "panic", Err: fmt.Sprint(p)}
			}
		}()
		ch <- f()
	}()
	select {
	case r := <-ch:
		return r
	case <-time.After(bound()):
		hangSeen()
		return actRes{Kind: "timeout"}
	}
}

// background starts f; the returned function waits for its result (bounded).
func background(f func() actRes) (wait func() actRes, returned func() bool) {
	ch := make(chan actRes, 1)
	var mu sync.Mutex
	var got *actRes
	go func() {
		defer func() {
			if p := recover(); p != nil {
				ch <- actRes{Kind: "panic", Err: fmt.Sprint(p)}
			}
		}()
		ch <- f()
	}()
	poll := func(d time.Duration) bool {
		mu.Lock()
		defer mu.Unlock()
		if got != nil {
			return true
		}
		select {
		case r := <-ch:
			got = &r
			return true
		case <-time.After(d):
			return false
		}
	}
	return func() actRes {
			if poll(bound()) {
				return *got
			}
			hangSeen()
			return actRes{Kind: "timeout"}
		}, func() bool {
			return poll(30 * time.Millisecond)
		}
}

func execScript(s *scriptScn) *scriptObs {
	o := &scriptObs{Res: make([]actRes, len(s.Acts))}
	curBound.Store(int64(opBound))
	defer func() { o.Hung = bound() != opBound }()
	ca, cb, err := connPair(s.Transport)
	if err != nil {
		o.Fail = "transport: " + err.Error()
		return o
	}
	recs := [2]*recConn{newRecErr(ca, s.Cut[0], s.CutErr[0]), newRecErr(cb, s.Cut[1], s.CutErr[1])}
	for i := 0; i < 2; i++ {
		if s.RdFail[i] > 0 {
			recs[i].rdFailAt = s.RdFail[i] - 1
		}
	}
	defer func() {
		recs[0].Conn.Close()
		recs[1].Conn.Close()
	}()
	var muxes [2]multiplex.Mux
	conns := [2]map[uint32]net.Conn{{}, {}}
	var lst [2]net.Listener
	for side := 0; side < 2; side++ {
		if s.Raw[side] {
			continue
		}
		if s.Plain[side] {
			muxes[side] = multiplex.Multiplex(recs[side], multiplex.WithReadQueueLength(s.QLen))
		} else {
			muxes[side] = multiplex.Multiplex(recs[side], multiplex.WithReadQueueLength(s.QLen), multiplex.WithBlockedRead())
		}
		for _, id := range s.Open[side] {
			cn, err := muxes[side].Open(multiplex.ConnID(id))
			if err != nil {
				o.Fail = fmt.Sprintf("Open(%d): %v", id, err)
				return o
			}
			conns[side][id] = cn
		}
	}
	for side := 0; side < 2; side++ {
		if muxes[side] != nil && !s.Blocked[side] && !s.Plain[side] {
			muxes[side].Unblock()
		}
	}
	readOnce := func(cn net.Conn) actRes {
		buf := make([]byte, 1<<16)
		n, err := cn.Read(buf)
		if err != nil {
			return classify(err)
		}
		return actRes{Kind: "data", Hex: hex.EncodeToString(buf[:n])}
	}
	writeOnce := func(cn net.Conn, b []byte) actRes {
		n, err := cn.Write(b)
		if err != nil {
			return classify(err)
		}
		if n != len(b) {
			return actRes{Kind: "err", Err: fmt.Sprintf("short write %d of %d without error", n, len(b))}
		}
		return actRes{Kind: "ok"}
	}
	waits := map[int]func() actRes{}
	// troubled: an earlier call of the code under test hung or panicked (that call is the observation and is judged);
	// a later step whose precondition is missing because of it — a connection that was never handed out, a listener,
	// a background call — is skipped, it is not a fault of the script
	troubled := false
	lost := [2]map[uint32]bool{{}, {}}        // ids whose Open act hung, panicked or failed
	stale := [2]map[uint32][]net.Conn{{}, {}} // earlier connection objects of an id that was opened again
	for i, a := range s.Acts {
		a := a
		side := a.Side
		var r actRes
		cn := conns[side][a.ID]
		needConn := func() bool {
			if cn == nil && (lost[side][a.ID] || troubled) {
				// the Open that should have produced this connection hung or failed: that is the observation;
				// what depends on it cannot be executed
				r = actRes{Kind: "skipped"}
				return false
			}
			if cn == nil {
				r = actRes{Kind: "none", Err: "harness: connection not opened"}
				o.Fail = fmt.Sprintf("act %d (%s): id %d not opened on side %d", i, a.Op, a.ID, side)
				return false
			}
			return true
		}
		switch a.Op {
		case "write":
			if needConn() {
				b := spayload(side, a.Seq, a.Size)
				r = bounded(func() actRes { return writeOnce(cn, b) })
			}
		case "read":
			if needConn() {
				r = bounded(func() actRes { return readOnce(cn) })
			}
		case "drain":
			if needConn() {
				r = actRes{Kind: "ok"}
				errs, frames := 0, 0
				for errs < drainErrors {
					x := bounded(func() actRes { return readOnce(cn) })
					if x.Kind == "data" {
						errs = 0
						frames++
						if frames > s.QLen+16 {
							// a queue holds at most QLen frames: this is not a drain any more
							r.Items = append(r.Items, actRes{Kind: "panic", Err: "Read keeps returning frames on a closed connection"})
							break
						}
						r.Items = append(r.Items, x)
						continue
					}
					if errs == 0 || r.Items[len(r.Items)-1].Kind != x.Kind {
						r.Items = append(r.Items, x)
					}
					errs++
					if x.Kind == "timeout" || x.Kind == "panic" {
						break
					}
				}
			}
		case "bgread", "bgwrite", "bgaccept":
			var f func() actRes
			switch a.Op {
			case "bgread":
				if !needConn() {
					break
				}
				f = func() actRes { return readOnce(cn) }
			case "bgwrite":
				if !needConn() {
					break
				}
				b := spayload(side, a.Seq, a.Size)
				f = func() actRes { return writeOnce(cn, b) }
			case "bgaccept":
				l := lst[side]
				f = func() actRes { return acceptOnce(l) }
			}
			if f != nil {
				wait, returned := background(f)
				waits[i] = wait
				if returned() {
					r = actRes{Kind: "early"}
				} else {
					r = actRes{Kind: "started"}
				}
			}
		case "join":
			if w := waits[a.N]; w != nil {
				r = w()
			} else if a.N >= 0 && a.N < i && o.Res[a.N].Kind == "skipped" {
				r = actRes{Kind: "skipped"}
			} else {
				r = actRes{Kind: "none", Err: "harness: nothing to join"}
				o.Fail = fmt.Sprintf("act %d: join of %d which is not a background act", i, a.N)
			}
		case "close":
			m := muxes[side]
			r = bounded(func() actRes {
				if err := m.Close(); err != nil {
					return classify(err)
				}
				return actRes{Kind: "ok"}
			})
		case "cclose":
			if needConn() {
				r = bounded(func() actRes {
					if err := cn.Close(); err != nil {
						return classify(err)
					}
					return actRes{Kind: "ok"}
				})
			}
		case "closers":
			m := muxes[side]
			ids := s.Open[side]
			r = bounded(func() actRes {
				start := make(chan struct{})
				res := make(chan actRes, a.N)
				for k := 0; k < a.N; k++ {
					k := k
					go func() {
						defer func() {
							if p := recover(); p != nil {
								res <- actRes{Kind: "panic", Err: fmt.Sprint(p)}
							}
						}()
						<-start
						var err error
						if closerIsConn(k, a.Mode) && len(ids) > 0 {
							err = conns[side][ids[k%len(ids)]].Close()
						} else {
							err = m.Close()
						}
						if err != nil {
							res <- classify(err)
							return
						}
						res <- actRes{Kind: "ok"}
					}()
				}
				close(start)
				out := actRes{Kind: "ok"}
				for k := 0; k < a.N; k++ {
					if x := <-res; x.Kind != "ok" {
						out = x
					}
				}
				return out
			})
		case "open":
			// Open at any moment, also on a Mux that has closed
			m := muxes[side]
			got := make(chan net.Conn, 1)
			r = bounded(func() actRes {
				c0, err := m.Open(multiplex.ConnID(a.ID))
				if err != nil {
					return classify(err)
				}
				if c0 == nil {
					return actRes{Kind: "err", Err: "Open returned nil, nil"}
				}
				got <- c0
				return actRes{Kind: "ok"}
			})
			if r.Kind == "ok" {
				c0 := <-got
				if old := conns[side][a.ID]; old != nil && old != c0 {
					stale[side][a.ID] = append(stale[side][a.ID], old) // a new object: the old handle is stale
				}
				conns[side][a.ID] = c0
			} else if a.ID != 0 {
				lost[side][a.ID] = true
				if r.Kind == "timeout" || r.Kind == "panic" {
					delete(conns[side], a.ID)
				}
			}
		case "deadline":
			// Set[Read|Write]Deadline on a logical connection (Mode 0 both, 1 read, 2 write), a.N milliseconds from now
			// (negative: already expired).  For the Mux this is a no-op; the trunk all connections share must not notice
			if needConn() {
				t := time.Now().Add(time.Duration(a.N) * time.Millisecond)
				r = bounded(func() actRes {
					var err error
					switch a.Mode {
					case 1:
						err = cn.SetReadDeadline(t)
					case 2:
						err = cn.SetWriteDeadline(t)
					default:
						err = cn.SetDeadline(t)
					}
					if err != nil {
						return classify(err)
					}
					return actRes{Kind: "ok"}
				})
			}
		case "pause":
			time.Sleep(time.Duration(a.N) * time.Millisecond) // lets a deadline armed before expire
			r = actRes{Kind: "ok"}
		case "staleclose":
			// Close once more on the most recent stale handle of the id
			hs := stale[side][a.ID]
			switch {
			case len(hs) > 0:
				h := hs[len(hs)-1]
				r = bounded(func() actRes {
					if err := h.Close(); err != nil {
						return classify(err)
					}
					return actRes{Kind: "ok"}
				})
			case lost[side][a.ID]:
				r = actRes{Kind: "skipped"}
			default:
				r = actRes{Kind: "none", Err: "harness: no stale handle"}
				o.Fail = fmt.Sprintf("act %d: no stale handle of id %d on side %d (Open returned the old object?)", i, a.ID, side)
			}
		case "openrace":
			// a.N goroutines open the ids a.ID, a.ID+1, … while another one closes the Mux
			m := muxes[side]
			raced := make(chan map[uint32]net.Conn, 1)
			r = bounded(func() actRes {
				start := make(chan struct{})
				type opened struct {
					id  uint32
					cn  net.Conn
					res actRes
				}
				res := make(chan opened, a.N+1)
				for k := 0; k < a.N; k++ {
					id := a.ID + uint32(k)
					go func() {
						defer func() {
							if p := recover(); p != nil {
								res <- opened{id, nil, actRes{Kind: "panic", Err: fmt.Sprint(p)}}
							}
						}()
						<-start
						c0, err := m.Open(multiplex.ConnID(id))
						if err != nil {
							res <- opened{id, nil, classify(err)}
							return
						}
						res <- opened{id, c0, actRes{Kind: "ok"}}
					}()
				}
				go func() {
					defer func() {
						if p := recover(); p != nil {
							res <- opened{0, nil, actRes{Kind: "panic", Err: fmt.Sprint(p)}}
						}
					}()
					<-start
					if a.Mode == 1 {
						runtime.Gosched()
					}
					m.Close()
					res <- opened{0, nil, actRes{Kind: "ok"}}
				}()
				close(start)
				out := actRes{Kind: "ok"}
				got := map[uint32]net.Conn{}
				for k := 0; k < a.N+1; k++ {
					x := <-res
					if x.res.Kind != "ok" {
						out = x.res
					}
					if x.cn != nil {
						got[x.id] = x.cn
					}
				}
				raced <- got
				return out
			})
			select {
			case got := <-raced:
				for id, c0 := range got {
					conns[side][id] = c0
				}
			default:
			}
			for k := 0; k < a.N; k++ {
				if id := a.ID + uint32(k); conns[side][id] == nil {
					lost[side][id] = true // its Open hung, panicked or failed: what depends on it is skipped
				}
			}
		case "trunkclose":
			recs[side].Conn.Close()
			r = actRes{Kind: "ok"}
		case "await":
			// the side's Mux has to close its trunk on its own (reader failure, queue overflow,
			// failing Write): wait for it, so that what follows does not race with its reader
			select {
			case <-recs[side].closedC:
				r = actRes{Kind: "ok"}
			case <-time.After(bound()):
				hangSeen()
				r = actRes{Kind: "timeout", Err: "the Mux did not close its trunk"}
			}
		case "unblock":
			// at any time, on a blocked Mux, on one that was never blocked, repeatedly
			m := muxes[side]
			r = bounded(func() actRes { m.Unblock(); return actRes{Kind: "ok"} })
		case "raw":
			b, _ := hex.DecodeString(a.Hex)
			rc := recs[side]
			r = bounded(func() actRes {
				// a bare transport end: a failing Write may have delivered an initial part
				n, err := rc.Write(b)
				if err != nil {
					x := classify(err)
					x.N = n
					return x
				}
				if n != len(b) {
					return actRes{Kind: "err", Err: fmt.Sprintf("short write %d of %d without error", n, len(b)), N: n}
				}
				return actRes{Kind: "ok"}
			})
		case "listen":
			// Open first: Listen wraps the very connection Open returns for the id
			if c0, err := muxes[side].Open(multiplex.ConnID(a.ID)); err == nil {
				conns[side][a.ID] = c0
			}
			l, err := muxes[side].Listen(multiplex.ConnID(a.ID))
			if err != nil {
				r = classify(err)
				o.Fail = fmt.Sprintf("Listen(%d): %v", a.ID, err)
			} else {
				lst[side] = l
				r = actRes{Kind: "ok"}
			}
		case "accept":
			l := lst[side]
			r = bounded(func() actRes { return acceptOnce(l) })
		case "lclose":
			l := lst[side]
			r = bounded(func() actRes {
				if err := l.Close(); err != nil {
					return classify(err)
				}
				return actRes{Kind: "ok"}
			})
		case "lconnread":
			c2 := conns[side][a.ID]
			if c2 == nil {
				r = actRes{Kind: "none", Err: "harness: no connection"}
				o.Fail = "lconnread without listen"
			} else if a.N == 1 {
				// the listener was never closed: the connection must still be usable (a Read blocks)
				_, returned := background(func() actRes { return readOnce(c2) })
				if returned() {
					r = actRes{Kind: "early"}
				} else {
					r = actRes{Kind: "started"}
				}
			} else {
				r = bounded(func() actRes { return readOnce(c2) })
			}
		default:
			r = actRes{Kind: "none", Err: "harness: unknown op " + a.Op}
			o.Fail = "unknown op " + a.Op
		}
		if r.Kind == "timeout" || r.Kind == "panic" {
			troubled = true
		}
		if r.Kind == "none" && troubled {
			// the precondition of this step is missing because an earlier call never returned: skipped, and the
			// scenario is not a faulty script
			r = actRes{Kind: "skipped"}
			o.Fail = ""
		}
		o.Res[i] = r
	}
	for side := 0; side < 2; side++ {
		o.Sent[side] = hex.EncodeToString(recs[side].Log())
	}
	// release whatever is still blocked
	for side := 0; side < 2; side++ {
		if muxes[side] != nil {
			m := muxes[side]
			bounded(func() actRes { m.Unblock(); m.Close(); return actRes{} })
		}
	}
	return o
}

// closerIsConn: does closer number k call conn.Close (true) or mux.Close (false)?
// mode 0: all mux.Close; mode 1: alternating, starting with mux.Close; mode 2: every third is mux.Close
func closerIsConn(k, mode int) bool {
	switch mode {
	case 1:
		return k%2 == 1
	case 2:
		return k%3 != 0
	}
	return false
}

func acceptOnce(l net.Listener) actRes {
	cn, err := l.Accept()
	if err != nil {
		return classify(err)
	}
	if cn == nil {
		return actRes{Kind: "err", Err: "Accept returned nil, nil"}
	}
	return actRes{Kind: "conn"}
}
