(* Reference for the update-request part of C04: the resources shown to plugin i of an
   UpdateContainer request are the runtime's requested resources overlaid with those
   own-container updates of the plugins before i that were NOT dropped.  "Dropped" is what the
   abstract ledger of Spec/AbsLedger.v flags (an ignore-failure update whose claims are
   refused); a dropped update contributes nothing, whatever fields it names.  Reuses
   flagged_updates / entry_for / overlay of Spec/Updates.v.  Definitions only. *)
From Coq Require Import String Ascii List Bool ZArith.
From NRI Require Import Base.Strs Base.Assoc Model.Types Spec.Apply Spec.AbsLedger Spec.Updates.
Import ListNotations.
Open Scope string_scope.
Open Scope list_scope.

(* rps = the responses of the plugins asked before the view is shown; when that prefix ends in a
   hard conflict no later view exists and the value is immaterial (the request's resources) *)
Definition own_overlay_nd (id : string) (req : resources) (rps : list response) : resources :=
  match abs_run (all_groups None rps) [] [] with
  | Some (_, flags) => entry_for req id (flagged_updates None rps flags)
  | None => req
  end.
